(** Derivation paths of [ConcordiumHdWallet::get_*] (rust-src/key_derivation/src/lib.rs)
    and SLIP-10 child derivation (rust-src/ed25519_hd_key_derivation/src/lib.rs) with
    HMAC-SHA512 abstract.  Definitions only, executable.  Indices are [u32] as [N]. *)
From Coq Require Import NArith List.
Import ListNotations.
Local Open Scope N_scope.

Definition HARDENED_OFFSET : N := 2147483648.    (* 0x80000000 *)

(** [harden(index) = index | HARDENED_OFFSET] *)
Definition harden (index : N) : N := N.lor index HARDENED_OFFSET.
(** [checked_harden]: [Err(InvalidPath)] if the top bit is already set *)
Definition checked_harden (index : N) : option N :=
  if N.land index HARDENED_OFFSET =? 0 then Some (N.lor index HARDENED_OFFSET) else None.

Inductive net := Mainnet | Testnet.
Definition net_code (n : net) : N := match n with Mainnet => 919 | Testnet => 1 end.

(** [for &index in path { derivation_path.push(checked_harden(index)?) }] *)
Fixpoint harden_all (path : list N) : option (list N) :=
  match path with
  | [] => Some []
  | i :: t => match checked_harden i with
              | None => None
              | Some h => match harden_all t with None => None | Some t' => Some (h :: t') end
              end
  end.
Definition make_path (n : net) (path : list N) : option (list N) :=
  match harden_all path with
  | Some p => Some (harden 44 :: harden (net_code n) :: p)
  | None => None
  end.
Definition make_verifiable_credential_path (n : net) (path : list N) : option (list N) :=
  match harden_all path with
  | Some p => Some (harden 1958950021 :: harden (net_code n) :: p)
  | None => None
  end.

(** [split_u64_into_chunks]: the four big-endian 16-bit chunks of a u64 *)
Definition split_u64_into_chunks (x : N) : list N :=
  [x / 2 ^ 48 mod 2 ^ 16; x / 2 ^ 32 mod 2 ^ 16; x / 2 ^ 16 mod 2 ^ 16; x mod 2 ^ 16].

(** The kinds of key material and their arguments (the public-key getters derive the
    same secret as the corresponding signing-key getter). *)
Inductive key_kind :=
| AccountSigningKey (ip id cred : N)
| IdCredSec (ip id : N)
| PrfKey (ip id : N)
| BlindingRandomness (ip id : N)
| AttributeCommitmentRandomness (ip id cred tag : N)
| VerifiableCredentialSigningKey (issuer_index issuer_subindex vc_index : N)
| VerifiableCredentialBackupEncryptionKey.

Definition path_of (n : net) (k : key_kind) : option (list N) :=
  match k with
  | AccountSigningKey ip id cred => make_path n [ip; id; 0; cred]
  | IdCredSec ip id => make_path n [ip; id; 2]
  | PrfKey ip id => make_path n [ip; id; 3]
  | BlindingRandomness ip id => make_path n [ip; id; 4]
  | AttributeCommitmentRandomness ip id cred tag => make_path n [ip; id; 5; cred; tag]
  | VerifiableCredentialSigningKey ix sx vc =>
      make_verifiable_credential_path n
        ([0] ++ split_u64_into_chunks ix ++ split_u64_into_chunks sx ++ [vc; 0])
  | VerifiableCredentialBackupEncryptionKey => make_verifiable_credential_path n [1]
  end.

(** Well-formed arguments: what the Rust types allow ([u32] indices, [u8] attribute tag,
    [u64] contract index / subindex). *)
Definition u32 (x : N) := x < 2 ^ 32.
Definition wf_kind (k : key_kind) : Prop :=
  match k with
  | AccountSigningKey ip id cred => u32 ip /\ u32 id /\ u32 cred
  | IdCredSec ip id | PrfKey ip id | BlindingRandomness ip id => u32 ip /\ u32 id
  | AttributeCommitmentRandomness ip id cred tag => u32 ip /\ u32 id /\ u32 cred /\ tag < 256
  | VerifiableCredentialSigningKey ix sx vc => ix < 2 ^ 64 /\ sx < 2 ^ 64 /\ u32 vc
  | VerifiableCredentialBackupEncryptionKey => True
  end.

(** SLIP-10 with the PRF abstract: [hmac key data] returns (I_L, I_R). *)
Section Slip10.
  Variable bytes : Type.
  Variable hmac : bytes -> bytes -> bytes * bytes.
  Variable ed25519_seed : bytes.                       (* b"ed25519 seed" *)
  Variable ckd_data : bytes -> N -> bytes.             (* 0x00 || private_key || index.to_be_bytes() *)

  Definition master (seed : bytes) : bytes * bytes := hmac ed25519_seed seed.
  (** [ckd_priv]: rejects non-hardened indices *)
  Definition ckd_priv (parent : bytes * bytes) (index : N) : option (bytes * bytes) :=
    if N.land index HARDENED_OFFSET =? 0 then None
    else Some (hmac (snd parent) (ckd_data (fst parent) index)).
  Fixpoint derive_from (cur : bytes * bytes) (path : list N) : option (bytes * bytes) :=
    match path with
    | [] => Some cur
    | i :: t => match ckd_priv cur i with None => None | Some k => derive_from k t end
    end.
  Definition derive_from_parsed_path (path : list N) (seed : bytes) : option (bytes * bytes) :=
    derive_from (master seed) path.
End Slip10.

(** [CredentialContext] (wallet + identity provider index + identity index + credential index
    [u8]) and the paths its wrappers derive along:
    [HasAttributeRandomness::get_attribute_commitment_randomness(tag)] calls
    [wallet.get_attribute_commitment_randomness(identity_provider_index, identity_index,
    credential_index, tag)], [get_cred_id_exponent] calls [wallet.get_prf_key(identity_provider_index,
    identity_index)]. *)
Record credential_context := { ctx_net : net; ctx_ip : N; ctx_id : N; ctx_cred : N }.
Definition ctx_attribute_randomness_path (c : credential_context) (tag : N) : option (list N) :=
  make_path (ctx_net c) [ctx_ip c; ctx_id c; 5; ctx_cred c; tag].
Definition ctx_cred_id_prf_path (c : credential_context) : option (list N) :=
  make_path (ctx_net c) [ctx_ip c; ctx_id c; 3].
