(** C19 - [has_duplicates] of aggregate_sig/mod.rs AS CODED: collect the SHA-512 digests, sort them
    ([sort_unstable]), scan adjacent positions [for i in 1..len { if v[i-1] == v[i] { return true } }].

    The digests are compared with the derived total order of byte arrays, for which two keys that
    compare equal are identical; hence the result of ANY correct sorting algorithm is the same
    list, and the theorems below are stated for every function [srt] that returns a sorted
    permutation of its input (pattern-defeating quicksort of the standard library is assumed to be
    such a function; it is not modelled).  [isort] (insertion sort) is the executable instance. *)
From Coq Require Import List Bool Arith Lia Permutation Sorted.
Import ListNotations.

Section DupSort.
  Variable K : Type.
  Variable leb : K -> K -> bool.
  Variable eqb : K -> K -> bool.

  (** the scan loop; lengths 0 and 1: the range [1..len] is empty *)
  Fixpoint scan_adj (l : list K) : bool :=
    match l with
    | a :: (b :: _) as t => if eqb a b then true else scan_adj t
    | _ => false
    end.

  Fixpoint insert (x : K) (l : list K) : list K :=
    match l with
    | [] => [x]
    | y :: l' => if leb x y then x :: l else y :: insert x l'
    end.
  Fixpoint isort (l : list K) : list K :=
    match l with
    | [] => []
    | x :: l' => insert x (isort l')
    end.

  Definition has_duplicates_with (srt : list K -> list K) (l : list K) : bool := scan_adj (srt l).
  Definition has_duplicates_coded (l : list K) : bool := has_duplicates_with isort l.

  (** the quadratic reference (identical to [Bls.has_dup]) *)
  Fixpoint has_dup_ref (ds : list K) : bool :=
    match ds with
    | [] => false
    | d :: ds' => existsb (eqb d) ds' || has_dup_ref ds'
    end.

  (** *** proofs *)
  Hypothesis eqb_spec : forall a b, eqb a b = true <-> a = b.
  Hypothesis leb_total : forall a b, leb a b = true \/ leb b a = true.
  Hypothesis leb_trans : forall a b c, leb a b = true -> leb b c = true -> leb a c = true.
  Hypothesis leb_antisym : forall a b, leb a b = true -> leb b a = true -> a = b.

  Definition le (a b : K) : Prop := leb a b = true.
  Definition sorts (srt : list K -> list K) : Prop :=
    forall l, Permutation l (srt l) /\ StronglySorted le (srt l).

  Lemma eqb_false a b : eqb a b = false <-> a <> b.
  Proof.
    split.
    - intros H E. apply eqb_spec in E. congruence.
    - intros H. destruct (eqb a b) eqn:E; [|reflexivity]. apply eqb_spec in E. contradiction.
  Qed.

  Lemma scan_adj_sorted s : StronglySorted le s -> (scan_adj s = false <-> NoDup s).
  Proof.
    induction s as [|a t IH]; intros S.
    - cbn. split; [constructor | reflexivity].
    - inversion S as [|? ? St Ha]; subst. specialize (IH St).
      destruct t as [|b t'].
      + cbn. split; [intros _; constructor; [intros []|constructor] | reflexivity].
      + cbn [scan_adj]. destruct (eqb a b) eqn:E.
        * apply eqb_spec in E. subst b. split; [discriminate|].
          intros N. inversion N as [|? ? Hn _]; subst. exfalso. apply Hn. now left.
        * apply eqb_false in E. rewrite IH. split.
          -- intros N. constructor; [|exact N]. intros [Hb|Hi]; [congruence|].
             inversion St as [|? ? _ Hb]; subst. inversion Ha as [|? ? Hab _]; subst.
             rewrite Forall_forall in Hb. specialize (Hb _ Hi). apply E. now apply leb_antisym.
          -- intros N. now inversion N.
  Qed.

  Lemma existsb_eqb_in d l : existsb (eqb d) l = true <-> In d l.
  Proof.
    rewrite existsb_exists. split.
    - intros (x & Hx & E). apply eqb_spec in E. now subst.
    - intros H. exists d. split; [exact H | now apply eqb_spec].
  Qed.

  Lemma has_dup_ref_false ds : has_dup_ref ds = false <-> NoDup ds.
  Proof.
    induction ds as [|d ds IH]; cbn [has_dup_ref].
    - split; [constructor | reflexivity].
    - rewrite orb_false_iff, IH. split.
      + intros [H N]. constructor; [|exact N]. intros Hi. apply existsb_eqb_in in Hi. congruence.
      + intros N. inversion N as [|? ? Hn N']; subst. split; [|exact N'].
        destruct (existsb (eqb d) ds) eqn:E; [|reflexivity]. apply existsb_eqb_in in E. contradiction.
  Qed.

  (** sort-and-scan = the quadratic reference, for every correct sort *)
  Lemma has_duplicates_with_ref srt l : sorts srt -> has_duplicates_with srt l = has_dup_ref l.
  Proof.
    intros S. destruct (S l) as [P St]. unfold has_duplicates_with.
    destruct (scan_adj (srt l)) eqn:E1, (has_dup_ref l) eqn:E2; try reflexivity; exfalso.
    - apply has_dup_ref_false in E2. assert (N : NoDup (srt l)) by (eapply Permutation_NoDup; eassumption).
      apply (scan_adj_sorted _ St) in N. congruence.
    - apply (scan_adj_sorted _ St) in E1. assert (N : NoDup l) by (eapply Permutation_NoDup; [symmetry|]; eassumption).
      apply has_dup_ref_false in N. congruence.
  Qed.

  (** the reference in terms of positions *)
  Lemma has_dup_ref_positions l :
    has_dup_ref l = true <-> exists i j x, i < j /\ nth_error l i = Some x /\ nth_error l j = Some x.
  Proof.
    induction l as [|d ds IH]; cbn [has_dup_ref].
    - split; [discriminate|]. intros (i & j & x & _ & H & _). destruct i; discriminate.
    - rewrite orb_true_iff, IH, existsb_eqb_in. split.
      + intros [Hi | (i & j & x & Hij & Hi & Hj)].
        * apply In_nth_error in Hi. destruct Hi as [n Hn]. exists 0, (S n), d. repeat split; [lia | exact Hn].
        * exists (S i), (S j), x. repeat split; [lia | exact Hi | exact Hj].
      + intros (i & j & x & Hij & Hi & Hj). destruct j as [|j]; [lia|]. cbn [nth_error] in Hj.
        destruct i as [|i].
        * cbn in Hi. inversion Hi; subst. left. eapply nth_error_In; eassumption.
        * right. exists i, j, x. repeat split; [lia | exact Hi | exact Hj].
  Qed.

  Lemma has_duplicates_with_positions srt l : sorts srt ->
    (has_duplicates_with srt l = true <-> exists i j x, i < j /\ nth_error l i = Some x /\ nth_error l j = Some x).
  Proof. intros S. rewrite (has_duplicates_with_ref srt l S). apply has_dup_ref_positions. Qed.

  (** insertion sort is a correct sort *)
  Lemma insert_perm x l : Permutation (x :: l) (insert x l).
  Proof.
    induction l as [|y l IH]; cbn [insert]; [reflexivity|].
    destruct (leb x y); [reflexivity|]. rewrite perm_swap. now constructor.
  Qed.

  Lemma insert_sorted x l : StronglySorted le l -> StronglySorted le (insert x l).
  Proof.
    induction l as [|y l IH]; intros S; cbn [insert].
    - constructor; constructor.
    - inversion S as [|? ? Sl Hy]; subst. destruct (leb x y) eqn:E.
      + constructor; [exact S|]. constructor; [exact E|].
        rewrite Forall_forall in *. intros z Hz. eapply leb_trans; [exact E | now apply Hy].
      + constructor; [now apply IH|]. assert (Hyx : le y x) by (destruct (leb_total x y); [congruence | assumption]).
        rewrite Forall_forall in *. intros z Hz.
        apply (Permutation_in _ (Permutation_sym (insert_perm x l))) in Hz. destruct Hz as [<-|Hz]; [exact Hyx | now apply Hy].
  Qed.

  Lemma isort_sorts : sorts isort.
  Proof.
    intros l. induction l as [|x l [P S]]; cbn [isort].
    - split; [reflexivity | constructor].
    - split; [|now apply insert_sorted]. rewrite <- insert_perm. now constructor.
  Qed.

  Lemma has_duplicates_coded_ref l : has_duplicates_coded l = has_dup_ref l.
  Proof. apply has_duplicates_with_ref, isort_sorts. Qed.

  Lemma has_duplicates_coded_positions l :
    has_duplicates_coded l = true <-> exists i j x, i < j /\ nth_error l i = Some x /\ nth_error l j = Some x.
  Proof. apply has_duplicates_with_positions, isort_sorts. Qed.

  (** any two correct sorts give the same scan result (so the algorithm behind [sort_unstable] is irrelevant) *)
  Lemma has_duplicates_sort_irrelevant srt srt' l : sorts srt -> sorts srt' ->
    has_duplicates_with srt l = has_duplicates_with srt' l.
  Proof. intros S S'. now rewrite !has_duplicates_with_ref. Qed.
End DupSort.
