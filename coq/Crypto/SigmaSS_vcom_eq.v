(** C07 round 4: special soundness and response injectivity of vcom_eq.rs (after the repair
    82fae784a), with the exact relation [vcom_rel] of the completeness theorem.

    The response map [tis] is keyed by the PROVER.  The verifier's conditions
      [|tis| = |comms|]  and  [|points| = |comms|]
    (points = one per index i < n present in both maps) force, by counting, that the key sets of
    [comms] and [tis] coincide, lie in 0..n-1 and have no duplicates ([walk_covers]); hence two
    accepting transcripts answer the same individual commitments and the rows
      [c*C + (msm sis gis + t*h)]  and  [c*C_i + (s_i*g_bar + t_i*h_bar)]
    are instances of the one-row homomorphism theorem [ss_row_l]. *)
From Coq Require Import ZArith NArith List Field Lia String Bool.
From CB Require Import Crypto.Alg Crypto.Transcript Crypto.TranscriptProofs Crypto.SigmaGeneric Crypto.SigmaCodec
  Crypto.Sigma_vcom_eq.
Import ListNotations.

(** * counting lemmas about the index loop *)
Section Walk.
  Context {A X Y : Type}.
  Notation len := (@List.length _).
  Definition hitkeys (m1 : amap X) (m2 : amap Y) (i : N) (vals : list A) : list N :=
    walk (fun k (_ : A) (_ : X) (_ : Y) => k) m1 m2 i vals.

  Lemma hitkeys_spec (m1 : amap X) (m2 : amap Y) : forall (vals : list A) i k,
    In k (hitkeys m1 m2 i vals) ->
    (i <= k < i + N.of_nat (len vals))%N /\ (exists a, aget m1 k = Some a) /\ (exists b, aget m2 k = Some b).
  Proof.
    unfold hitkeys. induction vals as [|v vals IH]; intros i k Hin; [destruct Hin|]. cbn [walk] in Hin.
    assert (R : In k (walk (fun k (_ : A) (_ : X) (_ : Y) => k) m1 m2 (i + 1)%N vals) ->
                (i <= k < i + N.of_nat (len (v :: vals)))%N /\ (exists a, aget m1 k = Some a) /\ (exists b, aget m2 k = Some b)).
    { intro Hin'. destruct (IH _ _ Hin') as (Hr & H1 & H2). cbn [len]. repeat split; auto; lia. }
    destruct (aget m1 i) as [a|] eqn:E1; [|auto]. destruct (aget m2 i) as [b|] eqn:E2; [|auto].
    destruct Hin as [<-|Hin]; [|auto]. cbn [len]. repeat split; eauto; lia.
  Qed.
  Lemma hitkeys_nodup (m1 : amap X) (m2 : amap Y) : forall (vals : list A) i, NoDup (hitkeys m1 m2 i vals).
  Proof.
    induction vals as [|v vals IH]; intro i; [constructor|]. unfold hitkeys. cbn [walk].
    destruct (aget m1 i), (aget m2 i); try apply IH. constructor; [|apply IH].
    intro Hin. apply hitkeys_spec in Hin. lia.
  Qed.
  Lemma aget_in_keys {V} (m : amap V) k a : aget m k = Some a -> In k (map fst m) /\ In (k, a) m.
  Proof.
    unfold aget. destruct (find (fun p => N.eqb (fst p) k) m) as [[k' a']|] eqn:E; [|discriminate].
    intro Q. injection Q as <-. apply find_some in E. destruct E as [Hin Hk]. cbn in Hk. apply N.eqb_eq in Hk. subst k'.
    split; [change k with (fst (k, a')); now apply in_map|exact Hin].
  Qed.
  Lemma in_keys_aget {V} (m : amap V) k : In k (map fst m) -> exists a, aget m k = Some a.
  Proof.
    unfold aget. induction m as [|[k' a'] m IH]; intro Hin; [destruct Hin|]. cbn [find fst].
    destruct (N.eqb k' k) eqn:E; [eauto|]. destruct Hin as [Hk|Hin]; [cbn in Hk; subst; rewrite N.eqb_refl in E; discriminate|auto].
  Qed.
  Lemma walk_len_hitkeys {Z} (f : N -> A -> X -> Y -> Z) (m1 : amap X) (m2 : amap Y) (vals : list A) i :
    len (walk f m1 m2 i vals) = len (hitkeys m1 m2 i vals).
  Proof. apply walk_length_eq; auto. Qed.

  (** if the loop produces as many items as [m1] has entries, and [m2] has that many entries too,
      then the keys of both maps are exactly the hit indices: all below [i + n], no duplicates *)
  Lemma walk_covers {Z} (f : N -> A -> X -> Y -> Z) (m1 : amap X) (m2 : amap Y) (vals : list A) i :
    len (walk f m1 m2 i vals) = len m1 -> len m2 = len m1 ->
    (forall k, In k (map fst m1) <-> In k (hitkeys m1 m2 i vals)) /\
    (forall k, In k (map fst m2) <-> In k (hitkeys m1 m2 i vals)) /\
    NoDup (map fst m1) /\ NoDup (map fst m2).
  Proof.
    intros L1 L2. rewrite walk_len_hitkeys in L1.
    assert (I1 : incl (hitkeys m1 m2 i vals) (map fst m1)).
    { intros k Hk. apply hitkeys_spec in Hk. destruct Hk as (_ & [a Ha] & _). now apply aget_in_keys in Ha. }
    assert (I2 : incl (hitkeys m1 m2 i vals) (map fst m2)).
    { intros k Hk. apply hitkeys_spec in Hk. destruct Hk as (_ & _ & [b Hb]). now apply aget_in_keys in Hb. }
    assert (N0 := hitkeys_nodup m1 m2 vals i).
    assert (Le1 : (len (map fst m1) <= len (hitkeys m1 m2 i vals))%nat) by (rewrite map_length; lia).
    assert (Le2 : (len (map fst m2) <= len (hitkeys m1 m2 i vals))%nat) by (rewrite map_length; lia).
    split; [intro k; split; [apply (NoDup_length_incl N0 Le1 I1)|apply I1]|].
    split; [intro k; split; [apply (NoDup_length_incl N0 Le2 I2)|apply I2]|].
    split; [apply (NoDup_incl_NoDup N0 Le1 I1)|apply (NoDup_incl_NoDup N0 Le2 I2)].
  Qed.
End Walk.

Lemma aget_map_keys {V W} (f : N -> W) (m : amap V) k :
  aget (map (fun p => (fst p, f (fst p))) m) k = match aget m k with Some _ => Some (f k) | None => None end.
Proof.
  unfold aget. induction m as [|[k' a] m IH]; [reflexivity|]. cbn [map find fst snd].
  destruct (N.eqb k' k) eqn:E; [apply N.eqb_eq in E; subst; reflexivity|exact IH].
Qed.

Section VcomSS.
  Context {K : FieldOps} {M : ModOps K} (Cd : CodecOps M).
  Context {KL : FieldLaws K} {ML : ModLaws M}.
  Add Field Kf_vc_ss : (@F_th K KL).
  Local Open Scope G_scope.
  Notation len := (@List.length _).

  Definition exd (c c' a b : K) : K := Fmul K (Finv K (Fsub K c' c)) (Fsub K a b).
  Definition getd (m : amap K) (k : N) : K := match aget m k with Some v => v | None => F0 K end.
  (** extractor: (z - z')/(c' - c) componentwise; the extracted randomness map is keyed like [comms] *)
  Definition vcom_extractor (s : vcom_stmt M) (c c' : K) (z z' : vc_wit) : vc_wit :=
    let '(sis, t, tis) := z in let '(sis', t', tis') := z' in
    (map2 (exd c c') sis sis', exd c c' t t',
     map (fun p => (fst p, exd c c' (getd tis (fst p)) (getd tis' (fst p)))) (vc_comms s)).

  Lemma map2_exd c c' : forall zs zs' : list K,
    map2 (exd c c') zs zs' = vscale (Finv K (Fsub K c' c)) (vsub zs zs').
  Proof. unfold vscale, vsub, exd. induction zs as [|z zs IH]; intros [|z' zs']; cbn [map map2]; try reflexivity. now rewrite IH. Qed.

  (** the individual rows *)
  Lemma vcom_rows (s : vcom_stmt M) (c c' : K) (tis tis' ris : amap K) : c <> c' ->
    (forall k C, aget (vc_comms s) k = Some C ->
       exists t t', aget tis k = Some t /\ aget tis' k = Some t' /\ aget ris k = Some (exd c c' t t')) ->
    forall (sis sis' : list K) i, len sis = len sis' ->
    walk (fun _ si Ci ti => si *: vc_gbar s + (ti *: vc_hbar s + c *: Ci)) (vc_comms s) tis i sis =
    walk (fun _ si Ci ti => si *: vc_gbar s + (ti *: vc_hbar s + c' *: Ci)) (vc_comms s) tis' i sis' ->
    Forall (fun p : M * M => fst p = snd p)
      (walk (fun _ x C r => (C, x *: vc_gbar s + r *: vc_hbar s)) (vc_comms s) ris i (map2 (exd c c') sis sis')).
  Proof.
    intros Hc Hk. induction sis as [|si sis IH]; intros [|si' sis'] i L E; try discriminate; [constructor|].
    cbn [map2 walk] in *. destruct (aget (vc_comms s) i) as [C|] eqn:EC.
    - destruct (Hk i C EC) as (t & t' & Ht & Ht' & Hr). rewrite Ht, Ht' in E. rewrite Hr. injection E as E0 E.
      constructor; [|apply IH; [cbn in L; lia|exact E]]. cbn [fst snd].
      assert (E0' : c *: C + (si *: vc_gbar s + t *: vc_hbar s) = c' *: C + (si' *: vc_gbar s + t' *: vc_hbar s)).
      { transitivity (si *: vc_gbar s + (t *: vc_hbar s + c *: C)); [mod_norm|]. rewrite E0. mod_norm. }
      apply (ss_row_l c c' C _ _ Hc) in E0'. rewrite E0' at 1. unfold exd. mod_norm.
    - apply IH; [cbn in L; lia|exact E].
  Qed.

  Theorem vcom_special_sound_ : special_sound (vcom_proto Cd) (vcom_rel (M:=M)) vcom_extractor.
  Proof.
    intros s cm c c' [[sis t] tis] [[sis' t'] tis'] Hc E E'.
    destruct cm as [a pts].
    destruct (vcom_extract_checks_every_commitment_ s c sis t tis a pts E) as (Lp & Ls & Lt).
    destruct (vcom_extract_checks_every_commitment_ s c' sis' t' tis' a pts E') as (Lp' & Ls' & Lt').
    cbn [p_extract vcom_proto] in E, E'. unfold vcom_extract in E, E'.
    destruct (vcom_guard s sis tis) eqn:G; [|discriminate]. destruct (vcom_guard s sis' tis') eqn:G'; [|discriminate].
    destruct (Sigma_vcom_eq.neqb (len (vcom_points s c sis tis)) (len (vc_comms s))); [discriminate|].
    destruct (Sigma_vcom_eq.neqb (len (vcom_points s c' sis' tis')) (len (vc_comms s))); [discriminate|].
    injection E as Ea Ep. injection E' as Ea' Ep'.
    assert (Fit : (1 <= len sis <= 256)%nat).
    { unfold vcom_guard in G. destruct sis as [|s0 sis]; [discriminate|]. apply negb_true_iff in G.
      apply orb_false_iff in G. destruct G as [_ G]. apply negb_false_iff in G. unfold fits_u8 in G. apply Nat.leb_le in G.
      cbn [len] in *. lia. }
    (* counting: both response maps answer exactly the individual commitments *)
    rewrite <- Ep in Lp. rewrite <- Ep' in Lp'. unfold vcom_points in Lp, Lp'.
    destruct (walk_covers _ (vc_comms s) tis sis 0%N Lp Lt) as (K1 & K2 & N1 & N2).
    destruct (walk_covers _ (vc_comms s) tis' sis' 0%N Lp' Lt') as (K1' & K2' & _ & N2').
    assert (Cov : forall k C, aget (vc_comms s) k = Some C ->
              (k < N.of_nat (len sis))%N /\ exists t0 t0', aget tis k = Some t0 /\ aget tis' k = Some t0').
    { intros k C HC. apply aget_in_keys in HC. destruct HC as [HC _].
      pose proof (proj1 (K1 k) HC) as H1. pose proof (proj1 (K1' k) HC) as H1'.
      apply hitkeys_spec in H1. apply hitkeys_spec in H1'.
      destruct H1 as (Hr & _ & [t0 Ht0]). destruct H1' as (_ & _ & [t0' Ht0']). split; [lia|eauto]. }
    set (ris := map (fun p => (fst p, exd c c' (getd tis (fst p)) (getd tis' (fst p)))) (vc_comms s)).
    assert (Hris : forall k C, aget (vc_comms s) k = Some C ->
              exists t0 t0', aget tis k = Some t0 /\ aget tis' k = Some t0' /\ aget ris k = Some (exd c c' t0 t0')).
    { intros k C HC. destruct (Cov k C HC) as (_ & t0 & t0' & Ht0 & Ht0'). exists t0, t0'. repeat split; auto.
      unfold ris. rewrite (aget_map_keys (fun k => exd c c' (getd tis k) (getd tis' k))), HC. unfold getd. now rewrite Ht0, Ht0'. }
    assert (Lss : len sis = len sis') by congruence.
    assert (Lx : len (map2 (exd c c') sis sis') = len sis) by (rewrite map2_length, <- Lss; apply Nat.min_id).
    unfold vcom_rel, vcom_extractor. fold ris. rewrite Lx.
    split; [exact Ls|]. split; [exact Fit|]. split; [unfold ris; apply map_length|].
    split.
    { intro k. unfold ris. rewrite (aget_map_keys (fun k => exd c c' (getd tis k) (getd tis' k))).
      destruct (aget (vc_comms s) k); split; auto; discriminate. }
    split.
    { rewrite <- Ea' in Ea. unfold vcom_point in Ea.
      assert (Ea2 : c *: vc_comm s + (msm sis (vc_gis s) + t *: vc_h s) = c' *: vc_comm s + (msm sis' (vc_gis s) + t' *: vc_h s)).
      { transitivity (msm sis (vc_gis s) + (t *: vc_h s + c *: vc_comm s)); [mod_norm|]. rewrite Ea. mod_norm. }
      apply (ss_row_l c c' _ _ _ Hc) in Ea2. rewrite Ea2 at 1.
      rewrite map2_exd, msm_vscale, msm_vsub by exact Lss. unfold exd. mod_norm. }
    split.
    { apply (vcom_rows s c c' tis tis' ris Hc Hris sis sis' 0%N Lss). unfold vcom_points in Ep, Ep'. congruence. }
    { etransitivity; [|exact Lp]. apply walk_length_eq; [exact Lx|]. intros k Hk. unfold hit.
      destruct (aget (vc_comms s) k) as [C|] eqn:HC; [|reflexivity].
      destruct (Hris k C HC) as (t0 & t0' & -> & _ & ->). reflexivity. }
  Qed.

  (** response injectivity: when [phi] is injective (the generators [gis, h] are independent, the
      commitment key [(g_bar, h_bar)] is binding as a map) the reconstructed commit message determines
      the response: the vector [sis], [t], and the response map as a function of the index *)
  Lemma vcom_rows_inj (s : vcom_stmt M) (c : K) (tis tis' : amap K) :
    (forall x y x' y' : K, x *: vc_gbar s + y *: vc_hbar s = x' *: vc_gbar s + y' *: vc_hbar s -> x = x' /\ y = y') ->
    (forall k C, aget (vc_comms s) k = Some C -> exists t t', aget tis k = Some t /\ aget tis' k = Some t') ->
    forall (sis : list K) i,
    walk (fun _ si Ci ti => si *: vc_gbar s + (ti *: vc_hbar s + c *: Ci)) (vc_comms s) tis i sis =
    walk (fun _ si Ci ti => si *: vc_gbar s + (ti *: vc_hbar s + c *: Ci)) (vc_comms s) tis' i sis ->
    forall k C, (i <= k < i + N.of_nat (len sis))%N -> aget (vc_comms s) k = Some C -> aget tis k = aget tis' k.
  Proof.
    intros Hped Hk. induction sis as [|si sis IH]; intros i E k C Hr HC; [cbn in Hr; lia|].
    cbn [walk] in E. destruct (N.eq_dec i k) as [->|Ne].
    - destruct (Hk k C HC) as (t & t' & Ht & Ht'). rewrite HC, Ht, Ht' in E. injection E as E0 _.
      rewrite Ht, Ht'. f_equal.
      assert (E1 : si *: vc_gbar s + t *: vc_hbar s = si *: vc_gbar s + t' *: vc_hbar s).
      { apply (Gadd_cancel_r (c *: C)). rewrite <- !Gadd_assoc. exact E0. }
      now destruct (Hped _ _ _ _ E1).
    - apply (IH (i + 1)%N) with (C := C); [|cbn [len] in Hr; lia|exact HC].
      destruct (aget (vc_comms s) i) as [Ci|] eqn:ECi; [|exact E].
      destruct (Hk i Ci ECi) as (t & t' & Ht & Ht'). rewrite Ht, Ht' in E. now injection E.
  Qed.

  Theorem vcom_response_injective_ : forall (s : vcom_stmt M) (c : K) sis t tis sis' t' tis' cm,
    (forall (u v : list K) (x y : K), len u = len (vc_gis s) -> len v = len (vc_gis s) ->
       msm u (vc_gis s) + x *: vc_h s = msm v (vc_gis s) + y *: vc_h s -> u = v /\ x = y) ->
    (forall x y x' y' : K, x *: vc_gbar s + y *: vc_hbar s = x' *: vc_gbar s + y' *: vc_hbar s -> x = x' /\ y = y') ->
    vcom_extract s c (sis, t, tis) = Some cm -> vcom_extract s c (sis', t', tis') = Some cm ->
    sis = sis' /\ t = t' /\ forall k, aget tis k = aget tis' k.
  Proof.
    intros s c sis t tis sis' t' tis' [a pts] Hvec Hped E E'.
    destruct (vcom_extract_checks_every_commitment_ s c sis t tis a pts E) as (Lp & Ls & Lt).
    destruct (vcom_extract_checks_every_commitment_ s c sis' t' tis' a pts E') as (Lp' & Ls' & Lt').
    unfold vcom_extract in E, E'.
    destruct (vcom_guard s sis tis); [|discriminate]. destruct (vcom_guard s sis' tis'); [|discriminate].
    destruct (Sigma_vcom_eq.neqb (len (vcom_points s c sis tis)) (len (vc_comms s))); [discriminate|].
    destruct (Sigma_vcom_eq.neqb (len (vcom_points s c sis' tis')) (len (vc_comms s))); [discriminate|].
    injection E as Ea Ep. injection E' as Ea' Ep'.
    rewrite <- Ea' in Ea. unfold vcom_point in Ea.
    assert (Ea2 : msm sis (vc_gis s) + t *: vc_h s = msm sis' (vc_gis s) + t' *: vc_h s).
    { apply (Gadd_cancel_r (c *: vc_comm s)). rewrite <- !Gadd_assoc. exact Ea. }
    destruct (Hvec sis sis' t t' Ls Ls' Ea2) as [<- <-]. split; [reflexivity|]. split; [reflexivity|].
    rewrite <- Ep in Lp. rewrite <- Ep' in Lp'. unfold vcom_points in Lp, Lp'.
    destruct (walk_covers _ (vc_comms s) tis sis 0%N Lp Lt) as (K1 & K2 & N1 & N2).
    destruct (walk_covers _ (vc_comms s) tis' sis 0%N Lp' Lt') as (K1' & K2' & _ & N2').
    intro k. destruct (aget (vc_comms s) k) as [C|] eqn:HC.
    - pose proof (proj1 (aget_in_keys _ _ _ HC)) as HI.
      pose proof (proj1 (K1 k) HI) as H1. apply hitkeys_spec in H1. destruct H1 as (Hr & _ & _).
      apply (vcom_rows_inj s c tis tis' Hped) with (sis := sis) (i := 0%N) (C := C); auto; [|unfold vcom_points in Ep, Ep'; congruence].
      intros k0 C0 HC0. pose proof (proj1 (aget_in_keys _ _ _ HC0)) as HI0.
      pose proof (proj1 (K1 k0) HI0) as A1. pose proof (proj1 (K1' k0) HI0) as A1'.
      apply hitkeys_spec in A1. apply hitkeys_spec in A1'. destruct A1 as (_ & _ & [u Hu]). destruct A1' as (_ & _ & [u' Hu']). eauto.
    - (* not an individual commitment: in neither response map *)
      assert (Nk : forall m : amap K, (forall k, In k (map fst m) <-> In k (map fst (vc_comms s))) -> aget m k = None).
      { intros m Hm. destruct (aget m k) as [v|] eqn:Ev; [|reflexivity]. exfalso.
        apply aget_in_keys in Ev. destruct Ev as [Ev _]. apply Hm in Ev. apply in_keys_aget in Ev. destruct Ev as [C HC']. congruence. }
      rewrite (Nk tis), (Nk tis'); auto.
      + intro k0. rewrite K2', K1'. reflexivity.
      + intro k0. rewrite K2, K1. reflexivity.
  Qed.
End VcomSS.
