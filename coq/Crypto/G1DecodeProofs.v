(** Proofs about the compressed G1 codec (model: G1Decode.v). *)
From Coq Require Import NArith ZArith List Lia Bool Znumtheory.
From CB Require Import Crypto.ScalarCodec.
From CB Require Import Crypto.ScalarCodecProofs.
From CB Require Import Crypto.G1Decode.
Import ListNotations.
Local Open Scope N_scope.

Lemma g1_p_pos : g1_p <> 0. Proof. discriminate. Qed.
Lemma g1_p_lt_381 : g1_p < 2 ^ 381. Proof. reflexivity. Qed.

Lemma fmul_lt a b : fmul a b < g1_p.
Proof. apply N.mod_lt. exact g1_p_pos. Qed.
Lemma fneg_lt a : fneg a < g1_p.
Proof. apply N.mod_lt. exact g1_p_pos. Qed.
Lemma fpow_lt b e : fpow b e < g1_p.
Proof. destruct e; cbn [fpow]; try apply fmul_lt. apply N.mod_lt. exact g1_p_pos. Qed.

(** (-y)^2 = y^2 *)
Lemma fmul_fneg y : y < g1_p -> fmul (fneg y) (fneg y) = fmul y y.
Proof.
  intros Hy. unfold fmul, fneg. rewrite N.mul_mod_idemp_l, N.mul_mod_idemp_r by exact g1_p_pos.
  set (q := g1_p - y). assert (Hp : g1_p = q + y) by (unfold q; lia).
  rewrite <- (N.mod_add (q * q) (2 * y) g1_p) by exact g1_p_pos.
  rewrite <- (N.mod_add (y * y) g1_p g1_p) by exact g1_p_pos.
  f_equal. rewrite Hp. ring.
Qed.

Lemma fneg_involutive y : y < g1_p -> fneg (fneg y) = y.
Proof.
  intros Hy. unfold fneg. destruct (N.eq_dec y 0) as [->|Hne].
  - vm_compute. reflexivity.
  - rewrite (N.mod_small (g1_p - y)) by lia. rewrite N.mod_small by lia. lia.
Qed.

(** * Accepted bytes are canonical and decode to valid points *)
Theorem g1_decode_canonical_lemma bs P : g1_decode bs = Some P -> g1_encode P = bs.
Proof.
  unfold g1_decode. destruct (negb (Nat.eqb (length bs) 48)); [discriminate|].
  destruct bs as [|b0 rest]; [discriminate|].
  destruct (negb ((b0 / 128) mod 2 =? 1)); [discriminate|].
  match goal with |- match ?c with _ => _ end = _ -> _ => destruct c as [Q|]; [|discriminate] end.
  destruct (list_eq_dec N.eq_dec (g1_encode Q) (b0 :: rest)) as [E|]; [|discriminate].
  intros [= <-]. exact E.
Qed.

Theorem g1_decode_valid_lemma bs P : g1_decode bs = Some P -> g1_valid P.
Proof.
  unfold g1_decode. destruct (negb (Nat.eqb (length bs) 48)); [discriminate|].
  destruct bs as [|b0 rest]; [discriminate|].
  destruct (negb ((b0 / 128) mod 2 =? 1)); [discriminate|].
  destruct ((b0 / 64) mod 2 =? 1).
  - destruct (list_eq_dec N.eq_dec (g1_encode G1Inf) (b0 :: rest)); [|discriminate]. intros [= <-]. exact I.
  - set (x := be_val (b0 mod 32 :: rest)).
    destruct (N.leb_spec g1_p x) as [|Hx]; [discriminate|].
    set (y := fpow (g1_rhs x) g1_sqrt_exp).
    destruct (N.eqb_spec (fmul y y) (g1_rhs x)) as [Hsq|]; [|discriminate]. cbn [negb].
    set (y' := if (b0 / 32) mod 2 =? 1 then (if y <? fneg y then fneg y else y) else (if y <? fneg y then y else fneg y)).
    destruct (g1_in_subgroup x y') eqn:Hsub; [|discriminate].
    destruct (list_eq_dec N.eq_dec (g1_encode (G1Aff x y')) (b0 :: rest)); [|discriminate]. intros [= <-].
    assert (Hy : y < g1_p) by apply fpow_lt.
    cbn [g1_valid]. split; [assumption|].
    assert (Hy' : y' = y \/ y' = fneg y).
    { unfold y'. destruct ((b0 / 32) mod 2 =? 1); destruct (y <? fneg y); tauto. }
    destruct Hy' as [E|E]; rewrite E in *.
    + split; [assumption|]. split; assumption.
    + split; [apply fneg_lt|]. split; [|assumption]. rewrite fmul_fneg by assumption. assumption.
Qed.

(** * The point at infinity has exactly one accepted encoding *)
Theorem g1_infinity_unique_lemma bs : g1_decode bs = Some G1Inf <-> bs = 192 :: repeat 0 47%nat.
Proof.
  split.
  - intros H. apply g1_decode_canonical_lemma in H. symmetry. exact H.
  - intros ->. vm_compute. reflexivity.
Qed.

(** * Round trip *)

(** Two facts of arithmetic about the constant [g1_p] that are not proved here: it is prime, and
    Fermat's little theorem holds for it.  They are premises of the round-trip theorem. *)
Definition g1_field_facts : Prop :=
  prime (Z.of_N g1_p) /\ (forall a : N, a mod g1_p <> 0 -> a ^ (g1_p - 1) mod g1_p = 1).

Lemma pow_mod_idemp a n : (a mod g1_p) ^ n mod g1_p = a ^ n mod g1_p.
Proof.
  induction n as [|n IH] using N.peano_ind; [reflexivity|].
  rewrite !N.pow_succ_r'. rewrite <- N.mul_mod_idemp_r, IH by exact g1_p_pos.
  rewrite N.mul_mod_idemp_l, N.mul_mod_idemp_r by exact g1_p_pos. reflexivity.
Qed.

Lemma fpow_spec b e : fpow b e = b ^ N.pos e mod g1_p.
Proof.
  induction e as [e IH|e IH|]; cbn [fpow].
  - unfold fmul. rewrite IH. rewrite <- (N.mul_mod (b ^ N.pos e) (b ^ N.pos e)) by exact g1_p_pos.
    rewrite N.mul_mod_idemp_l by exact g1_p_pos.
    f_equal. change (N.pos e~1) with (1 + 2 * N.pos e). rewrite N.pow_add_r, N.pow_1_r.
    replace (2 * N.pos e) with (N.pos e + N.pos e) by lia. rewrite N.pow_add_r. ring.
  - unfold fmul. rewrite IH. rewrite <- N.mul_mod by exact g1_p_pos.
    f_equal. change (N.pos e~0) with (2 * N.pos e).
    replace (2 * N.pos e) with (N.pos e + N.pos e) by lia. rewrite N.pow_add_r. reflexivity.
  - rewrite N.pow_1_r. reflexivity.
Qed.

(** the candidate root squares back for every square (Euler's criterion from Fermat) *)
Lemma sqrt_candidate_ok y : g1_field_facts -> y < g1_p ->
  let rhs := fmul y y in fmul (fpow rhs g1_sqrt_exp) (fpow rhs g1_sqrt_exp) = rhs.
Proof.
  intros [_ Hfermat] Hy rhs. rewrite fpow_spec. unfold fmul at 1. rewrite <- N.mul_mod by exact g1_p_pos.
  rewrite <- N.pow_add_r. unfold rhs, fmul. rewrite pow_mod_idemp.
  rewrite <- N.pow_2_r, <- N.pow_mul_r.
  replace (2 * (N.pos g1_sqrt_exp + N.pos g1_sqrt_exp)) with (g1_p - 1 + 2) by (vm_compute; reflexivity).
  rewrite N.pow_add_r. destruct (N.eq_dec y 0) as [->|Hne].
  - rewrite N.pow_2_r. rewrite N.mul_0_r. reflexivity.
  - rewrite <- N.mul_mod_idemp_l by exact g1_p_pos. rewrite Hfermat by (rewrite N.mod_small by assumption; assumption).
    rewrite N.mul_1_l. reflexivity.
Qed.

(** square roots are unique up to sign (p prime) *)
Lemma sqrt_unique yc y : g1_field_facts -> yc < g1_p -> y < g1_p -> fmul yc yc = fmul y y ->
  yc = y \/ yc = fneg y.
Proof.
  intros [Hprime _] Hyc Hy Heq. unfold fmul in Heq.
  assert (Hdiv : (Z.of_N g1_p | (Z.of_N yc - Z.of_N y) * (Z.of_N yc + Z.of_N y))%Z).
  { apply Z.mod_divide; [pose proof g1_p_pos; lia|].
    replace ((Z.of_N yc - Z.of_N y) * (Z.of_N yc + Z.of_N y))%Z with (Z.of_N (yc * yc) - Z.of_N (y * y))%Z by (rewrite !N2Z.inj_mul; ring).
    rewrite Zminus_mod. rewrite <- !N2Z.inj_mod. rewrite Heq. rewrite Z.sub_diag. reflexivity. }
  apply prime_mult in Hdiv; [|assumption].
  assert (Hpz : (0 < Z.of_N g1_p)%Z) by (pose proof g1_p_pos; lia).
  destruct Hdiv as [[k Hk]|[k Hk]].
  - left. assert (k = 0)%Z by nia. lia.
  - right. assert (k = 0 \/ k = 1)%Z as [-> | ->] by nia.
    + assert (yc = 0) by lia. assert (y = 0) by lia. subst. vm_compute. reflexivity.
    + unfold fneg. assert (y <> 0) by lia. rewrite N.mod_small by lia. lia.
Qed.

Lemma flag_bits b0 f : b0 < 32 -> f = 0 \/ f = 32 ->
  ((b0 + 128 + f) / 128) mod 2 = 1 /\ ((b0 + 128 + f) / 64) mod 2 = 0 /\
  ((b0 + 128 + f) / 32) mod 2 = f / 32 /\ (b0 + 128 + f) mod 32 = b0.
Proof.
  intros Hb Hf.
  destruct Hf as [-> | ->]; change (32 / 32) with 1; change (0 / 32) with 0;
  repeat split; apply N2Z.inj;
    repeat (rewrite N2Z.inj_mod || rewrite N2Z.inj_div || rewrite N2Z.inj_add); cbn [Z.of_N];
    Z.div_mod_to_equations; lia.
Qed.

Lemma be_val_fold rest : forall a, fold_left (fun acc b => acc * 256 + b) rest a
                                   = a * 256 ^ N.of_nat (length rest) + be_val rest.
Proof.
  unfold be_val. induction rest as [|b rest IH]; intros a; cbn [fold_left length].
  - cbn. lia.
  - rewrite IH. rewrite (IH (0 * 256 + b)).
    replace (N.of_nat (S (length rest))) with (1 + N.of_nat (length rest)) by lia. rewrite N.pow_add_r, N.pow_1_r. lia.
Qed.

Lemma be_val_cons b rest : be_val (b :: rest) = b * 256 ^ N.of_nat (length rest) + be_val rest.
Proof. unfold be_val at 1. cbn [fold_left]. rewrite be_val_fold. lia. Qed.

Opaque fpow g1_in_subgroup fmul fneg g1_rhs.
Theorem g1_decode_encode_lemma : g1_field_facts -> forall P, g1_valid P -> g1_decode (g1_encode P) = Some P.
Proof.
  intros Hfacts [|x y] Hv.
  - vm_compute. reflexivity.
  - destruct Hv as (Hx & Hy & Hcurve & Hsub).
    cbn [g1_encode].
    pose proof (to_be_length 48 x) as Hlen. pose proof (be_val_to_be 48 x) as Hval.
    change (256 ^ N.of_nat 48) with (2 ^ 384) in Hval.
    rewrite N.mod_small in Hval by (eapply N.lt_trans; [exact Hx|reflexivity]).
    destruct (to_be 48 x) as [|b0 rest] eqn:Hbe; [discriminate|].
    cbn [length] in Hlen. assert (Hlr : length rest = 47%nat) by lia.
    rewrite be_val_cons, Hlr in Hval. change (256 ^ N.of_nat 47) with (2 ^ 376) in Hval.
    assert (Hb0 : b0 < 32).
    { assert (b0 * 2 ^ 376 < 32 * 2 ^ 376) by (change (32 * 2 ^ 376) with (2 ^ 381); pose proof g1_p_lt_381; lia).
      apply N.mul_lt_mono_pos_r in H; [assumption|reflexivity]. }
    set (f := if g1_sort_flag y then 32 else 0).
    assert (Hf : f = 0 \/ f = 32) by (unfold f; destruct (g1_sort_flag y); tauto).
    set (B := b0 + 128 + f).
    destruct (flag_bits b0 f Hb0 Hf) as (HB1 & HB2 & HB3' & HB4). fold B in HB1, HB2, HB3', HB4.
    assert (HB3 : ((B / 32) mod 2 =? 1) = g1_sort_flag y).
    { rewrite HB3'. unfold f. destruct (g1_sort_flag y); reflexivity. }
    unfold g1_decode. cbn [length]. rewrite Hlr. cbn [Nat.eqb negb].
    rewrite HB1, HB2. cbn [N.eqb Pos.eqb negb]. rewrite HB3, HB4.
    replace (be_val (b0 :: rest)) with x by (rewrite be_val_cons, Hlr; change (256 ^ N.of_nat 47) with (2 ^ 376); lia).
    destruct (N.leb_spec g1_p x); [lia|].
    rewrite <- Hcurve.
    pose proof (sqrt_candidate_ok y Hfacts Hy) as Hsq. cbv zeta in Hsq. rewrite Hsq. rewrite N.eqb_refl. cbn [negb].
    set (yc := fpow (fmul y y) g1_sqrt_exp) in *.
    assert (Hyc : yc < g1_p) by apply fpow_lt.
    assert (Hsel : (if g1_sort_flag y then (if yc <? fneg yc then fneg yc else yc)
                    else (if yc <? fneg yc then yc else fneg yc)) = y).
    { unfold g1_sort_flag.
      destruct (sqrt_unique yc y Hfacts Hyc Hy Hsq) as [-> | ->].
      - destruct (N.ltb_spec (fneg y) y); destruct (N.ltb_spec y (fneg y)); lia.
      - rewrite (fneg_involutive y Hy).
        destruct (N.ltb_spec (fneg y) y); destruct (N.ltb_spec (fneg y) y); lia. }
    rewrite Hsel, Hsub.
    cbn [g1_encode]. rewrite Hbe. fold f. fold B.
    destruct (list_eq_dec N.eq_dec (B :: rest) (B :: rest)) as [_|Hne]; [reflexivity|contradiction].
Qed.

Transparent fpow g1_in_subgroup fmul fneg g1_rhs.

(** Non-vacuity of [g1_valid] for affine points is not stated as a lemma: evaluating the subgroup
    check inside Coq takes ~50 s under [vm_compute] and far longer under [coqchk] (which re-checks
    VM casts by lazy conversion).  It is demonstrated by the correspondence runs instead: the
    extracted [g1_decode] returns [Some (G1Aff ..)] for the generator and for random multiples, and
    [g1_decode_valid_lemma] makes every such point an inhabitant of [g1_valid]. *)
Lemma g1_inf_valid : g1_valid G1Inf /\ g1_decode (g1_encode G1Inf) = Some G1Inf.
Proof. split; [exact I|vm_compute; reflexivity]. Qed.
