(** C12 - correctness of baby-step giant-step: [discrete_log (x*base) = x] for every [x] below the
    bound on which multiples of [base] are pairwise distinct. *)
From Coq Require Import NArith PeanoNat List Lia Bool.
From CB Require Import Crypto.Chunks Crypto.Bsgs.
Import ListNotations.
Local Open Scope N_scope.

Section BsgsProofs.
  Variable G : Type.
  Variables (gzero : G) (gadd : G -> G -> G) (gopp : G -> G) (geqb : G -> G -> bool).
  Hypothesis gadd_assoc : forall a b c, gadd a (gadd b c) = gadd (gadd a b) c.
  Hypothesis gadd_comm : forall a b, gadd a b = gadd b a.
  Hypothesis gadd_0_l : forall a, gadd gzero a = a.
  Hypothesis gadd_opp : forall a, gadd a (gopp a) = gzero.
  Hypothesis geqb_spec : forall a b, geqb a b = true <-> a = b.
  Variable base : G.
  (** multiples of [base] below [bound] are pairwise distinct (the order of [base] is at least [bound]) *)
  Variable bound : N.
  Local Notation nm := (nmul G gzero gadd).
  Hypothesis base_inj : forall a b, a < bound -> b < bound -> nm a base = nm b base -> a = b.

  Lemma bs_gadd_0_r a : gadd a gzero = a.
  Proof. rewrite gadd_comm. apply gadd_0_l. Qed.
  Lemma nmul_succ n : nm (N.succ n) base = gadd (nm n base) base.
  Proof. unfold nmul. now rewrite N.iter_succ. Qed.
  Lemma nmul_succ1 n : nm (n + 1) base = gadd (nm n base) base.
  Proof. rewrite N.add_1_r. apply nmul_succ. Qed.
  Lemma nmul_add a b : nm (a + b) base = gadd (nm a base) (nm b base).
  Proof.
    induction b as [|b IH] using N.peano_ind.
    - rewrite N.add_0_r. change (nm 0 base) with gzero. now rewrite bs_gadd_0_r.
    - rewrite N.add_succ_r, !nmul_succ, IH, gadd_assoc. reflexivity.
  Qed.
  Lemma nmul_sub_step k m : gadd (nm (k + m) base) (gopp (nm m base)) = nm k base.
  Proof. rewrite nmul_add, <- gadd_assoc, gadd_opp. apply bs_gadd_0_r. Qed.

  Lemma after_steps_spec n : forall j, after_steps G gadd n base (nm j base) = nm (j + N.of_nat n) base.
  Proof.
    induction n as [|n IH]; intros j; cbn [after_steps].
    - now rewrite N.add_0_r.
    - rewrite <- nmul_succ1, IH, Nat2N.inj_succ. f_equal. lia.
  Qed.

  (** the table maps exactly the multiples j*base, j0 <= j < j0+n, to j *)
  Lemma lookup_entries n : forall j0 k, j0 + N.of_nat n <= bound -> k < bound ->
    lookup_last G geqb (table_entries G gadd n base (nm j0 base) j0) (nm k base)
    = if (j0 <=? k) && (k <? j0 + N.of_nat n) then Some k else None.
  Proof.
    induction n as [|n IH]; intros j0 k Hj Hk.
    - cbn [table_entries lookup_last]. rewrite N.add_0_r.
      destruct (N.leb_spec j0 k), (N.ltb_spec k j0); cbn [andb]; try reflexivity. lia.
    - cbn [table_entries lookup_last]. rewrite <- nmul_succ1. rewrite Nat2N.inj_succ in *.
      rewrite IH by lia.
      destruct (N.leb_spec (j0 + 1) k) as [H1|H1], (N.ltb_spec k (j0 + 1 + N.of_nat n)) as [H2|H2]; cbn [andb].
      + destruct (N.leb_spec j0 k), (N.ltb_spec k (j0 + N.succ (N.of_nat n))); cbn [andb]; try lia. reflexivity.
      + destruct (geqb (nm j0 base) (nm k base)) eqn:E.
        * apply geqb_spec, base_inj in E; lia.
        * destruct (N.leb_spec j0 k), (N.ltb_spec k (j0 + N.succ (N.of_nat n))); cbn [andb]; try lia; reflexivity.
      + destruct (geqb (nm j0 base) (nm k base)) eqn:E.
        * apply geqb_spec, base_inj in E; try lia. subst k.
          destruct (N.leb_spec j0 j0), (N.ltb_spec j0 (j0 + N.succ (N.of_nat n))); cbn [andb]; try lia. reflexivity.
        * assert (Hne : j0 <> k) by (intros ->; rewrite (proj2 (geqb_spec _ _) eq_refl) in E; discriminate).
          destruct (N.leb_spec j0 k), (N.ltb_spec k (j0 + N.succ (N.of_nat n))); cbn [andb]; try lia; reflexivity.
      + lia.
  Qed.

  Variable m : N.
  Hypothesis m_pos : 0 < m.
  Hypothesis m_le : m <= bound.
  Local Notation tb := (bsgs_new G gzero gadd gopp base m).

  Lemma bsgs_new_table : bs_table G tb = table_entries G gadd (N.to_nat m) base (nm 0 base) 0.
  Proof. reflexivity. Qed.
  Lemma bsgs_new_inverse : bs_inverse_point G tb = gopp (nm m base).
  Proof.
    cbn [bsgs_new bs_inverse_point]. change gzero with (nm 0 base) at 1.
    rewrite after_steps_spec, N2Nat.id, N.add_0_l. reflexivity.
  Qed.
  Lemma bsgs_lookup k : k < bound ->
    lookup_last G geqb (bs_table G tb) (nm k base) = if k <? m then Some k else None.
  Proof.
    intros Hk. rewrite bsgs_new_table, lookup_entries by (rewrite ?N2Nat.id; lia).
    rewrite N2Nat.id, N.add_0_l. destruct (N.leb_spec 0 k); [reflexivity|lia].
  Qed.

  (** giant step i looks at (x - i*m)*base; it hits the table exactly at i = x/m *)
  Lemma dl_go_correct x : x < bound -> x < W64 ->
    forall fuel i, i <= x / m -> (N.to_nat (x / m - i) < fuel)%nat ->
    dl_go G gadd geqb fuel tb (nm (x - i * m) base) i = DlFound x.
  Proof.
    intros Hx Hx64.
    assert (Hdm : m * (x / m) <= x) by (apply N.mul_div_le; lia).
    induction fuel as [|fuel IH]; intros i Hi Hf; [lia|].
    assert (Him : i * m <= x).
    { apply N.le_trans with ((x / m) * m); [apply N.mul_le_mono_r; exact Hi|lia]. }
    cbn [dl_go]. rewrite bsgs_lookup by lia. change (bs_m G tb) with m.
    destruct (N.eq_dec i (x / m)) as [->|Hne].
    - assert (Hmod : x - x / m * m = x mod m) by (rewrite N.mod_eq by lia; lia).
      rewrite Hmod. pose proof (N.mod_lt x m ltac:(lia)) as Hlt.
      destruct (N.ltb_spec (x mod m) m); [|lia].
      destruct (N.leb_spec W64 (x / m * m)); [lia|].
      rewrite <- Hmod. replace (x / m * m + (x - x / m * m)) with x by lia.
      destruct (N.leb_spec W64 x); [lia|reflexivity].
    - assert (Hi1 : (i + 1) * m <= x).
      { apply N.le_trans with ((x / m) * m); [apply N.mul_le_mono_r; lia|lia]. }
      rewrite N.mul_add_distr_r, N.mul_1_l in Hi1.
      destruct (N.ltb_spec (x - i * m) m); [lia|].
      rewrite bsgs_new_inverse.
      replace (x - i * m) with (x - (i + 1) * m + m) by (rewrite N.mul_add_distr_r, N.mul_1_l; lia).
      rewrite nmul_sub_step. apply IH; lia.
  Qed.

  (** ** discrete_log (x*base) = x, found at giant step x/m (so within x/m + 1 table lookups) *)
  Theorem bsgs_discrete_log_correct x fuel :
    x < bound -> x < W64 -> (N.to_nat (x / m) < fuel)%nat ->
    discrete_log G gadd geqb fuel tb (nm x base) = DlFound x.
  Proof.
    intros Hx Hx64 Hf. unfold discrete_log.
    pose proof (dl_go_correct x Hx Hx64 fuel 0) as H. rewrite N.mul_0_l, !N.sub_0_r in H. apply H; [apply N.le_0_l|exact Hf].
  Qed.

  (** the number of giant steps is exact: with x/m or fewer lookups the loop has not returned *)
  Lemma dl_go_needs_steps x : x < bound ->
    forall fuel i, (N.of_nat fuel + i <= x / m) ->
    dl_go G gadd geqb fuel tb (nm (x - i * m) base) i = DlFuel.
  Proof.
    intros Hx.
    assert (Hdm : m * (x / m) <= x) by (apply N.mul_div_le; lia).
    induction fuel as [|fuel IH]; intros i Hi; [reflexivity|].
    rewrite Nat2N.inj_succ in Hi.
    assert (Hi1 : (i + 1) * m <= x).
    { apply N.le_trans with ((x / m) * m); [apply N.mul_le_mono_r; lia|lia]. }
    rewrite N.mul_add_distr_r, N.mul_1_l in Hi1.
    cbn [dl_go]. rewrite bsgs_lookup by lia.
    destruct (N.ltb_spec (x - i * m) m); [lia|].
    rewrite bsgs_new_inverse.
    replace (x - i * m) with (x - (i + 1) * m + m) by (rewrite N.mul_add_distr_r, N.mul_1_l; lia).
    rewrite nmul_sub_step. apply IH; lia.
  Qed.
  Theorem bsgs_needs_steps x fuel : x < bound -> N.of_nat fuel <= x / m ->
    discrete_log G gadd geqb fuel tb (nm x base) = DlFuel.
  Proof.
    intros Hx Hf. unfold discrete_log.
    pose proof (dl_go_needs_steps x Hx fuel 0) as H. rewrite N.mul_0_l, !N.sub_0_r in H. apply H. rewrite N.add_0_r. exact Hf.
  Qed.

  (** ** Serial / Deserial round trip of the table, every table size *)
  Fixpoint keys_distinct (t : list (G * N)) : Prop :=
    match t with
    | [] => True
    | e :: t' => (forall q, In q t' -> fst q <> fst e) /\ keys_distinct t'
    end.

  Lemma existsb_key_false (acc : list (G * N)) (p : G) : (forall q, In q acc -> fst q <> p) -> existsb (fun q => geqb (fst q) p) acc = false.
  Proof.
    induction acc as [|a acc IH]; intros Hn; cbn [existsb]; [reflexivity|].
    destruct (geqb (fst a) p) eqn:E.
    - apply geqb_spec in E. exfalso. apply (Hn a); [left; reflexivity|exact E].
    - cbn. apply IH. intros q Hq. apply Hn. right. exact Hq.
  Qed.

  Lemma read_entries_all : forall (t rest acc : list (G * N)),
    keys_distinct t -> (forall e q, In e t -> In q acc -> fst q <> fst e) ->
    read_entries G geqb (length t) (t ++ rest) acc = Some (rev acc ++ t).
  Proof.
    induction t as [|[p j] t IH]; intros rest acc Hd Hacc; cbn [length read_entries app].
    - now rewrite app_nil_r.
    - destruct Hd as [Hp Hd].
      rewrite existsb_key_false by (intros q Hq; apply (Hacc (p, j) q); [left; reflexivity|exact Hq]).
      rewrite IH; [cbn [rev]; now rewrite <- app_assoc|exact Hd|].
      intros e q He [<-|Hq]; [|apply Hacc; [right; exact He|exact Hq]].
      cbn [fst]. intro E. apply (Hp e He). now symmetry.
  Qed.

  Theorem bsgs_deserial_serial_gen (b : bsgs G) :
    keys_distinct (bs_table G b) -> length (bs_table G b) = N.to_nat (bs_m G b) ->
    bsgs_deserial G geqb (bsgs_serial G b) = Some b.
  Proof.
    intros Hd Hl. destruct b as [t inv mm]. cbn [bsgs_serial bsgs_deserial bs_table bs_m bs_inverse_point] in *.
    rewrite <- Hl. rewrite <- (app_nil_r t) at 2. rewrite read_entries_all; [reflexivity|exact Hd|].
    intros e q _ [].
  Qed.

  Lemma table_entries_in n : forall j0 q, In q (table_entries G gadd n base (nm j0 base) j0) ->
    exists j, j0 <= j < j0 + N.of_nat n /\ q = (nm j base, j).
  Proof.
    induction n as [|n IH]; intros j0 q Hq; cbn [table_entries] in Hq; [contradiction|].
    rewrite Nat2N.inj_succ. destruct Hq as [<-|Hq].
    - exists j0. split; [lia|reflexivity].
    - rewrite <- nmul_succ1 in Hq. destruct (IH _ _ Hq) as (j & Hj & ->). exists j. split; [lia|reflexivity].
  Qed.
  Lemma table_entries_length n : forall cur j0, length (table_entries G gadd n base cur j0) = n.
  Proof. induction n as [|n IH]; intros cur j0; cbn [table_entries length]; [reflexivity|]. now rewrite IH. Qed.
  Lemma table_entries_distinct n : forall j0, j0 + N.of_nat n <= bound ->
    keys_distinct (table_entries G gadd n base (nm j0 base) j0).
  Proof.
    induction n as [|n IH]; intros j0 Hb; cbn [table_entries keys_distinct]; [exact I|].
    rewrite Nat2N.inj_succ in Hb. rewrite <- nmul_succ1. split; [|apply IH; lia].
    intros q Hq. destruct (table_entries_in _ _ _ Hq) as (j & Hj & ->). cbn [fst]. intro E.
    apply base_inj in E; lia.
  Qed.

  (** a freshly built table of ANY size m <= bound survives serialisation: all m entries are read back *)
  Theorem bsgs_deserial_serial : bsgs_deserial G geqb (bsgs_serial G tb) = Some tb.
  Proof.
    apply bsgs_deserial_serial_gen.
    - rewrite bsgs_new_table. apply table_entries_distinct. rewrite N2Nat.id. lia.
    - cbn [bsgs_new bs_table bs_m]. apply table_entries_length.
  Qed.
  (** ... and a stream with fewer than m entries is refused, never silently truncated *)
  Theorem bsgs_deserial_short_stream (inv : G) (stream : list (G * N)) :
    (length stream < N.to_nat m)%nat -> bsgs_deserial G geqb (m, inv, stream) = None.
  Proof.
    intros Hl. cbn [bsgs_deserial].
    assert (R : forall n s acc, (length s < n)%nat -> read_entries G geqb n s acc = None).
    { induction n as [|n IH]; intros s acc Hs; [lia|]. cbn [read_entries]. destruct s as [|[p j] s]; [reflexivity|].
      destruct (existsb _ acc); [reflexivity|]. apply IH. cbn [length] in Hs. lia. }
    now rewrite R.
  Qed.
End BsgsProofs.

(** the hypothesis [m <= bound] is a genuine precondition: in Z/5 with base 1 (order 5) a table of
    size 10 holds j and j+5 under one key, the later insertion wins, and 3*base is "decrypted" to 8 *)
Example bsgs_wrong_when_table_exceeds_order :
  let gadd := fun a b : N => (a + b) mod 5 in
  let gopp := fun a : N => (5 - a) mod 5 in
  discrete_log N gadd N.eqb 3 (bsgs_new N 0 gadd gopp 1 10) (nmul N 0 gadd 3 1) = DlFound 8.
Proof. vm_compute. reflexivity. Qed.
