(** C20: Pedersen commitments of [pedersen_commitment/key.rs] as corollaries of [multiexp_correct].

    [VecCommitmentKey::hide_worker]: [None] if there are more values than bases; otherwise
    bases := gs.iter().take(values.len()) ++ [h], scalars := values ++ [randomness], multiexp.
    The [take] is modelled explicitly ([firstn]); [vec_commit_notake] is the variant without it
    (bases := gs ++ [h]), which pairs the randomness with g_{|vs|} instead of h when |vs| < |gs|. *)
From Coq Require Import ZArith List Lia.
From CB Require Import Crypto.Wnaf.
From CB Require Import Crypto.WnafProofs.
Import ListNotations.
Open Scope Z_scope.

Section VecCommit.
  Variable G : Type.
  Variable gzero : G.
  Variables gadd gsub : G -> G -> G.
  Variables gdbl gneg : G -> G.

  Definition vec_commit (w : Z) (field_bits : nat) (gs : list G) (h : G) (vs : list (list Z)) (r : list Z) : option G :=
    if (length gs <? length vs)%nat then None
    else Some (multiexp G gzero gadd gsub gdbl w field_bits (firstn (length vs) gs ++ [h]) (vs ++ [r])).

  Definition vec_commit_notake (w : Z) (field_bits : nat) (gs : list G) (h : G) (vs : list (list Z)) (r : list Z) : option G :=
    if (length gs <? length vs)%nat then None
    else Some (multiexp G gzero gadd gsub gdbl w field_bits (gs ++ [h]) (vs ++ [r])).

  (** [CommitmentKey::hide_worker]: multiexp(&[g, h], &[value, randomness]). *)
  Definition commit (w : Z) (field_bits : nat) (g h : G) (v r : list Z) : G :=
    multiexp G gzero gadd gsub gdbl w field_bits [g; h] [v; r].

  (** The specification: sum_{i < |vs|} vs_i * gs_i + r * h. *)
  Definition vec_commit_spec (gs : list G) (h : G) (vs : list (list Z)) (r : list Z) : G :=
    gadd (msum G gzero gadd gneg limbs_val (combine vs gs)) (zmul G gzero gadd gneg (limbs_val r) h).
End VecCommit.

Lemma combine_app_eq {A B} (a b : list A) (a' b' : list B) :
  length a = length a' -> combine (a ++ b) (a' ++ b') = combine a a' ++ combine b b'.
Proof.
  revert a'. induction a as [|x a IH]; intros [|y a'] H; cbn in *; try discriminate; [reflexivity|].
  f_equal. apply IH. lia.
Qed.

Lemma combine_firstn_len {A B} (vs : list A) (gs : list B) :
  combine vs (firstn (length vs) gs) = combine vs gs.
Proof.
  revert gs. induction vs as [|x vs IH]; intros [|g gs]; cbn; try reflexivity. f_equal. apply IH.
Qed.

Definition scalar_ok (field_bits : nat) (s : list Z) : Prop :=
  wf_limbs s /\ limbs_val s < 2 ^ Z.of_nat field_bits /\ Z.of_nat field_bits < 64 * Z.of_nat (length s).

Theorem vec_commit_lemma : forall (G : Type) (gzero : G) (gadd gsub : G -> G -> G) (gdbl gneg : G -> G),
  abelian_group_laws gzero gadd gsub gdbl gneg ->
  forall w field_bits gs h vs r, 1 <= w < 62 ->
    Forall (scalar_ok field_bits) vs -> scalar_ok field_bits r ->
    (length vs <= length gs)%nat ->
    vec_commit G gzero gadd gsub gdbl w field_bits gs h vs r
    = Some (vec_commit_spec G gzero gadd gneg gs h vs r).
Proof.
  intros G gzero gadd gsub gdbl gneg L w fb gs h vs r Hw Hvs Hr Hlen.
  unfold vec_commit, vec_commit_spec.
  destruct (Nat.ltb_spec (length gs) (length vs)) as [Hc|_]; [lia|]. f_equal.
  rewrite (multiexp_correct_lemma G gzero gadd gsub gdbl gneg L w fb _ _ Hw).
  2:{ apply Forall_app. split; [exact Hvs|]. constructor; [exact Hr|constructor]. }
  rewrite combine_app_eq by (rewrite firstn_length; lia).
  rewrite combine_firstn_len.
  destruct L as (Hassoc & Hcomm & H0l & _).
  generalize (combine vs gs). intros ps. induction ps as [|p t IH]; cbn [app msum combine fst snd].
  - rewrite H0l. rewrite (Hcomm _ gzero), H0l. reflexivity.
  - cbn [app msum combine fst snd] in IH. rewrite IH. apply Hassoc.
Qed.

(** Too many values: [None]. *)
Lemma vec_commit_too_many : forall (G : Type) (gzero : G) (gadd gsub : G -> G -> G) (gdbl : G -> G) w fb gs h vs r,
  (length gs < length vs)%nat -> vec_commit G gzero gadd gsub gdbl w fb gs h vs r = None.
Proof.
  intros. unfold vec_commit. destruct (Nat.ltb_spec (length gs) (length vs)); [reflexivity|lia].
Qed.

(** The scalar commitment: v*g + r*h. *)
Theorem commit_lemma : forall (G : Type) (gzero : G) (gadd gsub : G -> G -> G) (gdbl gneg : G -> G),
  abelian_group_laws gzero gadd gsub gdbl gneg ->
  forall w field_bits g h v r, 1 <= w < 62 -> scalar_ok field_bits v -> scalar_ok field_bits r ->
    commit G gzero gadd gsub gdbl w field_bits g h v r
    = gadd (zmul G gzero gadd gneg (limbs_val v) g) (zmul G gzero gadd gneg (limbs_val r) h).
Proof.
  intros G gzero gadd gsub gdbl gneg L w fb g h v r Hw Hv Hr. unfold commit.
  rewrite (multiexp_correct_lemma G gzero gadd gsub gdbl gneg L w fb _ _ Hw) by (constructor; [exact Hv|constructor; [exact Hr|constructor]]).
  destruct L as (Hassoc & Hcomm & H0l & _). cbn [combine msum fst snd].
  rewrite (Hcomm _ gzero), H0l. reflexivity.
Qed.

(** Without the [take]: two bases (1 and 10), h = 100, no values, randomness 1 (integers, window 4,
    NUM_BITS 255): the specification gives 1*100, the variant without [take] gives 1*g_0 = 1. *)
Example vec_commit_notake_refuted :
  let one := to_limbs 4 1 in
  scalar_ok 255 one /\
  vec_commit Z 0 Z.add Z.sub (fun a => a + a) 4 255 [1; 10] 100 [] one = Some 100 /\
  vec_commit_spec Z 0 Z.add Z.opp [1; 10] 100 [] one = 100 /\
  vec_commit_notake Z 0 Z.add Z.sub (fun a => a + a) 4 255 [1; 10] 100 [] one = Some 1.
Proof.
  cbv zeta. split.
  - unfold scalar_ok. split; [repeat constructor; vm_compute; intuition discriminate|].
    split; vm_compute; reflexivity.
  - split; [vm_compute; reflexivity|]. split; vm_compute; reflexivity.
Qed.
