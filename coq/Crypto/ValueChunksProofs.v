(** C12 - proofs about [value_to_chunks] / [chunks_to_value] (multi-limb scalars). *)
From Coq Require Import NArith PeanoNat List Lia.
From CB Require Import Crypto.Chunks Crypto.ChunksProofs Crypto.ValueChunks.
Import ListNotations.
Local Open Scope N_scope.

Lemma chunk_sum_app s a : forall b f,
  chunk_sum s f (a ++ b) = chunk_sum s f a + chunk_sum s (f + N.of_nat (length a) * s) b.
Proof.
  induction a as [|x a IH]; intros b f; cbn [app chunk_sum length].
  - replace (f + N.of_nat 0 * s) with f by lia. lia.
  - rewrite IH. replace (f + s + N.of_nat (length a) * s) with (f + N.of_nat (S (length a)) * s) by lia. lia.
Qed.

Lemma Forall_firstn_ {A} (P : A -> Prop) k : forall l, Forall P l -> Forall P (firstn k l).
Proof. induction k; intros [|x l] Hl; cbn; try constructor; inversion Hl; subst; auto. Qed.
Lemma Forall_skipn_ {A} (P : A -> Prop) k : forall l, Forall P l -> Forall P (skipn k l).
Proof. induction k; intros [|x l] Hl; cbn; auto. inversion Hl; subst; auto. Qed.

Lemma map_mod_id m xs : Forall (fun c => c < m) xs -> map (fun c => c mod m) xs = xs.
Proof.
  induction xs as [|x xs IH]; intros Hb; cbn [map]; [reflexivity|].
  inversion Hb; subst. rewrite N.mod_small by assumption. now rewrite IH.
Qed.

Lemma Forall_lt_weaken (a b : N) xs : a <= b -> Forall (fun c => c < a) xs -> Forall (fun c => c < b) xs.
Proof. intros Hab. apply Forall_impl. intros c Hc. lia. Qed.

Lemma pow2_le_W64 s : s <= 64 -> 2 ^ s <= W64.
Proof. intros Hs. unfold W64. apply N.pow_le_mono_r; lia. Qed.

(** one section: the checked / wrapping reassembly is the mathematical sum when every chunk is
    below 2^size and the section has at most 64/size chunks *)
Lemma section_checked s sec :
  0 < s -> s <= 64 -> Forall (fun c => c < 2 ^ s) sec -> N.of_nat (length sec) * s <= 64 ->
  chunks_to_u64_checked s (map (fun c => c mod W64) sec) = Some (chunk_sum s 0 sec).
Proof.
  intros Hs Hs64 Hb Hl.
  rewrite map_mod_id by (eapply Forall_lt_weaken; [apply pow2_le_W64; exact Hs64|exact Hb]).
  unfold chunks_to_u64_checked. rewrite from_checked_sum; [f_equal; lia|assumption|assumption|lia|cbn; lia].
Qed.
Lemma section_wrapping s sec :
  0 < s -> s <= 64 -> Forall (fun c => c < 2 ^ s) sec -> N.of_nat (length sec) * s <= 64 ->
  chunks_to_u64_wrapping s (map (fun c => c mod W64) sec) = chunk_sum s 0 sec.
Proof.
  intros Hs Hs64 Hb Hl.
  rewrite map_mod_id by (eapply Forall_lt_weaken; [apply pow2_le_W64; exact Hs64|exact Hb]).
  unfold chunks_to_u64_wrapping. rewrite from_wrapping_sum; [lia|assumption|assumption|lia|cbn; lia].
Qed.

(** the Horner loop over the sections computes [sum_i chunk_i * 2^(size*i)] in Z/r *)
Lemma ctv_loop_sum fromf r s k :
  r <> 0 -> (0 < k)%nat -> N.of_nat k * s = 64 ->
  (forall sec, Forall (fun c => c < 2 ^ s) sec -> (length sec <= k)%nat ->
     fromf (map (fun c => c mod W64) sec) = Some (chunk_sum s 0 sec)) ->
  forall fuel xs Fc ret, (length xs <= fuel)%nat -> Forall (fun c => c < 2 ^ s) xs ->
  ctv_loop fromf r (Fc mod r) (ret mod r) (sections_fuel fuel k xs) = Some ((ret + Fc * chunk_sum s 0 xs) mod r).
Proof.
  intros Hr Hk Hks Hfrom. induction fuel as [|fuel IH]; intros xs Fc ret Hl Hb.
  - destruct xs; [|cbn in Hl; lia]. cbn [sections_fuel ctv_loop chunk_sum]. f_equal. f_equal. lia.
  - destruct xs as [|x xs']; [cbn [sections_fuel ctv_loop chunk_sum]; f_equal; f_equal; lia|].
    cbn [sections_fuel]. set (xs := x :: xs') in *. cbn [ctv_loop].
    rewrite Hfrom; [|apply Forall_firstn_; exact Hb|rewrite firstn_length; lia].
    set (v := chunk_sum s 0 (firstn k xs)).
    rewrite <- (N.mul_mod Fc W64 r Hr).
    rewrite <- (N.mul_mod v Fc r Hr), <- (N.add_mod ret (v * Fc) r Hr).
    rewrite IH; [|rewrite skipn_length; lia|apply Forall_skipn_; exact Hb].
    f_equal. f_equal.
    assert (Hsum : chunk_sum s 0 xs = v + W64 * chunk_sum s 0 (skipn k xs)).
    { rewrite <- (firstn_skipn k xs) at 1. rewrite chunk_sum_app. fold v. f_equal.
      destruct (Nat.le_gt_cases (length xs) k) as [Hle|Hgt].
      - rewrite skipn_all2 by exact Hle. cbn [chunk_sum]. lia.
      - rewrite firstn_length, Nat.min_l by lia. rewrite chunk_sum_shift, N.add_0_l, Hks. reflexivity. }
    rewrite Hsum. lia.
Qed.

Lemma in_chunk_sizes_le s : In s chunk_sizes -> s <= 64.
Proof. unfold chunk_sizes; cbn [In]. intros H. repeat (destruct H as [<-|H]; [lia|]). contradiction. Qed.
Lemma num_chunks_pos s : In s chunk_sizes -> (0 < num_chunks s)%nat.
Proof. intros H. destruct (in_chunk_sizes s H) as [Hs Hn]. destruct (num_chunks s); [lia|lia]. Qed.

(** ** "does not ensure there is no overflow", made explicit: when every chunk is below 2^size,
    [chunks_to_value] of ANY number of chunks is the little-endian base-2^size sum, reduced mod r *)
Theorem chunks_to_value_checked_sum r s cs :
  r <> 0 -> In s chunk_sizes -> Forall (fun c => c < 2 ^ s) cs ->
  chunks_to_value_checked r s cs = Some (chunk_sum s 0 cs mod r).
Proof.
  intros Hr Hin Hb. destruct (in_chunk_sizes s Hin) as [Hs Hn]. pose proof (in_chunk_sizes_le s Hin) as Hle.
  unfold chunks_to_value_checked, chunks_to_value_gen, sections.
  rewrite (ctv_loop_sum _ r s (num_chunks s) Hr (num_chunks_pos s Hin) Hn); [f_equal; f_equal; lia| |lia|exact Hb].
  intros sec Hsb Hlen. apply section_checked; try assumption. rewrite <- Hn. apply N.mul_le_mono_r. lia.
Qed.
Theorem chunks_to_value_wrapping_sum r s cs :
  r <> 0 -> In s chunk_sizes -> Forall (fun c => c < 2 ^ s) cs ->
  chunks_to_value_wrapping r s cs = Some (chunk_sum s 0 cs mod r).
Proof.
  intros Hr Hin Hb. destruct (in_chunk_sizes s Hin) as [Hs Hn]. pose proof (in_chunk_sizes_le s Hin) as Hle.
  unfold chunks_to_value_wrapping, chunks_to_value_gen, sections.
  rewrite (ctv_loop_sum _ r s (num_chunks s) Hr (num_chunks_pos s Hin) Hn); [f_equal; f_equal; lia| |lia|exact Hb].
  intros sec Hsb Hlen. f_equal. apply section_wrapping; try assumption. rewrite <- Hn. apply N.mul_le_mono_r. lia.
Qed.

(** without the side condition the result is NOT the sum: a chunk of 2^32 (what aggregation of two
    full low chunks can produce) panics in the checked build and is wrong in the wrapping build;
    a chunk above 64 bits is silently truncated to its low limb *)
Example chunks_to_value_overflow_examples :
  chunks_to_value_checked r_bls_N 32 [2 ^ 32; 2 ^ 32 - 1] = None
  /\ chunks_to_value_wrapping r_bls_N 32 [2 ^ 32; 2 ^ 32] = Some (2 ^ 32)
  /\ chunk_sum 32 0 [2 ^ 32; 2 ^ 32] mod r_bls_N = 2 ^ 32 + 2 ^ 64
  /\ chunks_to_value_checked r_bls_N 32 [2 ^ 64 + 5; 0] = Some 5.
Proof. repeat split; vm_compute; reflexivity. Qed.

(** ** the chunks of a scalar *)
Lemma concat_opt_checked s limbs : s < 64 ->
  concat_opt (map (u64_to_chunks_checked s) limbs) = Some (concat (map (to_chunks (num_chunks s) s) limbs)).
Proof.
  intros Hs. induction limbs as [|l ls IH]; cbn [map concat_opt concat]; [reflexivity|].
  unfold u64_to_chunks_checked at 1. destruct (N.ltb_spec s 64); [|lia]. now rewrite IH.
Qed.

Lemma u64_to_chunks_wrapping_eq s x : In s chunk_sizes -> u64_to_chunks_wrapping s x = to_chunks (num_chunks s) s x.
Proof.
  intros Hin. unfold u64_to_chunks_wrapping, to_chunks. destruct (N.eq_dec s 64) as [->|Hne].
  - reflexivity.
  - assert (Hs : s < 64).
    { unfold chunk_sizes in Hin; cbn [In] in Hin. repeat (destruct Hin as [<-|Hin]; [lia|]). contradiction. }
    now rewrite (N.mod_small s 64) by lia.
Qed.
Lemma concat_opt_wrapping s limbs : In s chunk_sizes ->
  concat_opt (map (fun l => Some (u64_to_chunks_wrapping s l)) limbs) = Some (concat (map (to_chunks (num_chunks s) s) limbs)).
Proof.
  intros Hs. induction limbs as [|l ls IH]; cbn [map concat_opt concat]; [reflexivity|].
  now rewrite IH, u64_to_chunks_wrapping_eq.
Qed.

Lemma concat_chunks_bound s k limbs : Forall (fun c => c < 2 ^ s) (concat (map (to_chunks k s) limbs)).
Proof.
  induction limbs as [|l ls IH]; cbn [map concat]; [constructor|].
  apply Forall_app. split; [apply to_chunks_bound|exact IH].
Qed.
Lemma concat_chunks_length s k limbs : length (concat (map (to_chunks k s) limbs)) = (length limbs * k)%nat.
Proof.
  induction limbs as [|l ls IH]; cbn [map concat length]; [reflexivity|].
  rewrite app_length, to_chunks_length, IH. lia.
Qed.
(** chunking every limb and concatenating denotes the same number as the limbs *)
Lemma concat_chunks_sum s k limbs : N.of_nat k * s = 64 -> Forall (fun l => l < W64) limbs ->
  chunk_sum s 0 (concat (map (to_chunks k s) limbs)) = chunk_sum 64 0 limbs.
Proof.
  intros Hk. induction limbs as [|l ls IH]; intros Hb; cbn [map concat]; [reflexivity|].
  inversion Hb as [|? ? Hl Hb']; subst.
  rewrite chunk_sum_app, to_chunks_sum, to_chunks_length, Hk, N.add_0_l.
  rewrite (chunk_sum_shift s 64), (IH Hb'). cbn [chunk_sum].
  rewrite (chunk_sum_shift 64 (0 + 64)), N.add_0_l, N.pow_0_r, N.mul_1_r.
  change (2 ^ 64) with W64. rewrite N.mod_small by exact Hl. reflexivity.
Qed.

Lemma into_repr_bound nl x : Forall (fun l => l < W64) (into_repr nl x).
Proof. unfold into_repr. apply to_chunks_bound. Qed.
Lemma into_repr_sum nl x : x < 2 ^ (N.of_nat nl * 64) -> chunk_sum 64 0 (into_repr nl x) = x.
Proof. intros Hx. unfold into_repr. rewrite to_chunks_sum. apply N.mod_small. exact Hx. Qed.

(** ** round trip: every scalar below the field order, every chunk size (checked build: sizes
    below 64; the encoder itself overflows its shift at size 64, see [u64_to_chunks_checked_64]) *)
Theorem value_chunks_roundtrip_checked r nl s x :
  In s chunk_sizes -> s < 64 -> W64 <= r -> r <= 2 ^ (N.of_nat nl * 64) -> x < r ->
  exists cs, value_to_chunks_checked r nl s x = Some cs
    /\ length cs = (nl * num_chunks s)%nat
    /\ Forall (fun c => c < 2 ^ s) cs
    /\ chunks_to_value_checked r s cs = Some x.
Proof.
  intros Hin Hs Hr Hr2 Hx. destruct (in_chunk_sizes s Hin) as [Hpos Hn].
  set (cs := concat (map (to_chunks (num_chunks s) s) (into_repr nl x))).
  assert (Hb : Forall (fun c => c < 2 ^ s) cs) by apply concat_chunks_bound.
  exists cs. unfold value_to_chunks_checked, value_to_chunks_gen. rewrite concat_opt_checked by exact Hs. fold cs.
  rewrite map_mod_id by (eapply Forall_lt_weaken; [|exact Hb]; pose proof (pow2_le_W64 s); lia).
  split; [reflexivity|]. split.
  { unfold cs. rewrite concat_chunks_length. unfold into_repr. now rewrite to_chunks_length. }
  split; [exact Hb|].
  rewrite chunks_to_value_checked_sum; [|lia|exact Hin|exact Hb].
  unfold cs. rewrite concat_chunks_sum by (exact Hn || apply into_repr_bound).
  rewrite into_repr_sum by lia. f_equal. apply N.mod_small. exact Hx.
Qed.

(** wrapping (release) build: all seven sizes *)
Theorem value_chunks_roundtrip_wrapping r nl s x :
  In s chunk_sizes -> W64 <= r -> r <= 2 ^ (N.of_nat nl * 64) -> x < r ->
  exists cs, value_to_chunks_wrapping r nl s x = Some cs
    /\ length cs = (nl * num_chunks s)%nat
    /\ Forall (fun c => c < 2 ^ s) cs
    /\ chunks_to_value_wrapping r s cs = Some x.
Proof.
  intros Hin Hr Hr2 Hx. destruct (in_chunk_sizes s Hin) as [Hpos Hn]. pose proof (in_chunk_sizes_le s Hin) as Hle.
  set (cs := concat (map (to_chunks (num_chunks s) s) (into_repr nl x))).
  assert (Hb : Forall (fun c => c < 2 ^ s) cs) by apply concat_chunks_bound.
  exists cs. unfold value_to_chunks_wrapping, value_to_chunks_gen. rewrite concat_opt_wrapping by exact Hin. fold cs.
  rewrite map_mod_id by (eapply Forall_lt_weaken; [|exact Hb]; pose proof (pow2_le_W64 s); lia).
  split; [reflexivity|]. split.
  { unfold cs. rewrite concat_chunks_length. unfold into_repr. now rewrite to_chunks_length. }
  split; [exact Hb|].
  rewrite chunks_to_value_wrapping_sum; [|lia|exact Hin|exact Hb].
  unfold cs. rewrite concat_chunks_sum by (exact Hn || apply into_repr_bound).
  rewrite into_repr_sum by lia. f_equal. apply N.mod_small. exact Hx.
Qed.

(** the BLS12-381 scalar field satisfies the two size hypotheses with four limbs *)
Lemma r_bls_limbs : W64 <= r_bls_N /\ r_bls_N <= 2 ^ (N.of_nat 4 * 64).
Proof. split; vm_compute; discriminate. Qed.
