(** C07 round 4: the compositions for ANY number of components.

    [ReplicateAdapter]: the functions [compute_commit_message], [compute_response],
    [extract_commit_message] of common.rs are total for every number of protocols, also zero; only
    [get_challenge] panics on an empty vector (the documented precondition), which [rep_proto] of
    SigmaGeneric.v models by returning [None] in commit and extract.  [rep_core] is the adapter
    WITHOUT that guard (the three functions exactly as coded); both are shown complete, special
    sound and statement binding for every number of instances, zero included ([rep_core]: the empty
    proof for the empty statement; [rep_proto]: vacuously, nothing is accepted).

    [AndAdapter]: [add_prover] nests to the left, [AndAdapter<AndAdapter<P1,P2>,P3>] ...;
    [and_all] folds a list of certified protocols and its protocol IS the nested [and_proto]
    ([and_all_is_nested_adapter_]); the certificate (completeness, special soundness, prefix-free
    [public]) is inherited for every number of added provers, zero included. *)
From Coq Require Import ZArith NArith List Lia Bool String.
From CB Require Import Crypto.Alg Crypto.Transcript Crypto.TranscriptProofs Crypto.SigmaGeneric.
Import ListNotations.

Section RepN.
  Context {K : FieldOps}.

  Definition rep_core (P : proto K) : proto K := {|
    p_stmt := list (p_stmt P);
    p_wit := list (p_wit P);
    p_rand := list (p_rand P);
    p_cm := list (p_cm P);
    p_resp := list (p_resp P);
    p_public := fun k ss => each k [] (p_public P k) ss;
    p_commit := fun ss rs => opt_all (map2 (p_commit P) ss rs);
    p_respond := fun ss ws rs c =>
      if negb (Nat.eqb (List.length ws) (List.length ss)) || negb (Nat.eqb (List.length rs) (List.length ss))
      then None else opt_all (map3 (fun s w r => p_respond P s w r c) ss ws rs);
    p_extract := fun ss c zs =>
      if negb (Nat.eqb (List.length zs) (List.length ss)) then None
      else opt_all (map2 (fun s z => p_extract P s c z) ss zs);
    p_ser_cm := fun a => ser_vec32 (map (p_ser_cm P) a);
    p_ser_resp := fun z => ser_vec32 (map (p_ser_resp P) z) |}.

  (** [rep_proto] = [rep_core] guarded by "protocols is non-empty" *)
  Lemma rep_proto_extract_core (P : proto K) ss c zs a :
    p_extract (rep_proto P) ss c zs = Some a -> p_extract (rep_core P) ss c zs = Some a /\ ss <> [].
  Proof.
    cbn. destruct ss as [|s ss]; [discriminate|]. cbn [List.length Nat.eqb]. intro E. split; [exact E|discriminate].
  Qed.
  Lemma rep_core_extract_proto (P : proto K) ss c zs :
    ss <> [] -> p_extract (rep_proto P) ss c zs = p_extract (rep_core P) ss c zs.
  Proof. intro N. cbn. destruct ss; [congruence|reflexivity]. Qed.

  Theorem rep_core_complete_ : forall (P : proto K) rel rok,
    complete P rel rok -> complete (rep_core P) (Forall2 rel) (Forall2 rok).
  Proof.
    intros P rel rok C ss ws rs R O.
    destruct (rep_complete_aux P rel rok C ss ws R rs O) as (az & Haz & Zs).
    exists az. cbn. split; [exact Haz|]. intro c.
    destruct (Zs c) as (zs & Hzs & Hes & Hl). exists zs.
    rewrite <- (Forall2_len _ _ _ R), <- (Forall2_len _ _ _ O), Hl, !Nat.eqb_refl. cbn [negb orb]. auto.
  Qed.

  (** the extractor of the replicated protocol: instance by instance *)
  Definition rep_extractor (P : proto K) (ex : p_stmt P -> K -> K -> p_resp P -> p_resp P -> p_wit P)
      (ss : list (p_stmt P)) (c c' : K) (zs zs' : list (p_resp P)) : list (p_wit P) :=
    map3 (fun s z z' => ex s c c' z z') ss zs zs'.

  Lemma rep_ss_aux (P : proto K) rel ex : special_sound P rel ex -> forall c c', c <> c' ->
    forall ss zs zs' az, List.length zs = List.length ss -> List.length zs' = List.length ss ->
    opt_all (map2 (fun s z => p_extract P s c z) ss zs) = Some az ->
    opt_all (map2 (fun s z => p_extract P s c' z) ss zs') = Some az ->
    Forall2 rel ss (rep_extractor P ex ss c c' zs zs').
  Proof.
    intros S c c' Hc. induction ss as [|s ss IH]; intros [|z zs] [|z' zs'] az L L' E E'; try discriminate.
    - constructor.
    - cbn [map2 opt_all] in E, E'.
      destruct (p_extract P s c z) as [a|] eqn:X; [|discriminate].
      destruct (p_extract P s c' z') as [a'|] eqn:X'; [|discriminate].
      destruct (opt_all (map2 (fun s z => p_extract P s c z) ss zs)) as [az1|] eqn:Y; [|discriminate].
      destruct (opt_all (map2 (fun s z => p_extract P s c' z) ss zs')) as [az2|] eqn:Y'; [|discriminate].
      injection E as <-. injection E' as E1 E2. subst a' az2.
      unfold rep_extractor. cbn [map3]. constructor.
      + eapply S; eauto.
      + apply (IH zs zs' az1); cbn in L, L'; auto; lia.
  Qed.

  Theorem rep_core_special_sound_ : forall (P : proto K) rel ex,
    special_sound P rel ex -> special_sound (rep_core P) (Forall2 rel) (rep_extractor P ex).
  Proof.
    intros P rel ex S ss az c c' zs zs' Hc E E'. cbn in E, E'.
    destruct (Nat.eqb (List.length zs) (List.length ss)) eqn:L; [|discriminate].
    destruct (Nat.eqb (List.length zs') (List.length ss)) eqn:L'; [|discriminate].
    apply Nat.eqb_eq in L, L'. cbn [negb] in E, E'. eapply rep_ss_aux; eauto.
  Qed.

  (** ... and for the guarded adapter: the witness list it yields satisfies [rep_rel] (non-empty and
      related instance by instance) *)
  Theorem rep_special_sound_ : forall (P : proto K) rel ex,
    special_sound P rel ex -> special_sound (rep_proto P) (rep_rel rel) (rep_extractor P ex).
  Proof.
    intros P rel ex S ss az c c' zs zs' Hc E E'.
    apply rep_proto_extract_core in E. apply rep_proto_extract_core in E'. destruct E as [E N], E' as [E' _].
    split; [exact N|]. eapply (rep_core_special_sound_ P rel ex S); eauto.
  Qed.

  (** the number of witnesses extracted is the number of instances (also zero) *)
  Lemma rep_extractor_length (P : proto K) ex ss c c' : forall zs zs',
    List.length zs = List.length ss -> List.length zs' = List.length ss ->
    List.length (rep_extractor P ex ss c c' zs zs') = List.length ss.
  Proof.
    unfold rep_extractor. induction ss as [|s ss IH]; intros [|z zs] [|z' zs'] L L'; try discriminate; [reflexivity|].
    cbn [map3 List.length]. f_equal. apply IH; cbn in *; lia.
  Qed.

  (** [public] of [rep_core] is the one of [rep_proto]: label, u64 COUNT, each instance's [public] *)
  Theorem rep_core_public_prefix_free_v1_ : forall (P : proto K) ok,
    public_prefix_free P V1 ok ->
    public_prefix_free (rep_core P) V1 (fun ss => (N.of_nat (List.length ss) < W64)%N /\ Forall ok ss).
  Proof. intros P ok F. exact (rep_public_prefix_free_v1_ P ok F). Qed.

  (** statement binding for the replicated protocol as coded, for lists of ANY (also different, also
      zero) lengths under V1: one proof accepted for two different lists of statements yields a collision *)
  Theorem rep_statement_binding_v1_ : forall (H : bytes -> bytes) (sfb : bytes -> K) (P : proto K) ok,
    public_prefix_free P V1 ok ->
    forall ctx ss ss' pi,
      (N.of_nat (List.length ss) < W64)%N -> Forall ok ss -> (N.of_nat (List.length ss') < W64)%N -> Forall ok ss' ->
      ss <> ss' ->
      fst (verify H sfb (rep_core P) V1 ctx ss pi) = true -> fst (verify H sfb (rep_core P) V1 ctx ss' pi) = true ->
      exists x x', x <> x' /\ H x = H x'.
  Proof.
    intros H sfb P ok F ctx ss ss' pi L O L' O' Ne A1 A2.
    eapply (statement_binding_ H sfb (rep_core P) V1 _ (rep_core_public_prefix_free_v1_ P ok F) ctx ss ss' pi); eauto.
  Qed.
  Theorem rep_proto_statement_binding_v1_ : forall (H : bytes -> bytes) (sfb : bytes -> K) (P : proto K) ok,
    public_prefix_free P V1 ok ->
    forall ctx ss ss' pi,
      (N.of_nat (List.length ss) < W64)%N -> Forall ok ss -> (N.of_nat (List.length ss') < W64)%N -> Forall ok ss' ->
      ss <> ss' ->
      fst (verify H sfb (rep_proto P) V1 ctx ss pi) = true -> fst (verify H sfb (rep_proto P) V1 ctx ss' pi) = true ->
      exists x x', x <> x' /\ H x = H x'.
  Proof.
    intros H sfb P ok F ctx ss ss' pi L O L' O' Ne A1 A2.
    eapply (statement_binding_ H sfb (rep_proto P) V1 _ (rep_public_prefix_free_v1_ P ok F) ctx ss ss' pi); eauto.
  Qed.

  (** zero instances: [rep_core] accepts exactly the empty response list and reconstructs the empty
      commit message; the guarded adapter accepts nothing *)
  Theorem rep_zero_instances_ : forall (P : proto K) c zs,
    (p_extract (rep_core P) [] c zs = Some [] <-> zs = []) /\
    (forall a, p_extract (rep_core P) [] c zs = Some a -> a = [] /\ zs = []) /\
    p_extract (rep_proto P) [] c zs = None /\
    p_commit (rep_core P) [] [] = Some [] /\ p_respond (rep_core P) [] [] [] c = Some [].
  Proof.
    intros P c zs. cbn. destruct zs as [|z zs]; cbn;
      (split; [split; congruence | split; [intros a E; try discriminate; try (injection E as <-; auto) | repeat split]]).
  Qed.
End RepN.

(** * n-ary AND *)
Section AndN.
  Context {K : FieldOps}.

  (** a protocol together with its certificate *)
  Record cproto : Type := mkC {
    cp : proto K;
    cp_rel : p_stmt cp -> p_wit cp -> Prop;
    cp_rok : p_stmt cp -> p_rand cp -> Prop;
    cp_ex : p_stmt cp -> K -> K -> p_resp cp -> p_resp cp -> p_wit cp;
    cp_ok : p_stmt cp -> Prop;
    cp_complete : complete cp cp_rel cp_rok;
    cp_sound : special_sound cp cp_rel cp_ex;
    cp_bind : forall k, public_prefix_free cp k cp_ok }.

  Definition and_c (A B : cproto) : cproto := {|
    cp := and_proto (cp A) (cp B);
    cp_rel := prod_rel (cp_rel A) (cp_rel B);
    cp_rok := prod_rel (cp_rok A) (cp_rok B);
    cp_ex := fun s c c' z z' => (cp_ex A (fst s) c c' (fst z) (fst z'), cp_ex B (snd s) c c' (snd z) (snd z'));
    cp_ok := fun s => cp_ok A (fst s) /\ cp_ok B (snd s);
    cp_complete := and_complete_ _ _ _ _ _ _ (cp_complete A) (cp_complete B);
    cp_sound := and_special_sound_ _ _ _ _ _ _ (cp_sound A) (cp_sound B);
    cp_bind := fun k => and_public_prefix_free_ _ _ k _ _ (cp_bind A k) (cp_bind B k) |}.

  (** [first.add_prover(p1).add_prover(p2)...] *)
  Definition and_all (A : cproto) (Bs : list cproto) : cproto := fold_left and_c Bs A.

  Theorem and_all_is_nested_adapter_ : forall (Bs : list cproto) (A : cproto),
    cp (and_all A Bs) = fold_left and_proto (map cp Bs) (cp A).
  Proof. unfold and_all. induction Bs as [|B Bs IH]; intro A; [reflexivity|]. cbn [fold_left map]. now rewrite IH. Qed.

  (** for any number of added provers the nested adapter is complete, special sound (explicit
      extractor), its [public] covers every component statement, and (hence) a proof accepted for two
      different compound statements yields a collision *)
  Theorem and_all_certified_ : forall (A : cproto) (Bs : list cproto),
    let C := and_all A Bs in
    complete (cp C) (cp_rel C) (cp_rok C) /\ special_sound (cp C) (cp_rel C) (cp_ex C) /\
    (forall k, public_prefix_free (cp C) k (cp_ok C)) /\
    forall (H : bytes -> bytes) (sfb : bytes -> K) k ctx s s' pi, cp_ok C s -> cp_ok C s' -> s <> s' ->
      fst (verify H sfb (cp C) k ctx s pi) = true -> fst (verify H sfb (cp C) k ctx s' pi) = true ->
      exists x x', x <> x' /\ H x = H x'.
  Proof.
    intros A Bs C. split; [exact (cp_complete C)|]. split; [exact (cp_sound C)|]. split; [exact (cp_bind C)|].
    intros H sfb k ctx s s' pi O O' Ne A1 A2.
    eapply (statement_binding_ H sfb (cp C) k (cp_ok C) (cp_bind C k) ctx s s' pi); eauto.
  Qed.

  (** one step, spelled out: the relation of the compound is the conjunction, and the compound
      accepts iff both parts accept with the SAME challenge *)
  Theorem and_extract_shared_challenge_ : forall (P1 P2 : proto K) s c z a,
    p_extract (and_proto P1 P2) s c z = Some a <->
    p_extract P1 (fst s) c (fst z) = Some (fst a) /\ p_extract P2 (snd s) c (snd z) = Some (snd a).
  Proof.
    intros P1 P2 [s1 s2] c [z1 z2] [a1 a2]. cbn. unfold opt_pair.
    destruct (p_extract P1 s1 c z1), (p_extract P2 s2 c z2); split; try discriminate; try (intros [? ?]; discriminate).
    - intro E. injection E as -> ->. auto.
    - intros [E1 E2]. congruence.
  Qed.
  (** concatenated first messages and responses: the serialisation of the compound commit message /
      response is the concatenation of the parts' *)
  Theorem and_framing_concatenates_ : forall (P1 P2 : proto K) k s a z,
    p_public (and_proto P1 P2) k s = p_public P1 k (fst s) ++ p_public P2 k (snd s) /\
    p_ser_cm (and_proto P1 P2) a = p_ser_cm P1 (fst a) ++ p_ser_cm P2 (snd a) /\
    p_ser_resp (and_proto P1 P2) z = p_ser_resp P1 (fst z) ++ p_ser_resp P2 (snd z).
  Proof. intros. repeat split. Qed.
End AndN.
