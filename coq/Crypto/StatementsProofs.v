(** C18 - proofs about [Statements.v]. *)
From Coq Require Import ZArith NArith List Bool Lia Arith.
From CB Require Import Crypto.Statements.
Import ListNotations.
Local Open Scope N_scope.

Arguments N.add : simpl never.
Arguments N.sub : simpl never.
Arguments N.mul : simpl never.
Arguments N.eqb : simpl never.
Arguments N.ltb : simpl never.
Arguments N.leb : simpl never.
Arguments N.pow : simpl never.

(** * big-endian values *)

Lemma bytes_ok_cons b t : bytes_ok (b :: t) = true <-> b < 256 /\ bytes_ok t = true.
Proof. unfold bytes_ok; simpl. rewrite andb_true_iff, N.ltb_lt. tauto. Qed.

Lemma pow256_pos n : 0 < 256 ^ n.
Proof. apply N.neq_0_lt_0, N.pow_nonzero. discriminate. Qed.

Lemma pow256_S (n : nat) : 256 ^ N.of_nat (S n) = 256 * 256 ^ N.of_nat n.
Proof. rewrite Nat2N.inj_succ, N.pow_succ_r'. reflexivity. Qed.

Lemma be_val_lt bs : bytes_ok bs = true -> be_val bs < 256 ^ N.of_nat (length bs).
Proof.
  induction bs as [|b t IH]; intros H.
  - simpl. apply pow256_pos.
  - apply bytes_ok_cons in H as [Hb Ht]. specialize (IH Ht).
    cbn [be_val length]. rewrite pow256_S.
    pose proof (pow256_pos (N.of_nat (length t))). nia.
Qed.

Lemma be_val_app a b : be_val (a ++ b) = be_val a * 256 ^ N.of_nat (length b) + be_val b.
Proof.
  induction a as [|x a IH]; cbn [be_val app length].
  - lia.
  - rewrite IH, app_length, Nat2N.inj_add, N.pow_add_r. ring.
Qed.

Lemma be_val_repeat0 k : be_val (repeat 0 k) = 0.
Proof. induction k; cbn [be_val repeat]; [reflexivity|]. rewrite IHk. lia. Qed.

Lemma pow_256_31 : 256 ^ 31 = 2 ^ 248.
Proof. reflexivity. Qed.

(** the buffer has 32 bytes and its value is  len * 2^248 + big-endian value of the string *)
Lemma attr_buf_length bs : (length bs <= 31)%nat -> length (attr_buf bs) = 32%nat.
Proof. intros H. unfold attr_buf. cbn [length]. rewrite app_length, repeat_length. lia. Qed.

Lemma encode_closed_eq a : wf_attr a = true -> encode a = encode_closed a.
Proof.
  destruct a as [bs|n|n]; intros H; try reflexivity.
  cbn [wf_attr] in H. apply andb_true_iff in H as [Hl _]. apply Nat.leb_le in Hl.
  cbn [encode encode_closed]. unfold attr_buf. cbn [be_val].
  rewrite app_length, repeat_length, be_val_app, be_val_repeat0.
  replace (31 - length bs + length bs)%nat with 31%nat by lia.
  change (256 ^ N.of_nat 31) with (2 ^ 248). lia.
Qed.

Lemma be_val_lt_248 bs : (length bs <= 31)%nat -> bytes_ok bs = true -> be_val bs < 2 ^ 248.
Proof.
  intros Hl Hb. eapply N.lt_le_trans; [apply be_val_lt; exact Hb|].
  change (2 ^ 248) with (256 ^ N.of_nat 31). apply N.pow_le_mono_r; lia.
Qed.

Lemma encode_lt_2_253 a : wf_attr a = true -> encode a < 2 ^ 253.
Proof.
  intros H. rewrite (encode_closed_eq a H). destruct a as [bs|n|n]; cbn [wf_attr encode_closed] in *.
  - apply andb_true_iff in H as [Hl Hb]. apply Nat.leb_le in Hl.
    pose proof (be_val_lt_248 bs Hl Hb).
    assert (N.of_nat (length bs) <= 31) by lia.
    change (2 ^ 253) with (32 * 2 ^ 248). nia.
  - apply N.ltb_lt in H. eapply N.lt_trans; [exact H|]. reflexivity.
  - apply N.ltb_lt in H. eapply N.lt_trans; [exact H|]. reflexivity.
Qed.

Lemma r_bls_gt : (2 ^ 254 < R_BLS)%Z.
Proof. reflexivity. Qed.

(** * injectivity *)

Lemma be_val_inj a b : length a = length b -> bytes_ok a = true -> bytes_ok b = true ->
  be_val a = be_val b -> a = b.
Proof.
  revert b. induction a as [|x a IH]; intros [|y b] Hl Ha Hb E; simpl in Hl; try discriminate.
  - reflexivity.
  - injection Hl as Hl. apply bytes_ok_cons in Ha as [Hx Ha]. apply bytes_ok_cons in Hb as [Hy Hb].
    cbn [be_val] in E. rewrite <- Hl in E.
    pose proof (be_val_lt a Ha) as La. pose proof (be_val_lt b Hb) as Lb. rewrite <- Hl in Lb.
    set (P := 256 ^ N.of_nat (length a)) in *.
    assert (x = y) by nia. subst y.
    assert (be_val a = be_val b) by lia.
    f_equal. apply IH; assumption.
Qed.

Lemma wf_str bs : wf_attr (AStr bs) = true -> (length bs <= 31)%nat /\ bytes_ok bs = true.
Proof. cbn [wf_attr]. rewrite andb_true_iff, Nat.leb_le. tauto. Qed.

Lemma encode_str_split x y : wf_attr (AStr x) = true -> wf_attr (AStr y) = true ->
  encode (AStr x) = encode (AStr y) -> length x = length y /\ be_val x = be_val y.
Proof.
  intros Hx Hy E. rewrite (encode_closed_eq _ Hx), (encode_closed_eq _ Hy) in E.
  cbn [encode_closed] in E.
  apply wf_str in Hx as [Lx Bx]. apply wf_str in Hy as [Ly By].
  pose proof (be_val_lt_248 x Lx Bx). pose proof (be_val_lt_248 y Ly By).
  assert (N.of_nat (length x) = N.of_nat (length y)) by nia.
  split; [lia|nia].
Qed.

Theorem encode_injective_same_kind : forall a b,
  wf_attr a = true -> wf_attr b = true -> same_kind a b = true ->
  encode a = encode b -> a = b.
Proof.
  intros [x|n|n] [y|m|m] Ha Hb K E; try discriminate K; cbn [encode] in E; try (subst; reflexivity).
  destruct (encode_str_split x y Ha Hb E) as [Hl Hv].
  apply wf_str in Ha as [_ Bx]. apply wf_str in Hb as [_ By].
  f_equal. apply be_val_inj; assumption.
Qed.

Lemma encode_str_nonempty_ge bs : wf_attr (AStr bs) = true -> bs <> [] -> 2 ^ 248 <= encode (AStr bs).
Proof.
  intros H Hn. rewrite (encode_closed_eq _ H). cbn [encode_closed].
  destruct bs as [|b t]; [congruence|]. cbn [length].
  assert (1 <= N.of_nat (S (length t))) by lia. nia.
Qed.

Lemma encode_str_empty : encode (AStr []) = 0.
Proof. reflexivity. Qed.

Lemma encode_canon a : encode (canon a) = encode a.
Proof. destruct a as [[|b t]|n|n]; reflexivity. Qed.

Lemma wf_canon a : wf_attr a = true -> wf_attr (canon a) = true.
Proof. destruct a as [[|b t]|n|n]; intros H; try exact H; reflexivity. Qed.

(** exact characterisation of all collisions, also between kinds *)
Theorem encode_eq_iff_canon : forall a b,
  wf_attr a = true -> wf_attr b = true ->
  (encode a = encode b <-> canon a = canon b).
Proof.
  intros a b Ha Hb. split.
  - intros E. rewrite <- (encode_canon a), <- (encode_canon b) in E.
    pose proof (wf_canon a Ha) as Wa. pose proof (wf_canon b Hb) as Wb.
    destruct (canon a) as [x|n|n] eqn:Ca, (canon b) as [y|m|m] eqn:Cb.
    + apply encode_injective_same_kind; auto.
    + exfalso. assert (x <> []) by (destruct a as [[|? ?]|?|?]; inversion Ca; discriminate).
      pose proof (encode_str_nonempty_ge x Wa H). cbn [encode wf_attr] in *.
      apply N.ltb_lt in Wb. assert (m < 2 ^ 248) by (eapply N.lt_trans; [exact Wb|reflexivity]). lia.
    + exfalso. destruct b as [[|? ?]|?|?]; inversion Cb.
    + exfalso. assert (y <> []) by (destruct b as [[|? ?]|?|?]; inversion Cb; discriminate).
      pose proof (encode_str_nonempty_ge y Wb H). cbn [encode wf_attr] in *.
      apply N.ltb_lt in Wa. assert (n < 2 ^ 248) by (eapply N.lt_trans; [exact Wa|reflexivity]). lia.
    + cbn [encode] in E. subst. reflexivity.
    + exfalso. destruct b as [[|? ?]|?|?]; inversion Cb.
    + exfalso. destruct a as [[|? ?]|?|?]; inversion Ca.
    + exfalso. destruct a as [[|? ?]|?|?]; inversion Ca.
    + exfalso. destruct a as [[|? ?]|?|?]; inversion Ca.
  - intros E. rewrite <- (encode_canon a), <- (encode_canon b), E. reflexivity.
Qed.

(** * order *)

Lemma lex_cmp_lt_be a b : length a = length b -> bytes_ok a = true -> bytes_ok b = true ->
  (lex_cmp a b = Lt <-> be_val a < be_val b).
Proof.
  revert b. induction a as [|x a IH]; intros [|y b] Hl Ha Hb; simpl in Hl; try discriminate.
  - simpl. split; [discriminate|lia].
  - injection Hl as Hl. apply bytes_ok_cons in Ha as [Hx Ha]. apply bytes_ok_cons in Hb as [Hy Hb].
    cbn [lex_cmp be_val]. rewrite <- Hl.
    pose proof (be_val_lt a Ha) as La. pose proof (be_val_lt b Hb) as Lb. rewrite <- Hl in Lb.
    set (P := 256 ^ N.of_nat (length a)) in *.
    destruct (N.compare_spec x y) as [E|E|E].
    + subst y. rewrite (IH b Hl Ha Hb). lia.
    + split; [intros _; nia|reflexivity].
    + split; [discriminate|intros; nia].
Qed.

Theorem encode_str_order : forall x y,
  wf_attr (AStr x) = true -> wf_attr (AStr y) = true ->
  (encode (AStr x) < encode (AStr y) <-> shortlex_lt x y).
Proof.
  intros x y Hx Hy. rewrite (encode_closed_eq _ Hx), (encode_closed_eq _ Hy). cbn [encode_closed].
  apply wf_str in Hx as [Lx Bx]. apply wf_str in Hy as [Ly By].
  pose proof (be_val_lt_248 x Lx Bx). pose proof (be_val_lt_248 y Ly By).
  unfold shortlex_lt. split.
  - intros Hlt. destruct (Nat.lt_trichotomy (length x) (length y)) as [C|[C|C]].
    + left; exact C.
    + right. split; [exact C|]. apply lex_cmp_lt_be; auto. rewrite C in Hlt. lia.
    + exfalso. assert (N.of_nat (length y) + 1 <= N.of_nat (length x)) by lia. nia.
  - intros [C|[C Hlex]].
    + assert (N.of_nat (length x) + 1 <= N.of_nat (length y)) by lia. nia.
    + apply lex_cmp_lt_be in Hlex; auto. rewrite C. lia.
Qed.

Corollary encode_str_order_same_length : forall x y,
  wf_attr (AStr x) = true -> wf_attr (AStr y) = true -> length x = length y ->
  (encode (AStr x) < encode (AStr y) <-> attr_cmp (AStr x) (AStr y) = Lt).
Proof.
  intros x y Hx Hy Hl. rewrite encode_str_order by assumption. cbn [attr_cmp]. unfold shortlex_lt.
  split; [intros [C|[_ C]]; [lia|exact C] | intros C; right; split; assumption].
Qed.

Theorem encode_num_order : forall n m,
  (encode (ANum n) < encode (ANum m) <-> attr_cmp (ANum n) (ANum m) = Lt)
  /\ (encode (ATime n) < encode (ATime m) <-> attr_cmp (ATime n) (ATime m) = Lt).
Proof. intros n m. cbn [encode attr_cmp]. rewrite N.compare_lt_iff. tauto. Qed.

Theorem encode_mixed_order : forall bs a,
  wf_attr (AStr bs) = true -> wf_attr a = true -> same_kind (AStr bs) a = false ->
  (bs <> [] -> encode a < encode (AStr bs))
  /\ (bs = [] -> encode (AStr bs) <= encode a).
Proof.
  intros bs a Hs Ha K. split.
  - intros Hn. pose proof (encode_str_nonempty_ge bs Hs Hn).
    destruct a as [y|n|n]; [discriminate K| |]; cbn [encode wf_attr] in *; apply N.ltb_lt in Ha;
      (assert (n < 2 ^ 248) by (eapply N.lt_trans; [exact Ha|reflexivity])); lia.
  - intros ->. rewrite encode_str_empty. lia.
Qed.

(** the derived [Ord] and the scalar order disagree across string lengths: "aa" < "b" but
    encode "b" < encode "aa" *)
Theorem attr_order_vs_scalar_order_refuted :
  exists a b, wf_attr a = true /\ wf_attr b = true /\ attr_cmp a b = Lt /\ encode b < encode a.
Proof. exists (AStr [97; 97]), (AStr [98]). repeat split; reflexivity. Qed.

(** * truth is decidable: [holds] reflects [Holds] *)

Lemma mem_enc_spec v set : mem_enc v set = true <-> exists x, In x set /\ encode x = v.
Proof.
  unfold mem_enc. rewrite existsb_exists. split; intros [x [Hi He]]; exists x; split; auto.
  - apply N.eqb_eq; exact He.
  - apply N.eqb_eq; exact He.
Qed.

Theorem holds_spec : forall al s, holds al s = true <-> Holds al s.
Proof.
  intros al s. unfold holds, Holds. destruct (lookup (stmt_tag s) al) as [v|].
  2:{ split; [discriminate|intros [v [E _]]; discriminate]. }
  split.
  - intros H. exists v. split; [reflexivity|]. destruct s; cbn [holds_value] in H.
    + exact I.
    + apply andb_true_iff in H as [H1 H2]. apply N.leb_le in H1. apply N.ltb_lt in H2. lia.
    + apply mem_enc_spec; exact H.
    + apply negb_true_iff in H. intros x Hx E.
      assert (mem_enc (encode v) set = true) by (apply mem_enc_spec; exists x; auto). congruence.
    + apply N.eqb_eq; exact H.
  - intros [v' [E H]]. injection E as <-. destruct s; cbn [holds_value].
    + reflexivity.
    + apply andb_true_iff. rewrite N.leb_le, N.ltb_lt. lia.
    + apply mem_enc_spec; exact H.
    + apply negb_true_iff. destruct (mem_enc (encode v) set) eqn:M; [|reflexivity].
      apply mem_enc_spec in M as [x [Hx Ex]]. exfalso. exact (H x Hx Ex).
    + apply N.eqb_eq; exact H.
Qed.

Theorem holds_decidable : forall al s, {Holds al s} + {~ Holds al s}.
Proof.
  intros al s. destruct (holds al s) eqn:E.
  - left. apply holds_spec; exact E.
  - right. intros H. apply holds_spec in H. congruence.
Qed.

(** * the in-range arithmetic *)
Local Open Scope Z_scope.

Lemma mod_in_u64_iff r x : W64 < r -> - (r - W64) <= x < r ->
  (in_u64 (x mod r) = true <-> 0 <= x < W64).
Proof.
  intros Hr Hx. unfold in_u64. rewrite andb_true_iff, Z.leb_le, Z.ltb_lt.
  assert (0 < W64) by reflexivity.
  destruct (Z_lt_le_dec x 0) as [Neg|Pos].
  - assert (x mod r = x + r) as ->.
    { symmetry. apply Z.mod_unique with (q := -1); lia. }
    lia.
  - rewrite Z.mod_small by lia. lia.
Qed.

(** exact arithmetic of the code: both derived scalars are u64 iff the value lies in [a, b) AND
    within 2^64 of both ends; for every r above 2^254 and all encodings (below 2^253) *)
Theorem range_scalars_ok_iff : forall r v a b,
  2 ^ 254 < r -> 0 <= v < 2 ^ 253 -> 0 <= a < 2 ^ 253 -> 0 <= b < 2 ^ 253 ->
  (range_scalars_ok r v a b = true <-> (a <= v < b /\ v - a < W64 /\ b - v <= W64)).
Proof.
  intros r v a b Hr Hv Ha Hb. unfold range_scalars_ok, range_scalars. cbn [fst snd].
  assert (W64 < r) by (unfold W64; lia).
  assert (Hp : 2 ^ 253 + 2 ^ 253 = 2 ^ 254) by reflexivity.
  assert (HW : 0 < W64 < 2 ^ 253) by (unfold W64; split; reflexivity).
  rewrite andb_true_iff, !mod_in_u64_iff by lia. lia.
Qed.

Lemma mod_W64_fix x : 0 <= x -> (x =? x mod W64) = in_u64 x.
Proof.
  intros Hx. unfold in_u64. assert (0 < W64) by reflexivity.
  destruct (Z_lt_le_dec x W64) as [Lt|Ge].
  - rewrite Z.mod_small by lia. rewrite Z.eqb_refl. symmetry. apply andb_true_iff.
    rewrite Z.leb_le, Z.ltb_lt. lia.
  - pose proof (Z.mod_pos_bound x W64 H).
    replace (x =? x mod W64) with false by (symmetry; apply Z.eqb_neq; lia).
    symmetry. apply andb_false_iff. right. apply Z.ltb_ge. lia.
Qed.

(** the honest proof (about limb 0) can be checked against the committed scalars iff they are u64 *)
Theorem range_verifies_eq_ok : forall r v a b, 0 < r ->
  range_verifies r v a b = range_scalars_ok r v a b.
Proof.
  intros r v a b Hr. unfold range_verifies, range_scalars_ok, range_proved. cbn [fst snd].
  unfold range_scalars. cbn [fst snd].
  rewrite !mod_W64_fix; [reflexivity| |]; apply Z.mod_pos_bound; exact Hr.
Qed.

Theorem range_verifies_iff : forall r v a b,
  2 ^ 254 < r -> 0 <= v < 2 ^ 253 -> 0 <= a < 2 ^ 253 -> 0 <= b < 2 ^ 253 ->
  (range_verifies r v a b = true <-> (a <= v < b /\ v - a < W64 /\ b - v <= W64)).
Proof.
  intros. rewrite range_verifies_eq_ok by lia. apply range_scalars_ok_iff; assumption.
Qed.

(** for u64 values (Numeric / Timestamp attributes) the side conditions vanish *)
Corollary range_verifies_u64 : forall r v a b,
  2 ^ 254 < r -> 0 <= v < W64 -> 0 <= a < W64 -> 0 <= b < W64 ->
  (range_verifies r v a b = true <-> a <= v < b).
Proof.
  intros r v a b Hr Hv Ha Hb.
  assert (W64 < 2 ^ 253) by reflexivity.
  rewrite range_verifies_iff by lia. lia.
Qed.

Lemma enc_bounds a : wf_attr a = true -> 0 <= Z.of_N (encode a) < 2 ^ 253.
Proof.
  intros H. pose proof (encode_lt_2_253 a H) as L. split; [lia|].
  change (2 ^ 253) with (Z.of_N (2 ^ 253)). lia.
Qed.

(** * the honest prover accepts exactly the true statements of the supported class *)

Lemma holds_range_Z v lo hi :
  ((encode lo <=? encode v)%N && (encode v <? encode hi)%N = true)
  <-> Z.of_N (encode lo) <= Z.of_N (encode v) < Z.of_N (encode hi).
Proof. rewrite andb_true_iff, N.leb_le, N.ltb_lt. lia. Qed.

Theorem outcome_value_exact : forall r gens v s,
  2 ^ 254 < r -> wf_attr v = true -> wf_stmt s = true ->
  is_ok (prover_outcome r gens v s) = holds_value v s && supported gens v s.
Proof.
  intros r gens v s Hr Hv Hs. destruct s as [t|t lo hi|t set|t set|t w];
    cbn [prover_outcome holds_value supported wf_stmt] in *.
  - reflexivity.
  - apply andb_true_iff in Hs as [Hlo Hhi].
    pose proof (enc_bounds v Hv). pose proof (enc_bounds lo Hlo). pose proof (enc_bounds hi Hhi).
    destruct (Nat.ltb gens 128) eqn:G.
    + apply Nat.ltb_lt in G. replace (Nat.leb 128 gens) with false by (symmetry; apply Nat.leb_gt; lia).
      cbn [is_ok]. rewrite andb_false_r. reflexivity.
    + apply Nat.ltb_ge in G. replace (Nat.leb 128 gens) with true by (symmetry; apply Nat.leb_le; lia).
      cbn [andb].
      match goal with |- is_ok (if ?c then _ else _) = ?rhs =>
        destruct c eqn:V; cbn [is_ok]; destruct rhs eqn:Rh; try reflexivity; exfalso end.
      * apply range_verifies_iff in V; try assumption.
        apply andb_false_iff in Rh as [Rh|Rh].
        -- assert (X : (encode lo <=? encode v)%N && (encode v <? encode hi)%N = true)
             by (apply holds_range_Z; lia). congruence.
        -- apply andb_false_iff in Rh as [Rh|Rh]; [apply Z.ltb_ge in Rh|apply Z.leb_gt in Rh]; lia.
      * apply andb_true_iff in Rh as [R1 R2]. apply holds_range_Z in R1.
        apply andb_true_iff in R2 as [R2 R3]. apply Z.ltb_lt in R2. apply Z.leb_le in R3.
        assert (range_verifies r (Z.of_N (encode v)) (Z.of_N (encode lo)) (Z.of_N (encode hi)) = true)
          by (apply range_verifies_iff; try assumption; lia). congruence.
  - destruct (Nat.ltb gens (padded_len (length set))) eqn:G.
    + apply Nat.ltb_lt in G.
      replace (Nat.leb (padded_len (length set)) gens) with false by (symmetry; apply Nat.leb_gt; lia).
      rewrite andb_false_r. reflexivity.
    + apply Nat.ltb_ge in G.
      replace (Nat.leb (padded_len (length set)) gens) with true by (symmetry; apply Nat.leb_le; lia).
      rewrite andb_true_r. destruct (mem_enc (encode v) set); reflexivity.
  - destruct (Nat.ltb gens (padded_len (length set))) eqn:G.
    + apply Nat.ltb_lt in G.
      replace (Nat.leb (padded_len (length set)) gens) with false by (symmetry; apply Nat.leb_gt; lia).
      cbn [andb]. rewrite andb_false_r. reflexivity.
    + apply Nat.ltb_ge in G.
      replace (Nat.leb (padded_len (length set)) gens) with true by (symmetry; apply Nat.leb_le; lia).
      cbn [andb]. destruct (mem_enc (encode v) set); cbn [negb andb]; [reflexivity|].
      destruct set; reflexivity.
  - destruct (encode w =? encode v)%N; reflexivity.
Qed.

Lemma lookup_wf al t v : wf_alist al = true -> lookup t al = Some v -> wf_attr v = true.
Proof.
  induction al as [|[t' a] al IH]; cbn [lookup wf_alist forallb snd]; intros W E; [discriminate|].
  apply andb_true_iff in W as [Wa Wal]. destruct (t' =? t)%N.
  - injection E as <-. exact Wa.
  - apply IH; assumption.
Qed.

Theorem accepts_exact : forall r gens al s,
  2 ^ 254 < r -> wf_alist al = true -> wf_stmt s = true ->
  accepts r gens al s = holds al s && supported_al gens al s.
Proof.
  intros r gens al s Hr Wal Ws. unfold accepts, outcome_of, holds, supported_al.
  destruct (lookup (stmt_tag s) al) as [v|] eqn:E; [|reflexivity].
  apply outcome_value_exact; auto. eapply lookup_wf; eauto.
Qed.

(** never a verifying honest proof for a false statement *)
Corollary accepts_implies_holds : forall r gens al s,
  2 ^ 254 < r -> wf_alist al = true -> wf_stmt s = true ->
  accepts r gens al s = true -> holds al s = true.
Proof. intros r gens al s Hr Wal Ws A. rewrite accepts_exact in A by assumption.
  apply andb_true_iff in A. tauto. Qed.

Corollary prove_iff_true_supported : forall r gens al s,
  2 ^ 254 < r -> wf_alist al = true -> wf_stmt s = true -> supported_al gens al s = true ->
  (accepts r gens al s = true <-> holds al s = true).
Proof. intros r gens al s Hr Wal Ws S. rewrite accepts_exact, S, andb_true_r by assumption. tauto. Qed.

Corollary prove_all_iff_true_supported : forall r gens al ss,
  2 ^ 254 < r -> wf_alist al = true -> forallb wf_stmt ss = true ->
  forallb (supported_al gens al) ss = true ->
  (accepts_all r gens al ss = true <-> all_hold al ss = true).
Proof.
  intros r gens al ss Hr Wal. unfold accepts_all, all_hold. induction ss as [|s ss IH]; cbn [forallb].
  - tauto.
  - rewrite !andb_true_iff. intros [Ws Wss] [S Sss].
    rewrite (prove_iff_true_supported r gens al s Hr Wal Ws S). specialize (IH Wss Sss). tauto.
Qed.

(** the honest prover refuses (None) only false or unsupported statements, and whenever it refuses
    or the proof is about other values, the whole statement list yields no verifying proof *)
Lemma refuse_not_accept r gens al s : outcome_of r gens al s = Refuse -> accepts r gens al s = false.
Proof. unfold accepts. intros ->. reflexivity. Qed.

(** Numeric / Timestamp-only statements: the range side conditions hold automatically *)
Definition is_u64_attr (a : attr) : bool :=
  match a with AStr _ => false | ANum n | ATime n => (n <? 2 ^ 64)%N end.

Lemma u64_attr_bound a : is_u64_attr a = true -> 0 <= Z.of_N (encode a) < W64.
Proof.
  destruct a as [x|n|n]; cbn [is_u64_attr encode]; [discriminate| |]; intros H; apply N.ltb_lt in H;
    (split; [lia|]); change W64 with (Z.of_N (2 ^ 64)); lia.
Qed.

Theorem range_numeric_exact : forall r gens t v lo hi,
  2 ^ 254 < r -> (128 <= gens)%nat ->
  is_u64_attr v = true -> is_u64_attr lo = true -> is_u64_attr hi = true ->
  (is_ok (prover_outcome r gens v (SRange t lo hi)) = true
   <-> (encode lo <= encode v < encode hi)%N).
Proof.
  intros r gens t v lo hi Hr Hg Hv Hlo Hhi. cbn [prover_outcome].
  replace (Nat.ltb gens 128) with false by (symmetry; apply Nat.ltb_ge; lia).
  pose proof (u64_attr_bound v Hv). pose proof (u64_attr_bound lo Hlo). pose proof (u64_attr_bound hi Hhi).
  destruct (range_verifies r _ _ _) eqn:V; cbn [is_ok].
  - apply range_verifies_u64 in V; try assumption. split; [intros _; lia|reflexivity].
  - split; [discriminate|]. intros Hh. exfalso.
    assert (range_verifies r (Z.of_N (encode v)) (Z.of_N (encode lo)) (Z.of_N (encode hi)) = true)
      by (apply range_verifies_u64; try assumption; lia). congruence.
Qed.

(** ** boundaries *)
Theorem range_boundaries_numeric : forall r gens t a b,
  2 ^ 254 < r -> (128 <= gens)%nat -> (a < 2 ^ 64)%N -> (b < 2 ^ 64)%N ->
  let ok v := is_ok (prover_outcome r gens (ANum v) (SRange t (ANum a) (ANum b))) in
  ((a < b)%N -> ok a = true /\ ok (b - 1)%N = true)
  /\ ok b = false
  /\ ((0 < a)%N -> ok (a - 1)%N = false)
  /\ ((b <= a)%N -> forall v, (v < 2 ^ 64)%N -> ok v = false).
Proof.
  intros r gens t a b Hr Hg Ha Hb ok.
  assert (U : forall v, (v < 2 ^ 64)%N ->
            (ok v = true <-> (a <= v < b)%N)).
  { intros v Hv. unfold ok. rewrite range_numeric_exact; cbn [is_u64_attr encode]; try assumption;
      try (apply N.ltb_lt; assumption). tauto. }
  assert (F : forall v, (v < 2 ^ 64)%N -> ~ (a <= v < b)%N -> ok v = false).
  { intros v Hv Hn. destruct (ok v) eqn:E; [|reflexivity]. apply U in E; tauto. }
  repeat split.
  - apply U; lia.
  - apply U; lia.
  - apply F; lia.
  - intros H0. apply F; lia.
  - intros Hba v Hv. apply F; lia.
Qed.

Theorem set_boundaries : forall r gens t v,
  (1 <= gens)%nat ->
  (* empty sets: membership is false and refused; non-membership is TRUE but refused *)
  prover_outcome r gens v (SInSet t []) = Refuse
  /\ holds_value v (SInSet t []) = false
  /\ prover_outcome r gens v (SNotInSet t []) = Refuse
  /\ holds_value v (SNotInSet t []) = true
  (* singleton sets *)
  /\ (forall x, is_ok (prover_outcome r gens v (SInSet t [x])) = (encode x =? encode v)%N)
  /\ (forall x, is_ok (prover_outcome r gens v (SNotInSet t [x])) = negb (encode x =? encode v)%N).
Proof.
  intros r gens t v Hg. repeat split; try reflexivity.
  - intros x. cbn [prover_outcome length padded_len next_pow2_from Nat.leb].
    replace (Nat.ltb gens 1) with false by (symmetry; apply Nat.ltb_ge; lia).
    cbn [mem_enc existsb]. rewrite orb_false_r. destruct (encode x =? encode v)%N; reflexivity.
  - intros x. cbn [prover_outcome length padded_len next_pow2_from Nat.leb].
    replace (Nat.ltb gens 1) with false by (symmetry; apply Nat.ltb_ge; lia).
    cbn [mem_enc existsb]. rewrite orb_false_r. destruct (encode x =? encode v)%N; reflexivity.
Qed.

(** ** the completeness gaps of the implementation, as witnesses (replayed on the real code) *)
Definition gap_witness_empty_set : alist * stmt := ([(0%N, ANum 5)], SNotInSet 0 []).
Definition str16 (c : N) : attr := AStr (repeat c 16).
Definition gap_witness_wide_range : alist * stmt :=
  ([(0%N, str16 98)], SRange 0 (str16 97) (str16 99)).

Theorem prove_iff_true_refuted :
  (let (al, s) := gap_witness_empty_set in
   wf_alist al = true /\ wf_stmt s = true /\ holds al s = true /\ outcome_of R_BLS 256 al s = Refuse)
  /\ (let (al, s) := gap_witness_wide_range in
   wf_alist al = true /\ wf_stmt s = true /\ holds al s = true /\ outcome_of R_BLS 256 al s = ProofBad).
Proof. split; vm_compute; repeat split; reflexivity. Qed.

(** * padding *)
Lemma next_pow2_from_ge fuel k n : (n <= k * 2 ^ fuel)%nat -> (n <= next_pow2_from fuel k n)%nat.
Proof.
  revert k. induction fuel as [|f IH]; intros k H; cbn [next_pow2_from].
  - destruct (Nat.leb n k) eqn:E; [apply Nat.leb_le in E; exact E|]. simpl in H. lia.
  - destruct (Nat.leb n k) eqn:E; [apply Nat.leb_le in E; exact E|].
    apply IH. rewrite Nat.pow_succ_r' in H. lia.
Qed.

Lemma pow2_gt n : (n < 2 ^ n)%nat.
Proof. induction n; simpl; lia. Qed.

Lemma padded_len_ge n : (n <= padded_len n)%nat.
Proof.
  destruct n as [|n]; [simpl; lia|]. unfold padded_len. apply next_pow2_from_ge.
  pose proof (pow2_gt (S n)). lia.
Qed.

Lemma last_In {A} (l : list A) d : l <> [] -> In (last l d) l.
Proof.
  induction l as [|a l IH]; [congruence|]. intros _. destruct l as [|b l].
  - left; reflexivity.
  - right. apply IH. discriminate.
Qed.

Lemma pad_pow2_In {A} (l : list A) v : In v (pad_pow2 l) <-> In v l.
Proof.
  destruct l as [|x l]; [simpl; tauto|]. unfold pad_pow2. rewrite in_app_iff. split.
  - intros [H|H]; [exact H|]. apply repeat_spec in H. subst v. apply last_In. discriminate.
  - intros H. left; exact H.
Qed.

(** padding does not change (non-)membership of a scalar *)
Theorem pad_preserves_mem : forall v set, mem_enc v (pad_pow2 set) = mem_enc v set.
Proof.
  intros v set. destruct (mem_enc v set) eqn:E.
  - apply mem_enc_spec in E as [x [Hi He]]. apply mem_enc_spec. exists x. split; [|exact He].
    apply pad_pow2_In; exact Hi.
  - destruct (mem_enc v (pad_pow2 set)) eqn:E'; [|reflexivity].
    apply mem_enc_spec in E' as [x [Hi He]]. apply (proj1 (pad_pow2_In _ _)) in Hi.
    assert (mem_enc v set = true) by (apply mem_enc_spec; exists x; split; assumption). congruence.
Qed.

(** * framing: fixed-schema transcripts are prefix-free in their message bodies *)
Local Open Scope N_scope.

(** [x] and [y] come from one prefix-free code: if one is a prefix of the other they are equal *)
Definition pf_rel (x y : list N) : Prop := forall r1 r2, x ++ r1 = y ++ r2 -> x = y.

Lemma app_eq_same_prefix {A} (p a b : list A) : p ++ a = p ++ b -> a = b.
Proof. apply app_inv_head. Qed.

Lemma frame_fixed_inj (frame_item : item -> list N)
  (Hitem : forall i j r1 r2, i_label i = i_label j -> pf_rel (i_body i) (i_body j) ->
           frame_item i ++ r1 = frame_item j ++ r2 -> i_body i = i_body j /\ r1 = r2) :
  forall l1 l2 t1 t2,
    Forall2 (fun i j => i_label i = i_label j /\ pf_rel (i_body i) (i_body j)) l1 l2 ->
    concat (map frame_item l1) ++ t1 = concat (map frame_item l2) ++ t2 ->
    map i_body l1 = map i_body l2 /\ t1 = t2.
Proof.
  intros l1 l2 t1 t2 F. induction F as [|i j l1 l2 [Hl Hp] F IH]; cbn [map concat]; intros E.
  - simpl in E. auto.
  - rewrite <- !app_assoc in E. destruct (Hitem _ _ _ _ Hl Hp E) as [Hb E'].
    destruct (IH E') as [Hm Ht]. split; [f_equal; assumption|exact Ht].
Qed.

Lemma frame_item_v1_inj i j r1 r2 : i_label i = i_label j -> pf_rel (i_body i) (i_body j) ->
  frame_item_v1 i ++ r1 = frame_item_v1 j ++ r2 -> i_body i = i_body j /\ r1 = r2.
Proof.
  unfold frame_item_v1, len64. intros Hl Hp E. rewrite Hl in E. rewrite <- !app_assoc in E.
  apply app_inv_head in E. apply app_inv_head in E.
  pose proof (Hp _ _ E) as Hb. split; [exact Hb|]. rewrite Hb in E. apply app_inv_head in E. exact E.
Qed.

Lemma frame_item_v0_inj i j r1 r2 : i_label i = i_label j -> pf_rel (i_body i) (i_body j) ->
  frame_item_v0 i ++ r1 = frame_item_v0 j ++ r2 -> i_body i = i_body j /\ r1 = r2.
Proof.
  unfold frame_item_v0. intros Hl Hp E. rewrite Hl in E. rewrite <- !app_assoc in E.
  apply app_inv_head in E.
  pose proof (Hp _ _ E) as Hb. split; [exact Hb|]. rewrite Hb in E. apply app_inv_head in E. exact E.
Qed.

Theorem frame_v1_fixed_schema_injective : forall l1 l2 t1 t2,
  Forall2 (fun i j => i_label i = i_label j /\ pf_rel (i_body i) (i_body j)) l1 l2 ->
  frame_v1 l1 ++ t1 = frame_v1 l2 ++ t2 -> map i_body l1 = map i_body l2 /\ t1 = t2.
Proof. unfold frame_v1. apply frame_fixed_inj. exact frame_item_v1_inj. Qed.

Theorem frame_v0_fixed_schema_injective : forall l1 l2 t1 t2,
  Forall2 (fun i j => i_label i = i_label j /\ pf_rel (i_body i) (i_body j)) l1 l2 ->
  frame_v0 l1 ++ t1 = frame_v0 l2 ++ t2 -> map i_body l1 = map i_body l2 /\ t1 = t2.
Proof. unfold frame_v0. apply frame_fixed_inj. exact frame_item_v0_inj. Qed.

Lemma pf_rel_nil : pf_rel [] [].
Proof. intros r1 r2 _. reflexivity. Qed.

(** fixed-width fields are prefix-free *)
Lemma pf_rel_same_length x y : length x = length y -> pf_rel x y.
Proof.
  revert y. induction x as [|a x IH]; intros [|b y] Hl r1 r2 E; simpl in Hl; try discriminate.
  - reflexivity.
  - injection Hl as Hl. simpl in E. injection E as -> E. f_equal. eapply IH; eauto.
Qed.

(** * binding of request / presentation fields into the Fiat-Shamir transcript *)

(** an injective, prefix-free encoder (what a [Serial] instance with fixed-width or
    length-prefixed fields is) *)
Definition prefix_code {A} (e : A -> list N) : Prop :=
  forall x y r1 r2, e x ++ r1 = e y ++ r2 -> x = y.

Lemma prefix_code_pf {A} (e : A -> list N) : prefix_code e -> forall x y, pf_rel (e x) (e y).
Proof. intros P x y r1 r2 E. rewrite (P x y r1 r2 E). reflexivity. Qed.

Lemma prefix_code_inj {A} (e : A -> list N) : prefix_code e -> forall x y, e x = e y -> x = y.
Proof. intros P x y E. apply (P x y [] []). rewrite E. reflexivity. Qed.

Ltac schema_forall2 :=
  repeat (first [ apply Forall2_nil
                | apply Forall2_cons; [split; [reflexivity|]|] ]).

Section Binding.
  Variable H : list N -> list N.
  Variables Given Requested Global PV Time Issuer Stmts Net CredId Chal : Type.
  Variable e_given : Given -> list N.
  Variable e_requested : Requested -> list N.
  Variable e_global : Global -> list N.
  Variable e_pv : PV -> list N.
  Variable e_time : Time -> list N.
  Variable e_issuer : Issuer -> list N.
  Variable e_stmts : Stmts -> list N.
  Variable e_net : Net -> list N.
  Variable e_credid : CredId -> list N.
  Hypothesis P_given : prefix_code e_given.
  Hypothesis P_requested : prefix_code e_requested.
  Hypothesis P_global : prefix_code e_global.
  Hypothesis P_pv : prefix_code e_pv.
  Hypothesis P_time : prefix_code e_time.
  Hypothesis P_issuer : prefix_code e_issuer.
  Hypothesis P_stmts : prefix_code e_stmts.
  Hypothesis P_net : prefix_code e_net.
  Hypothesis P_credid : prefix_code e_credid.

  (** the public data of one v1 account-credential proof: request context, global context,
      proof metadata, issuer, the statements, network and credential id *)
  Record v1_account_req := {
    q_given : Given; q_requested : Requested; q_global : Global; q_pv : PV; q_created : Time;
    q_issuer : Issuer; q_stmts : Stmts; q_net : Net; q_credid : CredId }.

  Definition v1_account_items_of (q : v1_account_req) : list item :=
    v1_header (e_given (q_given q)) (e_requested (q_requested q)) (e_global (q_global q))
    ++ v1_credential_prefix (e_pv (q_pv q)) (e_time (q_created q))
    ++ v1_account (e_issuer (q_issuer q)) (e_stmts (q_stmts q)) (e_net (q_net q)) (e_credid (q_credid q)).
  Definition v1_account_transcript (q : v1_account_req) : list N := frame_v1 (v1_account_items_of q).

  Theorem v1_account_transcript_injective : forall q q' t t',
    v1_account_transcript q ++ t = v1_account_transcript q' ++ t' -> q = q' /\ t = t'.
  Proof.
    intros q q' t t' E. unfold v1_account_transcript in E.
    apply frame_v1_fixed_schema_injective in E.
    - destruct E as [Hb Ht]. split; [|exact Ht].
      destruct q, q'. cbn in Hb.
      repeat match goal with
             | Hb : _ :: _ = _ :: _ |- _ => injection Hb; clear Hb; intros
             end.
      repeat match goal with
             | Hx : ?e ?x = ?e ?y |- _ =>
                 first [ apply (prefix_code_inj e_given P_given) in Hx
                       | apply (prefix_code_inj e_requested P_requested) in Hx
                       | apply (prefix_code_inj e_global P_global) in Hx
                       | apply (prefix_code_inj e_pv P_pv) in Hx
                       | apply (prefix_code_inj e_time P_time) in Hx
                       | apply (prefix_code_inj e_issuer P_issuer) in Hx
                       | apply (prefix_code_inj e_stmts P_stmts) in Hx
                       | apply (prefix_code_inj e_net P_net) in Hx
                       | apply (prefix_code_inj e_credid P_credid) in Hx ]; subst
             end.
      reflexivity.
    - unfold v1_account_items_of, v1_header, v1_credential_prefix, v1_account, L, M. cbn [app].
      schema_forall2; cbn [i_body]; first [apply pf_rel_nil | apply prefix_code_pf; assumption].
  Qed.

  (** accept-after-alter: one proof (one continuation, one challenge) accepted for two different
      requests exhibits an explicit collision of the transcript hash *)
  Theorem v1_account_alter_collision : forall q q' t t',
    q <> q' -> H (v1_account_transcript q ++ t) = H (v1_account_transcript q' ++ t') ->
    exists x y, x <> y /\ H x = H y.
  Proof.
    intros q q' t t' Hne E. exists (v1_account_transcript q ++ t), (v1_account_transcript q' ++ t').
    split; [|exact E]. intros Eq. apply v1_account_transcript_injective in Eq. tauto.
  Qed.

  (** id-level statements (legacy framing): global context, challenge, credential id.  The
      challenge is absorbed raw, so it is bound among challenges of one length. *)
  Variable e_chal : Chal -> list N.
  Hypothesis P_chal_inj : forall x y, e_chal x = e_chal y -> x = y.
  Hypothesis P_chal_len : forall x y, length (e_chal x) = length (e_chal y).

  Definition id_transcript (g : Global) (c : Chal) (cred : CredId) : list N :=
    frame_v0 (id_header (e_global g) (e_chal c) (e_credid cred)).

  Theorem id_transcript_injective : forall g c cred g' c' cred' t t',
    id_transcript g c cred ++ t = id_transcript g' c' cred' ++ t' ->
    g = g' /\ c = c' /\ cred = cred' /\ t = t'.
  Proof.
    intros g c cred g' c' cred' t t' E. unfold id_transcript in E.
    apply frame_v0_fixed_schema_injective in E.
    - destruct E as [Hb Ht]. cbn in Hb. injection Hb as Hg Hc Hcr.
      apply (prefix_code_inj e_global P_global) in Hg. apply P_chal_inj in Hc.
      apply (prefix_code_inj e_credid P_credid) in Hcr. auto.
    - unfold id_header, M, Raw. schema_forall2; cbn [i_body];
        first [apply pf_rel_nil | apply prefix_code_pf; assumption | apply pf_rel_same_length; apply P_chal_len].
  Qed.

  Definition web3_v0_transcript (c : Chal) (g : Global) : list N :=
    frame_v0 (web3_v0_header (e_chal c) (e_global g)).

  Theorem web3_v0_transcript_injective : forall g c g' c' t t',
    web3_v0_transcript c g ++ t = web3_v0_transcript c' g' ++ t' -> g = g' /\ c = c' /\ t = t'.
  Proof.
    intros g c g' c' t t' E. unfold web3_v0_transcript in E.
    apply frame_v0_fixed_schema_injective in E.
    - destruct E as [Hb Ht]. cbn in Hb. injection Hb as Hc Hg.
      apply (prefix_code_inj e_global P_global) in Hg. apply P_chal_inj in Hc. auto.
    - unfold web3_v0_header, M, Raw. schema_forall2; cbn [i_body];
        first [apply pf_rel_nil | apply prefix_code_pf; assumption | apply pf_rel_same_length; apply P_chal_len].
  Qed.

  (** ** the linking message *)
  Variable H512 : list N -> list N.
  Variable Proofs : Type.
  Variable e_proofs : Proofs -> list N.
  Hypothesis P_proofs : prefix_code e_proofs.

  Definition linking_msg (c : Chal) (p : Proofs) : list N := linking_message H512 (e_chal c) (e_proofs p).

  Lemma app_same_length_inv {A} (a b c d : list A) : length a = length c -> a ++ b = c ++ d -> a = c /\ b = d.
  Proof.
    revert c. induction a as [|x a IH]; intros [|y c] Hl E; simpl in Hl; try discriminate.
    - auto.
    - injection Hl as Hl. simpl in E. injection E as -> E. destruct (IH c Hl E) as [-> ->]. auto.
  Qed.

  (** the signed message determines challenge and presentation body, or exhibits a SHA-512 collision *)
  Theorem linking_msg_injective : forall c p c' p',
    linking_msg c p = linking_msg c' p' ->
    (c = c' /\ p = p') \/ (exists x y, x <> y /\ H512 x = H512 y).
  Proof.
    intros c p c' p' E. unfold linking_msg, linking_message in E. apply app_inv_head in E.
    destruct (list_eq_dec N.eq_dec (e_chal c ++ e_proofs p) (e_chal c' ++ e_proofs p')) as [Eq|Ne].
    - left. apply app_same_length_inv in Eq; [|apply P_chal_len]. destruct Eq as [Ec Ep].
      split; [apply P_chal_inj; exact Ec|apply (prefix_code_inj e_proofs P_proofs); exact Ep].
    - right. eauto.
  Qed.
End Binding.

(** * completeness of a whole statement proof, relative to the sub-protocols' completeness
    (C07: dlog; C11: range proof for values in [0,2^64), set (non-)membership) *)
Section Completeness.
  Local Open Scope Z_scope.
  Variable r : Z.
  Variable gens : nat.
  (** [sub_verifies s v]: the real sub-protocol verifier accepts the honest sub-proof for
      statement [s] on the committed value [v], in the same transcript state *)
  Variable sub_verifies : stmt -> attr -> bool.
  Hypothesis dlog_complete : forall t v, sub_verifies (SReveal t) v = true.
  Hypothesis dlog_value_complete : forall t w v, encode w = encode v -> sub_verifies (SValue t w) v = true.
  Hypothesis range_complete : forall t lo hi v,
    range_scalars_ok r (Z.of_N (encode v)) (Z.of_N (encode lo)) (Z.of_N (encode hi)) = true ->
    sub_verifies (SRange t lo hi) v = true.
  Hypothesis set_member_complete : forall t set v,
    set <> [] -> (padded_len (length set) <= gens)%nat -> mem_enc (encode v) (pad_pow2 set) = true ->
    sub_verifies (SInSet t set) v = true.
  Hypothesis set_nonmember_complete : forall t set v,
    set <> [] -> (padded_len (length set) <= gens)%nat -> mem_enc (encode v) (pad_pow2 set) = false ->
    sub_verifies (SNotInSet t set) v = true.

  (** what the verifier checks for one statement: the commitment for the tag exists and the
      sub-proof verifies; a reveal proof carries the attribute value itself *)
  Definition verify_model (al : alist) (s : stmt) : bool :=
    match lookup (stmt_tag s) al with None => false | Some v => sub_verifies s v end.
  Definition revealed (al : alist) (s : stmt) : option attr :=
    match s with SReveal t => lookup t al | _ => None end.

  Theorem statement_complete_rel : forall al s, 0 < r ->
    accepts r gens al s = true ->
    verify_model al s = true
    /\ (forall t, s = SReveal t -> exists v, revealed al s = Some v /\ lookup t al = Some v).
  Proof.
    intros al s Hr A. unfold accepts, outcome_of, verify_model in *.
    destruct (lookup (stmt_tag s) al) as [v|] eqn:E; [|discriminate]. split.
    - destruct s as [t|t lo hi|t set|t set|t w]; cbn [prover_outcome] in A.
      + apply dlog_complete.
      + destruct (Nat.ltb gens 128); [discriminate|].
        destruct (range_verifies r _ _ _) eqn:V; [|discriminate].
        apply range_complete. rewrite <- range_verifies_eq_ok by exact Hr. exact V.
      + destruct (Nat.ltb gens (padded_len (length set))) eqn:G; [discriminate|].
        destruct (mem_enc (encode v) set) eqn:Mm; [|discriminate].
        apply set_member_complete.
        * intros ->. discriminate Mm.
        * apply Nat.ltb_ge in G. exact G.
        * rewrite pad_preserves_mem. exact Mm.
      + destruct (Nat.ltb gens (padded_len (length set))) eqn:G; [discriminate|].
        destruct (mem_enc (encode v) set) eqn:Mm; [discriminate|].
        destruct set as [|x set]; [discriminate|].
        apply set_nonmember_complete.
        * discriminate.
        * apply Nat.ltb_ge in G. exact G.
        * rewrite pad_preserves_mem. exact Mm.
      + destruct (encode w =? encode v)%N eqn:Q; [|discriminate].
        apply dlog_value_complete. apply N.eqb_eq. exact Q.
    - intros t ->. cbn [stmt_tag] in E. exists v. cbn [revealed]. auto.
  Qed.
End Completeness.

(** * request-anchor claim matching *)
Lemma kind_eqb_eq a b : kind_eqb a b = true <-> a = b.
Proof. destruct a, b; simpl; split; congruence. Qed.

Lemma stmts_eqb_eq a b : stmts_eqb a b = true <-> a = b.
Proof. unfold stmts_eqb. destruct (list_eq_dec stmt_eq_dec a b); split; congruence. Qed.

Lemma issuer_allowed_spec rq pc : issuer_allowed rq pc = true <->
  exists d, In d (rq_issuers rq) /\ did_ip d = pc_issuer pc /\ did_net d = pc_net pc.
Proof.
  unfold issuer_allowed. rewrite existsb_exists. split; intros [d [Hi H]]; exists d; split; auto.
  - apply andb_true_iff in H. rewrite !N.eqb_eq in H. exact H.
  - apply andb_true_iff. rewrite !N.eqb_eq. exact H.
Qed.

Theorem claims_match_ok_iff_ : forall rq pc,
  claims_match rq pc = MOk <->
  (In (pc_kind pc) (rq_source rq)
   /\ (exists d, In d (rq_issuers rq) /\ did_ip d = pc_issuer pc /\ did_net d = pc_net pc)
   /\ map to_requested (pc_stmts pc) = rq_stmts rq).
Proof.
  intros rq pc. unfold claims_match.
  destruct (existsb (kind_eqb (pc_kind pc)) (rq_source rq)) eqn:K; cbn [negb].
  2:{ split; [discriminate|]. intros [Hk _]. exfalso.
      assert (existsb (kind_eqb (pc_kind pc)) (rq_source rq) = true)
        by (apply existsb_exists; exists (pc_kind pc); split; [exact Hk|apply kind_eqb_eq; reflexivity]).
      congruence. }
  apply existsb_exists in K as [k [Hk Ek]]. apply kind_eqb_eq in Ek. subst k.
  destruct (issuer_allowed rq pc) eqn:I; cbn [negb].
  2:{ split; [discriminate|]. intros [_ [Hi _]]. apply issuer_allowed_spec in Hi. congruence. }
  apply issuer_allowed_spec in I.
  destruct (stmts_eqb (map to_requested (pc_stmts pc)) (rq_stmts rq)) eqn:S; cbn [negb].
  - apply stmts_eqb_eq in S. tauto.
  - split; [discriminate|]. intros [_ [_ Hs]]. apply stmts_eqb_eq in Hs. congruence.
Qed.

(** entry-wise matching implies field-wise matching, but not conversely: with the allowed issuers
    (IP 0, Mainnet) and (IP 1, Testnet) a Testnet credential of IP 0 passes the field-wise test *)
Theorem issuer_allowed_fieldwise_weaker_ :
  (forall rq pc, issuer_allowed rq pc = true -> issuer_allowed_fieldwise rq pc = true)
  /\ (exists rq pc, issuer_allowed_fieldwise rq pc = true /\ issuer_allowed rq pc = false
                    /\ claims_match rq pc = MFailIssuer).
Proof.
  split.
  - intros rq pc H. apply issuer_allowed_spec in H as [d [Hi [E1 E2]]]. unfold issuer_allowed_fieldwise.
    apply andb_true_iff. split; apply existsb_exists; exists d; split; auto; apply N.eqb_eq; assumption.
  - exists (ReqClaims [] [Did 0 1; Did 1 0] [KAccount]), (PresClaims KAccount 0 0 []).
    repeat split; reflexivity.
Qed.

Theorem claims_list_match_ok_iff_ : forall rqs pcs,
  claims_list_match rqs pcs = MOk <-> Forall2 (fun rq pc => claims_match rq pc = MOk) rqs pcs.
Proof.
  intros rqs pcs. revert rqs. induction pcs as [|pc pcs IH]; intros [|rq rqs]; cbn [claims_list_match].
  - split; [constructor|reflexivity].
  - split; [discriminate|intros H; inversion H].
  - split; [discriminate|intros H; inversion H].
  - destruct (claims_match rq pc) eqn:E.
    + rewrite IH. split; [intros H; constructor; assumption|intros H; inversion H; assumption].
    + split; [discriminate|intros H; inversion H; congruence].
    + split; [discriminate|intros H; inversion H; congruence].
    + split; [discriminate|intros H; inversion H; congruence].
Qed.

(** * validity of every credential *)
Theorem all_valid_at_iff_ : forall now vs,
  all_valid_at now vs = true <-> Forall (fun v => fst v <= now < snd v) vs.
Proof.
  intros now vs. unfold all_valid_at. rewrite forallb_forall, Forall_forall.
  split; intros H v Hv; specialize (H v Hv); unfold valid_at in *.
  - apply andb_true_iff in H. rewrite N.leb_le, N.ltb_lt in H. exact H.
  - apply andb_true_iff. rewrite N.leb_le, N.ltb_lt. exact H.
Qed.

Theorem all_valid_not_last_only_ :
  (forall now vs, all_valid_at now vs = true -> last_valid_at now vs = true)
  /\ (exists now vs, last_valid_at now vs = true /\ all_valid_at now vs = false).
Proof.
  split.
  - intros now vs H. unfold last_valid_at. destruct (rev vs) as [|v l] eqn:E; [reflexivity|].
    unfold all_valid_at in H. rewrite forallb_forall in H. apply H.
    apply in_rev. rewrite E. left. reflexivity.
  - exists 5, [(7, 9); (0, 9)]. split; reflexivity.
Qed.

(** * identity attribute credentials: threshold = number of sharing coefficients *)
Theorem identity_attributes_threshold_exact_ : forall ip t n sg,
  identity_attributes_verdict ip t n sg = IAOk <-> (ip = true /\ t = n /\ sg = true).
Proof.
  intros ip t n sg. unfold identity_attributes_verdict.
  destruct ip; cbn [negb]; [|split; [discriminate|intros [E _]; discriminate]].
  destruct (t =? n) eqn:E; cbn [negb].
  - apply N.eqb_eq in E. destruct sg; cbn [negb]; split; try discriminate; try tauto.
    intros [_ [_ X]]; discriminate.
  - apply N.eqb_neq in E. split; [discriminate|]. intros [_ [X _]]. contradiction.
Qed.

Theorem threshold_check_gt_weaker_ :
  (forall t n, (t =? n) = true -> threshold_check_gt t n = true)
  /\ (exists t n, threshold_check_gt t n = true /\ t <> n
                  /\ identity_attributes_verdict true t n true = IAFailAr).
Proof.
  split.
  - intros t n E. apply N.eqb_eq in E. subst. unfold threshold_check_gt. rewrite N.ltb_irrefl. reflexivity.
  - exists 2, 3. repeat split; try reflexivity. discriminate.
Qed.
