(** C11 - the results of [BpProofs.v] restated over one bundle of laws ([bp_laws]): every theorem is
    "for all carriers and operations satisfying the commutative-ring / module laws".             *)
From Coq Require Import List Ring ZArith Bool Lia.
From Coq Require Import InitialRing.
From CB Require Import Crypto.BpAlg Crypto.Ipa Crypto.RangeProof Crypto.SetProof Crypto.RangeStmt Crypto.BpProofs Crypto.BpExtras.
Import ListNotations.

Record bp_laws (Ops : bp_ops) : Prop := mkLaws {
  l_ring : ring_theory (o_f0 Ops) (o_f1 Ops) (o_fadd Ops) (o_fmul Ops) (o_fsub Ops) (o_fopp Ops) (@eq (o_F Ops));
  l_gadd_assoc : forall x y z, o_gadd Ops x (o_gadd Ops y z) = o_gadd Ops (o_gadd Ops x y) z;
  l_gadd_comm : forall x y, o_gadd Ops x y = o_gadd Ops y x;
  l_gadd_0_l : forall x, o_gadd Ops (o_g0 Ops) x = x;
  l_gadd_opp : forall x, o_gadd Ops x (o_gopp Ops x) = o_g0 Ops;
  l_smul_add_r : forall c x y, o_smul Ops c (o_gadd Ops x y) = o_gadd Ops (o_smul Ops c x) (o_smul Ops c y);
  l_smul_add_l : forall c d x, o_smul Ops (o_fadd Ops c d) x = o_gadd Ops (o_smul Ops c x) (o_smul Ops d x);
  l_smul_mul : forall c d x, o_smul Ops (o_fmul Ops c d) x = o_smul Ops c (o_smul Ops d x);
  l_smul_1 : forall x, o_smul Ops (o_f1 Ops) x = x;
  l_feqb : forall a b, o_feqb Ops a b = true <-> a = b;
  l_geqb : forall a b, o_geqb Ops a b = true <-> a = b }.

(** challenges paired with their inverses *)
Definition inv_ok (Ops : bp_ops) (us : list (o_F Ops * o_F Ops)) : Prop :=
  Forall (fun p => o_fmul Ops (fst p) (snd p) = o_f1 Ops) us.

(** P' = <a,G> + <b,H> + <a,b> Q *)
Definition ipa_statement (Ops : bp_ops) (a b : list (o_F Ops)) (Gs Hs : list (o_G Ops)) (Q : o_G Ops) : o_G Ops :=
  o_gadd Ops (o_gadd Ops (msum Ops a Gs) (msum Ops b Hs)) (o_smul Ops (dot Ops a b) Q).

(** Pedersen commitments  v B + r Bt *)
Definition commit (Ops : bp_ops) (B Bt : o_G Ops) (v r : o_F Ops) : o_G Ops :=
  o_gadd Ops (o_smul Ops v B) (o_smul Ops r Bt).
(** the scalar represented by the n low bits of v *)
Definition fval (Ops : bp_ops) (n : nat) (v : Z) : o_F Ops := dot Ops (fbits Ops v n) (two_n_vec Ops n).

Section Packaged.
  Variable Ops : bp_ops.
  Hypothesis L : bp_laws Ops.

  Theorem ipa_complete_l : forall us Gs Hs Q a b,
    inv_ok Ops us ->
    length a = Nat.pow 2 (length us) -> length b = Nat.pow 2 (length us) ->
    length Gs = Nat.pow 2 (length us) -> length Hs = Nat.pow 2 (length us) ->
    forall lr fa fb, ipa_prove Ops us Gs Hs Q a b = (lr, fa, fb) ->
    ipa_check Ops us Gs Hs Q (ipa_statement Ops a b Gs Hs Q) lr fa fb /\ length lr = length us.
  Proof. destruct L. intros. eapply ipa_prove_correct; eassumption. Qed.

  Theorem ipa_code_form_l : forall us c Gs Hs Q Xs eG eH eQ eX lr a b,
    length Gs = Nat.pow 2 (length us) -> length Hs = length Gs -> length c = length Gs ->
    length eG = length Gs -> length eH = length Gs ->
    (ipa_code_lhs Ops us c Gs Hs Q Xs eG eH eQ eX lr a b = o_g0 Ops
     <-> ipa_check Ops us Gs (gvmul Ops c Hs) Q
           (o_gadd Ops (o_gadd Ops (o_gadd Ops (msum Ops eG Gs) (msum Ops eH Hs)) (o_smul Ops eQ Q)) (msum Ops eX Xs))
           lr a b).
  Proof. destruct L. intros. eapply ipa_code_iff; eassumption. Qed.

  Theorem verdict_ok_iff_l : forall Gs Hs B Bt p Vterm delta eG eH y yi x w us,
    bp_verdict Ops Gs Hs B Bt p Vterm delta eG eH y yi x w us = VOk
    <-> (bp_accepts Ops Gs Hs B Bt p Vterm delta eG eH yi x w us
         /\ o_fmul Ops y yi = o_f1 Ops /\ inv_ok Ops us).
  Proof. destruct L. intros. eapply bp_verdict_ok_iff; eassumption. Qed.

  Theorem range_complete_p : forall n vs rs Gs Hs B Bt sL sR at_ st t1t t2t y yi z x w us,
    length rs = length vs ->
    length Gs = Nat.pow 2 (length us) -> length Gs = n * length vs -> length Hs = length Gs ->
    length sL = length Gs -> length sR = length Gs ->
    o_fmul Ops y yi = o_f1 Ops -> inv_ok Ops us ->
    range_verdict Ops n (vzip (commit Ops B Bt) (map (fval Ops n) vs) rs) Gs Hs B Bt
      (range_prove Ops n vs rs Gs Hs B Bt sL sR at_ st t1t t2t y yi z x w us) y yi z x w us = VOk.
  Proof.
    pose proof L as L'. destruct L'. intros. unfold range_verdict. apply verdict_ok_iff_l. split; [|split; assumption].
    eapply range_complete_l; eassumption.
  Qed.

  Theorem mem_complete_p : forall set v vr Gs Hs B Bt sL sR at_ st t1t t2t y yi z x w us,
    In v set ->
    length Gs = Nat.pow 2 (length us) -> length Gs = length (pad_pow2 set) -> length Hs = length Gs ->
    length sL = length Gs -> length sR = length Gs ->
    o_fmul Ops y yi = o_f1 Ops -> inv_ok Ops us ->
    exists p, mem_prove Ops set v vr Gs Hs B Bt sL sR at_ st t1t t2t y yi z x w us = Some p
      /\ mem_verdict Ops set (commit Ops B Bt v vr) Gs Hs B Bt p y yi z x w us = VOk.
  Proof.
    pose proof L as L'. destruct L'. intros set v vr Gs Hs B Bt sL sR at_ st t1t t2t y yi z x w us Hin.
    intros. destruct (proj2 (mem_prove_some_iff Ops l_feqb0 set v vr Gs Hs B Bt sL sR at_ st t1t t2t y yi z x w us) Hin) as [p E].
    exists p. split; [exact E|]. unfold mem_verdict. apply verdict_ok_iff_l. split; [|split; assumption].
    eapply mem_complete_l; eassumption.
  Qed.

  Theorem mem_no_proof_p : forall set v vr Gs Hs B Bt sL sR at_ st t1t t2t y yi z x w us,
    ~ In v set -> mem_prove Ops set v vr Gs Hs B Bt sL sR at_ st t1t t2t y yi z x w us = None.
  Proof.
    destruct L. intros set v vr Gs Hs B Bt sL sR at_ st t1t t2t y yi z x w us Hn.
    destruct (mem_prove Ops set v vr Gs Hs B Bt sL sR at_ st t1t t2t y yi z x w us) eqn:E; [|reflexivity].
    exfalso. apply Hn. eapply mem_prove_some_iff; eauto.
  Qed.

  Theorem nonmem_complete_p : forall set v vr invs Gs Hs B Bt sL sR at_ st t1t t2t y yi z x w us,
    ~ In v set ->
    Forall2 (fun si iv => o_fmul Ops (o_fsub Ops v si) iv = o_f1 Ops) (pad_pow2 set) invs ->
    length Gs = Nat.pow 2 (length us) -> length Gs = length (pad_pow2 set) -> length Hs = length Gs ->
    length sL = length Gs -> length sR = length Gs ->
    o_fmul Ops y yi = o_f1 Ops -> inv_ok Ops us ->
    exists p, nonmem_prove Ops set v vr invs Gs Hs B Bt sL sR at_ st t1t t2t y yi z x w us = Some p
      /\ nonmem_verdict Ops set (commit Ops B Bt v vr) Gs Hs B Bt p y yi z x w us = VOk.
  Proof.
    pose proof L as L'. destruct L'. intros set v vr invs Gs Hs B Bt sL sR at_ st t1t t2t y yi z x w us Hn.
    intros. destruct (proj2 (nonmem_prove_some_iff Ops l_feqb0 set v vr invs Gs Hs B Bt sL sR at_ st t1t t2t y yi z x w us) Hn) as [p E].
    exists p. split; [exact E|]. unfold nonmem_verdict. apply verdict_ok_iff_l. split; [|split; assumption].
    eapply nonmem_complete_l; eassumption.
  Qed.

  Theorem nonmem_no_proof_p : forall set v vr invs Gs Hs B Bt sL sR at_ st t1t t2t y yi z x w us,
    In v set -> nonmem_prove Ops set v vr invs Gs Hs B Bt sL sR at_ st t1t t2t y yi z x w us = None.
  Proof.
    destruct L. intros set v vr invs Gs Hs B Bt sL sR at_ st t1t t2t y yi z x w us Hin.
    destruct (nonmem_prove Ops set v vr invs Gs Hs B Bt sL sR at_ st t1t t2t y yi z x w us) eqn:E; [|reflexivity].
    exfalso. eapply (proj1 (nonmem_prove_some_iff Ops l_feqb0 set v vr invs Gs Hs B Bt sL sR at_ st t1t t2t y yi z x w us)); eauto.
  Qed.
  (** [verify_scalars] as coded (iterative, index arithmetic) computes the recursive [svec] *)
  Theorem svec_iter_eq_svec_p : forall us, inv_ok Ops us -> svec_iter Ops us = svec Ops us.
  Proof. destruct L. intros. apply svec_iter_eq_svec; assumption. Qed.

  (** canonical ring homomorphism Z -> F (what [scalar_from_u64] is) *)
  Definition fofZ_ (v : Z) : o_F Ops := gen_phiZ (o_f0 Ops) (o_f1 Ops) (o_fadd Ops) (o_fmul Ops) (o_fopp Ops) v.

  Theorem fval_canonical_p : forall n v, fval Ops n v = fofZ_ (v mod 2 ^ Z.of_nat n).
  Proof. destruct L. intros. apply fval_canonical; assumption. Qed.

  Theorem range_complete_in_range_p : forall n vs rs Gs Hs B Bt sL sR at_ st t1t t2t y yi z x w us,
    Forall (fun v => (0 <= v < 2 ^ Z.of_nat n)%Z) vs ->
    length rs = length vs ->
    length Gs = Nat.pow 2 (length us) -> length Gs = n * length vs -> length Hs = length Gs ->
    length sL = length Gs -> length sR = length Gs ->
    o_fmul Ops y yi = o_f1 Ops -> inv_ok Ops us ->
    range_verdict Ops n (vzip (commit Ops B Bt) (map fofZ_ vs) rs) Gs Hs B Bt
      (range_prove Ops n vs rs Gs Hs B Bt sL sR at_ st t1t t2t y yi z x w us) y yi z x w us = VOk.
  Proof.
    intros n vs rs Gs Hs B Bt sL sR at_ st t1t t2t y yi z x w us Hr. intros.
    replace (map fofZ_ vs) with (map (fval Ops n) vs); [apply range_complete_p; assumption|].
    apply map_ext_in. intros v Hv. rewrite Forall_forall in Hr. rewrite fval_canonical_p.
    rewrite Z.mod_small by (apply Hr; exact Hv). reflexivity.
  Qed.
End Packaged.

(** * a concrete instance of the laws (non-vacuity): the integers as a module over themselves *)
Definition ZOps : bp_ops := mkOps Z 0%Z 1%Z Z.add Z.mul Z.sub Z.opp Z.eqb Z 0%Z Z.add Z.opp Z.mul Z.eqb.
Lemma ZOps_laws : bp_laws ZOps.
Proof.
  constructor; unfold ZOps;
    cbn [o_F o_f0 o_f1 o_fadd o_fmul o_fsub o_fopp o_feqb o_G o_g0 o_gadd o_gopp o_smul o_geqb];
    intros; try ring; try apply Z.eqb_eq.
  constructor; intros; ring.
Qed.
