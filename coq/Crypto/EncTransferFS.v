(** C12 (round 4) - the composed transfer model with ALL Fiat-Shamir challenges derived inside the model
    (definitions only, executable).

    [EncTransfer.v] takes the challenges of the two range proofs as inputs shared by prover and verifier.
    Here prover and verifier derive them from the running transcript, exactly where the code extracts them:

      gen_enc_trans:   sigma [prove] on the transcript [ctx]            -> state st1 (legacy RandomOracle: the
                       response is NOT absorbed, st1 = the frame hashed for the sigma challenge)
                       bulletprove(Version1, ro = st1, a-chunks)         -> state st2
                       bulletprove(Version1, ro = st2, s'-chunks)
      range_proof.rs prove (Version1): "Vj" per commitment, "A", "S", challenge "y", challenge "z",
                       "T1", "T2", challenge "x", "tx", "tx_tilde", "e_tilde", challenge "w", then per round of
                       the inner-product argument "Lj", "Rj", challenge "uj"; [y.inverse()?] and
                       [u_j.inverse()] = None abort the prover ([None] here).
      verify_enc_trans / verify_efficient: the same derivation from the messages of the proof.

    The prover [bp_prove_fs] is [RangeProof.bp_prove] with the challenges computed in place (same
    expressions, in the order of the code); the byte strings hashed are C11's [BpTranscript.state_at]
    (the very definition C11 ties to the code) applied to the messages known at that point.  [H] (SHA3-256) and
    [sfb] (scalar_from_bytes) are Section variables. *)
From Coq Require Import ZArith NArith List Lia Bool String.
From CB Require Import Crypto.Alg Crypto.Transcript Crypto.SigmaGeneric Crypto.SigmaCodec Crypto.Sigma_dlog
  Crypto.Sigma_com_eq Crypto.Sigma_enc_trans Crypto.Chunks Crypto.BpAlg Crypto.Ipa Crypto.RangeProof
  Crypto.BpTranscript Crypto.EncTransfer.
Import ListNotations.

Section EncTransferFS.
  Context {K : FieldOps} {M : ModOps K} (Cd : CodecOps M).
  Variable H : bytes -> bytes.             (* SHA3-256 *)
  Variable sfb : bytes -> K.               (* Curve::scalar_from_bytes *)
  Variables (g h : M) (Gs Hs : list M).
  Local Notation BO := (@bpOps K M).
  Local Notation gadd := (o_gadd BO).
  Local Notation gsmul := (o_smul BO).
  Local Notation fadd := (o_fadd BO).
  Local Notation fmul := (o_fmul BO).
  Local Notation fopp := (o_fopp BO).

  (** [extract_challenge_scalar]: the label has already been appended to [st] *)
  Definition chal (st : bytes) : K := sfb (H st).

  Definition ser_lr (lr : M * M) : bytes * bytes := (serG Cd (fst lr), serG Cd (snd lr)).
  (** the messages of a range proof, serialised *)
  Definition bp_pm (p : bproof BO) : pmsgs :=
    mkPmsgs (serG Cd (pA BO p)) (serG Cd (pS BO p)) (serG Cd (pT1 BO p)) (serG Cd (pT2 BO p))
            (serF Cd (ptx BO p)) (serF Cd (ptxt BO p)) (serF Cd (pet BO p))
            (map ser_lr (plr BO p)) (serF Cd (pa BO p)) (serF Cd (pb BO p)).
  (** Version1: only the commitments are absorbed before A *)
  Definition bp_pre (Vs : list M) : list lmsg := range_pre false [] [] [] [] (map (serG Cd) Vs).

  (** ** inner-product argument (legacy RandomOracle: "Lj" L "Rj" R "uj" per round; a, b not absorbed) *)
  Definition ipa_st (st : bytes) (lr : bytes * bytes) : bytes := st ++ enc_lmsgs Legacy (ipa_round lr).
  Fixpoint ipa_chals (st : bytes) (lrs : list (bytes * bytes)) : list K :=
    match lrs with
    | [] => []
    | lr :: rest => let st' := ipa_st st lr in chal st' :: ipa_chals st' rest
    end.
  Fixpoint ipa_end (st : bytes) (lrs : list (bytes * bytes)) : bytes :=
    match lrs with [] => st | lr :: rest => ipa_end (ipa_st st lr) rest end.

  (** [prove_inner_product_with_scalars] with the challenges extracted in place; [n] rounds *)
  Fixpoint ipa_prove_fs (n : nat) (st : bytes) (Gv Hv : list M) (Q : M) (a b : list K)
    : option (list (M * M) * K * K * list K * bytes) :=
    match n with
    | O => Some ([], hd (o_f0 BO) a, hd (o_f0 BO) b, [], st)
    | S n' =>
        let L := ipa_L BO Gv Hv Q a b in
        let R := ipa_R BO Gv Hv Q a b in
        let st' := ipa_st st (ser_lr (L, R)) in
        let u := chal st' in
        if Feqb K u (F0 K) then None else
        let ui := Finv K u in
        match ipa_prove_fs n' st' (fold_G BO u ui Gv) (fold_H BO u ui Hv) Q (fold_a BO u ui a) (fold_b BO u ui b) with
        | None => None
        | Some (lr, fa, fb, us, st'') => Some ((L, R) :: lr, fa, fb, u :: us, st'')
        end
    end.

  (** ** the bulletproof skeleton with the challenges extracted in place *)
  Definition NOB : bytes := [].
  Definition bp_prove_fs (st : bytes) (pre : list lmsg) (Gv Hv : list M) (B Bt : M)
      (aL aR sL sR : list K) (at_ st_ t1t t2t : K) (clf crf ef : K -> list K) (cvrf : K -> K)
    : option (bproof BO * @bp_chal K * bytes) :=
    let N := List.length Gv in
    let A := gadd (gadd (msum BO aL Gv) (msum BO aR Hv)) (gsmul at_ Bt) in
    let S := gadd (gadd (msum BO sL Gv) (msum BO sR Hv)) (gsmul st_ Bt) in
    let pm1 := mkPmsgs (serG Cd A) (serG Cd S) NOB NOB NOB NOB NOB [] NOB NOB in
    let y := chal (state_at Legacy st pre pm1 SY) in
    let z := chal (state_at Legacy st pre pm1 SZ) in
    let cl := clf z in let cr := crf z in let e := ef z in let cvr := cvrf z in
    let yN := z_vec BO y 0 N in
    let t0 := bp_t0 BO yN aL aR cl cr e in
    let t1 := bp_t1 BO yN aL aR sL sR cl cr e in
    let t2 := bp_t2 BO yN sL sR in
    let T1 := gadd (gsmul t1 B) (gsmul t1t Bt) in
    let T2 := gadd (gsmul t2 B) (gsmul t2t Bt) in
    let pm2 := mkPmsgs (serG Cd A) (serG Cd S) (serG Cd T1) (serG Cd T2) NOB NOB NOB [] NOB NOB in
    let x := chal (state_at Legacy st pre pm2 SX) in
    let l := vadd BO (bp_l0 BO aL cl) (vscale BO x sL) in
    let r := vadd BO (bp_r0 BO yN aR cr e) (vscale BO x (bp_r1 BO yN sR)) in
    let xx := fmul x x in
    let tx := fadd (fadd t0 (fmul t1 x)) (fmul t2 xx) in
    let txt := fadd (fadd cvr (fmul t1t x)) (fmul t2t xx) in
    let et := fadd at_ (fmul st_ x) in
    let pm3 := mkPmsgs (serG Cd A) (serG Cd S) (serG Cd T1) (serG Cd T2) (serF Cd tx) (serF Cd txt) (serF Cd et) [] NOB NOB in
    let stw := state_at Legacy st pre pm3 SW in
    let w := chal stw in
    if Feqb K y (F0 K) then None else            (* y.inverse()? *)
    let yi := Finv K y in
    let Q := gsmul w B in
    let Hp := gvmul BO (z_vec BO yi 0 N) Hv in
    match ipa_prove_fs 6 stw Gv Hp Q l r with
    | None => None
    | Some (lr, a, b, us, st') => Some (mkProof BO A S T1 T2 tx txt et lr a b, mkBpChal y z x w us, st')
    end.

  (** what the verifier derives from the messages of a proof, and the transcript afterwards *)
  Definition fs_chal (st : bytes) (pre : list lmsg) (p : bproof BO) : @bp_chal K :=
    let pm := bp_pm p in
    mkBpChal (chal (state_at Legacy st pre pm SY)) (chal (state_at Legacy st pre pm SZ))
             (chal (state_at Legacy st pre pm SX)) (chal (state_at Legacy st pre pm SW))
             (ipa_chals (state_at Legacy st pre pm SW) (mlr pm)).
  Definition fs_after (st : bytes) (pre : list lmsg) (p : bproof BO) : bytes :=
    ipa_end (state_at Legacy st pre (bp_pm p) SW) (mlr (bp_pm p)).
  (** the byte strings hashed, in extraction order (for the correspondence: sha3 of each = real challenge) *)
  Fixpoint ipa_states (st : bytes) (lrs : list (bytes * bytes)) : list bytes :=
    match lrs with [] => [] | lr :: rest => let st' := ipa_st st lr in st' :: ipa_states st' rest end.
  Definition fs_states (st : bytes) (pre : list lmsg) (p : bproof BO) : list bytes :=
    let pm := bp_pm p in
    [state_at Legacy st pre pm SY; state_at Legacy st pre pm SZ; state_at Legacy st pre pm SX; state_at Legacy st pre pm SW]
    ++ ipa_states (state_at Legacy st pre pm SW) (mlr pm).

  (** ** range proof instance: [bulletprove(Version1, ro, csprng, 32, chunks.len(), chunks, gens, (h, pk), randomness)] *)
  Definition commitments (pk : M) (chunks : list N) (ks : list K) : list M := map snd (encrypt_chunks g h pk chunks ks).
  Definition bulletprove_fs (st : bytes) (pk : M) (chunks : list N) (ks : list K) (r : @bp_rand K)
    : option (bproof BO * @bp_chal K * bytes) :=
    let n := 32%nat in
    let vs := map Z.of_N chunks in
    let m := List.length vs in
    let NN := (n * m)%nat in
    let aL := range_aL BO n vs in
    bp_prove_fs st (bp_pre (commitments pk chunks ks)) (firstn 64 Gs) (firstn 64 Hs) h pk aL (range_aR BO aL)
      (br_sL r) (br_sR r) (br_at r) (br_st r) (br_t1t r) (br_t2t r)
      (fun z => vconst BO (fopp z) NN) (fun z => vconst BO z NN)
      (fun z => range_e BO n (fmul z z) z m) (fun z => zweighted BO (fmul z z) z ks).
  Definition bulletverify_fs (st : bytes) (pk : M) (Vs : list M) (p : bproof BO) : verdict :=
    bulletverify h Gs Hs pk Vs p (fs_chal st (bp_pre Vs) p).

  (** ** encrypted transfer *)
  Definition gen_enc_trans_fs (ctx : bytes) (pk_sender : M) (sk_sender : K) (pk_receiver : M)
      (index : N) (S : cipher) (s a : N) (rnd : @transfer_rand K) : option (@transfer_data K M) :=
    if (s <? a)%N then None else
    match u64_to_chunks_checked 32 (s - a), u64_to_chunks_checked 32 a with
    | Some s_prime_chunks, Some a_chunks =>
        let A := encrypt_chunks g h pk_receiver a_chunks (tr_A rnd) in
        let S' := encrypt_chunks g h pk_sender s_prime_chunks (tr_S rnd) in
        let protocol := gen_enc_trans_proof_info g h pk_sender pk_receiver S A S' in
        let secret := (sk_sender, chunk_secrets a_chunks (tr_A rnd), chunk_secrets s_prime_chunks (tr_S rnd)) in
        match prove H sfb (enc_trans_proto Cd) Legacy ctx protocol secret (tr_sigma rnd) with
        | None => None
        | Some (sigma_proof, st1) =>
            match bulletprove_fs st1 pk_receiver a_chunks (tr_A rnd) (tr_bp_a rnd) with
            | None => None
            | Some (bp_a, _, st2) =>
                match bulletprove_fs st2 pk_sender s_prime_chunks (tr_S rnd) (tr_bp_s rnd) with
                | None => None
                | Some (bp_s, _, _) =>
                    match A, S' with
                    | [A0; A1], [S0; S1] => Some (mkTD (S0, S1) (A0, A1) index sigma_proof bp_a bp_s)
                    | _, _ => None
                    end
                end
            end
        end
    | _, _ => None
    end.

  Definition make_transfer_data_fs (gc : bytes) (pk_receiver : M) (sk_sender : K)
      (agg_enc : enc_amount) (agg_amount agg_index : N) (to_transfer : N)
      (rnd : @transfer_rand K) : option (@transfer_data K M) :=
    let pk_sender := smul M sk_sender g in
    gen_enc_trans_fs (transfer_ctx Cd g gc pk_receiver pk_sender) pk_sender sk_sender pk_receiver
      agg_index (join agg_enc) agg_amount to_transfer rnd.

  Definition verify_enc_trans_fs (ctx : bytes) (td : @transfer_data K M) (pk_sender pk_receiver : M) (S : cipher)
    : tv_result :=
    let protocol := gen_enc_trans_proof_info g h pk_sender pk_receiver S (enc_list (td_transfer td)) (enc_list (td_remaining td)) in
    let v := verify H sfb (enc_trans_proto Cd) Legacy ctx protocol (td_accounting td) in
    if negb (fst v) then TvSigmaProofError else
    let st1 := snd v in
    let VA := map snd (enc_list (td_transfer td)) in
    match bulletverify_fs st1 pk_receiver VA (td_bp_transfer td) with
    | VOk =>
        let st2 := fs_after st1 (bp_pre VA) (td_bp_transfer td) in
        match bulletverify_fs st2 pk_sender (map snd (enc_list (td_remaining td))) (td_bp_remaining td) with
        | VOk => TvOk
        | _ => TvSecondBulletproofError
        end
    | _ => TvFirstBulletproofError
    end.
  Definition verify_transfer_data_fs (gc : bytes) (pk_receiver pk_sender : M) (before_amount : enc_amount)
      (td : @transfer_data K M) : bool :=
    match verify_enc_trans_fs (transfer_ctx Cd g gc pk_receiver pk_sender) td pk_sender pk_receiver (join before_amount) with
    | TvOk => true
    | _ => false
    end.

  (** every byte string hashed while verifying a transfer, in order: the sigma frame, then y z x w u_0..u_5 of
      the transfer-amount range proof, then of the remaining-amount range proof *)
  Definition transfer_hashed (ctx : bytes) (td : @transfer_data K M) (pk_sender pk_receiver : M) (S : cipher) : list bytes :=
    let protocol := gen_enc_trans_proof_info g h pk_sender pk_receiver S (enc_list (td_transfer td)) (enc_list (td_remaining td)) in
    let st1 := snd (verify H sfb (enc_trans_proto Cd) Legacy ctx protocol (td_accounting td)) in
    let VA := map snd (enc_list (td_transfer td)) in
    let st2 := fs_after st1 (bp_pre VA) (td_bp_transfer td) in
    st1 :: fs_states st1 (bp_pre VA) (td_bp_transfer td)
        ++ fs_states st2 (bp_pre (map snd (enc_list (td_remaining td)))) (td_bp_remaining td).

  (** ** secret to public transfer *)
  Definition gen_sec_to_pub_trans_fs (ctx : bytes) (pk : M) (sk : K) (index : N) (S : cipher) (s a : N)
      (rnd : @sec_to_pub_rand K) : option (@sec_to_pub_data K M) :=
    if (s <? a)%N then None else
    match u64_to_chunks_checked 32 (s - a) with
    | Some s_prime_chunks =>
        let S' := encrypt_chunks g h pk s_prime_chunks (sr_S rnd) in
        let protocol := gen_enc_trans_proof_info g h pk pk S [dummy_encryption h a] S' in
        let secret := (sk, [(kofN a, F0 K)], chunk_secrets s_prime_chunks (sr_S rnd)) in
        match prove H sfb (enc_trans_proto Cd) Legacy ctx protocol secret (sr_sigma rnd) with
        | None => None
        | Some (sigma_proof, st1) =>
            match bulletprove_fs st1 pk s_prime_chunks (sr_S rnd) (sr_bp_s rnd) with
            | None => None
            | Some (bp_s, _, _) =>
                match S' with
                | [S0; S1] => Some (mkSD (S0, S1) a index sigma_proof bp_s)
                | _ => None
                end
            end
        end
    | None => None
    end.
  Definition make_sec_to_pub_transfer_data_fs (gc : bytes) (sk : K) (agg_enc : enc_amount) (agg_amount agg_index : N)
      (to_transfer : N) (rnd : @sec_to_pub_rand K) : option (@sec_to_pub_data K M) :=
    let pk := smul M sk g in
    gen_sec_to_pub_trans_fs (sec_to_pub_ctx Cd g gc pk) pk sk agg_index (join agg_enc) agg_amount to_transfer rnd.

  Definition verify_sec_to_pub_trans_fs (ctx : bytes) (sd : @sec_to_pub_data K M) (pk : M) (S : cipher) : tv_result :=
    let protocol := gen_enc_trans_proof_info g h pk pk S [dummy_encryption h (sd_transfer_amount sd)] (enc_list (sd_remaining sd)) in
    let v := verify H sfb (enc_trans_proto Cd) Legacy ctx protocol (sd_accounting sd) in
    if negb (fst v) then TvSigmaProofError else
    match bulletverify_fs (snd v) pk (map snd (enc_list (sd_remaining sd))) (sd_bp_remaining sd) with
    | VOk => TvOk
    | _ => TvSecondBulletproofError
    end.
  Definition verify_sec_to_pub_transfer_data_fs (gc : bytes) (pk : M) (before_amount : enc_amount)
      (sd : @sec_to_pub_data K M) : bool :=
    match verify_sec_to_pub_trans_fs (sec_to_pub_ctx Cd g gc pk) sd pk (join before_amount) with
    | TvOk => true
    | _ => false
    end.
  Definition sec_to_pub_hashed (ctx : bytes) (sd : @sec_to_pub_data K M) (pk : M) (S : cipher) : list bytes :=
    let protocol := gen_enc_trans_proof_info g h pk pk S [dummy_encryption h (sd_transfer_amount sd)] (enc_list (sd_remaining sd)) in
    let st1 := snd (verify H sfb (enc_trans_proto Cd) Legacy ctx protocol (sd_accounting sd)) in
    st1 :: fs_states st1 (bp_pre (map snd (enc_list (sd_remaining sd)))) (sd_bp_remaining sd).
End EncTransferFS.
