(** C19 - executable instance of the byte-level ECVRF model (VrfBytes.v) for the correspondence:
    points are their 32-byte encodings, the group operations, point decompression and SHA-512 are
    ORACLE TABLES (finite maps) filled by the harness with the real curve arithmetic (dalek) and by
    a real SHA-512 on exactly the byte strings the model produces.  A missing table entry yields
    the empty string / [None], which can never agree with the implementation, so the model cannot
    silently use an operation the real code did not perform on the same operands.
    Used by checks/C19.py only. *)
From Coq Require Import ZArith NArith List Bool.
From CB Require Import Crypto.Vrf Crypto.VrfBytes Crypto.DupSort Crypto.ParReduce.
Import ListNotations.
Local Open Scope Z_scope.

Fixpoint bytes_eqb (a b : list N) : bool :=
  match a, b with
  | [], [] => true
  | x :: a', y :: b' => N.eqb x y && bytes_eqb a' b'
  | _, _ => false
  end.

Definition tab1 {V : Type} (d : V) (t : list (list N * V)) (k : list N) : V :=
  match find (fun p => bytes_eqb (fst p) k) t with Some p => snd p | None => d end.
Definition tab_mul (t : list (Z * list N * list N)) (z : Z) (p : list N) : list N :=
  match find (fun e => Z.eqb (fst (fst e)) z && bytes_eqb (snd (fst e)) p) t with Some e => snd e | None => [] end.
Definition tab_add (t : list (list N * list N * list N)) (p q : list N) : list N :=
  match find (fun e => bytes_eqb (fst (fst e)) p && bytes_eqb (snd (fst e)) q) t with Some e => snd e | None => [] end.

Definition id_point : list N := 1%N :: repeat 0%N 31.

Record vrf_oracles : Type := mk_oracles {
  o_sha : list (list N * list N);
  o_mul : list (Z * list N * list N);
  o_add : list (list N * list N * list N);
  o_neg : list (list N * list N);
  o_dec : list (list N * option (list N));
  o_base : list N }.

Definition x_sha (o : vrf_oracles) := tab1 [] (o_sha o).
Definition x_zmul (o : vrf_oracles) := tab_mul (o_mul o).
Definition x_gadd (o : vrf_oracles) := tab_add (o_add o).
Definition x_gopp (o : vrf_oracles) := tab1 [] (o_neg o).
Definition x_dec (o : vrf_oracles) := tab1 None (o_dec o).

(** pass 1: the byte strings the model hashes, given the points the implementation computed *)
Definition x_vrf_strings (skdigest pkb alpha : list N) (nctr : nat) (Hb Gb Ub Vb G8b : list N) :=
  let '(x, nonce) := expand_key skdigest in
  (x, map (fun i => h2c_input pkb alpha (N.of_nat i)) (seq 0 nctr),
   nonce_input nonce Hb, challenge_input Hb Gb Ub Vb, beta_input G8b).

(** digest consumers, run on real digests *)
Definition x_vrf_scalars (skdigest noncedigest chdigest : list N) :=
  let x := fst (expand_key skdigest) in
  let k := nonce_of_digest noncedigest in
  let c := challenge_of_digest chdigest in
  (x, k, c, response k c x).

(** pass 2: the composite model functions themselves on the oracle instance *)
Definition x_vrf_prove (o : vrf_oracles) (skb pkb Yb alpha : list N) : option (list N) :=
  ecvrf_prove_bytes (list N) id_point (x_zmul o) bytes_eqb (o_base o) (fun p => p) (x_dec o) (x_sha o) skb (pkb, Yb) alpha.
Definition x_vrf_pk (o : vrf_oracles) (skb : list N) : list N * list N :=
  pk_of_secret (list N) (x_zmul o) (o_base o) (fun p => p) (x_sha o) skb.
Definition x_vrf_verify (o : vrf_oracles) (pkb Yb pib alpha : list N) : bool :=
  ecvrf_verify_bytes (list N) id_point (x_gadd o) (x_gopp o) (x_zmul o) bytes_eqb (o_base o) (fun p => p) (x_dec o) (x_sha o)
    (pkb, Yb) pib alpha.
Definition x_vrf_hash (o : vrf_oracles) (pib : list N) : option (list N) :=
  ecvrf_hash_bytes (list N) (x_zmul o) (fun p => p) (x_dec o) (x_sha o) pib.
Definition x_vrf_decode (o : vrf_oracles) (pib : list N) : option (list N * Z * Z) :=
  decode_proof (list N) (x_dec o) pib.
Definition x_vrf_decode_pk (o : vrf_oracles) (bs : list N) : option (list N * list N) :=
  decode_pk (list N) id_point (x_zmul o) bytes_eqb (x_dec o) bs.
Definition x_vrf_encode (pi : list N * Z * Z) : option (list N) := encode_proof (list N) (fun p => p) pi.

(** has_duplicates as coded (sort-and-scan), digests as big-endian integers, and the quadratic reference *)
Definition x_has_dup (ds : list Z) : bool * bool :=
  (has_duplicates_coded Z Z.leb Z.eqb ds, has_dup_ref Z Z.eqb ds).

(** chunked / tree / threshold reductions in the exponent (Z mod r, written additively) *)
Definition x_par (r : Z) (thr n d : nat) (xs : list Z) : Z * Z * Z * Z :=
  let op := fun a b => (a + b) mod r in
  (seqfold Z Z op 0 (fun x => x mod r) xs,
   chunked_eval Z Z op 0 (fun x => x mod r) n xs,
   peval Z Z op 0 (fun x => x mod r) (msplit Z d xs),
   thresh_eval Z Z op 0 (fun x => x mod r) thr (fun l => tree_of_chunks Z (chunks_of Z n l)) xs).
