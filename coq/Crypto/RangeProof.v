(** C11 - the bulletproof skeleton shared by range_proof.rs, set_membership_proof.rs and
    set_non_membership_proof.rs, and its range-proof instance (definitions only).

    The three Rust files are three copies of one algorithm that differ only in
      - the constant vectors added to a_L and a_R:   l_0 = a_L + cl,   r_0 = y^N o (a_R + cr) + e
      - the weight of the value commitment(s) in the t_0 check and the delta term.
    [bp_prove] / [bp_verdict] are that algorithm once; the instances fix (cl, cr, e, weights, delta)
    exactly as each file computes them.  Challenges y, z, x, w, u_j are inputs (any ring elements;
    inverses are supplied as separate inputs, the theorems assume only y*yi = 1 and u*ui = 1).     *)
From Coq Require Import List ZArith Bool.
From CB Require Import Crypto.BpAlg Crypto.Ipa.
Import ListNotations.

Inductive verdict := VOk | VFirst | VSecond | VDivision.

Section Bp.
  Variable Ops : bp_ops.
  Local Notation F := (o_F Ops).
  Local Notation G := (o_G Ops).
  Local Notation f0 := (o_f0 Ops).
  Local Notation f1 := (o_f1 Ops).
  Local Notation fadd := (o_fadd Ops).
  Local Notation fmul := (o_fmul Ops).
  Local Notation fsub := (o_fsub Ops).
  Local Notation fopp := (o_fopp Ops).
  Local Notation feqb := (o_feqb Ops).
  Local Notation g0 := (o_g0 Ops).
  Local Notation gadd := (o_gadd Ops).
  Local Notation gopp := (o_gopp Ops).
  Local Notation smul := (o_smul Ops).
  Local Notation geqb := (o_geqb Ops).
  Local Notation dot := (dot Ops).
  Local Notation msum := (msum Ops).
  Local Notation vadd := (vadd Ops).
  Local Notation vmul := (vmul Ops).
  Local Notation vscale := (vscale Ops).
  Local Notation vconst := (@vconst Ops).
  Local Notation vsum := (vsum Ops).
  Local Notation gvadd := (gvadd Ops).
  Local Notation gvscale := (gvscale Ops).
  Local Notation gvmul := (gvmul Ops).
  Local Notation z_vec := (z_vec Ops).
  Local Notation fpow := (fpow Ops).
  Local Notation powers_from := (powers_from Ops).
  Local Notation gsub := (gsub Ops).
  Local Notation ipa_prove := (ipa_prove Ops).
  Local Notation ipa_code_lhs := (ipa_code_lhs Ops).
  Local Notation svec := (svec Ops).
  Local Notation lr_sum := (lr_sum Ops).
  Local Notation vsub := (vsub Ops).

  Record bproof := mkProof {
    pA : G; pS : G; pT1 : G; pT2 : G;
    ptx : F; ptxt : F; pet : F;
    plr : list (G * G); pa : F; pb : F }.

  (** the coefficients of t(X) = <l_0 + X l_1, r_0 + X r_1> as the code computes them *)
  Definition bp_l0 (aL cl : list F) := vadd aL cl.
  Definition bp_r0 (yN aR cr e : list F) := vadd (vmul yN (vadd aR cr)) e.
  Definition bp_r1 (yN sR : list F) := vmul yN sR.
  Definition bp_t0 (yN aL aR cl cr e : list F) := dot (bp_l0 aL cl) (bp_r0 yN aR cr e).
  Definition bp_t2 (yN sL sR : list F) := dot sL (bp_r1 yN sR).
  Definition bp_t1 (yN aL aR sL sR cl cr e : list F) :=
    fsub (fsub (dot (vadd (bp_l0 aL cl) sL) (vadd (bp_r0 yN aR cr e) (bp_r1 yN sR)))
               (bp_t0 yN aL aR cl cr e)) (bp_t2 yN sL sR).

  Definition bp_prove (Gs Hs : list G) (B Bt : G)
             (aL aR sL sR : list F) (at_ st t1t t2t : F)
             (cl cr e : list F) (cvr : F)
             (y yi z x w : F) (us : list (F * F)) : bproof :=
    let N := length Gs in
    let yN := z_vec y 0 N in
    let t0 := bp_t0 yN aL aR cl cr e in
    let t1 := bp_t1 yN aL aR sL sR cl cr e in
    let t2 := bp_t2 yN sL sR in
    let A := gadd (gadd (msum aL Gs) (msum aR Hs)) (smul at_ Bt) in
    let S := gadd (gadd (msum sL Gs) (msum sR Hs)) (smul st Bt) in
    let T1 := gadd (smul t1 B) (smul t1t Bt) in
    let T2 := gadd (smul t2 B) (smul t2t Bt) in
    let l := vadd (bp_l0 aL cl) (vscale x sL) in
    let r := vadd (bp_r0 yN aR cr e) (vscale x (bp_r1 yN sR)) in
    let xx := fmul x x in
    let tx := fadd (fadd t0 (fmul t1 x)) (fmul t2 xx) in
    let txt := fadd (fadd cvr (fmul t1t x)) (fmul t2t xx) in
    let et := fadd at_ (fmul st x) in
    let Q := smul w B in
    let Hp := gvmul (z_vec yi 0 N) Hs in
    match ipa_prove us Gs Hp Q l r with
    | (lr, a, b) => mkProof A S T1 T2 tx txt et lr a b
    end.

  (** the two verification equations.  [Vterm] = sum of weighted value commitments, [delta] the
      public constant, [eG], [eH] the exponents of G and H in P' (all computed by the instance). *)
  Definition bp_eq1_lhs (B Bt : G) (p : bproof) : G := gadd (smul (ptx p) B) (smul (ptxt p) Bt).
  Definition bp_eq1_rhs (B : G) (p : bproof) (Vterm : G) (delta x : F) : G :=
    gadd Vterm (gadd (gadd (smul delta B) (smul x (pT1 p))) (smul (fmul x x) (pT2 p))).
  Definition bp_eq2_lhs (Gs Hs : list G) (B Bt : G) (p : bproof) (eG eH : list F)
             (yi x w : F) (us : list (F * F)) : G :=
    ipa_code_lhs us (z_vec yi 0 (length Gs)) Gs Hs (smul w B) [Bt; pA p; pS p]
                 eG eH (ptx p) [fopp (pet p); f1; x] (plr p) (pa p) (pb p).

  Definition bp_accepts (Gs Hs : list G) (B Bt : G) (p : bproof) (Vterm : G) (delta : F)
             (eG eH : list F) (yi x w : F) (us : list (F * F)) : Prop :=
    bp_eq1_lhs B Bt p = bp_eq1_rhs B p Vterm delta x
    /\ bp_eq2_lhs Gs Hs B Bt p eG eH yi x w us = g0.

  (** executable verifier: order of the checks and the error values as in the code *)
  Definition bp_verdict (Gs Hs : list G) (B Bt : G) (p : bproof) (Vterm : G) (delta : F)
             (eG eH : list F) (y yi x w : F) (us : list (F * F)) : verdict :=
    if negb (geqb (gsub (bp_eq1_lhs B Bt p) (bp_eq1_rhs B p Vterm delta x)) g0) then VFirst
    else if negb (feqb (fmul y yi) f1) then VDivision
    else if negb (forallb (fun u => feqb (fmul (fst u) (snd u)) f1) us) then VSecond
    else if geqb (bp_eq2_lhs Gs Hs B Bt p eG eH yi x w us) g0 then VOk else VSecond.

  (** * range proof instance (range_proof.rs) *)
  Definition two_n_vec (n : nat) : list F := powers_from (fadd f1 f1) f1 n.
  Definition fbit (v : Z) (i : nat) : F := if Z.testbit v (Z.of_nat i) then f1 else f0.
  Definition fbits (v : Z) (n : nat) : list F := map (fbit v) (seq 0 n).
  Definition range_aL (n : nat) (vs : list Z) : list F := flat_map (fun v => fbits v n) vs.
  Definition range_aR (aL : list F) : list F := map (fun b => fsub b f1) aL.
  (** e_(j n + i) = z^(2+j) 2^i ; built block by block with the running power zc *)
  Fixpoint range_e (n : nat) (zc z : F) (m : nat) : list F :=
    match m with O => [] | S m' => vscale zc (two_n_vec n) ++ range_e n (fmul zc z) z m' end.
  Fixpoint zgeo (zc z : F) (m : nat) : F :=
    match m with O => f0 | S m' => fadd zc (zgeo (fmul zc z) z m') end.
  Fixpoint zweighted (zc z : F) (xs : list F) : F :=
    match xs with [] => f0 | v :: xs' => fadd (fmul zc v) (zweighted (fmul zc z) z xs') end.
  Fixpoint gweighted (zc z : F) (Vs : list G) : G :=
    match Vs with [] => g0 | V :: Vs' => gadd (smul zc V) (gweighted (fmul zc z) z Vs') end.

  Definition range_prove (n : nat) (vs : list Z) (rs : list F) (Gs Hs : list G) (B Bt : G)
             (sL sR : list F) (at_ st t1t t2t : F) (y yi z x w : F) (us : list (F * F)) : bproof :=
    let m := length vs in
    let N := (n * m)%nat in
    let aL := range_aL n vs in
    let zz := fmul z z in
    bp_prove Gs Hs B Bt aL (range_aR aL) sL sR at_ st t1t t2t
             (vconst (fopp z) N) (vconst z N) (range_e n zz z m) (zweighted zz z rs) y yi z x w us.

  (** verifier side: delta(y,z) = (z - z^2) <1,y^N> - <1,2^n> sum_(j<m) z^(j+3);
      H exponents  z + y^-i z^(2 + i/n) 2^(i mod n);  G exponents -z *)
  Definition range_delta (n m : nat) (y z : F) : F :=
    let zz := fmul z z in
    fsub (fmul (fsub z zz) (vsum (z_vec y 0 (n * m)))) (fmul (zgeo (fmul zz z) z m) (vsum (two_n_vec n))).
  Definition range_eH (n m : nat) (yi z : F) : list F :=
    vadd (vmul (z_vec yi 0 (n * m)) (range_e n (fmul z z) z m)) (vconst z (n * m)).
  Definition range_accepts (n : nat) (Vs : list G) (Gs Hs : list G) (B Bt : G) (p : bproof)
             (y yi z x w : F) (us : list (F * F)) : Prop :=
    let m := length Vs in
    bp_accepts Gs Hs B Bt p (gweighted (fmul z z) z Vs) (range_delta n m y z)
               (vconst (fopp z) (n * m)) (range_eH n m yi z) yi x w us.
  Definition range_verdict (n : nat) (Vs : list G) (Gs Hs : list G) (B Bt : G) (p : bproof)
             (y yi z x w : F) (us : list (F * F)) : verdict :=
    let m := length Vs in
    bp_verdict Gs Hs B Bt p (gweighted (fmul z z) z Vs) (range_delta n m y z)
               (vconst (fopp z) (n * m)) (range_eH n m yi z) y yi x w us.
End Bp.
