(** Model of rust-src/concordium_base/src/ps_sig/{secret,public,signature,unknown_message}.rs
    (Pointcheval-Sanders signatures with blind issuance) over a pairing setting [A : pops].
    Definitions only; executable on [ZrP].  Randomness is an explicit argument. *)
From Coq Require Import List Bool Arith.
From CB Require Import Crypto.PairingAlg.
Import ListNotations.

Section Ps.
  Variable A : pops.
  Notation K := (PF A).
  Notation G1 := (P1 A).
  Notation G2 := (P2 A).

  (** [SecretKey { g, g_tilda, ys, x }], [PublicKey { g, g_tilda, ys, y_tildas, x_tilda }] *)
  Record ps_sk : Type := mk_ps_sk { sk_g : G1; sk_gt : G2; sk_ys : list K; sk_x : K }.
  Record ps_pk : Type := mk_ps_pk { pk_g : G1; pk_gt : G2; pk_ys : list G1; pk_yts : list G2; pk_xt : G2 }.

  (** [SecretKey::generate]: the generators are the library's [one_point]s *)
  Definition ps_keygen (ys : list K) (x : K) : ps_sk := mk_ps_sk (gen1 A) (gen2 A) ys x.

  (** [impl From<&SecretKey> for PublicKey] *)
  Definition ps_pk_of (sk : ps_sk) : ps_pk :=
    mk_ps_pk (sk_g sk) (sk_gt sk)
      (map (fun y => msmul G1 y (sk_g sk)) (sk_ys sk))
      (map (fun y => msmul G2 y (sk_gt sk)) (sk_ys sk))
      (msmul G2 (sk_x sk) (sk_gt sk)).

  (** [sign_known_message]: [None] = [SecretKeyLengthError]; [zip] truncates to the shorter list *)
  Definition ps_sign_known (sk : ps_sk) (ms : list K) (r : K) : option (G1 * G1) :=
    if length (sk_ys sk) <? length ms then None
    else
      let z := fold_left (fun acc p => fadd K acc (fmul K (fst p) (snd p))) (combine ms (sk_ys sk)) (f0 K) in
      let z := fadd K z (sk_x sk) in
      let hh := msmul G1 r (sk_g sk) in
      Some (hh, msmul G1 z hh).

  (** the commitment the requester sends as [UnknownMessage]:
      [g^mask * prod Y_i^{m_i}] (built by the callers, e.g. sigma_protocols/com_eq_sig.rs) *)
  Definition ps_commit (pk : ps_pk) (mask : K) (ms : list K) : G1 :=
    fold_left (fun acc p => madd G1 acc (msmul G1 (snd p) (fst p))) (combine (pk_ys pk) ms)
      (msmul G1 mask (pk_g pk)).

  (** [sign_unknown_message] ([r] from [generate_non_zero_scalar]) *)
  Definition ps_sign_unknown (sk : ps_sk) (msg : G1) (r : K) : G1 * G1 :=
    let skp := msmul G1 (sk_x sk) (sk_g sk) in
    let a := msmul G1 r (sk_g sk) in
    (a, msmul G1 r (madd G1 skp msg)).

  (** [Signature::retrieve] *)
  Definition ps_retrieve (sig : G1 * G1) (mask : K) : G1 * G1 :=
    (fst sig, msub G1 (snd sig) (msmul G1 mask (fst sig))).

  (** [Signature::blind] with randomness [(r, t)] *)
  Definition ps_blind (sig : G1 * G1) (r t : K) : G1 * G1 :=
    (msmul G1 r (fst sig), msmul G1 r (madd G1 (snd sig) (msmul G1 t (fst sig)))).

  Definition ps_msg_point (pk : ps_pk) (ms : list K) : G2 :=
    fold_left (fun acc p => madd G2 acc (msmul G2 (snd p) (fst p))) (combine (pk_yts pk) ms) (m0 G2).

  (** [PublicKey::verify] *)
  Definition ps_verify (pk : ps_pk) (sig : G1 * G1) (ms : list K) : bool :=
    if meqb G1 (fst sig) (m0 G1) || (length (pk_yts pk) <? length ms) then false
    else check_pairing_eq A (fst sig) (madd G2 (ps_msg_point pk ms) (pk_xt pk)) (snd sig) (pk_gt pk).

  (** the relation a blinded signature satisfies (checked inside the com_eq_sig / ps_sig_known
      sigma protocols): [e(a', X~ * prod Y~_i^{m_i} * g~^t) = e(b', g~)] *)
  Definition ps_verify_blinded (pk : ps_pk) (sig : G1 * G1) (ms : list K) (t : K) : bool :=
    if meqb G1 (fst sig) (m0 G1) || (length (pk_yts pk) <? length ms) then false
    else check_pairing_eq A (fst sig)
           (madd G2 (madd G2 (ps_msg_point pk ms) (pk_xt pk)) (msmul G2 t (pk_gt pk)))
           (snd sig) (pk_gt pk).
End Ps.
