(** sigma_protocols/enc_trans.rs: the encrypted-transfer relation.  One [Dlog] (secret key), one
    [ElgDec] (public = sk*c0 + L*c1) and two vectors of [ComEq] instances (the chunks of the
    transferred and of the remaining amount); the ElgDec randomness is the base-2^32 linear
    combination [lin2] of the Pedersen randomness of all chunks, so the map is linear in the
    witness [sk; (a_i, r_i)..].  Response style [rho - c*w].

    The verifier's length checks ([self.encexp1.len() != response.response_encexp1.len()] ..) are
    part of the model: [enc_trans_extract_length_]. *)
From Coq Require Import ZArith NArith List Field Lia String Bool.
From CB Require Import Crypto.Alg Crypto.Transcript Crypto.TranscriptProofs Crypto.SigmaGeneric Crypto.SigmaCodec
  Crypto.Sigma_dlog Crypto.Sigma_com_eq.
Import ListNotations.

Record elg_dec_stmt {K : FieldOps} (M : ModOps K) := mkElgDec { ed_public : M; ed_c0 : M; ed_c1 : M }.
Arguments mkElgDec {K M} _ _ _. Arguments ed_public {K M} _. Arguments ed_c0 {K M} _. Arguments ed_c1 {K M} _.
Record enc_trans_stmt {K : FieldOps} (M : ModOps K) := mkEncTrans {
  et_dlog : dlog_stmt M; et_elg : elg_dec_stmt M; et_e1 : list (com_eq_stmt M); et_e2 : list (com_eq_stmt M) }.
Arguments mkEncTrans {K M} _ _ _ _. Arguments et_dlog {K M} _. Arguments et_elg {K M} _.
Arguments et_e1 {K M} _. Arguments et_e2 {K M} _.

Section EncTrans.
  Context {K : FieldOps} {M : ModOps K} (Cd : CodecOps M).
  Local Open Scope G_scope.

  (** [scalar_from_u64(1 << 32)] *)
  Fixpoint pow2K (n : nat) : K := match n with O => F1 K | S n' => Fmul K (Fadd K (F1 K) (F1 K)) (pow2K n') end.
  Definition two_chunk : K := pow2K 32.
  (** [linear_combination_with_powers_of_two] *)
  Fixpoint lin2_go (B p : K) (xs : list K) : K :=
    match xs with [] => F0 K | x :: xs' => Fadd K (Fmul K x p) (lin2_go B (Fmul K p B) xs') end.
  Definition lin2 (xs : list K) : K := lin2_go two_chunk (F1 K) xs.

  Definition elg_public (k : tkind) (e : elg_dec_stmt M) : bytes :=
    msg k (str "public") (serG Cd (ed_public e)) ++ msgs k (str "coeff") [serG Cd (ed_c0 e); serG Cd (ed_c1 e)].
  Definition enc_trans_public (k : tkind) (s : enc_trans_stmt M) : bytes :=
    elg_public k (et_elg s) ++ each k [] (com_eq_public Cd k) (et_e1 s) ++ each k [] (com_eq_public Cd k) (et_e2 s)
    ++ dlog_public Cd k (et_dlog s).

  Definition et_rand : Type := (K * list (K * K) * list (K * K))%type.   (* common, (alpha, R) per chunk *)
  Definition et_cm : Type := (M * M * list (M * M) * list (M * M))%type.

  Definition enc_trans_commit (s : enc_trans_stmt M) (r : et_rand) : option et_cm :=
    let '(rc, r1, r2) := r in
    match opt_all (map2 com_eq_commit (et_e1 s) r1), opt_all (map2 com_eq_commit (et_e2 s) r2) with
    | Some m1, Some m2 =>
      Some (rc *: dl_coeff (et_dlog s),
            rc *: ed_c0 (et_elg s) + Fadd K (lin2 (map snd r1)) (lin2 (map snd r2)) *: ed_c1 (et_elg s), m1, m2)
    | _, _ => None
    end.
  (** secret (sk, (r, a) per chunk) *)
  Definition enc_trans_respond (s : enc_trans_stmt M) (w : et_rand) (r : et_rand) (c : K) : option et_rand :=
    let '(sk, w1, w2) := w in let '(rc, r1, r2) := r in
    if negb (Nat.eqb (List.length w1) (List.length r1)) then None else
    match opt_all (map3 (fun st wi ri => com_eq_respond st wi ri c) (et_e1 s) w1 r1) with
    | None => None
    | Some z1 =>
      if negb (Nat.eqb (List.length w2) (List.length r2)) then None else
      match opt_all (map3 (fun st wi ri => com_eq_respond st wi ri c) (et_e2 s) w2 r2) with
      | None => None
      | Some z2 => Some (Fadd K (Fopp K (Fmul K c sk)) rc, z1, z2)
      end
    end.
  Definition enc_trans_extract (s : enc_trans_stmt M) (c : K) (z : et_rand) : option et_cm :=
    let '(zc, z1, z2) := z in
    if negb (Nat.eqb (List.length (et_e1 s)) (List.length z1)) then None else
    if negb (Nat.eqb (List.length (et_e2 s)) (List.length z2)) then None else
    match opt_all (map2 (fun st zi => com_eq_extract st c zi) (et_e1 s) z1),
          opt_all (map2 (fun st zi => com_eq_extract st c zi) (et_e2 s) z2) with
    | Some m1, Some m2 =>
      Some (zc *: dl_coeff (et_dlog s) + c *: dl_public (et_dlog s),
            c *: ed_public (et_elg s) +
              (zc *: ed_c0 (et_elg s) + Fadd K (lin2 (map snd z1)) (lin2 (map snd z2)) *: ed_c1 (et_elg s)), m1, m2)
    | _, _ => None
    end.

  Definition ser_pairG (a : M * M) : bytes := serG Cd (fst a) ++ serG Cd (snd a).
  Definition ser_pairF (z : K * K) : bytes := serF Cd (fst z) ++ serF Cd (snd z).
  Definition enc_trans_proto : proto K := {|
    p_stmt := enc_trans_stmt M; p_wit := et_rand; p_rand := et_rand; p_cm := et_cm; p_resp := et_rand;
    p_public := enc_trans_public; p_commit := enc_trans_commit; p_respond := enc_trans_respond;
    p_extract := enc_trans_extract;
    p_ser_cm := fun a => let '(d, e, m1, m2) := a in
      serG Cd d ++ serG Cd e ++ ser_vec32 (map ser_pairG m1) ++ ser_vec32 (map ser_pairG m2);
    p_ser_resp := fun z => let '(zc, z1, z2) := z in
      serF Cd zc ++ ser_vec32 (map ser_pairF z1) ++ ser_vec32 (map ser_pairF z2) |}.

  Definition enc_trans_rel (s : enc_trans_stmt M) (w : et_rand) : Prop :=
    let '(sk, w1, w2) := w in
    dl_public (et_dlog s) = sk *: dl_coeff (et_dlog s) /\
    Forall2 com_eq_rel (et_e1 s) w1 /\ Forall2 com_eq_rel (et_e2 s) w2 /\
    ed_public (et_elg s) = sk *: ed_c0 (et_elg s) + Fadd K (lin2 (map fst w1)) (lin2 (map fst w2)) *: ed_c1 (et_elg s).
  Definition enc_trans_rok (s : enc_trans_stmt M) (r : et_rand) : Prop :=
    let '(_, r1, r2) := r in List.length r1 = List.length (et_e1 s) /\ List.length r2 = List.length (et_e2 s).
  Definition enc_trans_recover (s : enc_trans_stmt M) (w : et_rand) (c : K) (z : et_rand) : et_rand :=
    let '(sk, w1, w2) := w in let '(zc, z1, z2) := z in
    (Fadd K zc (Fmul K c sk), map3 (fun st wi zi => com_eq_recover st wi c zi) (et_e1 s) w1 z1,
     map3 (fun st wi zi => com_eq_recover st wi c zi) (et_e2 s) w2 z2).

  Context {KL : FieldLaws K} {ML : ModLaws M}.
  Add Field Kf_et : (@F_th K KL).

  (** the chunk vectors: commit / respond / reconstruct agree, lengths are preserved and the
      randomness components of the responses are [R - c*r] under the linear combination *)
  Lemma et_items c : forall (es : list (com_eq_stmt M)) (ws : list (K * K)), Forall2 com_eq_rel es ws ->
    forall rs : list (K * K), List.length rs = List.length es ->
    exists ms zs,
      opt_all (map2 com_eq_commit es rs) = Some ms /\
      opt_all (map3 (fun st wi ri => com_eq_respond st wi ri c) es ws rs) = Some zs /\
      opt_all (map2 (fun st zi => com_eq_extract st c zi) es zs) = Some ms /\
      List.length zs = List.length es /\
      forall B p, lin2_go B p (map snd zs) = Fsub K (lin2_go B p (map snd rs)) (Fmul K c (lin2_go B p (map fst ws))).
  Proof.
    intros es ws R. induction R as [|s w es ws Hr R IH]; intros [|r rs] L; try discriminate.
    - exists [], []. repeat split; try reflexivity. intros; cbn. ring.
    - destruct (IH rs) as (ms & zs & E1 & E2 & E3 & E4 & E5); [cbn in L; lia|].
      destruct (com_eq_complete_ Cd s w r Hr I) as (a & Ha & Hz). destruct (Hz c) as (z & Hz1 & Hz2).
      exists (a :: ms), (z :: zs). cbn [map2 map3 opt_all].
      cbn [p_commit p_respond p_extract com_eq_proto] in Ha, Hz1, Hz2.
      rewrite Ha, Hz1, Hz2, E1, E2, E3. repeat split; try reflexivity; [cbn; congruence|].
      intros B p. cbn [map lin2_go]. rewrite E5. destruct w as [wr wa], r as [al cR]. cbn in Hz1. injection Hz1 as <-.
      cbn [fst snd]. ring.
  Qed.

  Theorem enc_trans_complete_ : complete enc_trans_proto enc_trans_rel enc_trans_rok.
  Proof.
    intros [[dp dc] [ep c0 c1] e1 e2] [[sk w1] w2] [[rc r1] r2] (Hd & R1 & R2 & He) [L1 L2]. cbn in Hd, He, L1, L2, R1, R2.
    subst dp ep.
    destruct (et_items (F0 K) e1 w1 R1 r1 L1) as (m1 & _ & C1 & _).
    destruct (et_items (F0 K) e2 w2 R2 r2 L2) as (m2 & _ & C2 & _).
    eexists. split.
    { cbn. rewrite C1, C2. reflexivity. }
    intro c.
    destruct (et_items c e1 w1 R1 r1 L1) as (m1' & z1 & C1' & Z1 & X1 & Lz1 & Lin1).
    destruct (et_items c e2 w2 R2 r2 L2) as (m2' & z2 & C2' & Z2 & X2 & Lz2 & Lin2).
    rewrite C1 in C1'. rewrite C2 in C2'. injection C1' as <-. injection C2' as <-.
    exists (Fadd K (Fopp K (Fmul K c sk)) rc, z1, z2). cbn.
    rewrite (Forall2_len _ _ _ R1), (Forall2_len _ _ _ R2) in *.
    rewrite <- L1, <- L2, !Nat.eqb_refl in *. cbn [negb]. rewrite Z1, Z2. split; [reflexivity|].
    rewrite <- Lz1, <- Lz2, !Nat.eqb_refl. cbn [negb]. rewrite X1, X2.
    unfold lin2. rewrite Lin1, Lin2. list_split; mod_norm.
  Qed.

  (** special soundness: extractor (z - z')/(c' - c) componentwise *)
  Definition enc_trans_extractor (s : enc_trans_stmt M) (c c' : K) (z z' : et_rand) : et_rand :=
    let '(zc, z1, z2) := z in let '(zc', z1', z2') := z' in
    (Fmul K (Finv K (Fsub K c' c)) (Fsub K zc zc'),
     map3 (fun st a b => com_eq_extractor st c c' a b) (et_e1 s) z1 z1',
     map3 (fun st a b => com_eq_extractor st c c' a b) (et_e2 s) z2 z2').

  Lemma ss_row (c c' : K) (y a a' : M) : c <> c' -> c *: y + a = c' *: y + a' ->
    y = Finv K (Fsub K c' c) *: (a - a').
  Proof.
    intros Hc E.
    assert (Hd : Fsub K c' c <> F0 K) by (intro Z; apply Hc; transitivity (Fsub K c' (Fsub K c' c)); [ring | rewrite Z; ring]).
    rewrite <- (smul_inv_cancel (Fsub K c' c) y Hd) at 1. f_equal.
    assert (Ea : a = c' *: y + a' - c *: y) by (apply (Gadd_cancel_l (c *: y)); rewrite E; mod_norm).
    rewrite Ea. mod_norm.
  Qed.

  Lemma et_items_ss c c' : c <> c' -> forall (es : list (com_eq_stmt M)) (zs zs' : list (K * K)) ms,
    opt_all (map2 (fun st zi => com_eq_extract st c zi) es zs) = Some ms ->
    opt_all (map2 (fun st zi => com_eq_extract st c' zi) es zs') = Some ms ->
    List.length zs = List.length es -> List.length zs' = List.length es ->
    Forall2 com_eq_rel es (map3 (fun st a b => com_eq_extractor st c c' a b) es zs zs') /\
    forall B p, lin2_go B p (map fst (map3 (fun st a b => com_eq_extractor st c c' a b) es zs zs')) =
                Fmul K (Finv K (Fsub K c' c)) (Fsub K (lin2_go B p (map snd zs)) (lin2_go B p (map snd zs'))).
  Proof.
    intros Hc. induction es as [|s es IH]; intros [|z zs] [|z' zs'] ms E E' L L'; try discriminate.
    - split; [constructor|]. intros; cbn. ring.
    - cbn [map2 opt_all] in E, E'.
      destruct (com_eq_extract s c z) as [a|] eqn:X; [|discriminate].
      destruct (com_eq_extract s c' z') as [a'|] eqn:X'; [|discriminate].
      destruct (opt_all (map2 (fun st zi => com_eq_extract st c zi) es zs)) as [m|] eqn:R; [|discriminate].
      destruct (opt_all (map2 (fun st zi => com_eq_extract st c' zi) es zs')) as [m'|] eqn:R'; [|discriminate].
      injection E as <-. injection E' as E1 E2. subst a' m'.
      destruct (IH zs zs' m R R') as [F Lin]; [cbn in L; lia | cbn in L'; lia|].
      cbn [map3 map]. split.
      + constructor; [|exact F]. exact (com_eq_special_sound_ Cd s a c c' z z' Hc X X').
      + intros B p. cbn [lin2_go]. rewrite Lin. destruct z as [zs0 zt], z' as [zs0' zt']. cbn. ring.
  Qed.

  Theorem enc_trans_special_sound_ : special_sound enc_trans_proto enc_trans_rel enc_trans_extractor.
  Proof.
    intros [[dp dc] [ep c0 c1] e1 e2] a c c' [[zc z1] z2] [[zc' z1'] z2'] Hc E E'.
    cbn [p_extract enc_trans_proto] in E, E'. unfold enc_trans_extract in E, E'. cbn [et_dlog et_elg et_e1 et_e2 dl_public dl_coeff ed_public ed_c0 ed_c1] in E, E'.
    destruct (Nat.eqb (List.length e1) (List.length z1)) eqn:L1; [|discriminate].
    destruct (Nat.eqb (List.length e2) (List.length z2)) eqn:L2; [|discriminate].
    destruct (Nat.eqb (List.length e1) (List.length z1')) eqn:L1'; [|discriminate].
    destruct (Nat.eqb (List.length e2) (List.length z2')) eqn:L2'; [|discriminate].
    apply Nat.eqb_eq in L1, L2, L1', L2'. cbn [negb] in E, E'.
    destruct (opt_all (map2 (fun st zi => com_eq_extract st c zi) e1 z1)) as [m1|] eqn:X1; [|discriminate].
    destruct (opt_all (map2 (fun st zi => com_eq_extract st c zi) e2 z2)) as [m2|] eqn:X2; [|discriminate].
    destruct (opt_all (map2 (fun st zi => com_eq_extract st c' zi) e1 z1')) as [m1'|] eqn:X1'; [|discriminate].
    destruct (opt_all (map2 (fun st zi => com_eq_extract st c' zi) e2 z2')) as [m2'|] eqn:X2'; [|discriminate].
    rewrite <- E' in E. injection E as Ed Ee -> ->.
    destruct (et_items_ss c c' Hc e1 z1 z1' m1' X1 X1') as [F1 Lin1]; auto.
    destruct (et_items_ss c c' Hc e2 z2 z2' m2' X2 X2') as [F2 Lin2]; auto.
    unfold enc_trans_rel, enc_trans_extractor. cbn [et_dlog et_elg et_e1 et_e2 dl_public dl_coeff ed_public ed_c0 ed_c1].
    repeat split; auto.
    - rewrite (Gadd_comm (zc *: dc)), (Gadd_comm (zc' *: dc)) in Ed. apply (ss_row c c' dp _ _ Hc) in Ed.
      rewrite Ed. mod_norm.
    - apply (ss_row c c' ep _ _ Hc) in Ee. rewrite Ee at 1. unfold lin2. rewrite Lin1, Lin2. mod_norm.
  Qed.

  (** a response whose chunk vectors do not have the statement's lengths is rejected *)
  Theorem enc_trans_extract_length_ : forall s c zc z1 z2 a,
    enc_trans_extract s c (zc, z1, z2) = Some a ->
    List.length z1 = List.length (et_e1 s) /\ List.length z2 = List.length (et_e2 s).
  Proof.
    intros s c zc z1 z2 a. unfold enc_trans_extract.
    destruct (Nat.eqb (List.length (et_e1 s)) (List.length z1)) eqn:E1; [|discriminate].
    destruct (Nat.eqb (List.length (et_e2 s)) (List.length z2)) eqn:E2; [|discriminate].
    intros _. apply Nat.eqb_eq in E1, E2. auto.
  Qed.

  Lemma Forall_True {A} (l : list A) : Forall (fun _ => True) l.
  Proof. induction l; constructor; auto. Qed.

  Context {CL : CodecLaws Cd}.
  Lemma elg_public_split k e e' x y : elg_public k e ++ x = elg_public k e' ++ y -> e = e' /\ x = y.
  Proof.
    destruct e as [a b c], e' as [a' b' c']. unfold elg_public. cbn [ed_public ed_c0 ed_c1].
    rewrite <- !app_assoc. intro E. apply (msg_split_G Cd) in E. destruct E as [-> E].
    change [serG Cd b; serG Cd c] with (map (serG Cd) [b; c]) in E.
    change [serG Cd b'; serG Cd c'] with (map (serG Cd) [b'; c']) in E.
    apply (msgs_split_G_samelen Cd) in E; [|reflexivity]. destruct E as [E ->]. injection E as -> ->. auto.
  Qed.

  (** [public] covers every field, every chunk and the number of chunks (V1) *)
  Theorem enc_trans_public_prefix_free_v1_ :
    public_prefix_free enc_trans_proto V1
      (fun s => (N.of_nat (List.length (et_e1 s)) < W64)%N /\ (N.of_nat (List.length (et_e2 s)) < W64)%N).
  Proof.
    intros [d e e1 e2] [d' e' e1' e2'] x y [L1 L2] [L1' L2'] E. cbn [et_e1 et_e2] in *.
    cbn [p_public enc_trans_proto] in E. unfold enc_trans_public in E. cbn [et_dlog et_elg et_e1 et_e2] in E.
    rewrite <- !app_assoc in E. apply elg_public_split in E. destruct E as [-> E].
    pose proof (rep_public_prefix_free_v1_ (com_eq_proto Cd) (fun _ => True) (com_eq_public_prefix_free_ Cd V1)) as F.
    destruct (F e1 e1' _ _ (conj L1 (Forall_True _)) (conj L1' (Forall_True _)) E) as [-> E'].
    destruct (F e2 e2' _ _ (conj L2 (Forall_True _)) (conj L2' (Forall_True _)) E') as [-> E''].
    destruct (dlog_public_prefix_free_ Cd V1 d d' _ _ I I E'') as [-> ->]. auto.
  Qed.
  (** legacy framing (the deployed one): among statements with the same numbers of chunks *)
  Theorem enc_trans_public_prefix_free_fixed_size_ : forall k n1 n2,
    public_prefix_free enc_trans_proto k (fun s => List.length (et_e1 s) = n1 /\ List.length (et_e2 s) = n2).
  Proof.
    intros k n1 n2 [d e e1 e2] [d' e' e1' e2'] x y [L1 L2] [L1' L2'] E. cbn [et_e1 et_e2] in *.
    cbn [p_public enc_trans_proto] in E. unfold enc_trans_public in E. cbn [et_dlog et_elg et_e1 et_e2] in E.
    rewrite <- !app_assoc in E. apply elg_public_split in E. destruct E as [-> E].
    pose proof (fun n => rep_public_prefix_free_fixed_size_ (com_eq_proto Cd) k (fun _ => True) n (com_eq_public_prefix_free_ Cd k)) as F.
    destruct (F n1 e1 e1' _ _ (conj L1 (Forall_True _)) (conj L1' (Forall_True _)) E) as [-> E'].
    destruct (F n2 e2 e2' _ _ (conj L2 (Forall_True _)) (conj L2' (Forall_True _)) E') as [-> E''].
    destruct (dlog_public_prefix_free_ Cd k d d' _ _ I I E'') as [-> ->]. auto.
  Qed.
End EncTrans.
