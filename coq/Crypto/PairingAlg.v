(** Algebra for the pairing-based consensus primitives (C19): BLS aggregate signatures and
    Pointcheval-Sanders signatures.  Self-contained (does not depend on Crypto/Alg.v).

    * [pops]  : the *operations* of a pairing setting: a scalar field [PF], three [PF]-modules
      [P1], [P2], [PT] (written additively; [PT] is the target group, so the code's
      "product of pairings" is a sum here), generators [gen1], [gen2], a pairing
      [pair : P1 -> P2 -> PT] and discrete-log maps [dl1], [dl2] (used by statements only,
      never by a protocol function).
    * [plaws] : the laws: [field_theory] (so [ring]/[field] work), module laws, bilinearity,
      non-degeneracy ([pair gen1 gen2 <> 0]) and one-dimensionality ([P = dl P * gen]).
      These model "prime-order groups with a bilinear non-degenerate pairing" and are part of
      the trusted base of C19.
    * protocol models are functions of the operations only, hence executable on the instance
      [ZrP] ("in the exponent": PF = Z mod r, P1 = P2 = PT = PF, pair a b = a*b); theorems
      take [plaws] as a Section hypothesis, i.e. they hold for every lawful instance.
    * [F5P] is a complete lawful instance over the field with five elements (the laws are
      jointly satisfiable). *)
From Coq Require Import ZArith List Field Ring Lia Bool.
Import ListNotations.

Record fops : Type := mk_fops {
  fcar :> Type;
  f0 : fcar; f1 : fcar;
  fadd : fcar -> fcar -> fcar; fmul : fcar -> fcar -> fcar; fsub : fcar -> fcar -> fcar;
  fopp : fcar -> fcar; fdiv : fcar -> fcar -> fcar; finv : fcar -> fcar;
  feqb : fcar -> fcar -> bool }.

Record mops (K : fops) : Type := mk_mops {
  mcar :> Type;
  m0 : mcar;
  madd : mcar -> mcar -> mcar; mopp : mcar -> mcar;
  msmul : K -> mcar -> mcar;
  meqb : mcar -> mcar -> bool }.
Arguments m0 {K} _. Arguments madd {K} _ _ _. Arguments mopp {K} _ _.
Arguments msmul {K} _ _ _. Arguments meqb {K} _ _ _.

Definition msub {K} (M : mops K) (a b : M) : M := madd M a (mopp M b).

Record mlaws {K : fops} (M : mops K) : Prop := mk_mlaws {
  madd_assoc : forall a b c : M, madd M a (madd M b c) = madd M (madd M a b) c;
  madd_comm : forall a b : M, madd M a b = madd M b a;
  madd_0_l : forall a : M, madd M (m0 M) a = a;
  madd_opp_r : forall a : M, madd M a (mopp M a) = m0 M;
  msmul_add_r : forall (x : K) (a b : M), msmul M x (madd M a b) = madd M (msmul M x a) (msmul M x b);
  msmul_add_l : forall (x y : K) (a : M), msmul M (fadd K x y) a = madd M (msmul M x a) (msmul M y a);
  msmul_mul : forall (x y : K) (a : M), msmul M (fmul K x y) a = msmul M x (msmul M y a);
  msmul_1 : forall a : M, msmul M (f1 K) a = a;
  meqb_spec : forall a b : M, meqb M a b = true <-> a = b }.

Record pops : Type := mk_pops {
  PF : fops;
  P1 : mops PF; P2 : mops PF; PT : mops PF;
  gen1 : P1; gen2 : P2;
  pair : P1 -> P2 -> PT;
  dl1 : P1 -> PF; dl2 : P2 -> PF }.

Record plaws (A : pops) : Prop := mk_plaws {
  pf_th : field_theory (f0 (PF A)) (f1 (PF A)) (fadd (PF A)) (fmul (PF A)) (fsub (PF A))
            (fopp (PF A)) (fdiv (PF A)) (finv (PF A)) eq;
  pf_eqb : forall a b : PF A, feqb (PF A) a b = true <-> a = b;
  p1_laws : mlaws (P1 A); p2_laws : mlaws (P2 A); pt_laws : mlaws (PT A);
  pair_add_l : forall a b c, pair A (madd _ a b) c = madd _ (pair A a c) (pair A b c);
  pair_add_r : forall a b c, pair A a (madd _ b c) = madd _ (pair A a b) (pair A a c);
  pair_smul_l : forall x a b, pair A (msmul _ x a) b = msmul _ x (pair A a b);
  pair_smul_r : forall x a b, pair A a (msmul _ x b) = msmul _ x (pair A a b);
  pair_nondeg : pair A (gen1 A) (gen2 A) <> m0 (PT A);
  dl1_spec : forall a, a = msmul _ (dl1 A a) (gen1 A);
  dl2_spec : forall a, a = msmul _ (dl2 A a) (gen2 A) }.

(** ** Generic module facts *)
Section Mod.
  Variable K : fops.
  Hypothesis Kth : field_theory (f0 K) (f1 K) (fadd K) (fmul K) (fsub K) (fopp K) (fdiv K) (finv K) eq.
  Hypothesis Keqb : forall a b : K, feqb K a b = true <-> a = b.
  Add Field Kfield : Kth.
  Variable M : mops K.
  Hypothesis ML : mlaws M.

  Notation "a + b" := (madd M a b).
  Notation "x *: a" := (msmul M x a) (at level 40, left associativity).

  Lemma madd_0_r a : a + m0 M = a.
  Proof. rewrite (madd_comm M ML). apply (madd_0_l M ML). Qed.

  Lemma madd_opp_l a : mopp M a + a = m0 M.
  Proof. rewrite (madd_comm M ML). apply (madd_opp_r M ML). Qed.

  Lemma madd_cancel_l a b c : a + b = a + c -> b = c.
  Proof.
    intros H. assert (E : mopp M a + (a + b) = mopp M a + (a + c)) by now rewrite H.
    now rewrite !(madd_assoc M ML), madd_opp_l, !(madd_0_l M ML) in E.
  Qed.

  Lemma msmul_0_l a : f0 K *: a = m0 M.
  Proof.
    apply (madd_cancel_l (f0 K *: a)). rewrite <- (msmul_add_l M ML), madd_0_r.
    f_equal. ring.
  Qed.

  Lemma msmul_0_r x : x *: m0 M = m0 M.
  Proof.
    apply (madd_cancel_l (x *: m0 M)). rewrite <- (msmul_add_r M ML), !madd_0_r.
    reflexivity.
  Qed.

  Lemma msmul_opp_l x a : fopp K x *: a = mopp M (x *: a).
  Proof.
    apply (madd_cancel_l (x *: a)). rewrite <- (msmul_add_l M ML), (madd_opp_r M ML).
    replace (fadd K x (fopp K x)) with (f0 K) by ring. apply msmul_0_l.
  Qed.

  Lemma mopp_as_smul a : mopp M a = fopp K (f1 K) *: a.
  Proof. now rewrite msmul_opp_l, (msmul_1 M ML). Qed.

  Lemma meqb_refl a : meqb M a a = true.
  Proof. now apply (meqb_spec M ML). Qed.

  Lemma meqb_false a b : meqb M a b = false <-> a <> b.
  Proof.
    split.
    - intros H E. apply (meqb_spec M ML) in E. congruence.
    - intros H. destruct (meqb M a b) eqn:E; [|reflexivity]. apply (meqb_spec M ML) in E. contradiction.
  Qed.

  Lemma feqb_false (a b : K) : feqb K a b = false <-> a <> b.
  Proof.
    split.
    - intros H E. apply Keqb in E. congruence.
    - intros H. destruct (feqb K a b) eqn:E; [|reflexivity]. apply Keqb in E. contradiction.
  Qed.

  Lemma f_eq_dec (a b : K) : a = b \/ a <> b.
  Proof. destruct (feqb K a b) eqn:E; [left; now apply Keqb | right; now apply feqb_false]. Qed.

  (** A module generated by one non-zero element [g] is torsion free over the field. *)
  Variable g : M.
  Hypothesis g_nz : g <> m0 M.

  Lemma msmul_gen_zero x : x *: g = m0 M -> x = f0 K.
  Proof.
    intros H. destruct (f_eq_dec x (f0 K)) as [|N]; [assumption|]. exfalso. apply g_nz.
    rewrite <- (msmul_1 M ML g). replace (f1 K) with (fmul K (finv K x) x) by (field; assumption).
    now rewrite (msmul_mul M ML), H, msmul_0_r.
  Qed.

  Lemma msmul_gen_inj x y : x *: g = y *: g -> x = y.
  Proof.
    intros H. assert (Z : fsub K x y *: g = m0 M).
    { replace (fsub K x y) with (fadd K x (fopp K y)) by ring.
      now rewrite (msmul_add_l M ML), msmul_opp_l, H, (madd_opp_r M ML). }
    apply msmul_gen_zero in Z. rewrite <- (Radd_0_l (F_R Kth) y) at 1. rewrite <- Z. ring.
  Qed.

  (** With a discrete-log map, [M] is isomorphic to [K]: every module identity becomes a
      field identity. *)
  Variable dl : M -> K.
  Hypothesis dl_spec : forall a, a = dl a *: g.

  Lemma dl_inj a b : dl a = dl b -> a = b.
  Proof. intros H. rewrite (dl_spec a), (dl_spec b). now rewrite H. Qed.

  Lemma dl_smul_gen x : dl (x *: g) = x.
  Proof. apply msmul_gen_inj. now rewrite <- dl_spec. Qed.

  Lemma dl_gen : dl g = f1 K.
  Proof. rewrite <- (msmul_1 M ML g) at 1. apply dl_smul_gen. Qed.

  Lemma dl_zero : dl (m0 M) = f0 K.
  Proof. rewrite <- (msmul_0_l g). apply dl_smul_gen. Qed.

  Lemma dl_add a b : dl (a + b) = fadd K (dl a) (dl b).
  Proof.
    apply msmul_gen_inj. rewrite <- dl_spec, (msmul_add_l M ML), <- !dl_spec. reflexivity.
  Qed.

  Lemma dl_smul x a : dl (x *: a) = fmul K x (dl a).
  Proof.
    apply msmul_gen_inj. rewrite <- dl_spec, (msmul_mul M ML), <- dl_spec. reflexivity.
  Qed.

  Lemma dl_opp a : dl (mopp M a) = fopp K (dl a).
  Proof. rewrite mopp_as_smul, dl_smul. ring. Qed.

  Lemma dl_sub a b : dl (msub M a b) = fsub K (dl a) (dl b).
  Proof. unfold msub. rewrite dl_add, dl_opp. ring. Qed.

  Lemma dl_eq_zero a : dl a = f0 K <-> a = m0 M.
  Proof.
    split; intros H.
    - apply dl_inj. now rewrite dl_zero.
    - rewrite H. apply dl_zero.
  Qed.

  Lemma dl_eq a b : a = b <-> dl a = dl b.
  Proof. split; [now intros ->|apply dl_inj]. Qed.
End Mod.

(** ** Facts about a lawful pairing setting *)
Section Pairing.
  Variable A : pops.
  Hypothesis L : plaws A.
  Add Field PFfield : (pf_th A L).

  Notation K := (PF A).
  Definition gT : PT A := pair A (gen1 A) (gen2 A).

  Lemma gT_nz : gT <> m0 (PT A).
  Proof. exact (pair_nondeg A L). Qed.

  Lemma gen1_nz : gen1 A <> m0 (P1 A).
  Proof.
    intros H. apply (pair_nondeg A L). rewrite H.
    rewrite <- (msmul_0_l K (pf_th A L) (P1 A) (p1_laws A L) (m0 _)).
    rewrite (pair_smul_l A L). apply (msmul_0_l K (pf_th A L) (PT A) (pt_laws A L)).
  Qed.

  Lemma gen2_nz : gen2 A <> m0 (P2 A).
  Proof.
    intros H. apply (pair_nondeg A L). rewrite H.
    rewrite <- (msmul_0_l K (pf_th A L) (P2 A) (p2_laws A L) (m0 _)).
    rewrite (pair_smul_r A L). apply (msmul_0_l K (pf_th A L) (PT A) (pt_laws A L)).
  Qed.

  (** The pairing in the exponent. *)
  Lemma pair_exp a b : pair A a b = msmul (PT A) (fmul K (dl1 A a) (dl2 A b)) gT.
  Proof.
    rewrite (dl1_spec A L a) at 1. rewrite (dl2_spec A L b) at 1.
    rewrite (pair_smul_l A L), (pair_smul_r A L), <- (msmul_mul _ (pt_laws A L)). reflexivity.
  Qed.

  Lemma gT_inj x y : msmul (PT A) x gT = msmul (PT A) y gT -> x = y.
  Proof.
    apply (msmul_gen_inj K (pf_th A L) (pf_eqb A L) (PT A) (pt_laws A L) gT gT_nz).
  Qed.

  Lemma pair_eq_iff a b c d :
    pair A a b = pair A c d <-> fmul K (dl1 A a) (dl2 A b) = fmul K (dl1 A c) (dl2 A d).
  Proof.
    rewrite !pair_exp. split; [apply gT_inj | now intros ->].
  Qed.

  (** Discrete-log calculus for [P1] and [P2], packaged for rewriting. *)
  Ltac dl_side := first [exact (pf_th A L) | exact (pf_eqb A L) | exact (p1_laws A L) | exact (p2_laws A L)
                         | exact gen1_nz | exact gen2_nz | exact (dl1_spec A L) | exact (dl2_spec A L)].
  Lemma dl1_add (a b : P1 A) : dl1 A (madd _ a b) = fadd K (dl1 A a) (dl1 A b).
  Proof. apply dl_add with (g := gen1 A); dl_side. Qed.
  Lemma dl1_smul (x : K) (a : P1 A) : dl1 A (msmul _ x a) = fmul K x (dl1 A a).
  Proof. apply dl_smul with (g := gen1 A); dl_side. Qed.
  Lemma dl1_opp (a : P1 A) : dl1 A (mopp _ a) = fopp K (dl1 A a).
  Proof. apply dl_opp with (g := gen1 A); dl_side. Qed.
  Lemma dl1_sub (a b : P1 A) : dl1 A (msub _ a b) = fsub K (dl1 A a) (dl1 A b).
  Proof. apply dl_sub with (g := gen1 A); dl_side. Qed.
  Lemma dl1_zero  : dl1 A (m0 _) = f0 K.
  Proof. apply dl_zero with (g := gen1 A); dl_side. Qed.
  Lemma dl1_gen  : dl1 A (gen1 A) = f1 K.
  Proof. apply dl_gen with (g := gen1 A); dl_side. Qed.
  Lemma dl1_eq (a b : P1 A) : a = b <-> dl1 A a = dl1 A b.
  Proof. apply dl_eq with (g := gen1 A); dl_side. Qed.
  Lemma dl1_eq_zero (a : P1 A) : dl1 A a = f0 K <-> a = m0 (P1 A).
  Proof. apply dl_eq_zero with (g := gen1 A); dl_side. Qed.
  Lemma dl2_add (a b : P2 A) : dl2 A (madd _ a b) = fadd K (dl2 A a) (dl2 A b).
  Proof. apply dl_add with (g := gen2 A); dl_side. Qed.
  Lemma dl2_smul (x : K) (a : P2 A) : dl2 A (msmul _ x a) = fmul K x (dl2 A a).
  Proof. apply dl_smul with (g := gen2 A); dl_side. Qed.
  Lemma dl2_opp (a : P2 A) : dl2 A (mopp _ a) = fopp K (dl2 A a).
  Proof. apply dl_opp with (g := gen2 A); dl_side. Qed.
  Lemma dl2_sub (a b : P2 A) : dl2 A (msub _ a b) = fsub K (dl2 A a) (dl2 A b).
  Proof. apply dl_sub with (g := gen2 A); dl_side. Qed.
  Lemma dl2_zero  : dl2 A (m0 _) = f0 K.
  Proof. apply dl_zero with (g := gen2 A); dl_side. Qed.
  Lemma dl2_gen  : dl2 A (gen2 A) = f1 K.
  Proof. apply dl_gen with (g := gen2 A); dl_side. Qed.
  Lemma dl2_eq (a b : P2 A) : a = b <-> dl2 A a = dl2 A b.
  Proof. apply dl_eq with (g := gen2 A); dl_side. Qed.
  Lemma dl2_eq_zero (a : P2 A) : dl2 A a = f0 K <-> a = m0 (P2 A).
  Proof. apply dl_eq_zero with (g := gen2 A); dl_side. Qed.

  (** [check_pairing_eq a b c d] as coded in [curve_arithmetic::Pairing]:
      [e(a,b) * e(-c,d) == 1]. *)
  Definition check_pairing_eq (a : P1 A) (b : P2 A) (c : P1 A) (d : P2 A) : bool :=
    meqb (PT A) (madd (PT A) (pair A a b) (pair A (mopp (P1 A) c) d)) (m0 (PT A)).

  Lemma check_pairing_eq_iff a b c d :
    check_pairing_eq a b c d = true <-> pair A a b = pair A c d.
  Proof.
    unfold check_pairing_eq. rewrite (meqb_spec _ (pt_laws A L)), pair_eq_iff, !pair_exp.
    rewrite <- (msmul_add_l _ (pt_laws A L)).
    rewrite dl1_opp. split; intros H.
    - apply msmul_gen_zero with (g := gT) in H;
        [| exact (pf_th A L) | exact (pf_eqb A L) | exact (pt_laws A L) | exact gT_nz ].
      assert (E : fmul K (dl1 A a) (dl2 A b)
                  = fadd K (fadd K (fmul K (dl1 A a) (dl2 A b)) (fmul K (fopp K (dl1 A c)) (dl2 A d)))
                      (fmul K (dl1 A c) (dl2 A d))) by ring.
      rewrite E, H. ring.
    - rewrite H.
      replace (fadd K (fmul K (dl1 A c) (dl2 A d)) (fmul K (fopp K (dl1 A c)) (dl2 A d))) with (f0 K) by ring.
      apply msmul_0_l; [exact (pf_th A L) | exact (pt_laws A L)].
  Qed.
End Pairing.

(** ** Executable instance: the exponent field [Z mod r] *)
Definition r_bls : Z := 0x73eda753299d7d483339d80809a1d80553bda402fffe5bfeffffffff00000001.

Fixpoint powmod (b : Z) (e : positive) (m : Z) : Z :=
  match e with
  | xH => b mod m
  | xO e' => let t := powmod b e' m in (t * t) mod m
  | xI e' => let t := powmod b e' m in (((t * t) mod m) * b) mod m
  end.

Definition zinv (m a : Z) : Z :=
  match (m - 2)%Z with Zpos e => powmod a e m | _ => 0%Z end.

Definition ZmF (m : Z) : fops :=
  mk_fops Z 0%Z 1%Z (fun a b => (a + b) mod m)%Z (fun a b => (a * b) mod m)%Z
    (fun a b => (a - b) mod m)%Z (fun a => (- a) mod m)%Z
    (fun a b => (a * zinv m b) mod m)%Z (zinv m) Z.eqb.

Definition ZmM (m : Z) : mops (ZmF m) :=
  mk_mops (ZmF m) Z 0%Z (fun a b => (a + b) mod m)%Z (fun a => (- a) mod m)%Z
    (fun x a => (x * a) mod m)%Z Z.eqb.

(** G1 = G2 = GT = F, generators 1, pairing = multiplication, dlog = identity. *)
Definition ZmP (m : Z) : pops :=
  mk_pops (ZmF m) (ZmM m) (ZmM m) (ZmM m) 1%Z 1%Z (fun a b => (a * b) mod m)%Z (fun a => a) (fun a => a).

Definition ZrP : pops := ZmP r_bls.

(** ** A complete lawful instance over the field with five elements *)
Inductive five : Type := V0 | V1 | V2 | V3 | V4.
Definition five_to_Z (a : five) : Z := match a with V0 => 0 | V1 => 1 | V2 => 2 | V3 => 3 | V4 => 4 end.
Definition five_of_Z (z : Z) : five :=
  match (z mod 5)%Z with 0%Z => V0 | 1%Z => V1 | 2%Z => V2 | 3%Z => V3 | _ => V4 end.
Definition five_eqb (a b : five) : bool := Z.eqb (five_to_Z a) (five_to_Z b).
Definition five_lift2 (f : Z -> Z -> Z) (a b : five) : five := five_of_Z (f (five_to_Z a) (five_to_Z b)).
Definition five_inv (a : five) : five := match a with V0 => V0 | V1 => V1 | V2 => V3 | V3 => V2 | V4 => V4 end.

Definition F5 : fops :=
  mk_fops five V0 V1 (five_lift2 Z.add) (five_lift2 Z.mul) (five_lift2 Z.sub)
    (fun a => five_of_Z (- five_to_Z a)) (fun a b => five_lift2 Z.mul a (five_inv b)) five_inv five_eqb.
Definition M5 : mops F5 :=
  mk_mops F5 five V0 (five_lift2 Z.add) (fun a => five_of_Z (- five_to_Z a)) (five_lift2 Z.mul) five_eqb.
Definition F5P : pops :=
  mk_pops F5 M5 M5 M5 V1 V1 (five_lift2 Z.mul) (fun a => a) (fun a => a).

Lemma M5_laws : mlaws M5.
Proof.
  constructor; cbn.
  - intros [] [] []; reflexivity.
  - intros [] []; reflexivity.
  - intros []; reflexivity.
  - intros []; reflexivity.
  - intros [] [] []; reflexivity.
  - intros [] [] []; reflexivity.
  - intros [] [] []; reflexivity.
  - intros []; reflexivity.
  - intros [] []; cbn; split; intros H; try reflexivity; try discriminate.
Qed.

Lemma F5P_laws : plaws F5P.
Proof.
  constructor; try exact M5_laws; cbn.
  - constructor; [constructor|..]; cbn.
    + intros []; reflexivity.
    + intros [] []; reflexivity.
    + intros [] [] []; reflexivity.
    + intros []; reflexivity.
    + intros [] []; reflexivity.
    + intros [] [] []; reflexivity.
    + intros [] [] []; reflexivity.
    + intros [] []; reflexivity.
    + intros []; reflexivity.
    + discriminate.
    + intros [] []; reflexivity.
    + intros [] H; try reflexivity. now elim H.
  - intros [] []; cbn; split; intros H; try reflexivity; try discriminate.
  - intros [] [] []; reflexivity.
  - intros [] [] []; reflexivity.
  - intros [] [] []; reflexivity.
  - intros [] [] []; reflexivity.
  - discriminate.
  - intros []; reflexivity.
  - intros []; reflexivity.
Qed.
