(** Model of Shamir secret sharing, rust-src/concordium_base/src/id/secret_sharing.rs
    ([share], [lagrange], [reveal], [reveal_in_group]).  Definitions only, executable.
    Shared by C20 and C08.

    The scalar field is abstract: a carrier [F] with the operations the code uses
    ([zero], [one], [add_assign], [sub_assign], [mul_assign], [inverse() : Option]);
    the group is an abstract [F]-module ([zero_point], [plus_point], [mul_by_scalar]).
    Evaluation points are field elements: the code converts its [u64] points with
    [C::scalar_from_u64], which is applied by the caller of this model. *)
From Coq Require Import List.
Import ListNotations.

Section Shamir.
  Variable F : Type.
  Variables f0 f1 : F.
  Variables fadd fsub fmul : F -> F -> F.
  Variable finv : F -> option F.          (* [Field::inverse]: [None] exactly on zero *)

  (** One share: Horner evaluation of [secret + c1 x + ... + c_{t-1} x^{t-1}] where
      [coeffs = [c1; ...; c_{t-1}]] ([SharingData::coefficients], the zeroth
      coefficient - the secret - is not in the list):
<<
   let mut share = zero;
   for coeff in coefficients.iter().rev() { share *= x; share += coeff; }
   share *= x; share += secret;
>> *)
  Definition eval_share (secret : F) (coeffs : list F) (x : F) : F :=
    let share := fold_left (fun share coeff => fadd (fmul share x) coeff) (rev coeffs) f0 in
    fadd (fmul share x) secret.

  (** [share(secret, points, threshold, rng).shares] for the coefficients drawn by the rng. *)
  Definition share (secret : F) (coeffs : list F) (points : list F) : list F :=
    map (eval_share secret coeffs) points.

  (** [lagrange(kxs, i)]:
<<
   kxs.iter().fold(one, |accum, &j| { let mut fe_j = j; let mut j_minus_i = fe_j; j_minus_i -= point;
       match j_minus_i.inverse() { None => accum, Some(z) => { fe_j *= z; fe_j *= accum; fe_j } } })
>> *)
  Definition lagrange (kxs : list F) (i : F) : F :=
    fold_left (fun accum j =>
                 match finv (fsub j i) with
                 | None => accum
                 | Some z => fmul (fmul j z) accum
                 end) kxs f1.

  (** [reveal(shares)]: [fold(zero, |accum, (i, v)| lagrange(kxs, i) * v + accum)]. *)
  Definition reveal (shares : list (F * F)) : F :=
    let kxs := map fst shares in
    fold_left (fun accum iv => fadd (fmul (lagrange kxs (fst iv)) (snd iv)) accum) shares f0.

  Variable G : Type.
  Variable gzero : G.
  Variable gadd : G -> G -> G.
  Variable smul : F -> G -> G.             (* [v.mul_by_scalar(&s)] *)

  (** [reveal_in_group(shares)]: [fold(zero_point, |accum, (i, v)| v * lagrange(kxs, i) + accum)]. *)
  Definition reveal_in_group (shares : list (F * G)) : G :=
    let kxs := map fst shares in
    fold_left (fun accum iv => gadd (smul (lagrange kxs (fst iv)) (snd iv)) accum) shares gzero.
End Shamir.

(** Executable instance: the prime field Z mod r (inverse by extended Euclid), and "in the
    exponent" the module Z mod r over itself. *)
From Coq Require Import ZArith.
Local Open Scope Z_scope.

(** inverse modulo the prime [r] by the extended Euclidean algorithm (fuel 600 > 1.45 * 256
    steps): invariant [t_i * a = r_i (mod r)], at the end [r_0 = gcd = 1]. *)
Fixpoint egcd (fuel : nat) (r0 r1 t0 t1 : Z) : Z :=
  match fuel with
  | O => t0
  | S f => if r1 =? 0 then t0 else let q := r0 / r1 in egcd f r1 (r0 - q * r1) t1 (t0 - q * t1)
  end.
Definition zr_inv (r : Z) (x : Z) : option Z :=
  let a := x mod r in
  if a =? 0 then None else Some ((egcd 600 r a 0 1) mod r).

Definition zr_add (r a b : Z) := (a + b) mod r.
Definition zr_sub (r a b : Z) := (a - b) mod r.
Definition zr_mul (r a b : Z) := (a * b) mod r.

Definition zr_share (r : Z) := share Z 0 (zr_add r) (zr_mul r).
Definition zr_lagrange (r : Z) := lagrange Z 1 (zr_sub r) (zr_mul r) (zr_inv r).
Definition zr_reveal (r : Z) := reveal Z 0 1 (zr_add r) (zr_sub r) (zr_mul r) (zr_inv r).
(** group element = its discrete logarithm *)
Definition zr_reveal_in_group (r : Z) :=
  reveal_in_group Z 1 (zr_sub r) (zr_mul r) (zr_inv r) Z 0 (zr_add r) (zr_mul r).
