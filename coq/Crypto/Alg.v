(** Algebra without a curve (DESIGN 4.5 / 4.6), shared by C07, C08, C11, C12, C18, C19.

    A scalar field is a [FieldOps] (carrier + operations, executable) together with
    [FieldLaws] ([field_theory], so [ring]/[field] work, and a decidable equality).
    A prime-order group is an [F]-module: a [ModOps] (additive notation, scalar action
    [smul]) together with [ModLaws].  Protocol models are functions of the *operations*
    only, so the very same definitions run on the executable instance [ZrF]/[ZrG]
    ("in the exponent": F = Z mod r, G = F, scalar action = multiplication) and are
    reasoned about for every lawful instance: theorems take [FieldLaws]/[ModLaws] as
    hypotheses (Section variables), i.e. after [End] they are universally quantified
    over all fields and all modules.  Nothing is assumed about BLS12-381 beyond
    "a prime-order group is a one-dimensional module over its scalar field".

    Usage in a client file:
<<
    Section S.
      Context {K : FieldOps} {KL : FieldLaws K} {M : ModOps K} {ML : ModLaws M}.
      Add Field Kfield : (@F_th K KL).
      ... field identities by [ring]/[field]; module identities by [mod_norm] ...
>> *)
From Coq Require Import ZArith List Field Ring Lia Bool.
Import ListNotations.

Record FieldOps : Type := mkFieldOps {
  F :> Type;
  F0 : F; F1 : F;
  Fadd : F -> F -> F; Fmul : F -> F -> F; Fsub : F -> F -> F; Fopp : F -> F;
  Fdiv : F -> F -> F; Finv : F -> F;
  Feqb : F -> F -> bool }.

Class FieldLaws (K : FieldOps) : Prop := mkFieldLaws {
  F_th : field_theory (F0 K) (F1 K) (Fadd K) (Fmul K) (Fsub K) (Fopp K) (Fdiv K) (Finv K) eq;
  Feqb_spec : forall a b : K, Feqb K a b = true <-> a = b }.

Record ModOps (K : FieldOps) : Type := mkModOps {
  G :> Type;
  G0 : G;
  Gadd : G -> G -> G; Gopp : G -> G;
  smul : K -> G -> G;
  Geqb : G -> G -> bool }.
Arguments G {K} _. Arguments G0 {K} _. Arguments Gadd {K} _ _ _. Arguments Gopp {K} _ _.
Arguments smul {K} _ _ _. Arguments Geqb {K} _ _ _.

Class ModLaws {K : FieldOps} (M : ModOps K) : Prop := mkModLaws {
  Gadd_assoc : forall a b c : M, Gadd M a (Gadd M b c) = Gadd M (Gadd M a b) c;
  Gadd_comm : forall a b : M, Gadd M a b = Gadd M b a;
  Gadd_0_l : forall a : M, Gadd M (G0 M) a = a;
  Gadd_opp_r : forall a : M, Gadd M a (Gopp M a) = G0 M;
  smul_add_r : forall (x : K) (a b : M), smul M x (Gadd M a b) = Gadd M (smul M x a) (smul M x b);
  smul_add_l : forall (x y : K) (a : M), smul M (Fadd K x y) a = Gadd M (smul M x a) (smul M y a);
  smul_mul : forall (x y : K) (a : M), smul M (Fmul K x y) a = smul M x (smul M y a);
  smul_1 : forall a : M, smul M (F1 K) a = a;
  Geqb_spec : forall a b : M, Geqb M a b = true <-> a = b }.

Declare Scope F_scope.
Delimit Scope F_scope with F.
Declare Scope G_scope.
Delimit Scope G_scope with G.
Notation "a + b" := (Fadd _ a b) : F_scope.
Notation "a * b" := (Fmul _ a b) : F_scope.
Notation "a - b" := (Fsub _ a b) : F_scope.
Notation "- a" := (Fopp _ a) : F_scope.
Notation "a / b" := (Fdiv _ a b) : F_scope.
Notation "a + b" := (Gadd _ a b) : G_scope.
Notation "- a" := (Gopp _ a) : G_scope.
Notation "x *: a" := (smul _ x a) (at level 40, left associativity) : G_scope.

Definition Gsub {K} (M : ModOps K) (a b : M) : M := Gadd M a (Gopp M b).
Notation "a - b" := (Gsub _ a b) : G_scope.

(** ** Vectors: multi-scalar multiplication ([multiexp]) and pointwise operations.
    All binary list operations truncate to the shorter argument, like [izip!]/[zip]. *)
Section Vec.
  Context {K : FieldOps} {M : ModOps K}.

  Fixpoint map2 {A B C} (f : A -> B -> C) (xs : list A) (ys : list B) : list C :=
    match xs, ys with
    | x :: xs', y :: ys' => f x y :: map2 f xs' ys'
    | _, _ => []
    end.

  (** [multiexp(gs, ws)] = sum_i ws_i * gs_i. *)
  Fixpoint msm (ws : list K) (gs : list M) : M :=
    match ws, gs with
    | w :: ws', g :: gs' => Gadd M (smul M w g) (msm ws' gs')
    | _, _ => G0 M
    end.

  Fixpoint Gsum (gs : list M) : M :=
    match gs with [] => G0 M | g :: gs' => Gadd M g (Gsum gs') end.
  Fixpoint Fsum (xs : list K) : K :=
    match xs with [] => F0 K | x :: xs' => Fadd K x (Fsum xs') end.
  (** inner product in the field *)
  Fixpoint Fdot (xs ys : list K) : K :=
    match xs, ys with
    | x :: xs', y :: ys' => Fadd K (Fmul K x y) (Fdot xs' ys')
    | _, _ => F0 K
    end.

  Definition vadd (a b : list K) : list K := map2 (Fadd K) a b.
  Definition vsub (a b : list K) : list K := map2 (Fsub K) a b.
  Definition vscale (c : K) (a : list K) : list K := map (Fmul K c) a.
  Definition gvadd (a b : list M) : list M := map2 (Gadd M) a b.
  Definition gvsub (a b : list M) : list M := map2 (Gsub M) a b.
  Definition gvscale (c : K) (a : list M) : list M := map (smul M c) a.

  Fixpoint list_eqb {A} (e : A -> A -> bool) (xs ys : list A) : bool :=
    match xs, ys with
    | [], [] => true
    | x :: xs', y :: ys' => e x y && list_eqb e xs' ys'
    | _, _ => false
    end.
End Vec.

(** ** Laws *)
Section Laws.
  Context {K : FieldOps} {KL : FieldLaws K} {M : ModOps K} {ML : ModLaws M}.
  Add Field Kfield : (@F_th K KL).
  Local Open Scope G_scope.

  Lemma F1_neq_0 : F1 K <> F0 K.
  Proof. exact (F_1_neq_0 F_th). Qed.

  Lemma Feq_dec : forall a b : K, {a = b} + {a <> b}.
  Proof.
    intros a b. destruct (Feqb K a b) eqn:E.
    - left. now apply Feqb_spec.
    - right. intro H. apply Feqb_spec in H. congruence.
  Qed.
  Lemma Geq_dec : forall a b : M, {a = b} + {a <> b}.
  Proof.
    intros a b. destruct (Geqb M a b) eqn:E.
    - left. now apply Geqb_spec.
    - right. intro H. apply Geqb_spec in H. congruence.
  Qed.

  Lemma Gadd_0_r (a : M) : a + G0 M = a.
  Proof. rewrite Gadd_comm. apply Gadd_0_l. Qed.
  Lemma Gadd_opp_l (a : M) : - a + a = G0 M.
  Proof. rewrite Gadd_comm. apply Gadd_opp_r. Qed.
  Lemma Gadd_cancel_l (a b c : M) : a + b = a + c -> b = c.
  Proof.
    intro H. assert (E : - a + (a + b) = - a + (a + c)) by now rewrite H.
    now rewrite !Gadd_assoc, Gadd_opp_l, !Gadd_0_l in E.
  Qed.
  Lemma Gadd_cancel_r (a b c : M) : b + a = c + a -> b = c.
  Proof. rewrite !(Gadd_comm _ a). apply Gadd_cancel_l. Qed.
  Lemma smul_0_l (a : M) : F0 K *: a = G0 M.
  Proof.
    apply (Gadd_cancel_l (F0 K *: a)). rewrite <- smul_add_l, Gadd_0_r.
    f_equal. ring.
  Qed.
  Lemma smul_0_r (x : K) : x *: G0 M = G0 M.
  Proof.
    apply (Gadd_cancel_l (x *: G0 M)). rewrite <- smul_add_r, Gadd_0_l, Gadd_0_r.
    reflexivity.
  Qed.
  Lemma smul_opp_l (x : K) (a : M) : Fopp K x *: a = - (x *: a).
  Proof.
    apply (Gadd_cancel_l (x *: a)). rewrite <- smul_add_l, Gadd_opp_r.
    replace (Fadd K x (Fopp K x)) with (F0 K) by ring. apply smul_0_l.
  Qed.
  Lemma Gopp_smul_m1 (a : M) : - a = Fopp K (F1 K) *: a.
  Proof. now rewrite smul_opp_l, smul_1. Qed.
  Lemma smul_sub_l (x y : K) (a : M) : Fsub K x y *: a = x *: a - y *: a.
  Proof.
    unfold Gsub. rewrite <- smul_opp_l, <- smul_add_l. f_equal. ring.
  Qed.
  Lemma Gopp_0 : - G0 M = G0 M.
  Proof. rewrite Gopp_smul_m1. apply smul_0_r. Qed.
  Lemma Gopp_add (a b : M) : - (a + b) = - a + - b.
  Proof. now rewrite !Gopp_smul_m1, smul_add_r. Qed.
  Lemma Gopp_opp (a : M) : - - a = a.
  Proof.
    rewrite (Gopp_smul_m1 (- a)), (Gopp_smul_m1 a), <- smul_mul.
    replace (Fmul K (Fopp K (F1 K)) (Fopp K (F1 K))) with (F1 K) by ring. apply smul_1.
  Qed.
  Lemma smul_opp_r (x : K) (a : M) : x *: (- a) = - (x *: a).
  Proof.
    rewrite (Gopp_smul_m1 a), <- smul_mul, <- smul_opp_l. f_equal. ring.
  Qed.
  Lemma smul_inj (x : K) (a b : M) : x <> F0 K -> x *: a = x *: b -> a = b.
  Proof.
    intros Hx H. assert (E : Finv K x *: (x *: a) = Finv K x *: (x *: b)) by now rewrite H.
    rewrite <- !smul_mul in E.
    replace (Fmul K (Finv K x) x) with (F1 K) in E by (field; exact Hx).
    now rewrite !smul_1 in E.
  Qed.
  Lemma Gsub_diag (a : M) : a - a = G0 M.
  Proof. apply Gadd_opp_r. Qed.
  Lemma Gsub_add_cancel (a b : M) : (a - b) + b = a.
  Proof. unfold Gsub. now rewrite <- Gadd_assoc, Gadd_opp_l, Gadd_0_r. Qed.
  Lemma Gadd_sub_cancel (a b : M) : (a + b) - b = a.
  Proof. unfold Gsub. now rewrite <- Gadd_assoc, Gadd_opp_r, Gadd_0_r. Qed.

  (** *** msm is bilinear *)
  Lemma msm_nil_r (ws : list K) : msm ws (@nil M) = G0 M.
  Proof. destruct ws; reflexivity. Qed.

  Lemma msm_vadd (a : list K) : forall (b : list K) (gs : list M), length a = length b ->
    msm (vadd a b) gs = msm a gs + msm b gs.
  Proof.
    induction a as [|x a IH]; intros [|y b] gs Hl; try discriminate; cbn.
    - now rewrite Gadd_0_l.
    - destruct gs as [|g gs]; cbn; [now rewrite Gadd_0_l|].
      fold (vadd a b). rewrite IH by (cbn in Hl; lia). rewrite smul_add_l.
      rewrite <- !Gadd_assoc. f_equal. rewrite !Gadd_assoc. f_equal. apply Gadd_comm.
  Qed.
  Lemma msm_vscale (c : K) (a : list K) : forall gs : list M, msm (vscale c a) gs = c *: msm a gs.
  Proof.
    induction a as [|x a IH]; intros [|g gs]; cbn; try (now rewrite smul_0_r).
    fold (vscale c a). now rewrite IH, smul_add_r, smul_mul.
  Qed.
  Lemma vsub_vadd_opp (a : list K) : forall b : list K, vsub a b = vadd a (vscale (Fopp K (F1 K)) b).
  Proof.
    induction a as [|x a IH]; intros [|y b]; cbn; try reflexivity.
    fold (vsub a b). fold (vscale (Fopp K (F1 K)) b). fold (vadd a (vscale (Fopp K (F1 K)) b)).
    rewrite IH. f_equal. ring.
  Qed.
  Lemma vscale_length (c : K) (a : list K) : length (vscale c a) = length a.
  Proof. apply map_length. Qed.
  Lemma map2_length {A B C} (f : A -> B -> C) a : forall b, length (map2 f a b) = Nat.min (length a) (length b).
  Proof. induction a; intros [|y b]; cbn; auto. Qed.
  Lemma msm_vsub (a b : list K) (gs : list M) : length a = length b ->
    msm (vsub a b) gs = msm a gs - msm b gs.
  Proof.
    intro Hl. rewrite vsub_vadd_opp, msm_vadd by (now rewrite vscale_length).
    rewrite msm_vscale. unfold Gsub. now rewrite <- Gopp_smul_m1.
  Qed.
  Lemma msm_app (a : list K) : forall (gs : list M) (b : list K) (hs : list M), length a = length gs ->
    msm (a ++ b) (gs ++ hs) = msm a gs + msm b hs.
  Proof.
    induction a as [|x a IH]; intros [|g gs] b hs Hl; try discriminate; cbn.
    - now rewrite Gadd_0_l.
    - rewrite IH by (cbn in Hl; lia). now rewrite Gadd_assoc.
  Qed.
End Laws.

(** ** Reflexive normalisation of module identities: [mod_norm].
    A goal [e1 = e2] between module expressions built from [G0], [Gadd], [Gopp], [Gsub],
    [smul] over opaque atoms is reified; both sides are normalised to a coefficient vector
    over the atoms; the remaining goals (one field identity per atom) are closed by [ring]. *)
Section Reflect.
  Context {K : FieldOps} {KL : FieldLaws K} {M : ModOps K} {ML : ModLaws M}.
  Add Field Kfield2 : (@F_th K KL).
  Local Open Scope G_scope.

  Inductive gexp : Type :=
  | GeZero | GeAtom (i : nat) | GeAdd (a b : gexp) | GeOpp (a : gexp) | GeSmul (x : K) (a : gexp).

  Fixpoint gden (env : list M) (e : gexp) : M :=
    match e with
    | GeZero => G0 M
    | GeAtom i => nth i env (G0 M)
    | GeAdd a b => gden env a + gden env b
    | GeOpp a => - gden env a
    | GeSmul x a => x *: gden env a
    end.

  Fixpoint unitv (n i : nat) : list K :=
    match n with
    | O => []
    | S n' => match i with O => F1 K :: map (fun _ => F0 K) (seq 0 n') | S i' => F0 K :: unitv n' i' end
    end.
  Definition zerov (n : nat) : list K := map (fun _ => F0 K) (seq 0 n).

  Fixpoint gcoef (n : nat) (e : gexp) : list K :=
    match e with
    | GeZero => zerov n
    | GeAtom i => unitv n i
    | GeAdd a b => vadd (gcoef n a) (gcoef n b)
    | GeOpp a => vscale (Fopp K (F1 K)) (gcoef n a)
    | GeSmul x a => vscale x (gcoef n a)
    end.

  Lemma zerov_length n : length (zerov n) = n.
  Proof. unfold zerov. now rewrite map_length, seq_length. Qed.
  Lemma unitv_length n : forall i, length (unitv n i) = n.
  Proof.
    induction n; intros i; cbn; [reflexivity|]. destruct i; cbn.
    - now rewrite map_length, seq_length.
    - now rewrite IHn.
  Qed.
  Lemma gcoef_length n e : length (gcoef n e) = n.
  Proof.
    induction e; cbn.
    - apply zerov_length.
    - apply unitv_length.
    - unfold vadd. rewrite map2_length, IHe1, IHe2. apply Nat.min_id.
    - now rewrite vscale_length.
    - now rewrite vscale_length.
  Qed.
  Lemma msm_zeros {A} (l : list A) (env : list M) : msm (map (fun _ => F0 K) l) env = G0 M.
  Proof.
    revert env. induction l; intros [|g env]; cbn; try reflexivity.
    now rewrite IHl, smul_0_l, Gadd_0_l.
  Qed.
  Lemma msm_unitv : forall (env : list M) i, msm (unitv (length env) i) env = nth i env (G0 M).
  Proof.
    induction env as [|g env IH]; intros i; cbn.
    - now destruct i.
    - destruct i; cbn.
      + now rewrite msm_zeros, smul_1, Gadd_0_r.
      + now rewrite IH, smul_0_l, Gadd_0_l.
  Qed.
  Lemma gden_coef env e : gden env e = msm (gcoef (length env) e) env.
  Proof.
    induction e; cbn.
    - unfold zerov. now rewrite msm_zeros.
    - now rewrite msm_unitv.
    - rewrite msm_vadd by now rewrite !gcoef_length. now rewrite IHe1, IHe2.
    - rewrite msm_vscale, IHe. apply Gopp_smul_m1.
    - now rewrite msm_vscale, IHe.
  Qed.
  Theorem gexp_eq env e1 e2 :
    gcoef (length env) e1 = gcoef (length env) e2 -> gden env e1 = gden env e2.
  Proof. intro H. now rewrite !gden_coef, H. Qed.
End Reflect.

Ltac gr_find x l :=
  lazymatch l with
  | x :: _ => constr:(O)
  | _ :: ?l' => let n := gr_find x l' in constr:(S n)
  end.
Ltac gr_mem x l :=
  lazymatch l with
  | nil => constr:(false)
  | x :: _ => constr:(true)
  | _ :: ?l' => gr_mem x l'
  end.
Ltac gr_atoms Mo e acc :=
  lazymatch e with
  | G0 Mo => acc
  | Gadd Mo ?a ?b => let acc' := gr_atoms Mo a acc in gr_atoms Mo b acc'
  | Gsub Mo ?a ?b => let acc' := gr_atoms Mo a acc in gr_atoms Mo b acc'
  | Gopp Mo ?a => gr_atoms Mo a acc
  | smul Mo _ ?a => gr_atoms Mo a acc
  | _ => let m := gr_mem e acc in
         lazymatch m with true => acc | false => constr:(e :: acc) end
  end.
Ltac gr_reify Kt Mo env e :=
  lazymatch e with
  | G0 Mo => constr:(@GeZero Kt)
  | Gadd Mo ?a ?b => let ra := gr_reify Kt Mo env a in let rb := gr_reify Kt Mo env b in constr:(GeAdd ra rb)
  | Gsub Mo ?a ?b => let ra := gr_reify Kt Mo env a in let rb := gr_reify Kt Mo env b in constr:(GeAdd ra (GeOpp rb))
  | Gopp Mo ?a => let ra := gr_reify Kt Mo env a in constr:(GeOpp ra)
  | smul Mo ?x ?a => let ra := gr_reify Kt Mo env a in constr:(GeSmul x ra)
  | _ => let i := gr_find e env in constr:(@GeAtom Kt i)
  end.
(** [mod_norm]: close a module identity; leaves nothing if the coefficient
    identities hold by [ring].  Must be used where [Add Field] for [F_th KL] is active. *)
Ltac mod_norm :=
  unfold Gsub in *;
  lazymatch goal with
  | |- @eq (G ?Mo) ?l ?r =>
    let at1 := gr_atoms Mo l (@nil (G Mo)) in
    let env := gr_atoms Mo r at1 in
    let Kt := lazymatch type of Mo with ModOps ?k => k end in
    let rl := gr_reify Kt Mo env l in
    let rr := gr_reify Kt Mo env r in
    change (gden env rl = gden env rr);
    apply gexp_eq; cbn [gcoef length unitv zerov vadd vscale map2 map seq];
    repeat (f_equal; try ring)
  end.

(** split an equation between explicit lists (or pairs) into one goal per component *)
Ltac list_split :=
  repeat (match goal with
          | |- @eq (list _) (_ :: _) (_ :: _) => apply (f_equal2 (@cons _))
          | |- @eq (_ * _)%type (_, _) (_, _) => apply f_equal2
          | |- @eq (option _) (Some _) (Some _) => apply f_equal
          end); try reflexivity.

(** ** The executable instance: Z mod r, "in the exponent" (DESIGN 4.6). *)
Definition bls_r : Z := 0x73eda753299d7d483339d80809a1d80553bda402fffe5bfeffffffff00000001.

Section Zmod.
  Local Open Scope Z_scope.
  Variable r : Z.
  (** modular exponentiation by squaring on the binary representation of the exponent *)
  Fixpoint zpow_pos (b : Z) (e : positive) : Z :=
    match e with
    | xH => b mod r
    | xO e' => let h := zpow_pos b e' in (h * h) mod r
    | xI e' => let h := zpow_pos b e' in (((h * h) mod r) * b) mod r
    end.
  Definition zpow (b e : Z) : Z :=
    match e with Zpos p => zpow_pos b p | _ => 1 mod r end.
  (** inverse by Fermat: a^(r-2); 0 is mapped to 0 like [Field::inverse] returning None is
      never used by the protocol models on 0. *)
  Definition zinv (a : Z) : Z := zpow a (r - 2).
  Definition ZmodF : FieldOps :=
    mkFieldOps Z 0 1
      (fun a b => (a + b) mod r) (fun a b => (a * b) mod r) (fun a b => (a - b) mod r)
      (fun a => (- a) mod r) (fun a b => (a * zinv b) mod r) zinv Z.eqb.
  Definition ZmodG : ModOps ZmodF :=
    mkModOps ZmodF Z 0 (fun a b => (a + b) mod r) (fun a => (- a) mod r)
      (fun x a => (x * a) mod r) Z.eqb.
End Zmod.

Definition ZrF : FieldOps := ZmodF bls_r.
Definition ZrG : ModOps ZrF := ZmodG bls_r.
