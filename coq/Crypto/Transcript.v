(** Byte-level model of the two transcript implementations of
    rust-src/concordium_base/src/random_oracle/mod.rs (DESIGN 4.7), shared by C07, C08, C11, C18.

    Both implementations only ever *absorb* bytes into one SHA3-256 sponge, so a transcript state is
    the byte string absorbed so far ([list N], bytes are [N] < 256) and every operation is modelled
    by the bytes it appends.  A challenge is [H state] for a Section variable [H] (SHA3-256 is not
    modelled; the check compares [H := sha3_256] computed outside Coq with the real challenge).

      operation                          TranscriptProtocolV1                        RandomOracle (legacy)
      append_label l                     be64 |l| ++ l                               l
      append_message l m                 be64 |l| ++ l ++ ser m                      l ++ ser m
      append_messages l [m1..mn]         be64 |l| ++ l ++ be64 n ++ ser m1 ++ ..     l ++ ser m1 ++ ..    (no count)
      append_each_message l xs f         be64 |l| ++ l ++ be64 n ++ f x1 ++ ..       l ++ f x1 ++ ..      (no count)
      append_final_prover_message l m    = append_message l m                        nothing
      with_domain d / domain d           be64 |d| ++ d                               d
      extract_challenge_scalar l         append_label l; scalar_from_bytes (H state)  same with raw label
      extract_raw_challenge              H state                                     H state

    [ser] is the [Serial] encoding of the message ([u64] = 8 bytes big endian, [Vec<T>] = 8-byte count
    then the items, structs/tuples/arrays = concatenation of fields). *)
From Coq Require Import NArith ZArith List String Ascii Lia.
Import ListNotations.
Local Open Scope N_scope.

Definition bytes := list N.

(** little-endian / big-endian fixed-width integers *)
Fixpoint le_bytes (n : nat) (x : N) : bytes :=
  match n with O => [] | S n' => x mod 256 :: le_bytes n' (x / 256) end.
Definition be_bytes (n : nat) (x : N) : bytes := rev (le_bytes n x).
Definition be64 (x : N) : bytes := be_bytes 8 x.
Definition be32 (x : N) : bytes := be_bytes 4 x.
Definition be16 (x : N) : bytes := be_bytes 2 x.
Global Arguments be_bytes : simpl never.
Global Arguments be64 : simpl never.
Global Arguments be32 : simpl never.
Global Arguments be16 : simpl never.
Definition le_int (bs : bytes) : N := fold_right (fun b acc => b + 256 * acc) 0 bs.
Definition be_int (bs : bytes) : N := le_int (rev bs).

Definition len (bs : bytes) : N := N.of_nat (List.length bs).

(** ASCII labels *)
Definition str (s : string) : bytes := map N_of_ascii (list_ascii_of_string s).

Inductive tkind := V1 | Legacy.

(** [append_label] *)
Definition lbl (k : tkind) (l : bytes) : bytes :=
  match k with V1 => be64 (len l) ++ l | Legacy => l end.
(** the element count written by [append_messages] / [append_each_message] *)
Definition cnt (k : tkind) (n : nat) : bytes :=
  match k with V1 => be64 (N.of_nat n) | Legacy => [] end.
(** [append_message label m] where [m] is already the [Serial] bytes *)
Definition msg (k : tkind) (l m : bytes) : bytes := lbl k l ++ m.
(** [append_messages label ms] *)
Definition msgs (k : tkind) (l : bytes) (ms : list bytes) : bytes :=
  lbl k l ++ cnt k (List.length ms) ++ List.concat ms.
(** [append_each_message label xs f] where [f x] are the bytes the closure appends for [x] *)
Definition each {T} (k : tkind) (l : bytes) (f : T -> bytes) (xs : list T) : bytes :=
  lbl k l ++ cnt k (List.length xs) ++ List.concat (map f xs).
(** [append_final_prover_message] *)
Definition final_msg (k : tkind) (l m : bytes) : bytes :=
  match k with V1 => msg V1 l m | Legacy => [] end.
(** [TranscriptProtocolV1::with_domain] / [RandomOracle::domain]; [RandomOracle::empty] is [[]] *)
Definition domain (k : tkind) (d : bytes) : bytes := lbl k d.

(** [Serial] for the collection types that occur in transcripts *)
Definition ser_vec (items : list bytes) : bytes := be64 (N.of_nat (List.length items)) ++ List.concat items.
Definition ser_vec32 (items : list bytes) : bytes := be32 (N.of_nat (List.length items)) ++ List.concat items.
Definition ser_vec16 (items : list bytes) : bytes := be16 (N.of_nat (List.length items)) ++ List.concat items.

(** [Curve::scalar_from_bytes] for the BLS12-381 scalar field (CAPACITY = 254, four u64 limbs):
    the first 32 bytes as a little-endian integer with the two top bits cleared. *)
Definition scalar_from_bytes_bls (bs : bytes) : Z :=
  Z.of_N (le_int (firstn 32 bs) mod 2 ^ 254).
(** [Serial for Fr]: 32 bytes big endian. *)
Definition ser_scalar_bls (x : Z) : bytes := be_bytes 32 (Z.to_N x).

Section Challenge.
  Variable H : bytes -> bytes.
  (** [extract_raw_challenge] *)
  Definition raw_challenge (st : bytes) : bytes := H st.
  (** [extract_challenge_scalar label]: new state and the challenge *)
  Definition challenge_scalar {S} (sfb : bytes -> S) (k : tkind) (l : bytes) (st : bytes) : bytes * S :=
    let st' := st ++ lbl k l in (st', sfb (H st')).
End Challenge.

(** A sequence of labelled messages as a value (used by the framing theorems). *)
Definition lmsg := (bytes * bytes)%type.
Definition enc_lmsg (k : tkind) (m : lmsg) : bytes := msg k (fst m) (snd m).
Definition enc_lmsgs (k : tkind) (ms : list lmsg) : bytes := List.concat (map (enc_lmsg k) ms).
Definition enc_labels (k : tkind) (ls : list bytes) : bytes := List.concat (map (lbl k) ls).
