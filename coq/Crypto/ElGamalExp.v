(** ElGamal "in the exponent" over an abstract prime-order group, as used by
    rust-src/concordium_base/src/elgamal/{public,secret,cipher}.rs and
    encrypted_transfers/mod.rs.  The group is an abstract module [G] over an
    abstract commutative ring of scalars [F] (Section variables: after [End] every
    theorem is quantified over all such structures). *)
From Coq Require Import NArith ZArith List Lia Ring Setoid.
From CB Require Import Crypto.Chunks Crypto.ChunksProofs.
Import ListNotations.

Section ElGamal.
  Variable F : Type.
  Variables (f0 f1 : F) (fadd fmul fsub : F -> F -> F) (fopp : F -> F).
  Hypothesis Fring : ring_theory f0 f1 fadd fmul fsub fopp (@eq F).
  Add Ring FR : Fring.

  Variable G : Type.
  Variables (gzero : G) (gadd : G -> G -> G) (gopp : G -> G) (smul : F -> G -> G).
  Hypothesis gadd_assoc : forall a b c, gadd a (gadd b c) = gadd (gadd a b) c.
  Hypothesis gadd_comm : forall a b, gadd a b = gadd b a.
  Hypothesis gadd_0_l : forall a, gadd gzero a = a.
  Hypothesis gadd_opp : forall a, gadd a (gopp a) = gzero.
  Hypothesis smul_add_l : forall x y a, smul (fadd x y) a = gadd (smul x a) (smul y a).
  Hypothesis smul_add_r : forall x a b, smul x (gadd a b) = gadd (smul x a) (smul x b).
  Hypothesis smul_mul : forall x y a, smul (fmul x y) a = smul x (smul y a).
  Hypothesis smul_1 : forall a, smul f1 a = a.

  Definition gsub a b := gadd a (gopp b).

  Lemma gadd_0_r a : gadd a gzero = a.
  Proof. rewrite gadd_comm. apply gadd_0_l. Qed.

  Lemma gadd_cancel_r a b : gsub (gadd a b) b = a.
  Proof. unfold gsub. rewrite <- gadd_assoc, gadd_opp. apply gadd_0_r. Qed.

  (** of_N: the scalar denoted by a natural number (C::scalar_from_u64).  One recursive call per
      constructor: a duplicated call would make conversion checks exponential in the bit length. *)
  Fixpoint f_of_pos (p : positive) : F :=
    match p with
    | xH => f1
    | xO p' => fmul (fadd f1 f1) (f_of_pos p')
    | xI p' => fadd f1 (fmul (fadd f1 f1) (f_of_pos p'))
    end.
  Definition f_of_N (n : N) : F := match n with N0 => f0 | Npos p => f_of_pos p end.

  Lemma f_of_pos_succ p : f_of_pos (Pos.succ p) = fadd f1 (f_of_pos p).
  Proof. induction p as [p IH|p IH|]; cbn [Pos.succ f_of_pos]; try rewrite IH; ring. Qed.

  Lemma f_of_pos_add p q : f_of_pos (p + q) = fadd (f_of_pos p) (f_of_pos q).
  Proof.
    revert q. induction p as [|p IH] using Pos.peano_ind; intros q.
    - rewrite Pos.add_1_l, f_of_pos_succ. reflexivity.
    - rewrite Pos.add_succ_l, !f_of_pos_succ, IH. ring.
  Qed.

  Lemma f_of_N_add a b : f_of_N (a + b) = fadd (f_of_N a) (f_of_N b).
  Proof. destruct a, b; cbn [N.add f_of_N]; try ring. apply f_of_pos_add. Qed.

  Lemma f_of_pos_mul p q : f_of_pos (p * q) = fmul (f_of_pos p) (f_of_pos q).
  Proof.
    induction p as [|p IH] using Pos.peano_ind.
    - rewrite Pos.mul_1_l. cbn. ring.
    - rewrite Pos.mul_succ_l, f_of_pos_add, f_of_pos_succ, IH. ring.
  Qed.

  Lemma f_of_N_mul a b : f_of_N (a * b) = fmul (f_of_N a) (f_of_N b).
  Proof. destruct a, b; cbn [N.mul f_of_N]; try ring. apply f_of_pos_mul. Qed.

  (** Keys, ciphertexts: [Cipher(k*g, m + k*pk)]. *)
  Variable g : G.                      (* elgamal generator *)
  Variable h : G.                      (* encryption-in-the-exponent generator *)
  Definition pk_of (sk : F) : G := smul sk g.
  Definition cipher := (G * G)%type.
  Definition encrypt (pk : G) (m : G) (k : F) : cipher := (smul k g, gadd m (smul k pk)).
  Definition decrypt (sk : F) (c : cipher) : G := gsub (snd c) (smul sk (fst c)).
  Definition combine (c d : cipher) : cipher := (gadd (fst c) (fst d), gadd (snd c) (snd d)).
  Definition scale (e : F) (c : cipher) : cipher := (smul e (fst c), smul e (snd c)).
  Definition encrypt_exp (pk : G) (x : F) (k : F) : cipher := encrypt pk (smul x h) k.

  Theorem encrypt_decrypt sk m k : decrypt sk (encrypt (pk_of sk) m k) = m.
  Proof.
    unfold decrypt, encrypt, pk_of; cbn [fst snd].
    rewrite <- !smul_mul. replace (fmul k sk) with (fmul sk k) by ring. apply gadd_cancel_r.
  Qed.

  Lemma gopp_add a b : gopp (gadd a b) = gadd (gopp a) (gopp b).
  Proof.
    assert (H : gadd (gadd a b) (gadd (gopp a) (gopp b)) = gzero).
    { rewrite gadd_assoc. rewrite <- (gadd_assoc a b (gopp a)). rewrite (gadd_comm b (gopp a)).
      rewrite (gadd_assoc a (gopp a) b), gadd_opp, gadd_0_l. apply gadd_opp. }
    assert (U : forall x y, gadd x y = gzero -> y = gopp x).
    { intros x y Hxy. rewrite <- (gadd_0_l y), <- (gadd_opp x), (gadd_comm x (gopp x)).
      rewrite <- gadd_assoc, Hxy. apply gadd_0_r. }
    symmetry. apply U, H.
  Qed.

  Theorem decrypt_combine sk c d : decrypt sk (combine c d) = gadd (decrypt sk c) (decrypt sk d).
  Proof.
    unfold decrypt, combine, gsub; cbn [fst snd]. rewrite smul_add_r, gopp_add.
    rewrite <- !gadd_assoc. f_equal. rewrite !gadd_assoc. rewrite (gadd_comm (snd d)). reflexivity.
  Qed.

  Lemma smul_opp x a : smul x (gopp a) = gopp (smul x a).
  Proof.
    assert (U : forall u v, gadd u v = gzero -> v = gopp u).
    { intros u v Huv. rewrite <- (gadd_0_l v), <- (gadd_opp u), (gadd_comm u (gopp u)).
      rewrite <- gadd_assoc, Huv. apply gadd_0_r. }
    apply U. rewrite <- smul_add_r, gadd_opp.
    (* x * 0 = 0 *)
    assert (Z : smul x gzero = gzero).
    { assert (E : gadd (smul x gzero) (smul x gzero) = smul x gzero) by (rewrite <- smul_add_r, gadd_0_l; reflexivity).
      rewrite <- (gadd_cancel_r (smul x gzero) (smul x gzero)) at 1. rewrite E. unfold gsub. apply gadd_opp. }
    exact Z.
  Qed.

  Theorem decrypt_scale sk e c : decrypt sk (scale e c) = smul e (decrypt sk c).
  Proof.
    unfold decrypt, scale, gsub; cbn [fst snd]. rewrite smul_add_r, smul_opp. f_equal. f_equal.
    rewrite <- !smul_mul. f_equal. ring.
  Qed.

  Corollary encrypt_exp_decrypt sk x k : decrypt sk (encrypt_exp (pk_of sk) x k) = smul x h.
  Proof. apply encrypt_decrypt. Qed.

  (** Aggregation of encryptions in the exponent is an encryption of the sum. *)
  Corollary aggregate_sum sk x y k k' :
    decrypt sk (combine (encrypt_exp (pk_of sk) x k) (encrypt_exp (pk_of sk) y k')) = smul (fadd x y) h.
  Proof. rewrite decrypt_combine, !encrypt_exp_decrypt, smul_add_l. reflexivity. Qed.

  (** [EncryptedAmount] = (low, high) 32-bit chunks; [join] = 2^32 * hi + lo. *)
  Definition enc_amount := (cipher * cipher)%type.
  Definition two32 : F := f_of_N (2 ^ 32).
  Definition join (e : enc_amount) : cipher := combine (scale two32 (snd e)) (fst e).
  Definition aggregate (l r : enc_amount) : enc_amount := (combine (fst l) (fst r), combine (snd l) (snd r)).

  Theorem join_denotes sk lo hi klo khi :
    decrypt sk (join (encrypt_exp (pk_of sk) (f_of_N lo) klo, encrypt_exp (pk_of sk) (f_of_N hi) khi))
    = smul (f_of_N (lo + 2 ^ 32 * hi)) h.
  Proof.
    unfold join; cbn [fst snd]. rewrite decrypt_combine, decrypt_scale, !encrypt_exp_decrypt.
    rewrite <- smul_mul, <- smul_add_l, f_of_N_add, f_of_N_mul. fold two32. f_equal. ring.
  Qed.

  Theorem aggregate_chunkwise sk a b :
    decrypt sk (fst (aggregate a b)) = gadd (decrypt sk (fst a)) (decrypt sk (fst b)) /\
    decrypt sk (snd (aggregate a b)) = gadd (decrypt sk (snd a)) (decrypt sk (snd b)).
  Proof. unfold aggregate; cbn [fst snd]. split; apply decrypt_combine. Qed.

  (** Decryption table: [dlog] is any function that inverts [x |-> x*h] on the
      table range; this is what BabyStepGiantStep provides when [h] has order
      above the range (assumption: h generates a prime-order group). *)
  Variable bound : N.
  Variable dlog : G -> N.
  Hypothesis dlog_spec : forall x, (x < bound)%N -> dlog (smul (f_of_N x) h) = x.

  Definition decrypt_chunk sk c := dlog (decrypt sk c).
  Definition decrypt_amount sk (e : enc_amount) : option N :=
    chunks_to_u64_checked 32 [decrypt_chunk sk (fst e); decrypt_chunk sk (snd e)].
  Definition encrypt_amount pk (x : N) klo khi : option enc_amount :=
    match u64_to_chunks_checked 32 x with
    | Some [lo; hi] => Some (encrypt_exp pk (f_of_N lo) klo, encrypt_exp pk (f_of_N hi) khi)
    | _ => None
    end.

  Hypothesis bound_ge : (2 ^ 32 <= bound)%N.

  Theorem encrypt_decrypt_amount sk x klo khi :
    (x < W64)%N ->
    exists e, encrypt_amount (pk_of sk) x klo khi = Some e /\ decrypt_amount sk e = Some x.
  Proof.
    intros Hx.
    assert (In32 : In 32%N chunk_sizes) by (unfold chunk_sizes; cbn [In]; tauto).
    assert (Lt32 : (32 < 64)%N) by reflexivity.
    destruct (chunks_roundtrip_checked 32 x In32 Lt32 Hx) as (cs & Hcs & Hlen & Hb & Hback).
    unfold encrypt_amount. rewrite Hcs.
    destruct cs as [|lo [|hi [|? ?]]]; try discriminate Hlen.
    eexists; split; [reflexivity|].
    unfold decrypt_amount, decrypt_chunk; cbn [fst snd]. rewrite !encrypt_exp_decrypt.
    inversion Hb as [|? ? Hlo Hb']; subst. inversion Hb' as [|? ? Hhi _]; subst.
    assert (M : mask 32 = (2 ^ 32 - 1)%N) by reflexivity. rewrite M in *.
    rewrite !dlog_spec by lia. exact Hback.
  Qed.

  (** The accounting equation that the enc_trans sigma statement asserts:
      S = join(transfer) + join(remaining) as plaintexts in the exponent. *)
  Theorem transfer_accounting sk s a tlo thi rlo rhi k1 k2 k3 k4 :
    (tlo + 2 ^ 32 * thi = a)%N -> (rlo + 2 ^ 32 * rhi = s - a)%N -> (a <= s)%N ->
    gadd (decrypt sk (join (encrypt_exp (pk_of sk) (f_of_N tlo) k1, encrypt_exp (pk_of sk) (f_of_N thi) k2)))
         (decrypt sk (join (encrypt_exp (pk_of sk) (f_of_N rlo) k3, encrypt_exp (pk_of sk) (f_of_N rhi) k4)))
    = smul (f_of_N s) h.
  Proof.
    intros Ht Hr Ha. rewrite !join_denotes, Ht, Hr, <- smul_add_l, <- f_of_N_add. f_equal. f_equal. lia.
  Qed.
End ElGamal.

(** Transfers: plaintext bookkeeping of make_transfer_data / make_sec_to_pub_transfer_data:
    [if s < a { return None }], [s' = s - a], both re-chunked. *)
Definition transfer_plain (s a : N) : option (list N * list N) :=
  if (s <? a)%N then None else
  match u64_to_chunks_checked 32 (s - a), u64_to_chunks_checked 32 a with
  | Some r, Some t => Some (r, t)
  | _, _ => None
  end.

Theorem transfer_none_if_exceeds s a : (s < a)%N -> transfer_plain s a = None.
Proof. intros H. unfold transfer_plain. destruct (N.ltb_spec s a); [reflexivity|lia]. Qed.

Theorem transfer_conserves s a : (s < W64)%N -> (a <= s)%N ->
  exists r t, transfer_plain s a = Some (r, t)
    /\ chunks_to_u64_checked 32 r = Some (s - a)%N
    /\ chunks_to_u64_checked 32 t = Some a
    /\ (s - a + a = s)%N.
Proof.
  intros Hs Ha. unfold transfer_plain. destruct (N.ltb_spec s a); [lia|].
  assert (In32 : In 32%N chunk_sizes) by (unfold chunk_sizes; cbn [In]; tauto).
  assert (Lt32 : (32 < 64)%N) by reflexivity.
  destruct (chunks_roundtrip_checked 32 (s - a) In32 Lt32) as (r & Hr & _ & _ & Hbr); [lia|].
  destruct (chunks_roundtrip_checked 32 a In32 Lt32) as (t & Ht & _ & _ & Hbt); [lia|].
  exists r, t. rewrite Hr, Ht. repeat split; try assumption. lia.
Qed.


