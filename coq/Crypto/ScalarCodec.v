(** Scalar encodings of C20 (definitions only, executable).  Bytes are [N] below 256.

    - [Serial]/[Deserial for Fr] (bls12_381_arkworks.rs): 32 bytes big-endian;
      decoding rejects values >= r ([Fr::from_bigint] returns [None]).
    - [Curve::scalar_from_bytes] (arkworks_instances.rs / ed25519_instance.rs):
      at most [num_chunks] little-endian 8-byte chunks, top bits of the last limb
      masked so that only CAPACITY bits remain.
    - [keygen_bls] (keygen_bls/src/lib.rs): the reduction of the 48-byte HKDF output
      modulo r through two calls of [scalar_from_bytes] and the shift 2^248; the
      HKDF itself is abstract (a stream of 48-byte outputs, one per loop round). *)
From Coq Require Import NArith List.
Import ListNotations.
Local Open Scope N_scope.

(** the BLS12-381 scalar field order and the order of the ed25519/ristretto group *)
Definition bls_r : N := 52435875175126190479447740508185965837690552500527637822603658699938581184513.
Definition ed_l : N := 7237005577332262213973186563042994240857116359379907606001950938285454250989.

(** big-endian / little-endian value of a byte string *)
Definition be_val (bs : list N) : N := fold_left (fun acc b => acc * 256 + b) bs 0.
Fixpoint le_val (bs : list N) : N :=
  match bs with [] => 0 | b :: t => b + 256 * le_val t end.
(** [n] bytes, big endian, of [x] *)
Fixpoint to_be (n : nat) (x : N) : list N :=
  match n with O => [] | S n' => to_be n' (x / 256) ++ [x mod 256] end.

(** [Serial for Fr]: the four limbs of [into_bigint()], most significant first, each
    as 8 big-endian bytes = the 32-byte big-endian encoding of the value. *)
Definition scalar_encode (x : N) : list N := to_be 32 x.

(** [Deserial for Fr]: read exactly 32 bytes, [BigUint::from_bytes_be], then
    [Fr::from_bigint] which is [None] iff the value is >= r. *)
Definition scalar_decode (r : N) (bs : list N) : option N :=
  if Nat.eqb (length bs) 32 then
    let v := be_val bs in if v <? r then Some v else None
  else None.

(** [Deserial for Scalar] (ed25519_instance.rs): 32 bytes little-endian,
    [Scalar::from_canonical_bytes] is [None] iff the value is >= l; [Serial] writes the
    32 little-endian bytes. *)
Fixpoint to_le (n : nat) (x : N) : list N :=
  match n with O => [] | S n' => x mod 256 :: to_le n' (x / 256) end.
Definition scalar_encode_le (x : N) : list N := to_le 32 x.
Definition scalar_decode_le (r : N) (bs : list N) : option N :=
  if Nat.eqb (length bs) 32 then
    let v := le_val bs in if v <? r then Some v else None
  else None.

(** [scalar_from_bytes]: limb [k] is [u64::from_le_bytes] of the [k]-th 8-byte chunk
    (zero padded; missing chunks leave the limb 0), the last limb is masked with
    [u64::MAX >> num_bits_to_remove]. *)
Definition sfb_limb (bs : list N) (k : nat) : N := le_val (firstn 8 (skipn (8 * k) bs)).
Definition sfb_limbs (num_chunks : nat) (remove : N) (bs : list N) : list N :=
  map (fun k => let l := sfb_limb bs k in
                if Nat.eqb (S k) num_chunks then N.land l (N.shiftr (2 ^ 64 - 1) remove) else l)
      (seq 0 num_chunks).
Fixpoint limbs_val_N (ls : list N) : N :=
  match ls with [] => 0 | l :: t => l + 2 ^ 64 * limbs_val_N t end.
(** [from_repr] fails (the code panics) iff the masked value is >= r; it never is for
    the two instances (theorem [scalar_from_bytes_capacity]). *)
Definition scalar_from_bytes (r : N) (num_chunks : nat) (remove : N) (bs : list N) : option N :=
  let v := limbs_val_N (sfb_limbs num_chunks remove bs) in
  if v <? r then Some v else None.
(** BLS: CAPACITY = 254, 4 chunks, 2 bits removed;  ristretto: 4 chunks, 4 bits removed *)
Definition bls_scalar_from_bytes := scalar_from_bytes bls_r 4 2.
Definition ed_scalar_from_bytes := scalar_from_bytes ed_l 4 4.

(** One round of the loop of [keygen_bls] on the HKDF output [okm] (48 bytes):
<<
   okm.reverse();
   y1_vec[0..31] = okm[0..31];  y2_vec[0..17] = okm[31..];
   y1 = scalar_from_bytes(y1_vec); y2 = scalar_from_bytes(y2_vec); y2 *= shift (= 2^248);
   sk = y1 + y2
>> *)
Definition pad32 (bs : list N) : list N := bs ++ repeat 0 (32 - length bs).
Definition keygen_round (okm : list N) : option N :=
  let okm' := rev okm in
  let y1_vec := pad32 (firstn 31 okm') in
  let y2_vec := pad32 (skipn 31 okm') in
  match bls_scalar_from_bytes y1_vec, bls_scalar_from_bytes y2_vec with
  | Some y1, Some y2 => Some ((y1 + (y2 * (2 ^ 248 mod bls_r)) mod bls_r) mod bls_r)
  | _, _ => None
  end.
(** [while sk.is_zero() { ... }] over the stream of HKDF outputs ([okms i] is the output
    of round [i]; the salt is re-hashed every round). [None] = did not finish within
    [fuel] rounds (or [from_repr] failed). *)
Fixpoint keygen_loop (fuel : nat) (okms : nat -> list N) (i : nat) : option N :=
  match fuel with
  | O => None
  | S fuel' =>
      match keygen_round (okms i) with
      | Some sk => if sk =? 0 then keygen_loop fuel' okms (S i) else Some sk
      | None => None
      end
  end.
