(** C19 - theorems about the byte-level ECVRF model (VrfBytes.v), for every abelian group with
    integer action whose base point has exact order [ed_l] and whose exponent divides [8 * ed_l],
    every [compress]/[decompress] pair with [decompress (compress P) = Some P] and 32-byte
    encodings, and EVERY function [sha512] returning byte strings (no property of SHA-512 is used
    except that its output consists of bytes). *)
From Coq Require Import ZArith NArith List Bool Lia.
From CB Require Import Crypto.Vrf Crypto.VrfProofs Crypto.VrfBytes.
Import ListNotations.
Local Open Scope Z_scope.

Definition bytes_ok (bs : list N) : Prop := Forall (fun b => (b < 256)%N) bs.
Definition p256 (n : nat) : Z := 256 ^ Z.of_nat n.

Lemma p256_0 : p256 0 = 1.
Proof. reflexivity. Qed.
Lemma p256_S n : p256 (S n) = 256 * p256 n.
Proof. unfold p256. rewrite Nat2Z.inj_succ, Z.pow_succ_r by lia. reflexivity. Qed.
Lemma p256_pos n : 0 < p256 n.
Proof. unfold p256. apply Z.pow_pos_nonneg; lia. Qed.
Lemma p256_mono n m : (n <= m)%nat -> p256 n <= p256 m.
Proof. intros H. unfold p256. apply Z.pow_le_mono_r; lia. Qed.
Lemma p256_16 : p256 16 = 2 ^ 128.
Proof. reflexivity. Qed.

Lemma ed_l_pos : 0 < ed_l.
Proof. reflexivity. Qed.
Lemma ed_l_above_128 : 2 ^ 128 < ed_l.
Proof. reflexivity. Qed.
Lemma ed_l_below_256 : ed_l < p256 32.
Proof. reflexivity. Qed.

Lemma bytes_ok_firstn n : forall l, bytes_ok l -> bytes_ok (firstn n l).
Proof.
  induction n as [|n IH]; intros l H; [constructor|]. destruct H as [|b l Hb Hl]; cbn [firstn]; [constructor|].
  constructor; [exact Hb | apply IH, Hl].
Qed.
Lemma bytes_ok_skipn n : forall l, bytes_ok l -> bytes_ok (skipn n l).
Proof.
  induction n as [|n IH]; intros l H; [exact H|]. destruct H as [|b l Hb Hl]; cbn [skipn]; [constructor | apply IH, Hl].
Qed.
Lemma bytes_ok_app a b : bytes_ok a -> bytes_ok b -> bytes_ok (a ++ b).
Proof. intros. now apply Forall_app. Qed.

Lemma firstn_app_exact {A} n (a b : list A) : length a = n -> firstn n (a ++ b) = a.
Proof. intros <-. induction a; cbn; congruence. Qed.
Lemma skipn_app_exact {A} n (a b : list A) : length a = n -> skipn n (a ++ b) = b.
Proof. intros <-. induction a; cbn; congruence. Qed.

(** *** little-endian codec *)
Lemma le_decode_bound bs : bytes_ok bs -> 0 <= le_decode bs < p256 (length bs).
Proof.
  induction 1 as [|b bs Hb _ IH]; cbn [le_decode length].
  - rewrite p256_0. lia.
  - rewrite p256_S. lia.
Qed.

Lemma le_decode_encode n : forall z, le_decode (le_encode n z) = z mod p256 n.
Proof.
  induction n as [|n IH]; intros z; cbn [le_encode le_decode].
  - rewrite p256_0, Z.mod_1_r. reflexivity.
  - pose proof (Z.mod_pos_bound z 256 ltac:(lia)). pose proof (p256_pos n).
    rewrite IH, p256_S, Z2N.id, Z.rem_mul_r by lia. reflexivity.
Qed.

Lemma le_encode_decode bs : bytes_ok bs -> le_encode (length bs) (le_decode bs) = bs.
Proof.
  induction 1 as [|b bs Hb _ IH]; cbn [length le_decode le_encode]; [reflexivity|].
  assert (E1 : (Z.of_N b + 256 * le_decode bs) mod 256 = Z.of_N b).
  { replace (Z.of_N b + 256 * le_decode bs) with (Z.of_N b + le_decode bs * 256) by ring.
    rewrite Z_mod_plus_full. apply Z.mod_small. lia. }
  assert (E2 : (Z.of_N b + 256 * le_decode bs) / 256 = le_decode bs).
  { replace (Z.of_N b + 256 * le_decode bs) with (Z.of_N b + le_decode bs * 256) by ring.
    rewrite Z_div_plus_full by lia. rewrite Z.div_small by lia. lia. }
  rewrite E1, E2, N2Z.id, IH. reflexivity.
Qed.

Lemma le_encode_length n : forall z, length (le_encode n z) = n.
Proof. induction n; intros z; cbn; auto. Qed.

Lemma le_encode_bytes n : forall z, bytes_ok (le_encode n z).
Proof.
  induction n as [|n IH]; intros z; cbn [le_encode]; constructor; [|apply IH].
  pose proof (Z.mod_pos_bound z 256 ltac:(lia)). lia.
Qed.

Lemma le_decode_app a b : le_decode (a ++ b) = le_decode a + p256 (length a) * le_decode b.
Proof.
  induction a as [|x a IH]; cbn [app le_decode length].
  - rewrite p256_0. lia.
  - rewrite IH, p256_S. ring.
Qed.

Lemma le_decode_zeros k : le_decode (repeat 0%N k) = 0.
Proof. induction k; cbn [repeat le_decode]; lia. Qed.

Lemma le_decode_pad t k : le_decode (t ++ repeat 0%N k) = le_decode t.
Proof. rewrite le_decode_app, le_decode_zeros. lia. Qed.

(** injectivity of the fixed-width encoding on its range *)
Lemma le_encode_inj n a b : 0 <= a < p256 n -> 0 <= b < p256 n -> le_encode n a = le_encode n b -> a = b.
Proof.
  intros Ha Hb E. apply (f_equal le_decode) in E. rewrite !le_decode_encode in E.
  now rewrite !Z.mod_small in E by lia.
Qed.

(** *** the challenge: truncation to 16 bytes *)
Lemma short_below_l t : bytes_ok t -> (length t <= 16)%nat -> 0 <= le_decode t < 2 ^ 128.
Proof.
  intros Hb Hl. pose proof (le_decode_bound t Hb). pose proof (p256_mono _ _ Hl). rewrite p256_16 in *. lia.
Qed.

Lemma challenge_of_digest_spec d : bytes_ok d ->
  challenge_of_digest d = le_decode (firstn 16 d) /\ 0 <= challenge_of_digest d < 2 ^ 128.
Proof.
  intros Hd. unfold challenge_of_digest. rewrite le_decode_pad.
  pose proof (short_below_l (firstn 16 d) (bytes_ok_firstn 16 d Hd) (firstn_le_length 16 d)) as R.
  pose proof ed_l_above_128. rewrite Z.mod_small by lia. split; [reflexivity | exact R].
Qed.

Lemma challenge_nonneg d : 0 <= challenge_of_digest d < ed_l.
Proof. unfold challenge_of_digest. apply Z.mod_pos_bound, ed_l_pos. Qed.

(** the 16-byte challenge field: encoding is injective on [0, 2^128), decoding inverts it, and
    a 16-byte field padded with zeros is always a canonical scalar (never rejected) *)
Lemma challenge_encoding_injective c c' :
  0 <= c < 2 ^ 128 -> 0 <= c' < 2 ^ 128 -> le_encode 16 c = le_encode 16 c' -> c = c'.
Proof. rewrite <- p256_16. apply le_encode_inj. Qed.

Lemma challenge_field_canonical t : bytes_ok t -> (length t <= 16)%nat ->
  scalar_from_canonical (t ++ repeat 0%N 16) = Some (le_decode t).
Proof.
  intros Hb Hl. unfold scalar_from_canonical. rewrite le_decode_pad.
  pose proof (short_below_l t Hb Hl). pose proof ed_l_above_128.
  destruct (Z.ltb_spec (le_decode t) ed_l); [reflexivity | lia].
Qed.

Lemma scalar_from_canonical_iff bs z : scalar_from_canonical bs = Some z <-> z = le_decode bs /\ le_decode bs < ed_l.
Proof.
  unfold scalar_from_canonical. destruct (Z.ltb_spec (le_decode bs) ed_l); split.
  - intros E. inversion E. split; [reflexivity | assumption].
  - intros [-> _]. reflexivity.
  - discriminate.
  - intros [_ ?]. lia.
Qed.

Lemma Some_inj {A} (a b : A) : Some a = Some b -> a = b.
Proof. intros E. inversion E. reflexivity. Qed.
Lemma triple_inj {A B C} (a a' : A) (b b' : B) (c c' : C) : (a, b, c) = (a', b', c') -> a = a' /\ b = b' /\ c = c'.
Proof. intros E. inversion E. auto. Qed.

Local Opaque ed_l.

Section VrfBytesProofs.
  Variable G : Type.
  Variable gzero : G.
  Variable gadd : G -> G -> G.
  Variable gopp : G -> G.
  Variable zmul : Z -> G -> G.
  Variable geqb : G -> G -> bool.
  Hypothesis gadd_assoc : forall a b c, gadd a (gadd b c) = gadd (gadd a b) c.
  Hypothesis gadd_comm : forall a b, gadd a b = gadd b a.
  Hypothesis gadd_0_l : forall a, gadd gzero a = a.
  Hypothesis gadd_opp_r : forall a, gadd a (gopp a) = gzero.
  Hypothesis zmul_add_l : forall x y a, zmul (x + y) a = gadd (zmul x a) (zmul y a).
  Hypothesis zmul_add_r : forall x a b, zmul x (gadd a b) = gadd (zmul x a) (zmul x b).
  Hypothesis zmul_mul : forall x y a, zmul (x * y) a = zmul x (zmul y a).
  Variable B : G.
  Hypothesis B_order : forall n, zmul n B = gzero <-> (ed_l | n).
  (** the curve group has order 8 * l *)
  Hypothesis exponent_8l : forall P, zmul (ed_l * 8) P = gzero.

  Variable compress : G -> list N.
  Variable decompress : list N -> option G.
  Hypothesis compress_len : forall P, length (compress P) = 32%nat.
  Hypothesis decompress_compress : forall P, decompress (compress P) = Some P.
  Variable sha512 : list N -> list N.
  Hypothesis sha_bytes : forall m, bytes_ok (sha512 m).

  Notation h2c_loop := (h2c_loop G gzero zmul geqb decompress sha512).
  Notation h2c_bytes := (h2c_bytes G gzero zmul geqb decompress sha512).
  Notation hpoints_bytes := (hpoints_bytes G compress sha512).
  Notation hout_bytes := (hout_bytes G compress sha512).
  Notation noncegen_bytes := (noncegen_bytes G compress sha512).
  Notation pk_of_secret := (pk_of_secret G zmul B compress sha512).
  Notation encode_proof := (encode_proof G compress).
  Notation decode_proof := (decode_proof G decompress).
  Notation ecvrf_prove_pi := (ecvrf_prove_pi G gzero zmul geqb B compress decompress sha512).
  Notation ecvrf_prove_bytes := (ecvrf_prove_bytes G gzero zmul geqb B compress decompress sha512).
  Notation ecvrf_verify_pi := (ecvrf_verify_pi G gzero gadd gopp zmul geqb B compress decompress sha512).
  Notation ecvrf_verify_bytes := (ecvrf_verify_bytes G gzero gadd gopp zmul geqb B compress decompress sha512).
  Notation ecvrf_hash_pi := (ecvrf_hash_pi G zmul compress sha512).
  Notation ecvrf_hash_bytes := (ecvrf_hash_bytes G zmul compress decompress sha512).

  (** hash_to_curve as coded returns points killed by l (the cofactor is cleared) *)
  Lemma h2c_loop_order fuel : forall ctr pkb alpha H, h2c_loop fuel ctr pkb alpha = Some H -> zmul ed_l H = gzero.
  Proof.
    induction fuel as [|fuel IH]; intros ctr pkb alpha H; cbn [VrfBytes.h2c_loop]; [discriminate|].
    destruct (decompress _) as [P|]; [|apply IH].
    destruct (small_order G gzero zmul geqb P); [apply IH|].
    intros E. apply Some_inj in E. subst H. rewrite <- zmul_mul. apply exponent_8l.
  Qed.

  Lemma h2c_bytes_order pkb (Y : G) alpha H : (fun (_ : G) a => h2c_bytes pkb a) Y alpha = Some H -> zmul ed_l H = gzero.
  Proof. apply h2c_loop_order. Qed.

  (** *** proof format: decode inverts encode; exact accept condition of decode *)
  Lemma decode_encode gm c s pib :
    0 <= c -> 0 <= s < ed_l -> encode_proof (gm, c, s) = Some pib -> decode_proof pib = Some (gm, c, s).
  Proof.
    intros Hc Hs. unfold VrfBytes.encode_proof. destruct (Z.ltb_spec c (2 ^ 128)) as [Hc2|]; [|discriminate].
    intros E. apply Some_inj in E. subst pib. unfold VrfBytes.decode_proof.
    rewrite !app_length, compress_len, !le_encode_length. cbn [Nat.add Nat.ltb Nat.leb].
    rewrite (firstn_app_exact 32) by apply compress_len. rewrite decompress_compress.
    rewrite (skipn_app_exact 32) by apply compress_len.
    rewrite (firstn_app_exact 16) by apply le_encode_length.
    rewrite challenge_field_canonical by (try apply le_encode_bytes; rewrite le_encode_length; lia).
    rewrite app_assoc, (skipn_app_exact 48) by (rewrite app_length, compress_len, le_encode_length; reflexivity).
    rewrite <- (app_nil_r (le_encode 32 s)), (firstn_app_exact 32) by apply le_encode_length.
    unfold scalar_from_canonical. rewrite !le_decode_encode.
    pose proof ed_l_below_256. rewrite (Z.mod_small s) by lia. rewrite p256_16, (Z.mod_small c) by lia.
    destruct (Z.ltb_spec s ed_l); [reflexivity | lia].
  Qed.

  (** decode rejects exactly: fewer than 80 bytes, a Gamma that does not decompress, s >= l.
      The 16-byte challenge field can never cause a reject. *)
  Lemma decode_proof_iff bs gm c s : bytes_ok bs ->
    (decode_proof bs = Some (gm, c, s) <->
     (80 <= length bs)%nat /\ decompress (firstn 32 bs) = Some gm /\
     c = le_decode (firstn 16 (skipn 32 bs)) /\ s = le_decode (firstn 32 (skipn 48 bs)) /\ s < ed_l).
  Proof.
    intros Hb. unfold VrfBytes.decode_proof. destruct (Nat.ltb_spec (length bs) 80) as [Hl|Hl].
    { split; [discriminate | intros (? & _); lia]. }
    destruct (decompress (firstn 32 bs)) as [gm'|].
    2:{ split; [discriminate | intros (_ & ? & _); discriminate]. }
    rewrite challenge_field_canonical by (try apply bytes_ok_firstn, bytes_ok_skipn, Hb; apply firstn_le_length).
    destruct (scalar_from_canonical (firstn 32 (skipn 48 bs))) as [s'|] eqn:Es.
    - apply scalar_from_canonical_iff in Es. destruct Es as [-> Hlt]. split.
      + intros E. apply Some_inj, triple_inj in E. destruct E as (-> & <- & <-). repeat split; auto.
      + intros (_ & E & -> & -> & _). apply Some_inj in E. subst gm'. reflexivity.
    - split; [discriminate|]. intros (_ & _ & _ & -> & Hlt).
      assert (X : scalar_from_canonical (firstn 32 (skipn 48 bs)) = Some (le_decode (firstn 32 (skipn 48 bs))))
        by (apply scalar_from_canonical_iff; split; [reflexivity | exact Hlt]).
      congruence.
  Qed.

  Lemma decode_rejects_large_s bs : bytes_ok bs -> ed_l <= le_decode (firstn 32 (skipn 48 bs)) -> decode_proof bs = None.
  Proof.
    intros Hb Hs. destruct (decode_proof bs) as [[[gm c] s]|] eqn:E; [|reflexivity].
    apply (decode_proof_iff bs gm c s Hb) in E. lia.
  Qed.

  (** *** shape of an honest proof *)
  Lemma prove_pi_ranges skb pk alpha gm c s :
    ecvrf_prove_pi skb pk alpha = Some (gm, c, s) -> 0 <= c < 2 ^ 128 /\ 0 <= s < ed_l.
  Proof.
    unfold VrfBytes.ecvrf_prove_pi. destruct (expand_key (sha512 skb)) as [x nonce].
    unfold vrf_prove. destruct (h2c_bytes (fst pk) alpha) as [H|]; [|discriminate].
    intros E. apply Some_inj, triple_inj in E. destruct E as (_ & <- & <-). split.
    - unfold VrfBytes.hpoints_bytes. apply challenge_of_digest_spec, sha_bytes.
    - apply Z.mod_pos_bound, ed_l_pos.
  Qed.

  (** the assertion in [Serial for Proof] never fails on a proof made by [prove] *)
  Lemma prove_bytes_encodes skb pk alpha pi :
    ecvrf_prove_pi skb pk alpha = Some pi -> exists pib, ecvrf_prove_bytes skb pk alpha = Some pib /\ decode_proof pib = Some pi.
  Proof.
    intros E. destruct pi as [[gm c] s]. destruct (prove_pi_ranges _ _ _ _ _ _ E) as [Hc Hs].
    unfold VrfBytes.ecvrf_prove_bytes. rewrite E.
    destruct (encode_proof (gm, c, s)) as [pib|] eqn:En.
    - exists pib. split; [reflexivity|]. apply decode_encode; [lia | exact Hs | exact En].
    - exfalso. unfold VrfBytes.encode_proof in En. destruct (Z.ltb_spec c (2 ^ 128)); [discriminate | lia].
  Qed.

End VrfBytesProofs.
