(** sigma_protocols/com_enc_eq.rs: knowledge of [(x, R, r)] with [cipher = (R*pk_g, x*h_in + R*pk_h)]
    and [commitment = x*ck_g + r*ck_h].  Response style [rho - c*w].

    FINDING (KF-C07-2): [public] appends cipher, commitment, pub_key and cmm_key but NOT the field
    [encryption_in_exponent_generator]: see [com_enc_eq_public_omits_generator_refuted_]. *)
From Coq Require Import ZArith NArith List Field Lia String.
From CB Require Import Crypto.Alg Crypto.Transcript Crypto.TranscriptProofs Crypto.SigmaGeneric Crypto.SigmaCodec.
Import ListNotations.

Record com_enc_eq_stmt {K : FieldOps} (M : ModOps K) := mkComEncEq {
  cee_e1 : M; cee_e2 : M; cee_cmm : M; cee_pkg : M; cee_pkh : M; cee_ckg : M; cee_ckh : M; cee_hin : M }.
Arguments mkComEncEq {K M} _ _ _ _ _ _ _ _.
Arguments cee_e1 {K M} _. Arguments cee_e2 {K M} _. Arguments cee_cmm {K M} _. Arguments cee_pkg {K M} _.
Arguments cee_pkh {K M} _. Arguments cee_ckg {K M} _. Arguments cee_ckh {K M} _. Arguments cee_hin {K M} _.

Section ComEncEq.
  Context {K : FieldOps} {M : ModOps K} (Cd : CodecOps M).
  Local Open Scope G_scope.

  Definition com_enc_eq_public (k : tkind) (s : com_enc_eq_stmt M) : bytes :=
    msg k (str "cipher") (serG Cd (cee_e1 s) ++ serG Cd (cee_e2 s)) ++
    msg k (str "commitment") (serG Cd (cee_cmm s)) ++
    msg k (str "pub_key") (serG Cd (cee_pkg s) ++ serG Cd (cee_pkh s)) ++
    msg k (str "cmm_key") (serG Cd (cee_ckg s) ++ serG Cd (cee_ckh s)).
  (** randomness (beta, alpha, gamma); commit ((alpha*pk_g, alpha*pk_h + beta*h_in), beta*ck_g + gamma*ck_h) *)
  Definition com_enc_eq_commit (s : com_enc_eq_stmt M) (r : K * K * K) : option (M * M * M) :=
    let '(beta, alpha, gamma) := r in
    Some (alpha *: cee_pkg s, alpha *: cee_pkh s + beta *: cee_hin s, beta *: cee_ckg s + gamma *: cee_ckh s).
  (** secret (x, R, r); response (z1, z2, z3) = (alpha - c*R, beta - c*x, gamma - c*r), computed as (-c)*w + rho *)
  Definition com_enc_eq_respond (s : com_enc_eq_stmt M) (w : K * K * K) (r : K * K * K) (c : K) : option (K * K * K) :=
    let '(x, cR, pr) := w in let '(beta, alpha, gamma) := r in
    Some (Fadd K (Fmul K (Fopp K c) cR) alpha, Fadd K (Fmul K (Fopp K c) x) beta, Fadd K (Fmul K (Fopp K c) pr) gamma).
  Definition com_enc_eq_extract (s : com_enc_eq_stmt M) (c : K) (z : K * K * K) : option (M * M * M) :=
    let '(z1, z2, z3) := z in
    Some (z1 *: cee_pkg s + c *: cee_e1 s,
          z2 *: cee_hin s + (z1 *: cee_pkh s + c *: cee_e2 s),
          z2 *: cee_ckg s + (z3 *: cee_ckh s + c *: cee_cmm s)).

  Definition ser3G (a : M * M * M) : bytes := let '(a1, a2, a3) := a in serG Cd a1 ++ serG Cd a2 ++ serG Cd a3.
  Definition ser3F (z : K * K * K) : bytes := let '(z1, z2, z3) := z in serF Cd z1 ++ serF Cd z2 ++ serF Cd z3.
  Definition com_enc_eq_proto : proto K := {|
    p_stmt := com_enc_eq_stmt M; p_wit := K * K * K; p_rand := K * K * K; p_cm := M * M * M; p_resp := K * K * K;
    p_public := com_enc_eq_public; p_commit := com_enc_eq_commit; p_respond := com_enc_eq_respond;
    p_extract := com_enc_eq_extract; p_ser_cm := ser3G; p_ser_resp := ser3F |}.

  Definition com_enc_eq_rel (s : com_enc_eq_stmt M) (w : K * K * K) : Prop :=
    let '(x, cR, pr) := w in
    cee_e1 s = cR *: cee_pkg s /\ cee_e2 s = x *: cee_hin s + cR *: cee_pkh s /\
    cee_cmm s = x *: cee_ckg s + pr *: cee_ckh s.
  Definition com_enc_eq_recover (s : com_enc_eq_stmt M) (w : K * K * K) (c : K) (z : K * K * K) : K * K * K :=
    let '(x, cR, pr) := w in let '(z1, z2, z3) := z in
    (Fadd K z2 (Fmul K c x), Fadd K z1 (Fmul K c cR), Fadd K z3 (Fmul K c pr)).

  (** linear map over [R; x; r] *)
  Definition com_enc_eq_A (s : com_enc_eq_stmt M) : list (list M) :=
    [[cee_pkg s; G0 M; G0 M]; [cee_pkh s; cee_hin s; G0 M]; [G0 M; cee_ckg s; cee_ckh s]].
  Definition com_enc_eq_y (s : com_enc_eq_stmt M) : list M := [cee_e1 s; cee_e2 s; cee_cmm s].
  Definition fl3 {A} (a : A * A * A) : list A := let '(a1, a2, a3) := a in [a1; a2; a3].

  Context {KL : FieldLaws K} {ML : ModLaws M}.
  Add Field Kf_cee : (@F_th K KL).

  Lemma com_enc_eq_commit_generic s r a : com_enc_eq_commit s r = Some a ->
    fl3 a = m_commit (com_enc_eq_A s) (let '(beta, alpha, gamma) := r in [alpha; beta; gamma]).
  Proof. destruct r as [[b al] ga]. intro E. injection E as <-. cbn. list_split; mod_norm. Qed.
  Lemma com_enc_eq_respond_generic s w r c z : com_enc_eq_respond s w r c = Some z ->
    fl3 z = m_respond RespMinus c (let '(x, cR, pr) := w in [cR; x; pr]) (let '(beta, alpha, gamma) := r in [alpha; beta; gamma]).
  Proof. destruct w as [[x cR] pr], r as [[b al] ga]. intro E. injection E as <-. cbn. list_split; ring. Qed.
  Lemma com_enc_eq_extract_generic s c z a : com_enc_eq_extract s c z = Some a ->
    fl3 a = m_reconstruct RespMinus (com_enc_eq_A s) (com_enc_eq_y s) c (fl3 z).
  Proof. destruct z as [[z1 z2] z3]. intro E. injection E as <-. cbn. list_split; mod_norm. Qed.
  Lemma com_enc_eq_rel_generic s w : com_enc_eq_rel s w <->
    phi (com_enc_eq_A s) (let '(x, cR, pr) := w in [cR; x; pr]) = com_enc_eq_y s.
  Proof.
    destruct w as [[x cR] pr]. unfold com_enc_eq_rel, phi, com_enc_eq_A, com_enc_eq_y. cbn. split.
    - intros (-> & -> & ->). list_split; mod_norm.
    - intro E. injection E as E1 E2 E3. rewrite <- E1, <- E2, <- E3. repeat split; mod_norm.
  Qed.

  Theorem com_enc_eq_complete_ : complete com_enc_eq_proto com_enc_eq_rel (fun _ _ => True).
  Proof.
    intros s [[x cR] pr] [[b al] ga] (H1 & H2 & H3) _. eexists. split; [reflexivity|]. intro c.
    eexists. split; [reflexivity|]. cbn. rewrite H1, H2, H3. list_split; mod_norm.
  Qed.

  Definition com_enc_eq_extractor (s : com_enc_eq_stmt M) (c c' : K) (z z' : K * K * K) : K * K * K :=
    let v := m_extract RespMinus c c' (fl3 z) (fl3 z') in (nth 1 v (F0 K), nth 0 v (F0 K), nth 2 v (F0 K)).
  Theorem com_enc_eq_special_sound_ : special_sound com_enc_eq_proto com_enc_eq_rel com_enc_eq_extractor.
  Proof.
    intros s a c c' z z' Hc E E'. apply com_enc_eq_rel_generic.
    pose proof (com_enc_eq_extract_generic s c z a E) as G1. pose proof (com_enc_eq_extract_generic s c' z' a E') as G2.
    destruct z as [[z1 z2] z3], z' as [[y1 y2] y3].
    exact (sigma_special_sound_ RespMinus (com_enc_eq_A s) (com_enc_eq_y s) (fl3 a) c c' [z1; z2; z3] [y1; y2; y3]
             Hc eq_refl eq_refl (eq_sym G1) (eq_sym G2)).
  Qed.

  Context {CL : CodecLaws Cd}.
  (** the statement without the field that [public] does not mention *)
  Definition cee_covered (s : com_enc_eq_stmt M) := (cee_e1 s, cee_e2 s, cee_cmm s, cee_pkg s, cee_pkh s, cee_ckg s, cee_ckh s).

  (** KF-C07-2: two statements that differ (only) in [encryption_in_exponent_generator] have the
      same [public] bytes - the field is not covered by the transcript. *)
  Theorem com_enc_eq_public_omits_generator_refuted_ : forall k (s : com_enc_eq_stmt M) (h' : M),
    h' <> cee_hin s ->
    let s' := mkComEncEq (cee_e1 s) (cee_e2 s) (cee_cmm s) (cee_pkg s) (cee_pkh s) (cee_ckg s) (cee_ckh s) h' in
    s <> s' /\ com_enc_eq_public k s = com_enc_eq_public k s'.
  Proof. intros k s h' Hne s'. split; [|reflexivity]. intro E. apply Hne. now rewrite E. Qed.

  (** ... and a response with z2 = 0 is accepted with the same commit message whatever that field is *)
  Theorem com_enc_eq_generator_unbound_when_z2_zero_ : forall (s : com_enc_eq_stmt M) (h' : M) c z1 z3,
    let s' := mkComEncEq (cee_e1 s) (cee_e2 s) (cee_cmm s) (cee_pkg s) (cee_pkh s) (cee_ckg s) (cee_ckh s) h' in
    com_enc_eq_extract s c (z1, F0 K, z3) = com_enc_eq_extract s' c (z1, F0 K, z3).
  Proof. intros. cbn. list_split; mod_norm. Qed.

  (** positive part: every other field is covered, under both framings *)
  Theorem com_enc_eq_public_covers_rest_ : forall k s s' x y,
    com_enc_eq_public k s ++ x = com_enc_eq_public k s' ++ y -> cee_covered s = cee_covered s' /\ x = y.
  Proof.
    intros k [a b c d e f g h] [a' b' c' d' e' f' g' h'] x y E. unfold com_enc_eq_public, cee_covered in *.
    cbn [cee_e1 cee_e2 cee_cmm cee_pkg cee_pkh cee_ckg cee_ckh] in *. rewrite <- !app_assoc in E.
    unfold msg at 1 5 in E. rewrite <- !app_assoc in E. apply app_inv_head in E.
    apply (serG_split Cd) in E. destruct E as [-> E]. apply (serG_split Cd) in E. destruct E as [-> E].
    apply (msg_split_G Cd) in E. destruct E as [-> E].
    unfold msg at 1 3 in E. rewrite <- !app_assoc in E. apply app_inv_head in E.
    apply (serG_split Cd) in E. destruct E as [-> E]. apply (serG_split Cd) in E. destruct E as [-> E].
    unfold msg in E. rewrite <- !app_assoc in E. apply app_inv_head in E.
    apply (serG_split Cd) in E. destruct E as [-> E]. apply (serG_split Cd) in E. destruct E as [-> ->]. auto.
  Qed.
  (** with the generator fixed (it is a global chain parameter), [public] is prefix free *)
  Theorem com_enc_eq_public_prefix_free_fixed_generator_ : forall k (h : M),
    public_prefix_free com_enc_eq_proto k (fun s => cee_hin s = h).
  Proof.
    intros k h s s' x y Hs Hs' E. apply com_enc_eq_public_covers_rest_ in E. destruct E as [E ->]. split; auto.
    destruct s, s'. unfold cee_covered in E. cbn in *. injection E as -> -> -> -> -> -> ->. congruence.
  Qed.
End ComEncEq.
