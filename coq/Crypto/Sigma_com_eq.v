(** sigma_protocols/com_eq.rs: knowledge of [(a, r)] with [commitment = a*cmm_g + r*cmm_h] and
    [y = a*g].  Response style [rho - c*w]; reconstruction [c*y + phi(z)]. *)
From Coq Require Import ZArith NArith List Field Lia String.
From CB Require Import Crypto.Alg Crypto.Transcript Crypto.TranscriptProofs Crypto.SigmaGeneric Crypto.SigmaCodec.
Import ListNotations.

Record com_eq_stmt {K : FieldOps} (M : ModOps K) := mkComEq {
  ce_commitment : M; ce_y : M; ce_kg : M; ce_kh : M; ce_g : M }.
Arguments mkComEq {K M} _ _ _ _ _. Arguments ce_commitment {K M} _. Arguments ce_y {K M} _.
Arguments ce_kg {K M} _. Arguments ce_kh {K M} _. Arguments ce_g {K M} _.

Section ComEq.
  Context {K : FieldOps} {M : ModOps K} (Cd : CodecOps M).
  Local Open Scope G_scope.

  (** [public]: "commitment", "y", "cmm_key" (g then h), "g" *)
  Definition com_eq_public (k : tkind) (s : com_eq_stmt M) : bytes :=
    msg k (str "commitment") (serG Cd (ce_commitment s)) ++ msg k (str "y") (serG Cd (ce_y s)) ++
    msg k (str "cmm_key") (serG Cd (ce_kg s) ++ serG Cd (ce_kh s)) ++ msg k (str "g") (serG Cd (ce_g s)).
  (** randomness (alpha, cR); commit message (u, v) = (0 + alpha*g, alpha*cmm_g + cR*cmm_h) *)
  Definition com_eq_commit (s : com_eq_stmt M) (r : K * K) : option (M * M) :=
    let (alpha, cR) := r in
    Some (G0 M + alpha *: ce_g s, alpha *: ce_kg s + cR *: ce_kh s).
  (** secret (r, a); response (s, t) = (alpha - c*a, cR - c*r), computed as [-(c*a) + alpha] *)
  Definition com_eq_respond (s : com_eq_stmt M) (w : K * K) (r : K * K) (c : K) : option (K * K) :=
    let (wr, wa) := w in let (alpha, cR) := r in
    Some (Fadd K (Fopp K (Fmul K c wa)) alpha, Fadd K (Fopp K (Fmul K c wr)) cR).
  (** u = multiexp [y, g] [c, s]; v = c*commitment + (s*cmm_g + t*cmm_h) *)
  Definition com_eq_extract (s : com_eq_stmt M) (c : K) (z : K * K) : option (M * M) :=
    let (zs, zt) := z in
    Some (c *: ce_y s + zs *: ce_g s, c *: ce_commitment s + (zs *: ce_kg s + zt *: ce_kh s)).

  Definition com_eq_proto : proto K := {|
    p_stmt := com_eq_stmt M; p_wit := K * K; p_rand := K * K; p_cm := M * M; p_resp := K * K;
    p_public := com_eq_public; p_commit := com_eq_commit; p_respond := com_eq_respond;
    p_extract := com_eq_extract;
    p_ser_cm := fun a => serG Cd (fst a) ++ serG Cd (snd a);
    p_ser_resp := fun z => serF Cd (fst z) ++ serF Cd (snd z) |}.

  (** witness (r, a) *)
  Definition com_eq_rel (s : com_eq_stmt M) (w : K * K) : Prop :=
    ce_commitment s = snd w *: ce_kg s + fst w *: ce_kh s /\ ce_y s = snd w *: ce_g s.
  Definition com_eq_recover (s : com_eq_stmt M) (w : K * K) (c : K) (z : K * K) : K * K :=
    (Fadd K (fst z) (Fmul K c (snd w)), Fadd K (snd z) (Fmul K c (fst w))).

  (** linear map over the witness vector [a; r] *)
  Definition com_eq_A (s : com_eq_stmt M) : list (list M) := [[ce_g s; G0 M]; [ce_kg s; ce_kh s]].
  Definition com_eq_y (s : com_eq_stmt M) : list M := [ce_y s; ce_commitment s].

  Context {KL : FieldLaws K} {ML : ModLaws M}.
  Add Field Kf_comeq : (@F_th K KL).

  Lemma com_eq_commit_generic s r a : com_eq_commit s r = Some a ->
    [fst a; snd a] = m_commit (com_eq_A s) [fst r; snd r].
  Proof. destruct r. intro E. injection E as <-. cbn. list_split; mod_norm. Qed.
  Lemma com_eq_respond_generic s w r c z : com_eq_respond s w r c = Some z ->
    [fst z; snd z] = m_respond RespMinus c [snd w; fst w] [fst r; snd r].
  Proof. destruct w, r. intro E. injection E as <-. cbn. list_split; ring. Qed.
  Lemma com_eq_extract_generic s c z a : com_eq_extract s c z = Some a ->
    [fst a; snd a] = m_reconstruct RespMinus (com_eq_A s) (com_eq_y s) c [fst z; snd z].
  Proof. destruct z. intro E. injection E as <-. cbn. list_split; mod_norm. Qed.
  Lemma com_eq_rel_generic s w : com_eq_rel s w <-> phi (com_eq_A s) [snd w; fst w] = com_eq_y s.
  Proof.
    unfold com_eq_rel, phi, com_eq_A, com_eq_y. cbn. split.
    - intros [-> ->]. list_split; mod_norm.
    - intro E. injection E as E1 E2. split; [rewrite <- E2|rewrite <- E1]; mod_norm.
  Qed.

  Theorem com_eq_complete_ : complete com_eq_proto com_eq_rel (fun _ _ => True).
  Proof.
    intros s [wr wa] [al cR] [H1 H2] _. cbn in H1, H2. eexists. split; [reflexivity|]. intro c.
    eexists. split; [reflexivity|]. cbn. rewrite H1, H2. list_split; mod_norm.
  Qed.

  Definition com_eq_extractor (s : com_eq_stmt M) (c c' : K) (z z' : K * K) : K * K :=
    let v := m_extract RespMinus c c' [fst z; snd z] [fst z'; snd z'] in (nth 1 v (F0 K), nth 0 v (F0 K)).
  Theorem com_eq_special_sound_ : special_sound com_eq_proto com_eq_rel com_eq_extractor.
  Proof.
    intros s a c c' z z' Hc E E'. apply com_eq_rel_generic.
    pose proof (com_eq_extract_generic s c z a E) as G1. pose proof (com_eq_extract_generic s c' z' a E') as G2.
    exact (sigma_special_sound_ RespMinus (com_eq_A s) (com_eq_y s) [fst a; snd a] c c' [fst z; snd z] [fst z'; snd z'] Hc eq_refl eq_refl
             (eq_sym G1) (eq_sym G2)).
  Qed.

  Context {CL : CodecLaws Cd}.
  Theorem com_eq_public_prefix_free_ : forall k, public_prefix_free com_eq_proto k (fun _ => True).
  Proof.
    intros k [a b c d e] [a' b' c' d' e'] x y _ _ E. cbn in E. unfold com_eq_public in E.
    cbn [ce_commitment ce_y ce_kg ce_kh ce_g] in E. rewrite <- !app_assoc in E.
    apply (msg_split_G Cd) in E. destruct E as [-> E]. apply (msg_split_G Cd) in E. destruct E as [-> E].
    unfold msg at 1 3 in E. rewrite <- !app_assoc in E. apply app_inv_head in E.
    apply (serG_split Cd) in E. destruct E as [-> E]. apply (serG_split Cd) in E. destruct E as [-> E].
    apply (msg_split_G Cd) in E. destruct E as [-> ->]. auto.
  Qed.
End ComEq.
