(** sigma_protocols/dlogaggequal.rs - a PRIVATE module ("only there for reference ... not used"; it
    cannot be reached from outside the crate, so this file is a model only: no correspondence).
    One [Dlog] and a vector of [AggregateDlog]s whose first exponent equals the dlog secret.

    OBSERVATION (model only): [extract_commit_message] zips [aggregate_dlogs] with
    [response.responses] WITHOUT comparing their lengths; a response with fewer inner vectors makes the
    verifier reconstruct (and hash) fewer points, i.e. the truncated-response attack of C07 would work
    here: [dlogaggequal_response_count_unchecked_refuted_]. *)
From Coq Require Import ZArith NArith List Field Lia String Bool.
From CB Require Import Crypto.Alg Crypto.Transcript Crypto.TranscriptProofs Crypto.SigmaGeneric Crypto.SigmaCodec
  Crypto.Sigma_dlog Crypto.Sigma_aggregate_dlog.
Import ListNotations.

Section DlogAggEqual.
  Context {K : FieldOps} {M : ModOps K} (Cd : CodecOps M).
  Local Open Scope G_scope.
  Notation len := (@List.length _).
  Definition dae_stmt : Type := (dlog_stmt M * list (agg_stmt M))%type.
  Definition dae_wit : Type := (K * list (list K))%type.   (* common, the remaining exponents of each aggregate *)

  Definition dae_public (k : tkind) (s : dae_stmt) : bytes :=
    each k [] (agg_public Cd k) (snd s) ++ dlog_public Cd k (fst s).
  Definition dae_commit (s : dae_stmt) (r : dae_wit) : option (M * list M) :=
    let '(rc, rs) := r in
    Some (rc *: dl_coeff (fst s), map2 (fun a ri => msm (rc :: ri) (ag_coeff a)) (snd s) rs).
  Definition resp1 (c w rho : K) : K := Fadd K (Fopp K (Fmul K c w)) rho.
  Definition dae_respond (s : dae_stmt) (w r : dae_wit) (c : K) : option dae_wit :=
    Some (resp1 c (fst w) (fst r), map2 (map2 (resp1 c)) (snd w) (snd r)).
  (** [if w.len() + 1 != coeff.len() return None] per aggregate; NO check on the number of aggregates *)
  Fixpoint dae_points (aggs : list (agg_stmt M)) (c zc : K) (ws : list (list K)) : option (list M) :=
    match aggs, ws with
    | a :: aggs', w :: ws' =>
      if negb (Nat.eqb (len w + 1) (len (ag_coeff a))) then None else
      match dae_points aggs' c zc ws' with
      | Some ps => Some ((c *: ag_public a + msm (zc :: w) (ag_coeff a)) :: ps)
      | None => None
      end
    | _, _ => Some []
    end.
  Definition dae_extract (s : dae_stmt) (c : K) (z : dae_wit) : option (M * list M) :=
    match dae_points (snd s) c (fst z) (snd z) with
    | Some ps => Some (fst z *: dl_coeff (fst s) + c *: dl_public (fst s), ps)
    | None => None
    end.
  Definition dae_proto : proto K := {|
    p_stmt := dae_stmt; p_wit := dae_wit; p_rand := dae_wit; p_cm := M * list M; p_resp := dae_wit;
    p_public := dae_public; p_commit := dae_commit; p_respond := dae_respond; p_extract := dae_extract;
    p_ser_cm := fun a => serG Cd (fst a) ++ ser_vec (map (serG Cd) (snd a));
    p_ser_resp := fun z => ser_vec32 (map (fun w => ser_vec (map (serF Cd) w)) (snd z)) ++ serF Cd (fst z) |}.

  (** a response that answers NONE of the aggregates is not rejected: the reconstructed commit message
      simply has no aggregate points (and says nothing about the aggregate statements) *)
  Theorem dlogaggequal_response_count_unchecked_refuted_ : forall (d : dlog_stmt M) (a : agg_stmt M) (c zc : K),
    exists cm, dae_extract (d, [a]) c (zc, []) = Some (cm, []).
  Proof. intros. eexists. reflexivity. Qed.
End DlogAggEqual.
