(** C11 - Fiat-Shamir transcripts of the bulletproofs code (definitions only, executable).

    Which messages are appended under which labels, in which order, and where each challenge is
    extracted, for
      inner_product_proof.rs   prove_inner_product_with_scalars / verify_scalars
      range_proof.rs           prove / verify_efficient                     (ProofVersion 1 and 2)
      set_membership_proof.rs, set_non_membership_proof.rs   prove / verify (ProofVersion 1 and 2)
    on top of the byte-level model of both transcript implementations in [Transcript.v] (C07).
    Message payloads are the [Serial] bytes of the group elements / scalars and are inputs here
    (points: 48 bytes compressed, scalars: 32 bytes; neither encoding is modelled).  A transcript is a
    list of labelled messages ([lmsg]); a bare label (append_label, and the label absorbed by
    extract_challenge_scalar) is a labelled message with empty payload.                             *)
From Coq Require Import NArith List String.
From CB Require Import Crypto.Transcript.
Import ListNotations.
Local Open Scope N_scope.

Definition lm (s : string) (payload : bytes) : lmsg := (str s, payload).
Definition lb (s : string) : lmsg := (str s, []).

(** one round of the inner-product argument: Lj, Rj, then the challenge label uj *)
Definition ipa_round (lr : bytes * bytes) : list lmsg :=
  [lm "Lj" (fst lr); lm "Rj" (snd lr); lb "uj"].
(** everything absorbed up to and including the extraction of u_j (j counted from 0) *)
Definition ipa_items (lrs : list (bytes * bytes)) (j : nat) : list lmsg :=
  flat_map ipa_round (firstn (S j) lrs).
(** after the last round: a, b as final prover messages (absorbed by V1 only) *)
Definition ipa_final (k : tkind) (a b : bytes) : bytes :=
  final_msg k (str "a") a ++ final_msg k (str "b") b.

(** the messages of a range / set proof, serialised *)
Record pmsgs := mkPmsgs {
  mA : bytes; mS : bytes; mT1 : bytes; mT2 : bytes;
  mtx : bytes; mtxt : bytes; met : bytes;
  mlr : list (bytes * bytes); ma : bytes; mb : bytes }.

(** public inputs absorbed before A.
    range, Version2:  G, H (each a Vec: 8-byte count then the points), v_keys (g then h), n (one byte);
    then, in both versions, one "Vj" message per commitment. *)
Definition range_pre (v2 : bool) (Gb Hb : list bytes) (keysb : bytes) (nb : bytes) (Vb : list bytes) : list lmsg :=
  (if v2 then [lm "G" (ser_vec Gb); lm "H" (ser_vec Hb); lm "v_keys" keysb; lm "n" nb] else [])
  ++ map (lm "Vj") Vb.
(** set proofs: the domain-separation label, Version2: G, H, v_keys; then V and the padded set *)
Definition set_pre (member v2 : bool) (Gb Hb : list bytes) (keysb : bytes) (Vb : bytes) (setb : list bytes) : list lmsg :=
  [lb (if member then "SetMembershipProof" else "SetNonMembershipProof")]
  ++ (if v2 then [lm "G" (ser_vec Gb); lm "H" (ser_vec Hb); lm "v_keys" keysb] else [])
  ++ [lm "V" Vb; lm "theSet" (ser_vec setb)].

(** the transcript of the skeleton, cut at each challenge *)
Inductive stage := SY | SZ | SX | SW | SU (j : nat).
Definition items_y (pre : list lmsg) (p : pmsgs) : list lmsg := pre ++ [lm "A" (mA p); lm "S" (mS p); lb "y"].
Definition items_z pre p := items_y pre p ++ [lb "z"].
Definition items_x pre p := items_z pre p ++ [lm "T1" (mT1 p); lm "T2" (mT2 p); lb "x"].
Definition items_w pre p := items_x pre p ++ [lm "tx" (mtx p); lm "tx_tilde" (mtxt p); lm "e_tilde" (met p); lb "w"].
Definition items_at (pre : list lmsg) (p : pmsgs) (s : stage) : list lmsg :=
  match s with
  | SY => items_y pre p
  | SZ => items_z pre p
  | SX => items_x pre p
  | SW => items_w pre p
  | SU j => items_w pre p ++ ipa_items (mlr p) j
  end.

(** the byte string whose hash is the challenge of stage [s]; [st] is the transcript state on entry *)
Definition state_at (k : tkind) (st : bytes) (pre : list lmsg) (p : pmsgs) (s : stage) : bytes :=
  st ++ enc_lmsgs k (items_at pre p s).
Definition stages (rounds : nat) : list stage := [SY; SZ; SX; SW] ++ map SU (seq 0 rounds).
(** all hashed strings of one proof, in extraction order: y, z, x, w, u_0 .. u_(k-1) *)
Definition proof_states (k : tkind) (st : bytes) (pre : list lmsg) (p : pmsgs) : list bytes :=
  map (state_at k st pre p) (stages (List.length (mlr p))).
(** transcript state after the proof (what a following protocol continues from) *)
Definition state_after (k : tkind) (st : bytes) (pre : list lmsg) (p : pmsgs) : bytes :=
  st ++ enc_lmsgs k (items_w pre p ++ flat_map ipa_round (mlr p)) ++ ipa_final k (ma p) (mb p).

(** the inner-product argument alone (prove_inner_product / verify_inner_product) *)
Definition ipa_state_at (k : tkind) (st : bytes) (lrs : list (bytes * bytes)) (j : nat) : bytes :=
  st ++ enc_lmsgs k (ipa_items lrs j).

Section FS.
  Variable H : bytes -> bytes.
  Variable S : Type.
  Variable sfb : bytes -> S.
  (** the challenges the verifier derives *)
  Definition proof_challenges (k : tkind) (st : bytes) (pre : list lmsg) (p : pmsgs) : list S :=
    map (fun s => sfb (H s)) (proof_states k st pre p).
End FS.
