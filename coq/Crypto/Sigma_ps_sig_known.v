(** sigma_protocols/ps_sig_known.rs: knowledge of a Pointcheval-Sanders signature on a vector of
    messages, each of which is either committed ([EqualToCommitment]), public, or known only to the
    prover:  e(b_hat, g~) = e(a_hat, X~ + sum_i m_i*Y~_i + r'*g~)  and  C_i = m_i*g + r_i*h  for the
    committed ones.  Generalises com_eq_sig.rs.  Response style [rho - c*w]. *)
From Coq Require Import ZArith NArith List Field Lia String Bool.
From CB Require Import Crypto.Alg Crypto.AlgPairing Crypto.Transcript Crypto.TranscriptProofs Crypto.SigmaGeneric Crypto.SigmaCodec.
Import ListNotations.

Inductive psmsg (MC K : Type) : Type := MEq (C : MC) | MPub (m : K) | MKnown.
Arguments MEq {MC K} _. Arguments MPub {MC K} _. Arguments MKnown {MC K}.
(** witness / commit secret / response of one message *)
Inductive psval (K : Type) : Type := VEq (a b : K) | VPub | VKnown (a : K).
Arguments VEq {K} _ _. Arguments VPub {K}. Arguments VKnown {K} _.

Record pss_stmt {K : FieldOps} (P : PairOps K) (MC : ModOps K) := mkPss {
  ps_a : PM1 P; ps_b : PM1 P; ps_msgs : list (psmsg MC K);
  ps_pkg : PM1 P; ps_gt : PM2 P; ps_ys : list (PM1 P); ps_yts : list (PM2 P); ps_xt : PM2 P;
  ps_g : MC; ps_h : MC }.
Arguments mkPss {K P MC} _ _ _ _ _ _ _ _ _ _.
Arguments ps_a {K P MC} _. Arguments ps_b {K P MC} _. Arguments ps_msgs {K P MC} _. Arguments ps_pkg {K P MC} _.
Arguments ps_gt {K P MC} _. Arguments ps_ys {K P MC} _. Arguments ps_yts {K P MC} _. Arguments ps_xt {K P MC} _.
Arguments ps_g {K P MC} _. Arguments ps_h {K P MC} _.

Section PsSigKnown.
  Context {K : FieldOps} {P : PairOps K} {MC : ModOps K}
          (Cd1 : CodecOps (PM1 P)) (Cd2 : CodecOps (PM2 P)) (CdT : CodecOps (PMT P)) (CdC : CodecOps MC).
  Local Open Scope G_scope.
  Notation len := (@List.length _).
  Notation M2 := (PM2 P).
  Definition resp1 (c w rho : K) : K := Fadd K (Fopp K (Fmul K c w)) rho.
  Definition pss_wit : Type := (K * list (psval K))%type.

  (** derived [Serial] of the enums: a tag byte, then the fields *)
  Definition ser_psmsg (m : psmsg MC K) : bytes :=
    match m with MEq C => [0%N] ++ serG CdC C | MPub v => [1%N] ++ serF CdC v | MKnown => [2%N] end.
  Definition ser_psval (v : psval K) : bytes :=
    match v with VEq a b => [0%N] ++ serF CdC a ++ serF CdC b | VPub => [1%N] | VKnown a => [2%N] ++ serF CdC a end.
  (** "PsSigKnown" label, "blinded_sig", "messages" (a Vec: u64 count), "ps_pub_key", "comm_key" *)
  Definition pss_public (k : tkind) (s : pss_stmt P MC) : bytes :=
    lbl k (str "PsSigKnown") ++
    msg k (str "blinded_sig") (serG Cd1 (ps_a s) ++ serG Cd1 (ps_b s)) ++
    msg k (str "messages") (ser_vec (map ser_psmsg (ps_msgs s))) ++
    msg k (str "ps_pub_key") (serG Cd1 (ps_pkg s) ++ serG Cd2 (ps_gt s) ++ ser_vec32 (map (serG Cd1) (ps_ys s)) ++
                              ser_vec32 (map (serG Cd2) (ps_yts s)) ++ serG Cd2 (ps_xt s)) ++
    msg k (str "comm_key") (serG CdC (ps_g s) ++ serG CdC (ps_h s)).

  (** the prover's loop: [yts] is the not yet consumed part of y_tildas ([y_tilde(i)?]); the commit
      secret has the shape of the messages by construction (shape mismatch = None) *)
  Fixpoint pss_commit_go (g h : MC) (msgs : list (psmsg MC K)) (mus : list (psval K)) (yts : list M2)
    : option (M2 * list MC) :=
    match msgs, mus with
    | [], _ => Some (G0 M2, [])
    | MEq _ :: msgs', VEq a r :: mus' =>
      match yts with
      | y :: yts' => match pss_commit_go g h msgs' mus' yts' with
                     | Some (e, cs) => Some (a *: y + e, (a *: g + r *: h) :: cs) | None => None end
      | [] => None
      end
    | MPub _ :: msgs', VPub :: mus' => pss_commit_go g h msgs' mus' (tl yts)
    | MKnown :: msgs', VKnown a :: mus' =>
      match yts with
      | y :: yts' => match pss_commit_go g h msgs' mus' yts' with
                     | Some (e, cs) => Some (a *: y + e, cs) | None => None end
      | [] => None
      end
    | _, _ => None
    end.
  Definition pss_commit (s : pss_stmt P MC) (r : pss_wit) : option (PMT P * list MC) :=
    let '(rho, mus) := r in
    if Nat.ltb (len (ps_ys s)) (len (ps_msgs s)) then None else
    match pss_commit_go (ps_g s) (ps_h s) (ps_msgs s) mus (ps_yts s) with
    | Some (e, cs) => Some (pe P (ps_a s) (rho *: ps_gt s + e), cs)
    | None => None
    end.
  (** [state.cmm_sec_msgs.iter().zip(witness.msgs.iter())]: truncating, shapes must agree *)
  Fixpoint pss_respond_go (c : K) (mus ws : list (psval K)) : option (list (psval K)) :=
    match mus, ws with
    | VEq a r :: mus', VEq m rr :: ws' =>
      match pss_respond_go c mus' ws' with Some zs => Some (VEq (resp1 c m a) (resp1 c rr r) :: zs) | None => None end
    | VPub :: mus', VPub :: ws' =>
      match pss_respond_go c mus' ws' with Some zs => Some (VPub :: zs) | None => None end
    | VKnown a :: mus', VKnown m :: ws' =>
      match pss_respond_go c mus' ws' with Some zs => Some (VKnown (resp1 c m a) :: zs) | None => None end
    | [], _ | _, [] => Some []
    | _, _ => None
    end.
  Definition pss_respond (s : pss_stmt P MC) (w r : pss_wit) (c : K) : option pss_wit :=
    match pss_respond_go c (snd r) (snd w) with
    | Some zs => Some (resp1 c (fst w) (fst r), zs)
    | None => None
    end.
  Fixpoint pss_extract_go (g h : MC) (c : K) (msgs : list (psmsg MC K)) (zs : list (psval K)) (yts : list M2)
    : option (M2 * list MC) :=
    match msgs, zs with
    | MEq C :: msgs', VEq zm zr :: zs' =>
      match yts with
      | y :: yts' => match pss_extract_go g h c msgs' zs' yts' with
                     | Some (e, cs) => Some (zm *: y + e, (c *: C + (zm *: g + zr *: h)) :: cs) | None => None end
      | [] => None
      end
    | MPub m :: msgs', VPub :: zs' =>
      match yts with
      | y :: yts' => match pss_extract_go g h c msgs' zs' yts' with
                     | Some (e, cs) => Some (Fmul K (Fopp K c) m *: y + e, cs) | None => None end
      | [] => None
      end
    | MKnown :: msgs', VKnown z :: zs' =>
      match yts with
      | y :: yts' => match pss_extract_go g h c msgs' zs' yts' with
                     | Some (e, cs) => Some (z *: y + e, cs) | None => None end
      | [] => None
      end
    | [], _ | _, [] => Some (G0 M2, [])
    | _, _ => None
    end.
  Definition pss_extract (s : pss_stmt P MC) (c : K) (z : pss_wit) : option (PMT P * list MC) :=
    let '(zr, zs) := z in
    if Nat.ltb (len (ps_ys s)) (len (ps_msgs s)) then None else
    if negb (Nat.eqb (len (ps_msgs s)) (len zs)) then None else
    match pss_extract_go (ps_g s) (ps_h s) c (ps_msgs s) zs (ps_yts s) with
    | Some (e, cs) =>
      Some (pe P (ps_b s) (c *: ps_gt s) + pe P (ps_a s) (zr *: ps_gt s + (Fopp K c *: ps_xt s + e)), cs)
    | None => None
    end.

  Definition pss_proto : proto K := {|
    p_stmt := pss_stmt P MC; p_wit := pss_wit; p_rand := pss_wit; p_cm := PMT P * list MC; p_resp := pss_wit;
    p_public := pss_public; p_commit := pss_commit; p_respond := pss_respond; p_extract := pss_extract;
    p_ser_cm := fun a => serG CdT (fst a) ++ ser_vec (map (serG CdC) (snd a));
    p_ser_resp := fun z => serF CdC (fst z) ++ ser_vec32 (map ser_psval (snd z)) |}.

  (** the signed sum  sum_i m_i*Y~_i  and the per-message relation *)
  Fixpoint pss_sum (msgs : list (psmsg MC K)) (ws : list (psval K)) (yts : list M2) : M2 :=
    match msgs, ws, yts with
    | MEq _ :: msgs', VEq m _ :: ws', y :: yts' => m *: y + pss_sum msgs' ws' yts'
    | MPub m :: msgs', VPub :: ws', y :: yts' => m *: y + pss_sum msgs' ws' yts'
    | MKnown :: msgs', VKnown m :: ws', y :: yts' => m *: y + pss_sum msgs' ws' yts'
    | _, _, _ => G0 M2
    end.
  Inductive shape_rel (g h : MC) : psmsg MC K -> psval K -> Prop :=
  | SrEq m r : shape_rel g h (MEq (m *: g + r *: h)) (VEq m r)
  | SrPub m : shape_rel g h (MPub m) VPub
  | SrKnown m : shape_rel g h MKnown (VKnown m).
  Inductive shape_ok : psmsg MC K -> psval K -> Prop :=
  | SoEq C a r : shape_ok (MEq C) (VEq a r) | SoPub m : shape_ok (MPub m) VPub | SoKnown a : shape_ok MKnown (VKnown a).
  Definition pss_rel (s : pss_stmt P MC) (w : pss_wit) : Prop :=
    (len (ps_msgs s) <= len (ps_ys s))%nat /\ (len (ps_msgs s) <= len (ps_yts s))%nat /\
    Forall2 (shape_rel (ps_g s) (ps_h s)) (ps_msgs s) (snd w) /\
    pe P (ps_b s) (ps_gt s) = pe P (ps_a s) (ps_xt s + (pss_sum (ps_msgs s) (snd w) (ps_yts s) + fst w *: ps_gt s)).
  Definition pss_rok (s : pss_stmt P MC) (r : pss_wit) : Prop := Forall2 shape_ok (ps_msgs s) (snd r).

  Context {KL : FieldLaws K} {PL : PairLaws P} {MLC : ModLaws MC}.
  Add Field Kf_pss : (@F_th K KL).

  Lemma pss_go_complete (g h : MC) c : forall msgs ws, Forall2 (shape_rel g h) msgs ws ->
    forall mus, Forall2 shape_ok msgs mus -> forall yts : list M2, (len msgs <= len yts)%nat ->
    exists e cs zs, pss_commit_go g h msgs mus yts = Some (e, cs) /\
      pss_respond_go c mus ws = Some zs /\ len zs = len msgs /\
      pss_extract_go g h c msgs zs yts = Some (e + Fopp K c *: pss_sum msgs ws yts, cs).
  Proof.
    intros msgs ws R. induction R as [|m w msgs ws Hr R IH]; intros mus O yts L; inversion O as [|? mu ? mus' Ho O']; subst.
    - exists (G0 M2), [], []. cbn. repeat split; auto. f_equal. f_equal. mod_norm.
    - destruct yts as [|y yts]; [cbn in L; lia|].
      destruct (IH mus' O' yts) as (e & cs & zs & C1 & R1 & L1 & X1); [cbn in L; lia|].
      destruct Hr; inversion Ho; subst; eexists _, _, _;
        (split; [cbn [pss_commit_go tl]; rewrite C1; reflexivity|]);
        (split; [cbn [pss_respond_go]; rewrite R1; reflexivity|]);
        (split; [cbn [len]; congruence|]); cbn [pss_extract_go pss_sum]; rewrite X1; f_equal.
      + f_equal; [unfold resp1; mod_norm|]. f_equal. unfold resp1. mod_norm.
      + f_equal. mod_norm.
      + f_equal. unfold resp1. mod_norm.
  Qed.

  Theorem pss_complete_ : complete pss_proto pss_rel pss_rok.
  Proof.
    intros [a b msgs pg gt ys yts xt g h] [r' ws] [rho mus] (Ly & Lyt & R & Hp) O. unfold pss_rok in O.
    cbn [ps_a ps_b ps_msgs ps_pkg ps_gt ps_ys ps_yts ps_xt ps_g ps_h fst snd] in *.
    assert (B : Nat.ltb (len ys) (len msgs) = false) by (apply Nat.ltb_ge; lia).
    destruct (pss_go_complete g h (F0 K) msgs ws R mus O yts Lyt) as (e & cs & _ & C1 & _).
    eexists. split.
    { cbn [p_commit pss_proto pss_commit ps_a ps_b ps_msgs ps_pkg ps_gt ps_ys ps_yts ps_xt ps_g ps_h]. rewrite B, C1. reflexivity. }
    intro c. destruct (pss_go_complete g h c msgs ws R mus O yts Lyt) as (e' & cs' & zs & C1' & R1 & L1 & X1).
    rewrite C1 in C1'. injection C1' as <- <-.
    exists (resp1 c r' rho, zs). cbn [p_respond p_extract pss_proto pss_respond pss_extract fst snd
      ps_a ps_b ps_msgs ps_pkg ps_gt ps_ys ps_yts ps_xt ps_g ps_h].
    unfold pss_respond. cbn [fst snd]. rewrite R1, B, L1, Nat.eqb_refl, X1. cbn [negb]. split; [reflexivity|]. f_equal. f_equal.
    repeat (rewrite pe_add_r || rewrite pe_smul_r || rewrite pe_opp_r). rewrite Hp.
    repeat (rewrite pe_add_r || rewrite pe_smul_r || rewrite pe_opp_r). unfold resp1. mod_norm.
  Qed.

  (** a response with the wrong number of message responses is rejected *)
  Theorem pss_extract_length_ : forall s c zr zs a, pss_extract s c (zr, zs) = Some a -> len zs = len (ps_msgs s).
  Proof.
    intros s c zr zs a. unfold pss_extract. destruct (Nat.ltb (len (ps_ys s)) (len (ps_msgs s))); [discriminate|].
    destruct (Nat.eqb (len (ps_msgs s)) (len zs)) eqn:E; [|discriminate]. intros _. apply Nat.eqb_eq in E. auto.
  Qed.
End PsSigKnown.
