(** C19 - composite theorems about the byte-level ECVRF model: completeness on bytes, output =
    function of (secret key, input), uniqueness given the DLEQ relation, exact accept condition.
    Same hypotheses as VrfBytesProofs.v. *)
From Coq Require Import ZArith NArith List Bool Lia.
From CB Require Import Crypto.Vrf Crypto.VrfProofs Crypto.VrfBytes Crypto.VrfBytesProofs.
Import ListNotations.
Local Open Scope Z_scope.

Section VrfBytesTheorems.
  Variable G : Type.
  Variable gzero : G.
  Variable gadd : G -> G -> G.
  Variable gopp : G -> G.
  Variable zmul : Z -> G -> G.
  Variable geqb : G -> G -> bool.
  Hypothesis gadd_assoc : forall a b c, gadd a (gadd b c) = gadd (gadd a b) c.
  Hypothesis gadd_comm : forall a b, gadd a b = gadd b a.
  Hypothesis gadd_0_l : forall a, gadd gzero a = a.
  Hypothesis gadd_opp_r : forall a, gadd a (gopp a) = gzero.
  Hypothesis zmul_add_l : forall x y a, zmul (x + y) a = gadd (zmul x a) (zmul y a).
  Hypothesis zmul_add_r : forall x a b, zmul x (gadd a b) = gadd (zmul x a) (zmul x b).
  Hypothesis zmul_mul : forall x y a, zmul (x * y) a = zmul x (zmul y a).
  Variable B : G.
  Hypothesis B_order : forall n, zmul n B = gzero <-> (ed_l | n).
  Hypothesis exponent_8l : forall P, zmul (ed_l * 8) P = gzero.
  Variable compress : G -> list N.
  Variable decompress : list N -> option G.
  Hypothesis compress_len : forall P, length (compress P) = 32%nat.
  Hypothesis decompress_compress : forall P, decompress (compress P) = Some P.
  Variable sha512 : list N -> list N.
  Hypothesis sha_bytes : forall m, bytes_ok (sha512 m).

  Notation h2c_bytes := (h2c_bytes G gzero zmul geqb decompress sha512).
  Notation hpoints_bytes := (hpoints_bytes G compress sha512).
  Notation hout_bytes := (hout_bytes G compress sha512).
  Notation noncegen_bytes := (noncegen_bytes G compress sha512).
  Notation pk_of_secret := (pk_of_secret G zmul B compress sha512).
  Notation decode_proof := (decode_proof G decompress).
  Notation ecvrf_prove_pi := (ecvrf_prove_pi G gzero zmul geqb B compress decompress sha512).
  Notation ecvrf_prove_bytes := (ecvrf_prove_bytes G gzero zmul geqb B compress decompress sha512).
  Notation ecvrf_verify_pi := (ecvrf_verify_pi G gzero gadd gopp zmul geqb B compress decompress sha512).
  Notation ecvrf_verify_bytes := (ecvrf_verify_bytes G gzero gadd gopp zmul geqb B compress decompress sha512).
  Notation ecvrf_hash_pi := (ecvrf_hash_pi G zmul compress sha512).
  Notation ecvrf_hash_bytes := (ecvrf_hash_bytes G zmul compress decompress sha512).

  Local Opaque ed_l.

  Lemma h2c_order pkb (Y : G) alpha H : (fun (_ : G) a => h2c_bytes pkb a) Y alpha = Some H -> zmul ed_l H = gzero.
  Proof. exact (h2c_bytes_order G gzero zmul geqb zmul_mul exponent_8l decompress sha512 pkb Y alpha H). Qed.

  (** *** completeness on bytes: verify (prove sk alpha) = true *)
  Lemma complete_core x nonce pkb alpha pi :
    vrf_prove G zmul ed_l B (list N) (list N) (fun _ a => h2c_bytes pkb a) hpoints_bytes noncegen_bytes x nonce (zmul x B) alpha = Some pi ->
    vrf_verify G gadd gopp zmul B (list N) (fun _ a => h2c_bytes pkb a) hpoints_bytes (zmul x B) pi alpha = true.
  Proof.
    exact (vrf_complete_l G gzero gadd gopp zmul gadd_assoc gadd_comm gadd_0_l gadd_opp_r zmul_add_l zmul_add_r zmul_mul
             ed_l ed_l_pos B B_order (list N) (list N) (fun _ a => h2c_bytes pkb a) (h2c_order pkb)
             hpoints_bytes noncegen_bytes x nonce alpha pi).
  Qed.

  Lemma prove_pi_unfold skb pk alpha x nonce :
    expand_key (sha512 skb) = (x, nonce) ->
    ecvrf_prove_pi skb pk alpha =
    vrf_prove G zmul ed_l B (list N) (list N) (fun _ a => h2c_bytes (fst pk) a) hpoints_bytes noncegen_bytes x nonce (snd pk) alpha.
  Proof. intros EK. unfold VrfBytes.ecvrf_prove_pi. rewrite EK. reflexivity. Qed.

  Lemma pk_of_secret_unfold skb x nonce :
    expand_key (sha512 skb) = (x, nonce) -> pk_of_secret skb = (compress (zmul x B), zmul x B).
  Proof. intros EK. unfold VrfBytes.pk_of_secret. rewrite EK. reflexivity. Qed.

  Lemma prove_bytes_inv skb pk alpha pib :
    ecvrf_prove_bytes skb pk alpha = Some pib ->
    exists pi, ecvrf_prove_pi skb pk alpha = Some pi /\ decode_proof pib = Some pi.
  Proof.
    unfold VrfBytes.ecvrf_prove_bytes.
    destruct (ecvrf_prove_pi skb pk alpha) as [[[gm c] s]|] eqn:Ep; [|discriminate].
    intros E. exists (gm, c, s). split; [reflexivity|].
    destruct (prove_pi_ranges G gzero zmul geqb B compress decompress sha512 sha_bytes skb pk alpha gm c s Ep) as [Hc Hs].
    apply (decode_encode G compress decompress compress_len decompress_compress gm c s pib); [lia | exact Hs | exact E].
  Qed.

  Lemma ecvrf_bytes_complete_l skb alpha pib :
    ecvrf_prove_bytes skb (pk_of_secret skb) alpha = Some pib ->
    ecvrf_verify_bytes (pk_of_secret skb) pib alpha = true.
  Proof.
    intros E. apply prove_bytes_inv in E. destruct E as (pi & Ep & D).
    destruct (expand_key (sha512 skb)) as [x nonce] eqn:EK.
    rewrite (prove_pi_unfold skb _ alpha x nonce EK), (pk_of_secret_unfold skb x nonce EK) in Ep.
    unfold VrfBytes.ecvrf_verify_bytes. rewrite D. unfold VrfBytes.ecvrf_verify_pi.
    rewrite (pk_of_secret_unfold skb x nonce EK). apply (complete_core x nonce _ alpha pi). exact Ep.
  Qed.

  (** *** determinism: the proof bytes are a function of (secret key bytes, input) - there is no
      other argument; and the OUTPUT is a function of the secret scalar and H only *)
  Lemma ecvrf_bytes_output_l skb pk alpha pib :
    ecvrf_prove_bytes skb pk alpha = Some pib ->
    exists H, h2c_bytes (fst pk) alpha = Some H /\
      ecvrf_hash_bytes pib = Some (sha512 (beta_input (compress (zmul 8 (zmul (fst (expand_key (sha512 skb))) H))))).
  Proof.
    intros E. apply prove_bytes_inv in E. destruct E as (pi & Ep & D).
    destruct (expand_key (sha512 skb)) as [x nonce] eqn:EK.
    rewrite (prove_pi_unfold skb pk alpha x nonce EK) in Ep.
    apply (vrf_output_l G zmul ed_l B (list N) (list N) (list N) (fun _ a => h2c_bytes (fst pk) a) hpoints_bytes hout_bytes noncegen_bytes) in Ep.
    destruct Ep as (H & EH & Eo). exists H. split; [exact EH|].
    unfold VrfBytes.ecvrf_hash_bytes. rewrite D. unfold VrfBytes.ecvrf_hash_pi. rewrite Eo. reflexivity.
  Qed.

  (** *** uniqueness of the output on bytes, given the DLEQ relation *)
  Lemma ecvrf_bytes_unique_given_dleq_l Y H pib1 pib2 gm1 c1 s1 gm2 c2 s2 :
    zmul ed_l H = gzero ->
    decode_proof pib1 = Some (gm1, c1, s1) -> decode_proof pib2 = Some (gm2, c2, s2) ->
    dleq G zmul B Y H gm1 -> dleq G zmul B Y H gm2 ->
    ecvrf_hash_bytes pib1 = ecvrf_hash_bytes pib2.
  Proof.
    intros Hl D1 D2 R1 R2. unfold VrfBytes.ecvrf_hash_bytes. rewrite D1, D2. f_equal. unfold VrfBytes.ecvrf_hash_pi.
    eapply (vrf_unique_given_dleq_l G gzero gadd gopp zmul gadd_assoc gadd_comm gadd_0_l gadd_opp_r zmul_add_l zmul_add_r zmul_mul
              ed_l B B_order); eassumption.
  Qed.

  (** *** exact acceptance condition on bytes *)
  Lemma ecvrf_verify_bytes_iff_l pk pib alpha :
    ecvrf_verify_bytes pk pib alpha = true <->
    exists gm c s H, decode_proof pib = Some (gm, c, s) /\ h2c_bytes (fst pk) alpha = Some H /\
      c = challenge_of_digest (sha512 (challenge_input (compress H) (compress gm)
            (compress (gsub G gadd gopp (zmul s B) (zmul c (snd pk))))
            (compress (gsub G gadd gopp (zmul s H) (zmul c gm))))).
  Proof.
    unfold VrfBytes.ecvrf_verify_bytes. destruct (decode_proof pib) as [[[gm c] s]|].
    - unfold VrfBytes.ecvrf_verify_pi. rewrite vrf_verify_iff_l. split.
      + intros (H & EH & Ec). exists gm, c, s, H. repeat split; assumption.
      + intros (gm' & c' & s' & H & E & EH & Ec). apply Some_inj, triple_inj in E. destruct E as (-> & -> & ->).
        exists H. split; assumption.
    - split; [discriminate|]. intros (? & ? & ? & ? & E & _). discriminate.
  Qed.
End VrfBytesTheorems.
