(** Executable model of compressed BLS12-381 G1 point decoding as [concordium_base] accepts it
    ([Deserial for ArkGroup<G1Projective>] after repair b80435169 = arkworks
    [read_g1_compressed] + [Validate::Yes] + the canonical re-encoding check) and of the
    encoder ([Serial] = arkworks [serialize_compressed]).  Definitions only.

    48 bytes, big endian.  Byte 0 carries three flags: bit 7 compression (must be set), bit 6
    infinity, bit 5 sort flag ("y is the lexicographically largest of {y, -y}"); the remaining
    381 bits are x.  The decoder: flags; infinity => zero point; x must be < p; y from
    [x^3 + 4] by the candidate root [(x^3+4)^((p+1)/4)] (p = 3 mod 4) which must square back;
    y chosen by the sort flag; subgroup check ([r]P = O, computed here by plain double-and-add in
    Jacobian coordinates - arkworks uses an endomorphism-based test with the same meaning);
    finally (the repair) the point must re-encode to the input bytes. *)
From Coq Require Import NArith List.
From CB Require Import Crypto.ScalarCodec.
Import ListNotations.
Local Open Scope N_scope.

Definition g1_p : N :=
  4002409555221667393417789825735904156556882819939007885332058136124031650490837864442687629129015664037894272559787.
Definition g1_r_pos : positive :=
  52435875175126190479447740508185965837690552500527637822603658699938581184513.
(** (p + 1) / 4 *)
Definition g1_sqrt_exp : positive :=
  1000602388805416848354447456433976039139220704984751971333014534031007912622709466110671907282253916009473568139947.

(** arithmetic in Z mod p on reduced representatives *)
Definition fadd (a b : N) : N := (a + b) mod g1_p.
Definition fsub (a b : N) : N := (a + g1_p - b) mod g1_p.
Definition fmul (a b : N) : N := (a * b) mod g1_p.
Definition fneg (a : N) : N := (g1_p - a) mod g1_p.
Fixpoint fpow (b : N) (e : positive) : N :=
  match e with
  | xH => b mod g1_p
  | xO e' => let t := fpow b e' in fmul t t
  | xI e' => let t := fpow b e' in fmul (fmul t t) b
  end.

Inductive g1pt := G1Inf | G1Aff (x y : N).

(** right-hand side of the curve equation y^2 = x^3 + 4 *)
Definition g1_rhs (x : N) : N := fadd (fmul (fmul x x) x) 4.

(** ** Jacobian arithmetic (a = 0), used only for the subgroup check *)
Definition jac := (N * N * N)%type.
Definition jdbl (P : jac) : jac :=
  let '(X, Y, Z) := P in
  let A := fmul X X in let B := fmul Y Y in let C := fmul B B in
  let t := fadd X B in
  let D := fmul 2 (fsub (fsub (fmul t t) A) C) in
  let E := fmul 3 A in let F := fmul E E in
  let X3 := fsub F (fmul 2 D) in
  let Y3 := fsub (fmul E (fsub D X3)) (fmul 8 C) in
  let Z3 := fmul 2 (fmul Y Z) in
  (X3, Y3, Z3).
Definition jadd (P Q : jac) : jac :=
  let '(X1, Y1, Z1) := P in let '(X2, Y2, Z2) := Q in
  if Z1 =? 0 then Q else if Z2 =? 0 then P else
  let Z1Z1 := fmul Z1 Z1 in let Z2Z2 := fmul Z2 Z2 in
  let U1 := fmul X1 Z2Z2 in let U2 := fmul X2 Z1Z1 in
  let S1 := fmul (fmul Y1 Z2) Z2Z2 in let S2 := fmul (fmul Y2 Z1) Z1Z1 in
  if U1 =? U2 then (if S1 =? S2 then jdbl P else (1, 1, 0)) else
  let H := fsub U2 U1 in
  let I := fmul (fmul 2 H) (fmul 2 H) in
  let J := fmul H I in
  let rr := fmul 2 (fsub S2 S1) in
  let V := fmul U1 I in
  let X3 := fsub (fsub (fmul rr rr) J) (fmul 2 V) in
  let Y3 := fsub (fmul rr (fsub V X3)) (fmul 2 (fmul S1 J)) in
  let t := fadd Z1 Z2 in
  let Z3 := fmul (fsub (fsub (fmul t t) Z1Z1) Z2Z2) H in
  (X3, Y3, Z3).
Fixpoint jmul (k : positive) (P : jac) : jac :=
  match k with
  | xH => P
  | xO k' => jdbl (jmul k' P)
  | xI k' => jadd (jdbl (jmul k' P)) P
  end.
(** [r]P = O *)
Definition g1_in_subgroup (x y : N) : bool :=
  let '(_, _, Z) := jmul g1_r_pos (x, y, 1) in Z =? 0.

(** ** Encoder: [serialize_compressed] *)
(** the sort flag: y > -y (as integers in [0, p)) *)
Definition g1_sort_flag (y : N) : bool := fneg y <? y.
Definition g1_encode (P : g1pt) : list N :=
  match P with
  | G1Inf => 192 :: repeat 0 47%nat
  | G1Aff x y =>
      match to_be 48 x with
      | b0 :: rest => (b0 + 128 + (if g1_sort_flag y then 32 else 0)) :: rest
      | [] => []
      end
  end.

(** ** Decoder *)
Definition g1_decode (bs : list N) : option g1pt :=
  if negb (Nat.eqb (length bs) 48) then None else
  match bs with
  | [] => None
  | b0 :: rest =>
      let compressed := (b0 / 128) mod 2 =? 1 in
      let infinity := (b0 / 64) mod 2 =? 1 in
      let greatest := (b0 / 32) mod 2 =? 1 in
      if negb compressed then None                       (* UnexpectedFlags *)
      else
        let cand :=
          if infinity then Some G1Inf                    (* arkworks: zero, whatever the other bits *)
          else
            let x := be_val ((b0 mod 32) :: rest) in
            if g1_p <=? x then None                      (* not a field element *)
            else
              let rhs := g1_rhs x in
              let y := fpow rhs g1_sqrt_exp in
              if negb (fmul y y =? rhs) then None        (* x^3 + 4 is not a square: not on the curve *)
              else
                let ny := fneg y in
                (* get_ys_from_x_unchecked sorts the two roots; get_point_from_x_unchecked picks by the flag *)
                let smaller := if y <? ny then y else ny in
                let larger := if y <? ny then ny else y in
                let y' := if greatest then larger else smaller in
                if g1_in_subgroup x y' then Some (G1Aff x y') else None
        in
        match cand with
        | Some P => if list_eq_dec N.eq_dec (g1_encode P) bs then Some P else None   (* repair b80435169 *)
        | None => None
        end
  end.

(** the points the decoder can return *)
Definition g1_valid (P : g1pt) : Prop :=
  match P with
  | G1Inf => True
  | G1Aff x y => x < g1_p /\ y < g1_p /\ fmul y y = g1_rhs x /\ g1_in_subgroup x y = true
  end.

(** the generator of G1 (for non-vacuity) *)
Definition g1_gen : g1pt :=
  G1Aff 3685416753713387016781088315183077757961620795782546409894578378688607592378376318836054947676345821548104185464507
        1339506544944476473020471379941921221584933875938349620426543736416511423956333506472724655353366534992391756441569.
