(** Pairing groups on top of [Alg.v] (DESIGN 4.5): three modules over one scalar field and a
    bilinear map [e : M1 -> M2 -> MT] (the target group written additively, so a "product of
    pairings" is a sum).  Only bilinearity is assumed (non-degeneracy is not needed for completeness /
    special soundness of the sigma protocols).  Executable instance "in the exponent":
    [e a b = a*b] on Z mod r. *)
From Coq Require Import ZArith List Field Lia.
From CB Require Import Crypto.Alg.
Import ListNotations.

Record PairOps (K : FieldOps) : Type := mkPairOps {
  PM1 : ModOps K; PM2 : ModOps K; PMT : ModOps K;
  pe : PM1 -> PM2 -> PMT }.
Arguments PM1 {K} _. Arguments PM2 {K} _. Arguments PMT {K} _. Arguments pe {K} _ _ _.

Class PairLaws {K : FieldOps} (P : PairOps K) : Prop := mkPairLaws {
  PL1 : ModLaws (PM1 P); PL2 : ModLaws (PM2 P); PLT : ModLaws (PMT P);
  pe_add_l : forall a a' b, pe P (Gadd (PM1 P) a a') b = Gadd (PMT P) (pe P a b) (pe P a' b);
  pe_add_r : forall a b b', pe P a (Gadd (PM2 P) b b') = Gadd (PMT P) (pe P a b) (pe P a b');
  pe_smul_l : forall x a b, pe P (smul (PM1 P) x a) b = smul (PMT P) x (pe P a b);
  pe_smul_r : forall x a b, pe P a (smul (PM2 P) x b) = smul (PMT P) x (pe P a b) }.
#[global] Existing Instance PL1.
#[global] Existing Instance PL2.
#[global] Existing Instance PLT.

Section PairLemmas.
  Context {K : FieldOps} {KL : FieldLaws K} {P : PairOps K} {PL : PairLaws P}.
  Add Field Kf_pair : (@F_th K KL).
  Lemma pe_0_r a : pe P a (G0 (PM2 P)) = G0 (PMT P).
  Proof.
    apply (Gadd_cancel_l (pe P a (G0 (PM2 P)))). rewrite <- pe_add_r, (Gadd_0_l (G0 (PM2 P))), Gadd_0_r. reflexivity.
  Qed.
  Lemma pe_opp_r a b : pe P a (Gopp (PM2 P) b) = Gopp (PMT P) (pe P a b).
  Proof. rewrite (Gopp_smul_m1 b), pe_smul_r. symmetry. apply Gopp_smul_m1. Qed.
  (** the pairing of a multi-scalar multiplication *)
  Lemma pe_msm_r a : forall (ws : list K) (bs : list (PM2 P)),
    pe P a (msm ws bs) = msm ws (map (pe P a) bs).
  Proof.
    induction ws as [|w ws IH]; intros [|b bs]; cbn; try apply pe_0_r.
    now rewrite pe_add_r, pe_smul_r, IH.
  Qed.
End PairLemmas.

Definition ZrPair : PairOps ZrF := mkPairOps ZrF ZrG ZrG ZrG (fun a b => Fmul ZrF a b).
