(** C12 (round 4) - completeness and conservation of the transfer model whose Fiat-Shamir challenges are
    ALL derived inside the model ([EncTransferFS.v]), for every hash function.

    [bp_prove_fs] is shown to be [RangeProof.bp_prove] run on exactly the challenges the verifier derives
    from the finished proof ([fs_chal]), so that C11's completeness applies; the prover aborts ([None]) only
    when a derived challenge that must be inverted is zero, i.e. only when an explicit byte string with
    [sfb (H b) = 0] exists ([zero_hash]). *)
From Coq Require Import ZArith NArith List Lia Bool InitialRing Field Ring Setoid.
From CB Require Import Crypto.Alg Crypto.Transcript Crypto.TranscriptProofs Crypto.SigmaGeneric Crypto.SigmaCodec
  Crypto.Sigma_dlog Crypto.Sigma_com_eq Crypto.Sigma_enc_trans Crypto.Chunks Crypto.ChunksProofs
  Crypto.BpAlg Crypto.Ipa Crypto.RangeProof Crypto.BpTheorems Crypto.BpTranscript
  Crypto.EncTransfer Crypto.EncTransferProofs Crypto.EncTransferFS.
Import ListNotations.

Section FSProofs.
  Context {K : FieldOps} {KL : FieldLaws K} {M : ModOps K} {ML : ModLaws M} (Cd : CodecOps M).
  Variable H : bytes -> bytes.
  Variable sfb : bytes -> K.
  Variables (g h : M) (Gs Hs : list M).
  Add Field Kf_fs : (@F_th K KL).
  Local Open Scope G_scope.
  Local Notation BO := (@bpOps K M).

  (** some byte string is hashed to the zero scalar *)
  Definition zero_hash : Prop := exists b : bytes, sfb (H b) = F0 K.

  Lemma Feqb_false_neq (a b : K) : Feqb K a b = false -> a <> b.
  Proof. intros E Hab. apply Feqb_spec in Hab. congruence. Qed.

  Lemma ipa_prove_cons u ui us Gv Hv Q (a b : list K) :
    ipa_prove BO ((u, ui) :: us) Gv Hv Q a b
    = match ipa_prove BO us (fold_G BO u ui Gv) (fold_H BO u ui Hv) Q (fold_a BO u ui a) (fold_b BO u ui b) with
      | (lr, fa, fb) => ((ipa_L BO Gv Hv Q a b, ipa_R BO Gv Hv Q a b) :: lr, fa, fb)
      end.
  Proof. reflexivity. Qed.
  Lemma with_inv_cons (u : K) us : with_inv (u :: us) = (u, Finv K u) :: with_inv us.
  Proof. reflexivity. Qed.

  Lemma ipa_fs_spec : forall n st Gv Hv Q a b lr fa fb us st',
    ipa_prove_fs Cd H sfb n st Gv Hv Q a b = Some (lr, fa, fb, us, st') ->
    ipa_prove BO (with_inv us) Gv Hv Q a b = (lr, fa, fb)
    /\ us = ipa_chals H sfb st (map (ser_lr Cd) lr)
    /\ st' = ipa_end st (map (ser_lr Cd) lr)
    /\ List.length us = n /\ Forall (fun u => u <> F0 K) us.
  Proof.
    induction n as [|n IH]; intros st Gv Hv Q a b lr fa fb us st' E; cbn [ipa_prove_fs] in E.
    - injection E as <- <- <- <- <-. cbn. repeat split; constructor.
    - cbv zeta in E.
      match type of E with context [Feqb K ?u ?z] => destruct (Feqb K u z) eqn:Ez end; [discriminate|].
      match type of E with context [ipa_prove_fs _ _ _ ?n ?s ?a1 ?a2 ?a3 ?a4 ?a5] =>
        destruct (ipa_prove_fs Cd H sfb n s a1 a2 a3 a4 a5) as [[[[[lr1 fa1] fb1] us1] st1]|] eqn:Er end; [|discriminate].
      injection E as <- <- <- <- <-.
      apply IH in Er. destruct Er as (E1 & E2 & E3 & E4 & E5).
      split; [|split; [|split; [|split]]].
      + rewrite with_inv_cons, ipa_prove_cons.
        match goal with |- context [ipa_prove ?a ?b ?c ?d ?e ?f ?g] =>
          replace (ipa_prove a b c d e f g) with (lr1, fa1, fb1) by (symmetry; exact E1) end.
        reflexivity.
      + cbn [map ipa_chals]. f_equal. exact E2.
      + cbn [map ipa_end]. exact E3.
      + cbn [List.length]. f_equal. exact E4.
      + constructor; [apply Feqb_false_neq; exact Ez|exact E5].
  Qed.

  Lemma ipa_fs_none : forall n st Gv Hv Q a b,
    ipa_prove_fs Cd H sfb n st Gv Hv Q a b = None -> zero_hash.
  Proof.
    induction n as [|n IH]; intros st Gv Hv Q a b E; cbn [ipa_prove_fs] in E; [discriminate|].
    cbv zeta in E.
    match type of E with context [Feqb K ?u ?z] => destruct (Feqb K u z) eqn:Ez end.
    - apply Feqb_spec in Ez. eexists. exact Ez.
    - match type of E with context [ipa_prove_fs _ _ _ ?n ?s ?a1 ?a2 ?a3 ?a4 ?a5] =>
        destruct (ipa_prove_fs Cd H sfb n s a1 a2 a3 a4 a5) as [[[[[lr1 fa1] fb1] us1] st1]|] eqn:Er end; [discriminate|].
      eapply IH. exact Er.
  Qed.

  Lemma bp_prove_fs_spec st pre Gv Hv B Bt aL aR sL sR at_ st_ t1t t2t clf crf ef cvrf p c st' :
    bp_prove_fs Cd H sfb st pre Gv Hv B Bt aL aR sL sR at_ st_ t1t t2t clf crf ef cvrf = Some (p, c, st') ->
    p = bp_prove BO Gv Hv B Bt aL aR sL sR at_ st_ t1t t2t (clf (bc_z c)) (crf (bc_z c)) (ef (bc_z c)) (cvrf (bc_z c))
          (bc_y c) (Finv K (bc_y c)) (bc_z c) (bc_x c) (bc_w c) (with_inv (bc_us c))
    /\ c = fs_chal Cd H sfb st pre p /\ st' = fs_after Cd st pre p
    /\ bc_y c <> F0 K /\ List.length (bc_us c) = 6%nat /\ Forall (fun u => u <> F0 K) (bc_us c).
  Proof.
    unfold bp_prove_fs. cbv zeta. intros E.
    match type of E with context [Feqb K ?u ?z] => destruct (Feqb K u z) eqn:Ey end; [discriminate|].
    match type of E with context [ipa_prove_fs _ _ _ ?n ?s ?a1 ?a2 ?a3 ?a4 ?a5] =>
      destruct (ipa_prove_fs Cd H sfb n s a1 a2 a3 a4 a5) as [[[[[lr1 fa1] fb1] us1] st1]|] eqn:Er end; [|discriminate].
    injection E as <- <- <-. apply ipa_fs_spec in Er. destruct Er as (E1 & E2 & E3 & E4 & E5).
    cbn [bc_y bc_z bc_x bc_w bc_us].
    split; [|split; [|split; [|split; [|split]]]].
    - unfold bp_prove. cbv zeta.
      match goal with |- context [ipa_prove ?a ?b ?c ?d ?e ?f ?g] =>
        replace (ipa_prove a b c d e f g) with (lr1, fa1, fb1) by (symmetry; exact E1) end.
      reflexivity.
    - unfold fs_chal. cbv zeta. f_equal; try reflexivity. exact E2.
    - exact E3.
    - apply Feqb_false_neq. exact Ey.
    - exact E4.
    - exact E5.
  Qed.

  Lemma bp_prove_fs_none st pre Gv Hv B Bt aL aR sL sR at_ st_ t1t t2t clf crf ef cvrf :
    bp_prove_fs Cd H sfb st pre Gv Hv B Bt aL aR sL sR at_ st_ t1t t2t clf crf ef cvrf = None -> zero_hash.
  Proof.
    unfold bp_prove_fs. cbv zeta. intros E.
    match type of E with context [Feqb K ?u ?z] => destruct (Feqb K u z) eqn:Ey end.
    - apply Feqb_spec in Ey. eexists. exact Ey.
    - match type of E with context [ipa_prove_fs _ _ _ ?n ?s ?a1 ?a2 ?a3 ?a4 ?a5] =>
        destruct (ipa_prove_fs Cd H sfb n s a1 a2 a3 a4 a5) as [[[[[lr1 fa1] fb1] us1] st1]|] eqn:Er end; [discriminate|].
      eapply ipa_fs_none. exact Er.
  Qed.

  (** the in-place prover is the prover of [EncTransfer.v] on the challenges the verifier derives *)
  Lemma bulletprove_fs_spec st pk chunks ks r p c st' :
    bulletprove_fs Cd H sfb g h Gs Hs st pk chunks ks r = Some (p, c, st') ->
    p = bulletprove h Gs Hs pk chunks ks r c
    /\ c = fs_chal Cd H sfb st (bp_pre Cd (commitments g h pk chunks ks)) p
    /\ st' = fs_after Cd st (bp_pre Cd (commitments g h pk chunks ks)) p
    /\ bp_chal_ok c.
  Proof.
    unfold bulletprove_fs. cbv zeta. intros E. apply bp_prove_fs_spec in E.
    destruct E as (E1 & E2 & E3 & E4 & E5 & E6).
    split; [exact E1|]. split; [exact E2|]. split; [exact E3|]. split; [exact E4|]. split; [exact E5|exact E6].
  Qed.
  Lemma bulletprove_fs_none st pk chunks ks r :
    bulletprove_fs Cd H sfb g h Gs Hs st pk chunks ks r = None -> zero_hash.
  Proof. unfold bulletprove_fs. cbv zeta. apply bp_prove_fs_none. Qed.

  (** an honestly generated range proof is accepted under the challenges derived from its own transcript *)
  Lemma bullet_complete_fs st pk c0 c1 k0 k1 r p c st' :
    (c0 < 2 ^ 32)%N -> (c1 < 2 ^ 32)%N -> (64 <= List.length Gs)%nat -> (64 <= List.length Hs)%nat -> bp_rand_ok r ->
    bulletprove_fs Cd H sfb g h Gs Hs st pk [c0; c1] [k0; k1] r = Some (p, c, st') ->
    bulletverify_fs Cd H sfb h Gs Hs st pk (commitments g h pk [c0; c1] [k0; k1]) p = VOk
    /\ st' = fs_after Cd st (bp_pre Cd (commitments g h pk [c0; c1] [k0; k1])) p.
  Proof.
    intros B0 B1 HG HH Hr E. apply bulletprove_fs_spec in E. destruct E as (Ep & Ec & Es & Hc).
    split; [|exact Es]. unfold bulletverify_fs. rewrite <- Ec. rewrite Ep.
    apply (bullet_complete g h Gs Hs); assumption.
  Qed.

  (** decryption of a joined two-chunk encryption *)
  Lemma decrypt_join_chunks sk r0 r1 k2 k3 :
    decrypt sk (join (encrypt_exp g h (sk *: g) (kofN r0) k2, encrypt_exp g h (sk *: g) (kofN r1) k3))
    = kofN (r0 + 2 ^ 32 * r1) *: h.
  Proof.
    rewrite kofN_add, kofN_mul. unfold decrypt, join, encrypt_exp. cbn [fst snd].
    set (T := @kofN K (2 ^ 32)). set (x0 := @kofN K r0). set (x1 := @kofN K r1). mod_norm.
  Qed.

  (** ** transfer: completeness + conservation, challenges derived from the transcript, every [H] *)
  Theorem transfer_complete_fs_ gc pk_r sk agg_enc s idx a rnd :
    (s < W64)%N -> (a <= s)%N ->
    decrypt sk (join agg_enc) = kofN s *: h ->
    List.length (tr_A rnd) = 2%nat -> List.length (tr_S rnd) = 2%nat -> sigma_rand_ok 2 2 (tr_sigma rnd) ->
    bp_rand_ok (tr_bp_a rnd) -> bp_rand_ok (tr_bp_s rnd) ->
    (64 <= List.length Gs)%nat -> (64 <= List.length Hs)%nat ->
    match make_transfer_data_fs Cd H sfb g h Gs Hs gc pk_r sk agg_enc s idx a rnd with
    | None => zero_hash
    | Some td =>
        verify_transfer_data_fs Cd H sfb g h Gs Hs gc pk_r (sk *: g) agg_enc td = true
        /\ td_index td = idx
        /\ (exists a0 a1 r0 r1, (a0 + 2 ^ 32 * a1 = a)%N /\ (r0 + 2 ^ 32 * r1 = s - a)%N
             /\ enc_list (td_transfer td) = encrypt_chunks g h pk_r [a0; a1] (tr_A rnd)
             /\ enc_list (td_remaining td) = encrypt_chunks g h (sk *: g) [r0; r1] (tr_S rnd))
        /\ decrypt sk (join (td_remaining td)) + kofN a *: h = decrypt sk (join agg_enc)
        /\ (exists cm, fst (td_accounting td)
              = H (frame (enc_trans_proto Cd) Legacy (transfer_ctx Cd g gc pk_r (sk *: g))
                     (gen_enc_trans_proof_info g h (sk *: g) pk_r (join agg_enc)
                        (enc_list (td_transfer td)) (enc_list (td_remaining td))) cm))
    end.
  Proof.
    intros Hs64 Ha Hbal LA LS Hsig HrA HrS HG HH.
    destruct (chunks32_sum a ltac:(lia)) as (a0 & a1 & Ea & Ba0 & Ba1 & Sa).
    destruct (chunks32_sum (s - a) ltac:(lia)) as (r0 & r1 & Er & Br0 & Br1 & Sr).
    destruct rnd as [kA kS sg bpa bps]. cbn [tr_A tr_S tr_sigma tr_bp_a tr_bp_s] in *.
    destruct kA as [|k0 [|k1 [|? ?]]]; try discriminate LA.
    destruct kS as [|k2 [|k3 [|? ?]]]; try discriminate LS.
    destruct sg as [[rc r1s] r2s]. cbn in Hsig.
    pose proof (transfer_rel_holds g h sk pk_r (join agg_enc) s a a0 a1 r0 r1 k0 k1 k2 k3 Ha Sa Sr Hbal) as Hrel.
    assert (Hrok : enc_trans_rok (gen_enc_trans_proof_info g h (sk *: g) pk_r (join agg_enc)
                     (encrypt_chunks g h pk_r [a0; a1] [k0; k1]) (encrypt_chunks g h (sk *: g) [r0; r1] [k2; k3]))
                     (rc, r1s, r2s)).
    { unfold enc_trans_rok. cbn. exact Hsig. }
    destruct (prove_verify_complete_ H sfb (enc_trans_proto Cd) enc_trans_rel enc_trans_rok (enc_trans_complete_ Cd)
                Legacy (transfer_ctx Cd g gc pk_r (sk *: g)) _ _ _ Hrel Hrok) as (pi & st & Hp & Hv).
    unfold make_transfer_data_fs, gen_enc_trans_fs. cbn [tr_A tr_S tr_sigma tr_bp_a tr_bp_s].
    destruct (N.ltb_spec s a) as [Hlt|_]; [lia|]. rewrite Ea, Er, Hp.
    destruct (bulletprove_fs Cd H sfb g h Gs Hs st pk_r [a0; a1] [k0; k1] bpa) as [[[pa ca] st2]|] eqn:EA;
      [|eapply bulletprove_fs_none; exact EA].
    destruct (bulletprove_fs Cd H sfb g h Gs Hs st2 (sk *: g) [r0; r1] [k2; k3] bps) as [[[ps cs] st3]|] eqn:ES;
      [|eapply bulletprove_fs_none; exact ES].
    destruct (bullet_complete_fs st pk_r a0 a1 k0 k1 bpa pa ca st2 Ba0 Ba1 HG HH HrA EA) as (BA & Est2).
    destruct (bullet_complete_fs st2 (sk *: g) r0 r1 k2 k3 bps ps cs st3 Br0 Br1 HG HH HrS ES) as (BS & _).
    unfold commitments in BA, BS, Est2.
    cbn [encrypt_chunks map2 map snd] in *.
    split.
    { unfold verify_transfer_data_fs, verify_enc_trans_fs, enc_list.
      cbn [td_remaining td_transfer td_accounting td_bp_transfer td_bp_remaining enc_list fst snd].
      rewrite Hv. cbn [fst snd negb map]. rewrite BA. rewrite <- Est2. rewrite BS. reflexivity. }
    split; [reflexivity|].
    split.
    { exists a0, a1, r0, r1. unfold enc_list. cbn [td_transfer td_remaining fst snd]. repeat split; assumption || reflexivity. }
    split.
    { cbn [td_remaining]. rewrite decrypt_join_chunks, Hbal, Sr. rewrite <- smul_add_l, <- kofN_add.
      f_equal. f_equal. lia. }
    cbn [td_accounting td_transfer td_remaining enc_list fst snd].
    destruct pi as [ch z]. assert (Hv1 : fst (verify H sfb (enc_trans_proto Cd) Legacy (transfer_ctx Cd g gc pk_r (sk *: g))
        (gen_enc_trans_proof_info g h (sk *: g) pk_r (join agg_enc)
           [encrypt_exp g h pk_r (kofN a0) k0; encrypt_exp g h pk_r (kofN a1) k1]
           [encrypt_exp g h (sk *: g) (kofN r0) k2; encrypt_exp g h (sk *: g) (kofN r1) k3]) (ch, z)) = true)
      by (rewrite Hv; reflexivity).
    apply verify_binds_transcript_ in Hv1. destruct Hv1 as (cm & _ & Ech). exists cm. exact Ech.
  Qed.

  (** readable corollary: if no derived challenge is zero the transfer is produced and verifies *)
  Corollary transfer_complete_fs_nonzero_ gc pk_r sk agg_enc s idx a rnd :
    (forall b, sfb (H b) <> F0 K) ->
    (s < W64)%N -> (a <= s)%N ->
    decrypt sk (join agg_enc) = kofN s *: h ->
    List.length (tr_A rnd) = 2%nat -> List.length (tr_S rnd) = 2%nat -> sigma_rand_ok 2 2 (tr_sigma rnd) ->
    bp_rand_ok (tr_bp_a rnd) -> bp_rand_ok (tr_bp_s rnd) ->
    (64 <= List.length Gs)%nat -> (64 <= List.length Hs)%nat ->
    exists td, make_transfer_data_fs Cd H sfb g h Gs Hs gc pk_r sk agg_enc s idx a rnd = Some td
      /\ verify_transfer_data_fs Cd H sfb g h Gs Hs gc pk_r (sk *: g) agg_enc td = true
      /\ decrypt sk (join (td_remaining td)) + kofN a *: h = decrypt sk (join agg_enc).
  Proof.
    intros Hnz Hs64 Ha Hbal LA LS Hsig HrA HrS HG HH.
    pose proof (transfer_complete_fs_ gc pk_r sk agg_enc s idx a rnd Hs64 Ha Hbal LA LS Hsig HrA HrS HG HH) as T.
    destruct (make_transfer_data_fs Cd H sfb g h Gs Hs gc pk_r sk agg_enc s idx a rnd) as [td|].
    - exists td. destruct T as (T1 & _ & _ & T4 & _). repeat split; assumption.
    - destruct T as (b & Eb). exfalso. exact (Hnz b Eb).
  Qed.

  (** ** secret-to-public transfer *)
  Theorem sec_to_pub_complete_fs_ gc sk agg_enc s idx a rnd :
    (s < W64)%N -> (a <= s)%N ->
    decrypt sk (join agg_enc) = kofN s *: h ->
    List.length (sr_S rnd) = 2%nat -> sigma_rand_ok 1 2 (sr_sigma rnd) -> bp_rand_ok (sr_bp_s rnd) ->
    (64 <= List.length Gs)%nat -> (64 <= List.length Hs)%nat ->
    match make_sec_to_pub_transfer_data_fs Cd H sfb g h Gs Hs gc sk agg_enc s idx a rnd with
    | None => zero_hash
    | Some sd =>
        verify_sec_to_pub_transfer_data_fs Cd H sfb g h Gs Hs gc (sk *: g) agg_enc sd = true
        /\ sd_index sd = idx /\ sd_transfer_amount sd = a
        /\ (exists r0 r1, (r0 + 2 ^ 32 * r1 = s - a)%N
             /\ enc_list (sd_remaining sd) = encrypt_chunks g h (sk *: g) [r0; r1] (sr_S rnd))
        /\ decrypt sk (join (sd_remaining sd)) + kofN (sd_transfer_amount sd) *: h = decrypt sk (join agg_enc)
    end.
  Proof.
    intros Hs64 Ha Hbal LS Hsig HrS HG HH.
    destruct (chunks32_sum (s - a) ltac:(lia)) as (r0 & r1 & Er & Br0 & Br1 & Sr).
    destruct rnd as [kS sg bps]. cbn [sr_S sr_sigma sr_bp_s] in *.
    destruct kS as [|k2 [|k3 [|? ?]]]; try discriminate LS.
    destruct sg as [[rc r1s] r2s]. cbn in Hsig.
    pose proof (sec_to_pub_rel_holds g h sk (join agg_enc) s a r0 r1 k2 k3 Ha Sr Hbal) as Hrel.
    assert (Hrok : enc_trans_rok (gen_enc_trans_proof_info g h (sk *: g) (sk *: g) (join agg_enc)
                     [dummy_encryption h a] (encrypt_chunks g h (sk *: g) [r0; r1] [k2; k3]))
                     (rc, r1s, r2s)).
    { unfold enc_trans_rok. cbn. exact Hsig. }
    destruct (prove_verify_complete_ H sfb (enc_trans_proto Cd) enc_trans_rel enc_trans_rok (enc_trans_complete_ Cd)
                Legacy (sec_to_pub_ctx Cd g gc (sk *: g)) _ _ _ Hrel Hrok) as (pi & st & Hp & Hv).
    unfold make_sec_to_pub_transfer_data_fs, gen_sec_to_pub_trans_fs. cbn [sr_S sr_sigma sr_bp_s].
    destruct (N.ltb_spec s a) as [Hlt|_]; [lia|]. rewrite Er, Hp.
    destruct (bulletprove_fs Cd H sfb g h Gs Hs st (sk *: g) [r0; r1] [k2; k3] bps) as [[[ps cs] st3]|] eqn:ES;
      [|eapply bulletprove_fs_none; exact ES].
    destruct (bullet_complete_fs st (sk *: g) r0 r1 k2 k3 bps ps cs st3 Br0 Br1 HG HH HrS ES) as (BS & _).
    unfold commitments in BS.
    cbn [encrypt_chunks map2 map snd] in *.
    split.
    { unfold verify_sec_to_pub_transfer_data_fs, verify_sec_to_pub_trans_fs, enc_list.
      cbn [sd_remaining sd_transfer_amount sd_accounting sd_bp_remaining enc_list fst snd].
      rewrite Hv. cbn [fst snd negb map]. rewrite BS. reflexivity. }
    split; [reflexivity|]. split; [reflexivity|].
    split.
    { exists r0, r1. unfold enc_list. cbn [sd_remaining fst snd]. split; assumption || reflexivity. }
    cbn [sd_remaining sd_transfer_amount]. rewrite decrypt_join_chunks, Hbal, Sr. rewrite <- smul_add_l, <- kofN_add.
    f_equal. f_equal. lia.
  Qed.

  (** exceeding the balance: nothing is produced *)
  Theorem transfer_fs_none_if_exceeds_ gc pk_r sk agg_enc s idx a rnd rnd' : (s < a)%N ->
    make_transfer_data_fs Cd H sfb g h Gs Hs gc pk_r sk agg_enc s idx a rnd = None
    /\ make_sec_to_pub_transfer_data_fs Cd H sfb g h Gs Hs gc sk agg_enc s idx a rnd' = None.
  Proof.
    intros Hlt. unfold make_transfer_data_fs, gen_enc_trans_fs, make_sec_to_pub_transfer_data_fs, gen_sec_to_pub_trans_fs.
    destruct (N.ltb_spec s a); [split; reflexivity|lia].
  Qed.
End FSProofs.
