(** Monomorphic entry points of the C19 models on the executable instance [ZrP]
    (all group elements are exponents in [Z]); used by the correspondence check only. *)
From Coq Require Import ZArith List.
From CB Require Import Crypto.PairingAlg Crypto.Bls Crypto.Ps.
Import ListNotations.
Local Open Scope Z_scope.

Definition x_tab (l : list Z) (m : Z) : Z := nth (Z.to_nat m) l 0.
Definition x_key (l : list Z) (i : nat) : Z := nth i l 0.
Definition x_sign (H1 : Z -> Z) (sk m : Z) : Z := sign ZrP Z H1 sk m.
Definition x_agg (l : list Z) : Z := aggregate_list ZrP l.
Definition x_verify (H1 : Z -> Z) (pk m sg : Z) : bool := verify ZrP Z H1 pk m sg.
Definition x_plain (H1 : Z -> Z) (sg : Z) (pairs : list (Z * Z)) : bool :=
  verify_aggregate_sig ZrP Z Z Z.eqb (fun m => m) H1 pairs sg.
Definition x_hybrid (H1 : Z -> Z) (sg : Z) (groups : list (Z * list Z)) : bool :=
  verify_aggregate_sig_hybrid ZrP Z H1 groups sg.
Definition x_trusted (H1 : Z -> Z) (sg : Z) (mk : Z * list Z) : bool :=
  verify_aggregate_sig_trusted_keys ZrP Z H1 (fst mk) (snd mk) sg.

Definition x_ps (gam gamt : Z) (ys : list Z) (x : Z) (ms : list Z) (rk mask ru br bt : Z) (vs : list (list Z)) :=
  let sk := mk_ps_sk ZrP gam gamt ys x in
  let pk := ps_pk_of ZrP sk in
  let known := ps_sign_known ZrP sk ms rk in
  let cmm := ps_commit ZrP pk mask ms in
  let iss := ps_sign_unknown ZrP sk cmm ru in
  let ret := ps_retrieve ZrP iss mask in
  let bld := ps_blind ZrP ret br bt in
  (known, cmm, iss, ret, bld,
   match known with Some s => map (ps_verify ZrP pk s) vs | None => [] end,
   map (ps_verify ZrP pk ret) vs, map (ps_verify ZrP pk iss) vs,
   map (fun v => ps_verify_blinded ZrP pk bld v bt) vs).
