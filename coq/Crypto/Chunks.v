(** Model of [ChunkSize::{mask,u64_to_chunks,chunks_to_u64}] in
    rust-src/concordium_base/src/elgamal/mod.rs.  [u64] arithmetic is explicit:
    values are [N] below 2^64; [+=] and [<<] are modelled in the *checked* build
    ([None] = arithmetic-overflow panic, which is what the harness build with
    overflow-checks observes) and in the *wrapping* build (release). *)
From Coq Require Import NArith List Lia.
Import ListNotations.
Local Open Scope N_scope.

Definition W64 : N := 2 ^ 64.

(** [ChunkSize::mask]: the [s] low bits set; for s = 64 this is [!0]. *)
Definition mask (s : N) : N := 2 ^ s - 1.

(** [u64_to_chunks]: [n] rounds of [out.push(tmp & mask); tmp >>= size].
    [shr_ok] says whether [>>= size] is defined in a checked build (size < 64). *)
Fixpoint to_chunks_gen (n : nat) (m sh : N) (tmp : N) : list N :=
  match n with
  | O => []
  | S n' => N.land tmp m :: to_chunks_gen n' m sh (N.shiftr tmp sh)
  end.
Definition to_chunks (n : nat) (s : N) (tmp : N) : list N := to_chunks_gen n (mask s) s tmp.

Definition num_chunks (s : N) : nat := N.to_nat (64 / s).

(** checked build: [tmp >>= 64] on a u64 is a shift overflow. *)
Definition u64_to_chunks_checked (s : N) (x : N) : option (list N) :=
  if s <? 64 then Some (to_chunks (num_chunks s) s x) else None.
(** wrapping build: the shift amount is taken mod 64. *)
Definition u64_to_chunks_wrapping (s : N) (x : N) : list N :=
  to_chunks_gen (num_chunks s) (mask s) (s mod 64) x.

(** [chunks_to_u64], checked: [x << factor] panics iff factor >= 64 (bits shifted
    out are silently dropped), [out += _] panics on carry out of 64 bits,
    [factor += size] is u8 arithmetic. *)
Fixpoint from_chunks_checked (s : N) (factor out : N) (xs : list N) : option N :=
  match xs with
  | [] => Some out
  | x :: xs' =>
      if 64 <=? factor then None else
      let t := (x * 2 ^ factor) mod W64 in
      if W64 <=? out + t then None else
      if 256 <=? factor + s then None else
      from_chunks_checked s (factor + s) (out + t) xs'
  end.
Definition chunks_to_u64_checked (s : N) (xs : list N) : option N :=
  from_chunks_checked s 0 0 xs.

(** wrapping build. u8 [factor] wraps mod 256, shift amount mod 64, sum mod 2^64 *)
Fixpoint from_chunks_wrapping (s : N) (factor out : N) (xs : list N) : N :=
  match xs with
  | [] => out
  | x :: xs' =>
      let t := (x * 2 ^ (factor mod 64)) mod W64 in
      from_chunks_wrapping s ((factor + s) mod 256) ((out + t) mod W64) xs'
  end.
Definition chunks_to_u64_wrapping (s : N) (xs : list N) : N :=
  from_chunks_wrapping s 0 0 xs.

(** Specification-level sum. *)
Fixpoint chunk_sum (s : N) (factor : N) (xs : list N) : N :=
  match xs with
  | [] => 0
  | x :: xs' => x * 2 ^ factor + chunk_sum s (factor + s) xs'
  end.

(** The seven chunk sizes of the enum. *)
Definition chunk_sizes : list N := [1; 2; 4; 8; 16; 32; 64].
