(** C19 - the three aggregate verifiers AS CODED with respect to (a) the sort-and-scan duplicate
    check (DupSort.v) and (b) rayon's fold/reduce over an arbitrary split tree and the coded
    "sequential below 150 keys, parallel from 150 keys" choice (ParReduce.v), proved equal to the
    sequential models of Bls.v for EVERY threshold, EVERY splitter / chunk size and EVERY input. *)
From Coq Require Import List Bool Arith.
From CB Require Import Crypto.PairingAlg Crypto.Bls Crypto.ParReduce Crypto.DupSort.
Import ListNotations.

Section BlsPar.
  Variable A : pops.
  Hypothesis L : plaws A.
  Variable Msg : Type.
  Variable Dg : Type.
  Variable dg_eqb : Dg -> Dg -> bool.
  Variable dg_leb : Dg -> Dg -> bool.
  Variable hm : Msg -> Dg.
  Variable H1 : Msg -> P1 A.

  Notation G2 := (P2 A).
  Notation GT := (PT A).

  (** key sum: [if pks.len() < thr { iter().fold } else { par_iter().fold().reduce() }] *)
  Definition sum_pks_coded (thr : nat) (split : list G2 -> ptree G2) (pks : list G2) : G2 :=
    thresh_eval G2 G2 (madd G2) (m0 G2) (fun x => x) thr split pks.

  Definition hybrid_g (thr : nat) (split : list G2 -> ptree G2) (g : Msg * list G2) : GT :=
    pair A (H1 (fst g)) (sum_pks_coded thr split (snd g)).

  (** [verify_aggregate_sig_hybrid]: outer rayon fold/reduce over the groups (tree [t]), inner key sums as above *)
  Definition verify_hybrid_coded (thr : nat) (split : list G2 -> ptree G2) (t : ptree (Msg * list G2)) (sig : P1 A) : bool :=
    meqb GT (pair A sig (gen2 A)) (peval (Msg * list G2) GT (madd GT) (m0 GT) (hybrid_g thr split) t).

  (** [verify_aggregate_sig_trusted_keys] *)
  Definition verify_trusted_coded (thr : nat) (split : list G2 -> ptree G2) (m : Msg) (pks : list G2) (sig : P1 A) : bool :=
    match pks with
    | [] => false
    | _ => check_pairing_eq A sig (gen2 A) (H1 m) (sum_pks_coded thr split pks)
    end.

  (** [verify_aggregate_sig]: sort-and-scan duplicate check with the sort [srt], emptiness check, rayon product *)
  Definition verify_plain_coded (srt : list Dg -> list Dg) (t : ptree (Msg * G2)) (sig : P1 A) : bool :=
    let pairs := pflatten (Msg * G2) t in
    if has_duplicates_with Dg dg_eqb srt (map (fun p => hm (fst p)) pairs) then false
    else match pairs with
         | [] => false
         | _ => meqb GT (pair A sig (gen2 A))
                  (peval (Msg * G2) GT (madd GT) (m0 GT) (fun p => pair A (H1 (fst p)) (snd p)) t)
         end.

  (** *** proofs *)
  Lemma g2_assoc (a b c : G2) : madd G2 a (madd G2 b c) = madd G2 (madd G2 a b) c.
  Proof. apply (madd_assoc G2 (p2_laws A L)). Qed.
  Lemma g2_0_l (a : G2) : madd G2 (m0 G2) a = a.
  Proof. apply (madd_0_l G2 (p2_laws A L)). Qed.
  Lemma g2_0_r (a : G2) : madd G2 a (m0 G2) = a.
  Proof. rewrite (madd_comm G2 (p2_laws A L)). apply g2_0_l. Qed.
  Lemma gt_assoc (a b c : GT) : madd GT a (madd GT b c) = madd GT (madd GT a b) c.
  Proof. apply (madd_assoc GT (pt_laws A L)). Qed.
  Lemma gt_0_l (a : GT) : madd GT (m0 GT) a = a.
  Proof. apply (madd_0_l GT (pt_laws A L)). Qed.
  Lemma gt_0_r (a : GT) : madd GT a (m0 GT) = a.
  Proof. rewrite (madd_comm GT (pt_laws A L)). apply gt_0_l. Qed.

  Lemma fold_left_ext_l {X Y} (f g : X -> Y -> X) l : (forall a x, f a x = g a x) -> forall a, fold_left f l a = fold_left g l a.
  Proof. intros E. induction l as [|x l IH]; intros a; cbn [fold_left]; [reflexivity|]. now rewrite E, IH. Qed.

  Lemma sum_pks_is_seqfold pks : sum_pks A pks = seqfold G2 G2 (madd G2) (m0 G2) (fun x => x) pks.
  Proof. unfold sum_pks, seqfold. apply fold_left_ext_l. reflexivity. Qed.

  (** the threshold (150 in the code) and the way rayon splits the key list cannot matter *)
  Lemma sum_pks_coded_seq thr split pks :
    (forall l, pflatten G2 (split l) = l) -> sum_pks_coded thr split pks = sum_pks A pks.
  Proof.
    intros Hs. unfold sum_pks_coded. rewrite sum_pks_is_seqfold.
    apply (thresh_eval_seq G2 G2 (madd G2) (m0 G2) (fun x => x) g2_assoc g2_0_l g2_0_r thr split pks Hs).
  Qed.

  (** fixed chunk size, every size and length *)
  Lemma sum_pks_chunked_seq n pks :
    0 < n -> chunked_eval G2 G2 (madd G2) (m0 G2) (fun x => x) n pks = sum_pks A pks.
  Proof.
    intros Hn. rewrite sum_pks_is_seqfold.
    apply (chunked_eval_seq G2 G2 (madd G2) (m0 G2) (fun x => x) g2_assoc g2_0_l g2_0_r n pks Hn).
  Qed.

  Lemma verify_hybrid_coded_seq thr split t sig :
    (forall l, pflatten G2 (split l) = l) ->
    verify_hybrid_coded thr split t sig = verify_aggregate_sig_hybrid A Msg H1 (pflatten (Msg * list G2) t) sig.
  Proof.
    intros Hs. unfold verify_hybrid_coded, verify_aggregate_sig_hybrid. f_equal.
    rewrite (peval_seq (Msg * list G2) GT (madd GT) (m0 GT) (hybrid_g thr split) gt_assoc gt_0_l gt_0_r t).
    unfold seqfold, prod_groups. apply fold_left_ext_l. intros acc g.
    unfold pstep, hybrid_step, hybrid_g. now rewrite sum_pks_coded_seq.
  Qed.

  Lemma verify_trusted_coded_seq thr split m pks sig :
    (forall l, pflatten G2 (split l) = l) ->
    verify_trusted_coded thr split m pks sig = verify_aggregate_sig_trusted_keys A Msg H1 m pks sig.
  Proof.
    intros Hs. unfold verify_trusted_coded, verify_aggregate_sig_trusted_keys.
    destruct pks as [|pk pks]; [reflexivity|]. now rewrite sum_pks_coded_seq.
  Qed.

  Lemma has_dup_ref_is_has_dup ds : has_dup_ref Dg dg_eqb ds = has_dup Dg dg_eqb ds.
  Proof. induction ds as [|d ds IH]; cbn [has_dup_ref has_dup]; [reflexivity | now rewrite IH]. Qed.

  Hypothesis dg_eqb_spec : forall a b, dg_eqb a b = true <-> a = b.
  Hypothesis dg_leb_total : forall a b, dg_leb a b = true \/ dg_leb b a = true.
  Hypothesis dg_leb_trans : forall a b c, dg_leb a b = true -> dg_leb b c = true -> dg_leb a c = true.
  Hypothesis dg_leb_antisym : forall a b, dg_leb a b = true -> dg_leb b a = true -> a = b.

  Lemma verify_plain_coded_seq srt t sig :
    sorts Dg dg_leb srt ->
    verify_plain_coded srt t sig = verify_aggregate_sig A Msg Dg dg_eqb hm H1 (pflatten (Msg * G2) t) sig.
  Proof.
    intros S. unfold verify_plain_coded, verify_aggregate_sig.
    rewrite (has_duplicates_with_ref Dg dg_leb dg_eqb dg_eqb_spec dg_leb_antisym srt _ S), has_dup_ref_is_has_dup.
    destruct (has_dup Dg dg_eqb _); [reflexivity|].
    destruct (pflatten (Msg * G2) t) as [|p ps] eqn:E; [reflexivity|]. f_equal.
    rewrite (peval_seq (Msg * G2) GT (madd GT) (m0 GT) _ gt_assoc gt_0_l gt_0_r t), E. reflexivity.
  Qed.
End BlsPar.
