(** Proofs about Shamir secret sharing (model: Shamir.v) over an abstract field and an
    abstract module over it.  Shared by C20 and C08. *)
From Coq Require Import List Field Ring Lia Arith.
From CB Require Import Crypto.Shamir.
Import ListNotations.

Section ShamirProofs.
  Variable F : Type.
  Variables f0 f1 : F.
  Variables fadd fsub fmul fdiv : F -> F -> F.
  Variables fopp finvf : F -> F.
  Hypothesis Fth : field_theory f0 f1 fadd fmul fsub fopp fdiv finvf (@eq F).
  Hypothesis Feq_dec : forall x y : F, {x = y} + {x <> y}.
  (** [Field::inverse]: [None] on zero, the field inverse otherwise *)
  Variable finv : F -> option F.
  Hypothesis finv_zero : finv f0 = None.
  Hypothesis finv_nonzero : forall x, x <> f0 -> finv x = Some (finvf x).

  Add Field Ffield : Fth.

  Local Notation "0" := f0.
  Local Notation "1" := f1.
  Local Infix "+" := fadd.
  Local Infix "-" := fsub.
  Local Infix "*" := fmul.
  Local Infix "/" := fdiv.

  Local Notation eval_share := (eval_share F f0 fadd fmul).
  Local Notation lagrange := (lagrange F f1 fsub fmul finv).
  Local Notation reveal := (reveal F f0 f1 fadd fsub fmul finv).

  Lemma fsub_eq_0 a b : a - b = 0 -> a = b.
  Proof. intros H. replace a with ((a - b) + b) by ring. rewrite H. ring. Qed.

  Lemma fsub_neq_0 a b : a <> b -> a - b <> 0.
  Proof. intros H E. apply H. apply fsub_eq_0. assumption. Qed.

  Ltac fld := field; repeat split; try (apply fsub_neq_0; congruence); try assumption.

  Lemma fmul_eq_0 a b : a * b = 0 -> a = 0 \/ b = 0.
  Proof.
    intros H. destruct (Feq_dec a 0) as [|Ha]; [left; assumption|right].
    replace b with ((1 / a) * (a * b)) by (field; assumption). rewrite H. ring.
  Qed.

  (** * Polynomials as coefficient lists (constant term first) *)
  Fixpoint peval (cs : list F) (x : F) : F :=
    match cs with [] => 0 | c :: cs' => c + x * peval cs' x end.

  Lemma eval_share_peval secret coeffs x : eval_share secret coeffs x = peval (secret :: coeffs) x.
  Proof.
    unfold Shamir.eval_share. cbn [peval].
    assert (H : forall cs, fold_left (fun share coeff => share * x + coeff) (rev cs) 0 = peval cs x).
    { induction cs as [|c cs IH]; [reflexivity|]. cbn [rev]. rewrite fold_left_app. cbn [fold_left peval].
      rewrite IH. ring. }
    rewrite H. ring.
  Qed.

  Fixpoint padd (p q : list F) : list F :=
    match p, q with
    | [], _ => q
    | _, [] => p
    | a :: p', b :: q' => (a + b) :: padd p' q'
    end.
  Definition pscale (c : F) (p : list F) : list F := map (fun a => c * a) p.
  (** multiplication by the linear factor (x - a) *)
  Definition pmulx (a : F) (p : list F) : list F := padd (0 :: p) (pscale (0 - a) p).

  Lemma peval_padd p q x : peval (padd p q) x = peval p x + peval q x.
  Proof.
    revert q. induction p as [|a p IH]; intros q; cbn [padd peval]; [ring|].
    destruct q as [|b q]; cbn [peval]; [ring|]. rewrite IH. ring.
  Qed.
  Lemma peval_pscale c p x : peval (pscale c p) x = c * peval p x.
  Proof. induction p as [|a p IH]; cbn [pscale map peval]; [ring|]. fold (pscale c p). rewrite IH. ring. Qed.
  Lemma peval_pmulx a p x : peval (pmulx a p) x = (x - a) * peval p x.
  Proof. unfold pmulx. rewrite peval_padd, peval_pscale. cbn [peval]. ring. Qed.

  Lemma length_padd p q : length (padd p q) = Nat.max (length p) (length q).
  Proof.
    revert q. induction p as [|a p IH]; intros q; cbn [padd length]; [reflexivity|].
    destruct q as [|b q]; cbn [length]; [reflexivity|]. rewrite IH. reflexivity.
  Qed.
  Lemma length_pscale c p : length (pscale c p) = length p.
  Proof. apply map_length. Qed.
  Lemma length_pmulx a p : length (pmulx a p) = S (length p).
  Proof. unfold pmulx. rewrite length_padd, length_pscale. cbn [length]. lia. Qed.

  Lemma peval_app_zeros p k x : peval (p ++ repeat 0 k) x = peval p x.
  Proof.
    induction p as [|a p IH]; cbn [app peval].
    - induction k as [|k IHk]; cbn [repeat peval]; [reflexivity|]. rewrite IHk. ring.
    - rewrite IH. reflexivity.
  Qed.

  (** synthetic division by (x - a): [p(z) = p(a) + (z - a) * q(z)] with one coefficient less *)
  Fixpoint qdiv (cs : list F) (a : F) : list F :=
    match cs with
    | [] => []
    | c :: cs' => match cs' with [] => [] | _ => peval cs' a :: qdiv cs' a end
    end.

  Lemma qdiv_spec cs a z : peval cs z = peval cs a + (z - a) * peval (qdiv cs a) z.
  Proof.
    induction cs as [|c cs IH]; [cbn; ring|].
    destruct cs as [|c' cs'].
    - cbn. ring.
    - change (qdiv (c :: c' :: cs') a) with (peval (c' :: cs') a :: qdiv (c' :: cs') a).
      set (p' := c' :: cs') in *. cbn [peval]. rewrite IH. ring.
  Qed.

  Lemma qdiv_length cs a : length (qdiv cs a) = pred (length cs).
  Proof.
    induction cs as [|c cs IH]; [reflexivity|]. destruct cs as [|c' cs']; [reflexivity|].
    change (qdiv (c :: c' :: cs') a) with (peval (c' :: cs') a :: qdiv (c' :: cs') a).
    cbn [length] in *. rewrite IH. reflexivity.
  Qed.

  (** a polynomial with more distinct roots than coefficients vanishes everywhere *)
  Lemma poly_roots : forall xs cs, NoDup xs -> length cs <= length xs ->
    (forall x, In x xs -> peval cs x = 0) -> forall z, peval cs z = 0.
  Proof.
    induction xs as [|a xs IH]; intros cs Hnd Hlen Hroots z.
    - destruct cs; [reflexivity|cbn in Hlen; lia].
    - inversion Hnd as [|? ? Hnotin Hnd']; subst.
      rewrite (qdiv_spec cs a z). rewrite (Hroots a (or_introl eq_refl)).
      rewrite (IH (qdiv cs a) Hnd'); [ring| |].
      + rewrite qdiv_length. cbn [length] in Hlen. lia.
      + intros x Hx. pose proof (Hroots x (or_intror Hx)) as Hpx.
        rewrite (qdiv_spec cs a x), (Hroots a (or_introl eq_refl)) in Hpx.
        assert (Hprod : (x - a) * peval (qdiv cs a) x = 0) by (rewrite <- Hpx; ring).
        destruct (fmul_eq_0 _ _ Hprod) as [E|E]; [|assumption].
        exfalso. apply Hnotin. apply fsub_eq_0 in E. subst. assumption.
  Qed.

  (** * Lagrange basis *)
  (** the basis polynomial of [i] over the points [kxs], as a function of [z] *)
  Fixpoint Lz (kxs : list F) (i z : F) : F :=
    match kxs with
    | [] => 1
    | j :: t => if Feq_dec j i then Lz t i z else ((z - j) / (i - j)) * Lz t i z
    end.

  (** the code's [lagrange] is the basis polynomial evaluated at zero *)
  Lemma lagrange_Lz kxs i : lagrange kxs i = Lz kxs i 0.
  Proof.
    unfold Shamir.lagrange.
    assert (H : forall l a, fold_left (fun accum j => match finv (j - i) with
                                                     | None => accum
                                                     | Some z => j * z * accum end) l a
                            = a * Lz l i 0).
    { induction l as [|j l IH]; intros a; cbn [fold_left Lz]; [ring|].
      rewrite IH. destruct (Feq_dec j i) as [->|Hne].
      - replace (i - i) with 0 by ring. rewrite finv_zero. reflexivity.
      - rewrite finv_nonzero by (apply fsub_neq_0; assumption).
        fld. }
    rewrite H. ring.
  Qed.

  Lemma Lz_self kxs i : Lz kxs i i = 1.
  Proof.
    induction kxs as [|j t IH]; cbn [Lz]; [reflexivity|].
    destruct (Feq_dec j i) as [|Hne]; [assumption|]. rewrite IH. fld.
  Qed.

  Lemma Lz_other kxs i m : In m kxs -> m <> i -> Lz kxs i m = 0.
  Proof.
    intros Hin Hne. induction kxs as [|j t IH]; [contradiction|]. cbn [Lz].
    destruct (Feq_dec j i) as [->|Hji].
    - destruct Hin as [E|Hin]; [congruence|]. apply IH; assumption.
    - destruct Hin as [->|Hin].
      + fld.
      + rewrite IH by assumption. fld.
  Qed.

  Fixpoint count_ne (kxs : list F) (i : F) : nat :=
    match kxs with [] => O | j :: t => if Feq_dec j i then count_ne t i else S (count_ne t i) end.

  Lemma count_ne_le kxs i : count_ne kxs i <= length kxs.
  Proof. induction kxs as [|j t IH]; cbn [count_ne length]; [lia|]. destruct (Feq_dec j i); lia. Qed.

  Lemma count_ne_in kxs i : In i kxs -> S (count_ne kxs i) <= length kxs.
  Proof.
    induction kxs as [|j t IH]; intros Hin; [contradiction|]. cbn [count_ne length].
    destruct (Feq_dec j i) as [|Hne].
    - pose proof (count_ne_le t i). lia.
    - destruct Hin as [|Hin]; [contradiction|]. specialize (IH Hin). lia.
  Qed.

  (** the basis polynomial as a coefficient list *)
  Fixpoint Lpoly (kxs : list F) (i : F) : list F :=
    match kxs with
    | [] => [1]
    | j :: t => if Feq_dec j i then Lpoly t i else pscale (1 / (i - j)) (pmulx j (Lpoly t i))
    end.

  Lemma peval_Lpoly kxs i z : peval (Lpoly kxs i) z = Lz kxs i z.
  Proof.
    induction kxs as [|j t IH]; cbn [Lpoly Lz]; [cbn; ring|].
    destruct (Feq_dec j i) as [|Hne]; [assumption|].
    rewrite peval_pscale, peval_pmulx, IH. fld.
  Qed.

  Lemma length_Lpoly kxs i : length (Lpoly kxs i) = S (count_ne kxs i).
  Proof.
    induction kxs as [|j t IH]; cbn [Lpoly count_ne]; [reflexivity|].
    destruct (Feq_dec j i); [assumption|]. rewrite length_pscale, length_pmulx, IH. reflexivity.
  Qed.

  (** * Interpolation *)
  Definition fsum {A} (f : A -> F) (l : list A) : F := fold_right (fun a acc => f a + acc) 0 l.

  Lemma fsum_single {A} (f : A -> F) (l : list A) (m : A) :
    NoDup l -> In m l -> (forall a, In a l -> a <> m -> f a = 0) -> fsum f l = f m.
  Proof.
    induction l as [|a l IH]; intros Hnd Hin Hz; [contradiction|]. cbn [fsum fold_right].
    inversion Hnd as [|? ? Hnotin Hnd']; subst. fold (fsum f l).
    destruct Hin as [->|Hin].
    - assert (E : fsum f l = 0).
      { clear IH Hnd Hnd'. induction l as [|b l IHl]; [reflexivity|]. cbn [fsum fold_right]. fold (fsum f l).
        rewrite IHl.
        - rewrite (Hz b); [ring|right; left; reflexivity|]. intros ->. apply Hnotin. left; reflexivity.
        - intros Hc. apply Hnotin. right; assumption.
        - intros c Hc Hne. apply Hz; [|assumption]. destruct Hc as [->|Hc]; [left; reflexivity|right; right; assumption]. }
      rewrite E. ring.
    - rewrite (Hz a); [|left; reflexivity|intros ->; contradiction].
      rewrite IH; [ring|assumption|assumption|]. intros c Hc. apply Hz. right; assumption.
  Qed.

  (** [reveal] as a sum *)
  Lemma reveal_fsum shares :
    reveal shares = fsum (fun iv => lagrange (map fst shares) (fst iv) * snd iv) shares.
  Proof.
    unfold Shamir.reveal. set (kxs := map fst shares). clearbody kxs.
    assert (H : forall l a, fold_left (fun accum iv => lagrange kxs (fst iv) * snd iv + accum) l a
                            = a + fsum (fun iv => lagrange kxs (fst iv) * snd iv) l).
    { induction l as [|p l IH]; intros a; cbn [fold_left fsum fold_right]; [ring|].
      rewrite IH. unfold fsum. ring. }
    rewrite H. ring.
  Qed.

  (** the interpolating polynomial through the points [(x, y)] of [shares] over the nodes [kxs] *)
  Fixpoint Ipoly (kxs : list F) (shares : list (F * F)) : list F :=
    match shares with
    | [] => []
    | iv :: t => padd (pscale (snd iv) (Lpoly kxs (fst iv))) (Ipoly kxs t)
    end.

  Lemma peval_Ipoly kxs shares z :
    peval (Ipoly kxs shares) z = fsum (fun iv => Lz kxs (fst iv) z * snd iv) shares.
  Proof.
    induction shares as [|iv t IH]; [reflexivity|]. cbn [Ipoly fsum fold_right].
    rewrite peval_padd, peval_pscale, peval_Lpoly, IH. unfold fsum. ring.
  Qed.

  Lemma length_Ipoly kxs shares : (forall iv, In iv shares -> In (fst iv) kxs) ->
    length (Ipoly kxs shares) <= length kxs.
  Proof.
    induction shares as [|iv t IH]; intros Hin; cbn [Ipoly length]; [lia|].
    rewrite length_padd, length_pscale, length_Lpoly.
    pose proof (count_ne_in kxs (fst iv) (Hin iv (or_introl eq_refl))).
    assert (length (Ipoly kxs t) <= length kxs) by (apply IH; intros; apply Hin; right; assumption).
    lia.
  Qed.

  (** at a node the interpolant takes the prescribed value *)
  Lemma Ipoly_at_node shares x y : NoDup (map fst shares) -> In (x, y) shares ->
    peval (Ipoly (map fst shares) shares) x = y.
  Proof.
    intros Hnd Hin. rewrite peval_Ipoly.
    assert (Hnd' : NoDup shares) by (apply (NoDup_map_inv fst); assumption).
    rewrite (fsum_single _ shares (x, y) Hnd' Hin).
    - cbn [fst snd]. rewrite Lz_self. ring.
    - intros [x' y'] Hin' Hne. cbn [fst snd].
      rewrite Lz_other; [ring|apply (in_map fst) in Hin; exact Hin|].
      intros ->. apply Hne.
      (* same abscissa in a list with distinct abscissae: same pair *)
      clear - Hnd Hin Hin'. induction shares as [|p t IH]; [contradiction|].
      cbn [map] in Hnd. inversion Hnd as [|? ? Hnotin Hnd']; subst.
      destruct Hin as [->|Hin]; destruct Hin' as [E|Hin'].
      + symmetry. assumption.
      + exfalso. apply Hnotin. apply (in_map fst) in Hin'. exact Hin'.
      + subst. exfalso. apply Hnotin. apply (in_map fst) in Hin. exact Hin.
      + apply IH; assumption.
  Qed.

  (** ** Reconstruction in the field *)
  (** For every polynomial with at most as many coefficients as there are distinct evaluation
      points, [reveal] of its values returns the constant term. *)
  Theorem reveal_poly cs xs : NoDup xs -> length cs <= length xs ->
    reveal (map (fun x => (x, peval cs x)) xs) = peval cs 0.
  Proof.
    intros Hnd Hlen. set (shares := map (fun x => (x, peval cs x)) xs).
    assert (Hk : map fst shares = xs).
    { unfold shares. rewrite map_map. cbn [fst]. apply map_id. }
    rewrite reveal_fsum, Hk.
    assert (HI' : fsum (fun iv => lagrange xs (fst iv) * snd iv) shares
                  = fsum (fun iv => Lz xs (fst iv) 0 * snd iv) shares).
    { clear Hk. clearbody shares. induction shares as [|p t IH]; [reflexivity|]. cbn [fsum fold_right]. fold (fsum (fun iv => lagrange xs (fst iv) * snd iv) t).
      fold (fsum (fun iv => Lz xs (fst iv) 0 * snd iv) t). rewrite IH, lagrange_Lz. reflexivity. }
    rewrite HI', <- peval_Ipoly.
    (* D = cs - I has at most |xs| coefficients and vanishes on xs *)
    set (D := padd cs (pscale (0 - 1) (Ipoly xs shares))).
    assert (HD : forall z, peval D z = 0).
    { apply (poly_roots xs); [assumption| |].
      - unfold D. rewrite length_padd, length_pscale.
        assert (length (Ipoly xs shares) <= length xs).
        { apply length_Ipoly. intros iv Hin. unfold shares in Hin. apply in_map_iff in Hin.
          destruct Hin as (x & <- & Hx). exact Hx. }
        lia.
      - intros x Hx. unfold D. rewrite peval_padd, peval_pscale.
        rewrite <- Hk at 1. rewrite (Ipoly_at_node shares x (peval cs x)).
        + ring.
        + rewrite Hk. assumption.
        + unfold shares. apply in_map_iff. exists x. split; [reflexivity|assumption]. }
    specialize (HD 0). unfold D in HD. rewrite peval_padd, peval_pscale in HD.
    symmetry. apply fsub_eq_0.
    transitivity (peval cs 0 + (0 - 1) * peval (Ipoly xs shares) 0); [ring|exact HD].
  Qed.

  (** shamir_reveal: [coeffs] are the t-1 non-constant coefficients; any list of at least t
      shares at distinct points reconstructs the secret. *)
  Theorem shamir_reveal_lemma secret coeffs xs : NoDup xs -> S (length coeffs) <= length xs ->
    reveal (map (fun x => (x, eval_share secret coeffs x)) xs) = secret.
  Proof.
    intros Hnd Hlen.
    rewrite (map_ext _ (fun x => (x, peval (secret :: coeffs) x))) by (intros; rewrite eval_share_peval; reflexivity).
    rewrite reveal_poly by (try assumption; cbn [length]; lia). cbn [peval]. ring.
  Qed.

  (** fewer shares carry no information: for any t-1 shares at distinct non-zero points and any
      candidate secret there are coefficients of a degree-(t-1) sharing polynomial consistent with both *)
  Theorem shamir_fewer_unconstrained_lemma (xs ys : list F) (s : F) :
    NoDup xs -> (forall x, In x xs -> x <> 0) -> length ys = length xs ->
    exists coeffs, length coeffs = length xs /\
      forall x y, In (x, y) (combine xs ys) -> eval_share s coeffs x = y.
  Proof.
    intros Hnd Hnz Hlen.
    set (pts := (0, s) :: combine xs ys).
    assert (Hfst : map fst pts = 0 :: xs).
    { unfold pts. cbn [map fst]. f_equal. clear - Hlen. revert ys Hlen.
      induction xs as [|x xs IH]; intros ys Hlen; [reflexivity|].
      destruct ys as [|y ys]; [discriminate|]. cbn [combine map fst]. f_equal. apply IH. cbn in Hlen. lia. }
    assert (Hnd0 : NoDup (map fst pts)).
    { rewrite Hfst. constructor; [|assumption]. intros Hin. apply (Hnz 0 Hin). reflexivity. }
    set (I := Ipoly (map fst pts) pts).
    assert (HlenI : length I <= S (length xs)).
    { unfold I. etransitivity; [apply length_Ipoly|].
      - intros iv Hin. apply in_map. assumption.
      - rewrite Hfst. cbn [length]. lia. }
    set (I' := I ++ repeat 0 (S (length xs) - length I)).
    assert (HlenI' : length I' = S (length xs)) by (unfold I'; rewrite app_length, repeat_length; lia).
    assert (Hev : forall z, peval I' z = peval I z) by (intros; apply peval_app_zeros).
    destruct I' as [|c0 coeffs] eqn:EI'; [discriminate|].
    assert (Hc0 : c0 = s).
    { pose proof (Hev 0) as H0. cbn [peval] in H0.
      unfold I in H0. rewrite (Ipoly_at_node pts 0 s Hnd0) in H0 by (left; reflexivity).
      rewrite <- H0. ring. }
    exists coeffs. split; [cbn [length] in HlenI'; lia|].
    intros x y Hin. rewrite eval_share_peval, <- Hc0. rewrite Hev.
    unfold I. apply Ipoly_at_node; [assumption|right; assumption].
  Qed.

  (** ** One share fewer never reconstructs *)
  (** strong form of [poly_roots]: all coefficients are zero *)
  Lemma qdiv_all_zero cs a : Forall (fun c => c = 0) (qdiv cs a) -> peval cs a = 0 -> Forall (fun c => c = 0) cs.
  Proof.
    induction cs as [|c cs IH]; intros Hq Ha; [constructor|].
    destruct cs as [|c' cs'].
    - cbn in Ha. constructor; [|constructor]. rewrite <- Ha. ring.
    - change (qdiv (c :: c' :: cs') a) with (peval (c' :: cs') a :: qdiv (c' :: cs') a) in Hq.
      inversion Hq as [|? ? Hhd Htl]; subst.
      assert (Hrest : Forall (fun c => c = 0) (c' :: cs')) by (apply IH; assumption).
      constructor; [|assumption]. cbn [peval] in Ha. cbn [peval] in Hhd. rewrite Hhd in Ha. rewrite <- Ha. ring.
  Qed.

  Lemma poly_roots_coeffs : forall xs cs, NoDup xs -> length cs <= length xs ->
    (forall x, In x xs -> peval cs x = 0) -> Forall (fun c => c = 0) cs.
  Proof.
    induction xs as [|a xs IH]; intros cs Hnd Hlen Hroots.
    - destruct cs; [constructor|cbn in Hlen; lia].
    - inversion Hnd as [|? ? Hnotin Hnd']; subst.
      apply (qdiv_all_zero cs a); [|apply Hroots; left; reflexivity].
      apply IH; [assumption| |].
      + rewrite qdiv_length. cbn [length] in Hlen. lia.
      + intros x Hx. pose proof (Hroots x (or_intror Hx)) as Hpx.
        rewrite (qdiv_spec cs a x), (Hroots a (or_introl eq_refl)) in Hpx.
        assert (Hprod : (x - a) * peval (qdiv cs a) x = 0) by (rewrite <- Hpx; ring).
        destruct (fmul_eq_0 _ _ Hprod) as [E|E]; [|assumption].
        exfalso. apply Hnotin. apply fsub_eq_0 in E. subst. assumption.
  Qed.

  Lemma nth_padd p q k : nth k (padd p q) 0 = nth k p 0 + nth k q 0.
  Proof.
    revert q k. induction p as [|a p IH]; intros q k; cbn [padd].
    - destruct k; cbn [nth]; ring.
    - destruct q as [|b q]; [destruct k; cbn [nth]; ring|].
      destruct k as [|k]; cbn [nth]; [reflexivity|apply IH].
  Qed.

  Lemma nth_last (l : list F) : nth (length l - 1) l 0 = last l 0.
  Proof.
    induction l as [|a t IH]; [reflexivity|]. destruct t as [|b t']; [reflexivity|].
    change (last (a :: b :: t') 0) with (last (b :: t') 0). rewrite <- IH.
    cbn [length]. replace (S (S (length t')) - 1)%nat with (S (S (length t') - 1)) by lia. reflexivity.
  Qed.

  Lemma reveal_Ipoly shares : reveal shares = peval (Ipoly (map fst shares) shares) 0.
  Proof.
    rewrite reveal_fsum, peval_Ipoly. set (kxs := map fst shares). clearbody kxs.
    induction shares as [|p t IH]; [reflexivity|]. cbn [fsum fold_right].
    fold (fsum (fun iv => lagrange kxs (fst iv) * snd iv) t). fold (fsum (fun iv => Lz kxs (fst iv) 0 * snd iv) t).
    rewrite IH, lagrange_Lz. reflexivity.
  Qed.

  (** exactly t-1 shares (t-1 >= 1) of a polynomial of degree exactly t-1 at distinct non-zero
      points never reconstruct the secret *)
  Theorem shamir_one_fewer_differs_lemma secret coeffs xs :
    NoDup xs -> (forall x, In x xs -> x <> 0) -> length xs = length coeffs -> last coeffs 0 <> 0 ->
    reveal (map (fun x => (x, eval_share secret coeffs x)) xs) <> secret.
  Proof.
    intros Hnd Hnz Hlen Htop Heq.
    set (p := secret :: coeffs) in *.
    set (shares := map (fun x => (x, eval_share secret coeffs x)) xs) in *.
    assert (Hk : map fst shares = xs) by (unfold shares; rewrite map_map; cbn [fst]; apply map_id).
    rewrite reveal_Ipoly, Hk in Heq.
    set (I := Ipoly xs shares) in *.
    assert (HlenI : length I <= length xs).
    { apply length_Ipoly. intros iv Hin. unfold shares in Hin. apply in_map_iff in Hin.
      destruct Hin as (x & <- & Hx). exact Hx. }
    set (D := padd p (pscale (0 - 1) I)).
    assert (HD : Forall (fun c => c = 0) D).
    { apply (poly_roots_coeffs (0 :: xs)).
      - constructor; [|assumption]. intros Hin. apply (Hnz 0 Hin). reflexivity.
      - unfold D. rewrite length_padd, length_pscale. unfold p. cbn [length]. lia.
      - intros x [<-|Hx]; unfold D; rewrite peval_padd, peval_pscale.
        + rewrite Heq. unfold p. cbn [peval]. ring.
        + unfold I. rewrite <- Hk at 1. rewrite (Ipoly_at_node shares x (eval_share secret coeffs x)).
          * rewrite eval_share_peval. fold p. ring.
          * rewrite Hk. assumption.
          * unfold shares. apply in_map_iff. exists x. split; [reflexivity|assumption]. }
    (* the coefficient of degree t-1 of D is the top coefficient of p *)
    assert (Hc : nth (length coeffs) D 0 = last coeffs 0).
    { unfold D. rewrite nth_padd. rewrite (nth_overflow (pscale (0 - 1) I)) by (rewrite length_pscale; lia).
      unfold p. destruct coeffs as [|c0 cs] eqn:E; [exfalso; apply Htop; reflexivity|].
      rewrite <- E. replace (length coeffs) with (S (length coeffs - 1)) by (rewrite E; cbn [length]; lia).
      cbn [nth]. rewrite nth_last. ring. }
    apply Htop. rewrite <- Hc.
    rewrite Forall_forall in HD. destruct (nth_in_or_default (length coeffs) D 0) as [Hin|E]; [apply HD; assumption|assumption].
  Qed.

  (** * Reconstruction "in the exponent": any module over the field *)
  Section Module.
    Variable M : Type.
    Variable gzero : M.
    Variable gadd : M -> M -> M.
    Variable smul : F -> M -> M.
    Hypothesis gadd_assoc : forall a b c, gadd a (gadd b c) = gadd (gadd a b) c.
    Hypothesis gadd_comm : forall a b, gadd a b = gadd b a.
    Hypothesis gadd_0_l : forall a, gadd gzero a = a.
    Hypothesis smul_add_l : forall a b m, smul (a + b) m = gadd (smul a m) (smul b m).
    Hypothesis smul_add_r : forall a m n, smul a (gadd m n) = gadd (smul a m) (smul a n).
    Hypothesis smul_mul : forall a b m, smul (a * b) m = smul a (smul b m).
    Hypothesis smul_1 : forall m, smul 1 m = m.
    Hypothesis smul_0_l : forall m, smul 0 m = gzero.
    Hypothesis smul_0_r : forall a, smul a gzero = gzero.

    Local Notation reveal_in_group := (reveal_in_group F f1 fsub fmul finv M gzero gadd smul).

    Lemma gadd_0_r a : gadd a gzero = a.
    Proof. rewrite gadd_comm. apply gadd_0_l. Qed.
    Lemma gadd_swap4 a b c d : gadd (gadd a b) (gadd c d) = gadd (gadd a c) (gadd b d).
    Proof. rewrite <- !gadd_assoc. f_equal. rewrite !gadd_assoc. f_equal. apply gadd_comm. Qed.

    (** polynomial with coefficients in the module *)
    Fixpoint geval (ms : list M) (x : F) : M :=
      match ms with [] => gzero | m :: ms' => gadd m (smul x (geval ms' x)) end.

    Definition gsum {A} (f : A -> M) (l : list A) : M := fold_right (fun a acc => gadd (f a) acc) gzero l.

    Lemma gsum_add {A} (f h : A -> M) l : gsum (fun a => gadd (f a) (h a)) l = gadd (gsum f l) (gsum h l).
    Proof.
      induction l as [|a l IH]; cbn [gsum fold_right]; [rewrite gadd_0_l; reflexivity|].
      fold (gsum (fun a => gadd (f a) (h a)) l). fold (gsum f l). fold (gsum h l). rewrite IH. apply gadd_swap4.
    Qed.
    Lemma gsum_smul {A} (c : A -> F) (m : M) l : gsum (fun a => smul (c a) m) l = smul (fsum c l) m.
    Proof.
      induction l as [|a l IH]; cbn [gsum fsum fold_right]; [rewrite smul_0_l; reflexivity|].
      fold (gsum (fun a => smul (c a) m) l). fold (fsum c l). rewrite IH, smul_add_l. reflexivity.
    Qed.
    Lemma gsum_zero {A} (l : list A) : gsum (fun _ => gzero) l = gzero.
    Proof. induction l as [|a l IH]; cbn [gsum fold_right]; [reflexivity|]. fold (gsum (fun _ : A => gzero) l). rewrite IH. apply gadd_0_l. Qed.
    Lemma gsum_ext {A} (f h : A -> M) l : (forall a, f a = h a) -> gsum f l = gsum h l.
    Proof. intros H. induction l as [|a l IH]; cbn [gsum fold_right]; [reflexivity|]. fold (gsum f l). fold (gsum h l). rewrite H, IH. reflexivity. Qed.

    Fixpoint fpow (x : F) (k : nat) : F := match k with O => 1 | S k' => x * fpow x k' end.

    Lemma fsum_map_pairs kxs cs l :
      fsum (fun x => lagrange kxs x * peval cs x) l
      = fsum (fun iv => lagrange kxs (fst iv) * snd iv) (map (fun x => (x, peval cs x)) l).
    Proof.
      induction l as [|x l IH]; [reflexivity|]. cbn [map fsum fold_right fst snd]. f_equal. exact IH.
    Qed.

    Section Moments.
      Variable xs : list F.
      Hypothesis Hnd : NoDup xs.
      Let lam (x : F) : F := lagrange xs x.
      Definition mu (k : nat) : F := fsum (fun x => lam x * fpow x k) xs.

      Fixpoint comb (k : nat) (ms : list M) : M :=
        match ms with [] => gzero | m :: ms' => gadd (smul (mu k) m) (comb (S k) ms') end.

      Lemma gsum_comb ms : forall k,
        gsum (fun x => smul (lam x * fpow x k) (geval ms x)) xs = comb k ms.
      Proof.
        induction ms as [|m ms IH]; intros k; cbn [geval comb].
        - rewrite (gsum_ext _ (fun _ => gzero)) by (intros; apply smul_0_r). apply gsum_zero.
        - rewrite (gsum_ext _ (fun x => gadd (smul (lam x * fpow x k) m)
                                             (smul (lam x * fpow x (S k)) (geval ms x)))).
          + rewrite gsum_add, gsum_smul, IH. reflexivity.
          + intros x. rewrite smul_add_r, <- smul_mul. f_equal. f_equal. cbn [fpow]. ring.
      Qed.

      (** monomials *)
      Lemma peval_mono k x : peval (repeat 0 k ++ [1]) x = fpow x k.
      Proof. induction k as [|k IH]; cbn [repeat app peval fpow]; [ring|]. rewrite IH. ring. Qed.

      Lemma fsum_reveal cs :
        fsum (fun x => lam x * peval cs x) xs = reveal (map (fun x => (x, peval cs x)) xs).
      Proof.
        rewrite reveal_fsum. rewrite map_map. cbn [fst]. rewrite map_id.
        unfold lam. apply fsum_map_pairs.
      Qed.

      Lemma fsum_ext {A} (f h : A -> F) l : (forall a, f a = h a) -> fsum f l = fsum h l.
      Proof. intros H. induction l as [|a l IH]; cbn [fsum fold_right]; [reflexivity|]. fold (fsum f l). fold (fsum h l). rewrite H, IH. reflexivity. Qed.

      Lemma mu_spec k : k < length xs -> mu k = match k with O => 1 | S _ => 0 end.
      Proof.
        intros Hk. unfold mu.
        rewrite (fsum_ext _ (fun x => lam x * peval (repeat 0 k ++ [1]) x)) by (intros; rewrite peval_mono; reflexivity).
        rewrite fsum_reveal, reveal_poly; [|assumption|rewrite app_length, repeat_length; cbn [length]; lia].
        rewrite peval_mono. destruct k; cbn [fpow]; ring.
      Qed.

      Lemma comb_high ms : forall k, 1 <= k -> k + length ms <= length xs -> comb k ms = gzero.
      Proof.
        induction ms as [|m ms IH]; intros k Hk Hlen; cbn [comb]; [reflexivity|].
        cbn [length] in Hlen. rewrite mu_spec by lia. destruct k; [lia|].
        rewrite smul_0_l, IH by lia. apply gadd_0_l.
      Qed.

      Lemma comb_zero ms : length ms <= length xs -> comb 0 ms = geval ms 0.
      Proof.
        destruct ms as [|m ms]; intros Hlen; cbn [comb geval]; [reflexivity|].
        cbn [length] in Hlen. rewrite mu_spec by lia. rewrite smul_1, smul_0_l.
        rewrite comb_high by lia. reflexivity.
      Qed.

      (** [reveal_in_group] as a sum *)
      Lemma reveal_in_group_gsum (v : F -> M) :
        reveal_in_group (map (fun x => (x, v x)) xs) = gsum (fun x => smul (lam x) (v x)) xs.
      Proof.
        unfold Shamir.reveal_in_group. rewrite map_map. cbn [fst]. rewrite map_id. fold (lagrange xs).
        assert (H : forall l a,
                   fold_left (fun accum (iv : F * M) => gadd (smul (lagrange xs (fst iv)) (snd iv)) accum)
                             (map (fun x => (x, v x)) l) a
                   = gadd (gsum (fun x => smul (lam x) (v x)) l) a).
        { induction l as [|x l IH]; intros a; cbn [map fold_left gsum fold_right fst snd].
          - rewrite gadd_0_l. reflexivity.
          - rewrite IH. fold (gsum (fun x => smul (lam x) (v x)) l). unfold lam.
            rewrite gadd_assoc. f_equal. apply gadd_comm. }
        rewrite H. apply gadd_0_r.
      Qed.

      Theorem reveal_in_group_poly ms : length ms <= length xs ->
        reveal_in_group (map (fun x => (x, geval ms x)) xs) = geval ms 0.
      Proof.
        intros Hlen. rewrite reveal_in_group_gsum.
        rewrite (gsum_ext _ (fun x => smul (lam x * fpow x 0) (geval ms x))).
        - rewrite gsum_comb. apply comb_zero. assumption.
        - intros x. f_equal. cbn [fpow]. ring.
      Qed.
    End Moments.

    (** shamir_reveal_in_group: the shares of [m0 + x m1 + ... ] (coefficients in the module,
        [m0] the shared element) at >= t distinct points reconstruct [m0]. *)
    Theorem shamir_reveal_in_group_lemma (m0 : M) (ms : list M) (xs : list F) :
      NoDup xs -> S (length ms) <= length xs ->
      reveal_in_group (map (fun x => (x, geval (m0 :: ms) x)) xs) = m0.
    Proof.
      intros Hnd Hlen. rewrite reveal_in_group_poly by (try assumption; cbn [length]; lia).
      cbn [geval]. rewrite smul_0_l. apply gadd_0_r.
    Qed.

    (** the group shares of a field sharing: [v_i = share_i * h] *)
    Lemma geval_smul_share (h : M) secret coeffs x :
      smul (eval_share secret coeffs x) h = geval (map (fun c => smul c h) (secret :: coeffs)) x.
    Proof.
      rewrite eval_share_peval. induction (secret :: coeffs) as [|c cs IH]; cbn [peval map geval].
      - apply smul_0_l.
      - rewrite smul_add_l, smul_mul, IH. reflexivity.
    Qed.

    Theorem shamir_reveal_exponent_lemma (h : M) secret coeffs xs :
      NoDup xs -> S (length coeffs) <= length xs ->
      reveal_in_group (map (fun x => (x, smul (eval_share secret coeffs x) h)) xs) = smul secret h.
    Proof.
      intros Hnd Hlen.
      rewrite (map_ext _ (fun x => (x, geval (smul secret h :: map (fun c => smul c h) coeffs) x)))
        by (intros; rewrite geval_smul_share; reflexivity).
      apply shamir_reveal_in_group_lemma; [assumption|]. rewrite map_length. assumption.
    Qed.
  End Module.
End ShamirProofs.

(** * Closed statements (hypotheses packaged) *)

(** the scalar field: a field ([field_theory], so [ring]/[field] apply) whose [inverse()] is
    [None] on zero and the field inverse otherwise *)
Definition scalar_field_laws {F : Type} (f0 f1 : F) (fadd fsub fmul fdiv : F -> F -> F)
           (fopp finvf : F -> F) (finv : F -> option F) : Prop :=
  field_theory f0 f1 fadd fmul fsub fopp fdiv finvf (@eq F) /\
  finv f0 = None /\ (forall x, x <> f0 -> finv x = Some (finvf x)).

(** the group as a module over the scalar field *)
Definition module_laws {F M : Type} (f0 f1 : F) (fadd fmul : F -> F -> F)
           (gzero : M) (gadd : M -> M -> M) (smul : F -> M -> M) : Prop :=
  (forall a b c, gadd a (gadd b c) = gadd (gadd a b) c) /\
  (forall a b, gadd a b = gadd b a) /\
  (forall a, gadd gzero a = a) /\
  (forall a b m, smul (fadd a b) m = gadd (smul a m) (smul b m)) /\
  (forall a m n, smul a (gadd m n) = gadd (smul a m) (smul a n)) /\
  (forall a b m, smul (fmul a b) m = smul a (smul b m)) /\
  (forall m, smul f1 m = m) /\
  (forall m, smul f0 m = gzero) /\
  (forall a, smul a gzero = gzero).

Section Closed.
  Variable F : Type.
  Variables f0 f1 : F.
  Variables fadd fsub fmul fdiv : F -> F -> F.
  Variables fopp finvf : F -> F.
  Variable finv : F -> option F.
  Hypothesis HF : scalar_field_laws f0 f1 fadd fsub fmul fdiv fopp finvf finv.
  Hypothesis Feq_dec : forall x y : F, {x = y} + {x <> y}.

  Theorem shamir_reveal_closed secret coeffs xs : NoDup xs -> S (length coeffs) <= length xs ->
    reveal F f0 f1 fadd fsub fmul finv (map (fun x => (x, eval_share F f0 fadd fmul secret coeffs x)) xs)
    = secret.
  Proof. destruct HF as (H1 & H2 & H3). apply (shamir_reveal_lemma F f0 f1 fadd fsub fmul fdiv fopp finvf); assumption. Qed.

  Theorem shamir_fewer_closed (xs ys : list F) (s : F) :
    NoDup xs -> (forall x, In x xs -> x <> f0) -> length ys = length xs ->
    exists coeffs, length coeffs = length xs /\
      forall x y, In (x, y) (combine xs ys) -> eval_share F f0 fadd fmul s coeffs x = y.
  Proof. destruct HF as (H1 & H2 & H3). apply (shamir_fewer_unconstrained_lemma F f0 f1 fadd fsub fmul fdiv fopp finvf); assumption. Qed.

  Theorem shamir_one_fewer_closed secret coeffs xs :
    NoDup xs -> (forall x, In x xs -> x <> f0) -> length xs = length coeffs -> last coeffs f0 <> f0 ->
    reveal F f0 f1 fadd fsub fmul finv (map (fun x => (x, eval_share F f0 fadd fmul secret coeffs x)) xs)
    <> secret.
  Proof. destruct HF as (H1 & H2 & H3). apply (shamir_one_fewer_differs_lemma F f0 f1 fadd fsub fmul fdiv fopp finvf); assumption. Qed.

  Variable M : Type.
  Variable gzero : M.
  Variable gadd : M -> M -> M.
  Variable smul : F -> M -> M.
  Hypothesis HM : module_laws f0 f1 fadd fmul gzero gadd smul.

  Theorem shamir_reveal_in_group_closed (m0 : M) (ms : list M) (xs : list F) :
    NoDup xs -> S (length ms) <= length xs ->
    reveal_in_group F f1 fsub fmul finv M gzero gadd smul
      (map (fun x => (x, geval F M gzero gadd smul (m0 :: ms) x)) xs) = m0.
  Proof.
    destruct HF as (H1 & H2 & H3). destruct HM as (A1 & A2 & A3 & A4 & A5 & A6 & A7 & A8 & A9).
    apply (shamir_reveal_in_group_lemma F f0 f1 fadd fsub fmul fdiv fopp finvf); assumption.
  Qed.

  Theorem shamir_reveal_exponent_closed (h : M) secret coeffs xs :
    NoDup xs -> S (length coeffs) <= length xs ->
    reveal_in_group F f1 fsub fmul finv M gzero gadd smul
      (map (fun x => (x, smul (eval_share F f0 fadd fmul secret coeffs x) h)) xs) = smul secret h.
  Proof.
    destruct HF as (H1 & H2 & H3). destruct HM as (A1 & A2 & A3 & A4 & A5 & A6 & A7 & A8 & A9).
    apply (shamir_reveal_exponent_lemma F f0 f1 fadd fsub fmul fdiv fopp finvf); assumption.
  Qed.
End Closed.
