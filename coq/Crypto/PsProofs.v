(** Theorems about the Pointcheval-Sanders model (Ps.v), for every lawful pairing setting. *)
From Coq Require Import List Bool Arith Field Ring Lia.
From CB Require Import Crypto.PairingAlg Crypto.Ps.
Import ListNotations.

Section PsProofs.
  Variable A : pops.
  Hypothesis L : plaws A.
  Add Field PFfield_ps : (pf_th A L).

  Notation K := (PF A).
  Notation "a +' b" := (fadd K a b) (at level 50, left associativity).
  Notation "a *' b" := (fmul K a b) (at level 40, left associativity).

  Lemma fmul_cancel_l_ps (a b c : K) : a <> f0 K -> a *' b = a *' c -> b = c.
  Proof.
    intros N H. transitivity (finv K a *' (a *' b)); [field; assumption|].
    rewrite H. field; assumption.
  Qed.

  (** [sum m_i * y_i] over the common prefix *)
  Fixpoint dot (ms ys : list K) : K :=
    match ms, ys with
    | m :: ms', y :: ys' => m *' y +' dot ms' ys'
    | _, _ => f0 K
    end.

  Lemma fold_dot ms : forall ys acc,
    fold_left (fun acc p => acc +' fst p *' snd p) (combine ms ys) acc = acc +' dot ms ys.
  Proof.
    induction ms as [|m ms IH]; intros ys acc; cbn [combine fold_left dot]; [ring|].
    destruct ys as [|y ys]; cbn [fold_left fst snd]; [ring|]. rewrite IH. ring.
  Qed.

  Fixpoint wsum1 (bases : list (P1 A)) (ms : list K) : K :=
    match bases, ms with
    | b :: bs, m :: ms' => m *' dl1 A b +' wsum1 bs ms'
    | _, _ => f0 K
    end.
  Fixpoint wsum2 (bases : list (P2 A)) (ms : list K) : K :=
    match bases, ms with
    | b :: bs, m :: ms' => m *' dl2 A b +' wsum2 bs ms'
    | _, _ => f0 K
    end.

  Lemma dl1_fold_msmul bases : forall ms acc,
    dl1 A (fold_left (fun acc p => madd (P1 A) acc (msmul (P1 A) (snd p) (fst p))) (combine bases ms) acc)
    = dl1 A acc +' wsum1 bases ms.
  Proof.
    induction bases as [|b bs IH]; intros ms acc; cbn [combine fold_left wsum1]; [ring|].
    destruct ms as [|m ms]; cbn [fold_left fst snd]; [ring|].
    rewrite IH, (dl1_add A L), (dl1_smul A L). ring.
  Qed.

  Lemma dl2_fold_msmul bases : forall ms acc,
    dl2 A (fold_left (fun acc p => madd (P2 A) acc (msmul (P2 A) (snd p) (fst p))) (combine bases ms) acc)
    = dl2 A acc +' wsum2 bases ms.
  Proof.
    induction bases as [|b bs IH]; intros ms acc; cbn [combine fold_left wsum2]; [ring|].
    destruct ms as [|m ms]; cbn [fold_left fst snd]; [ring|].
    rewrite IH, (dl2_add A L), (dl2_smul A L). ring.
  Qed.

  Lemma dl2_msg_point pk ms : dl2 A (ps_msg_point A pk ms) = wsum2 (pk_yts A pk) ms.
  Proof. unfold ps_msg_point. rewrite dl2_fold_msmul, (dl2_zero A L). ring. Qed.

  Lemma dl1_commit pk mask ms :
    dl1 A (ps_commit A pk mask ms) = mask *' dl1 A (pk_g A pk) +' wsum1 (pk_ys A pk) ms.
  Proof. unfold ps_commit. rewrite dl1_fold_msmul, (dl1_smul A L). reflexivity. Qed.

  Lemma wsum1_honest ys : forall ms,
    wsum1 (map (fun y => msmul (P1 A) y (gen1 A)) ys) ms = dot ms ys.
  Proof.
    induction ys as [|y ys IH]; intros [|m ms]; cbn [map wsum1 dot]; try reflexivity.
    rewrite IH, (dl1_smul A L), (dl1_gen A L). ring.
  Qed.

  Lemma wsum2_honest ys : forall ms,
    wsum2 (map (fun y => msmul (P2 A) y (gen2 A)) ys) ms = dot ms ys.
  Proof.
    induction ys as [|y ys IH]; intros [|m ms]; cbn [map wsum2 dot]; try reflexivity.
    rewrite IH, (dl2_smul A L), (dl2_gen A L). ring.
  Qed.

  Lemma wsum2_pad0 bases : forall ms, wsum2 bases (ms ++ [f0 K]) = wsum2 bases ms.
  Proof.
    induction bases as [|b bs IH]; intros [|m ms]; cbn [app wsum2]; try reflexivity.
    - destruct bs; cbn [wsum2]; ring.
    - now rewrite IH.
  Qed.

  (** *** the exact acceptance condition of [verify], for an arbitrary (even malformed) key *)
  Lemma ps_verify_iff_l pk a b ms :
    ps_verify A pk (a, b) ms = true <->
    a <> m0 (P1 A) /\ length ms <= length (pk_yts A pk) /\
    dl1 A a *' (wsum2 (pk_yts A pk) ms +' dl2 A (pk_xt A pk)) = dl1 A b *' dl2 A (pk_gt A pk).
  Proof.
    unfold ps_verify. cbn [fst snd].
    destruct (meqb (P1 A) a (m0 (P1 A))) eqn:Ez; cbn [orb].
    - apply (meqb_spec _ (p1_laws A L)) in Ez. split; [discriminate | intros [N _]; contradiction].
    - assert (Na : a <> m0 (P1 A)).
      { intros E. apply (meqb_spec _ (p1_laws A L)) in E. congruence. }
      destruct (length (pk_yts A pk) <? length ms) eqn:El.
      + apply Nat.ltb_lt in El. split; [discriminate | intros (_ & Hl & _); lia].
      + apply Nat.ltb_ge in El.
        rewrite (check_pairing_eq_iff A L), (pair_eq_iff A L), (dl2_add A L), dl2_msg_point.
        split; [intros H; repeat split; assumption | intros (_ & _ & H); exact H].
  Qed.

  Lemma ps_verify_blinded_iff_l pk a b ms t :
    ps_verify_blinded A pk (a, b) ms t = true <->
    a <> m0 (P1 A) /\ length ms <= length (pk_yts A pk) /\
    dl1 A a *' (wsum2 (pk_yts A pk) ms +' dl2 A (pk_xt A pk) +' t *' dl2 A (pk_gt A pk))
      = dl1 A b *' dl2 A (pk_gt A pk).
  Proof.
    unfold ps_verify_blinded. cbn [fst snd].
    destruct (meqb (P1 A) a (m0 (P1 A))) eqn:Ez; cbn [orb].
    - apply (meqb_spec _ (p1_laws A L)) in Ez. split; [discriminate | intros [N _]; contradiction].
    - assert (Na : a <> m0 (P1 A)).
      { intros E. apply (meqb_spec _ (p1_laws A L)) in E. congruence. }
      destruct (length (pk_yts A pk) <? length ms) eqn:El.
      + apply Nat.ltb_lt in El. split; [discriminate | intros (_ & Hl & _); lia].
      + apply Nat.ltb_ge in El.
        rewrite (check_pairing_eq_iff A L), (pair_eq_iff A L), !(dl2_add A L), (dl2_smul A L), dl2_msg_point.
        split; [intros H; repeat split; assumption | intros (_ & _ & H); exact H].
  Qed.

  (** *** honest keys *)
  Variable ys : list K.
  Variable x : K.
  Let sk := ps_keygen A ys x.
  Let pk := ps_pk_of A sk.

  Lemma ps_verify_honest_iff_l a b ms :
    ps_verify A pk (a, b) ms = true <->
    a <> m0 (P1 A) /\ length ms <= length ys /\ dl1 A b = dl1 A a *' (dot ms ys +' x).
  Proof.
    rewrite ps_verify_iff_l. unfold pk, sk, ps_pk_of, ps_keygen. cbn [pk_yts pk_xt pk_gt sk_ys sk_gt sk_x].
    rewrite map_length, wsum2_honest, (dl2_smul A L), (dl2_gen A L).
    replace (x *' f1 K) with x by ring. replace (dl1 A b *' f1 K) with (dl1 A b) by ring.
    split; intros (Ha & Hl & H); repeat split; auto.
  Qed.

  Lemma ps_sign_known_none_iff_l ms r : ps_sign_known A sk ms r = None <-> length ys < length ms.
  Proof.
    unfold ps_sign_known, sk, ps_keygen. cbn [sk_ys].
    destruct (length ys <? length ms) eqn:E.
    - apply Nat.ltb_lt in E. tauto.
    - apply Nat.ltb_ge in E. split; [discriminate | lia].
  Qed.

  Lemma smul_gen1_nz r : r <> f0 K -> msmul (P1 A) r (gen1 A) <> m0 (P1 A).
  Proof.
    intros N E. apply N. apply (dl1_eq_zero A L) in E. rewrite (dl1_smul A L), (dl1_gen A L) in E.
    rewrite <- E. ring.
  Qed.

  Lemma ps_sign_verify_l ms r sig :
    r <> f0 K -> ps_sign_known A sk ms r = Some sig -> ps_verify A pk sig ms = true.
  Proof.
    intros Nr. unfold ps_sign_known, sk, ps_keygen. cbn [sk_ys sk_g sk_x].
    destruct (length ys <? length ms) eqn:E; [discriminate|]. apply Nat.ltb_ge in E.
    intros S. inversion S; subst sig; clear S. apply ps_verify_honest_iff_l. repeat split.
    - now apply smul_gen1_nz.
    - exact E.
    - rewrite fold_dot, !(dl1_smul A L), (dl1_gen A L). ring.
  Qed.

  (** blind issuance: commit, sign the commitment, unblind *)
  Definition ps_issue (mask r : K) (ms : list K) : P1 A * P1 A :=
    ps_retrieve A (ps_sign_unknown A sk (ps_commit A pk mask ms) r) mask.

  Lemma ps_issue_dl mask r ms :
    dl1 A (fst (ps_issue mask r ms)) = r /\
    dl1 A (snd (ps_issue mask r ms)) = r *' (dot ms ys +' x).
  Proof.
    unfold ps_issue, ps_retrieve, ps_sign_unknown. cbn [fst snd]. split.
    - unfold sk, ps_keygen. cbn [sk_g]. rewrite (dl1_smul A L), (dl1_gen A L). ring.
    - rewrite (dl1_sub A L), !(dl1_smul A L), (dl1_add A L), (dl1_smul A L), dl1_commit.
      unfold pk, sk, ps_pk_of, ps_keygen. cbn [pk_g pk_ys sk_g sk_ys sk_x].
      rewrite wsum1_honest, (dl1_gen A L). ring.
  Qed.

  Lemma ps_blind_issue_unblind_iff_l mask r ms ms' :
    r <> f0 K ->
    (ps_verify A pk (ps_issue mask r ms) ms' = true <-> length ms' <= length ys /\ dot ms' ys = dot ms ys).
  Proof.
    intros Nr. destruct (ps_issue_dl mask r ms) as [Ha Hb].
    destruct (ps_issue mask r ms) as [a b] eqn:E. cbn [fst snd] in Ha, Hb.
    rewrite ps_verify_honest_iff_l, Ha, Hb. split.
    - intros (_ & Hl & H). split; [exact Hl|]. apply fmul_cancel_l_ps in H; [|exact Nr].
      transitivity ((dot ms' ys +' x) +' fopp K x); [ring|]. rewrite <- H. ring.
    - intros [Hl H]. repeat split; [|exact Hl|now rewrite H].
      intros Z. apply Nr. rewrite <- Ha, Z. apply (dl1_zero A L).
  Qed.

  Lemma ps_blind_issue_unblind_verifies_l mask r ms :
    r <> f0 K -> length ms <= length ys -> ps_verify A pk (ps_issue mask r ms) ms = true.
  Proof. intros Nr Hl. apply ps_blind_issue_unblind_iff_l; [exact Nr | split; [exact Hl | reflexivity]]. Qed.
End PsProofs.

Section PsGeneral.
  Variable A : pops.
  Hypothesis L : plaws A.
  Add Field PFfield_ps2 : (pf_th A L).
  Notation K := (PF A).

  (** blinding with [(r, t)], [r <> 0], turns a signature valid on [ms] into one satisfying the
      [t]-shifted relation, and only such a signature (any key, honest or not) *)
  Lemma ps_blind_preserves_validity_l (pk : ps_pk A) sig ms r t :
    r <> f0 K ->
    ps_verify_blinded A pk (ps_blind A sig r t) ms t = ps_verify A pk sig ms.
  Proof.
    intros Nr. destruct sig as [a b].
    destruct (ps_verify_blinded A pk (ps_blind A (a, b) r t) ms t) eqn:E1;
      destruct (ps_verify A pk (a, b) ms) eqn:E2; try reflexivity; exfalso.
    - unfold ps_blind in E1. cbn [fst snd] in E1.
      apply (ps_verify_blinded_iff_l A L) in E1. destruct E1 as (Na & Hl & H).
      assert (T : ps_verify A pk (a, b) ms = true); [|congruence].
      apply (ps_verify_iff_l A L). repeat split; [|exact Hl|].
      + intros Z. apply Na. rewrite Z. apply (msmul_0_r K (P1 A) (p1_laws A L)).
      + rewrite !(dl1_smul A L), (dl1_add A L), (dl1_smul A L) in H.
        apply (fmul_cancel_l_ps A L r); [exact Nr|].
        transitivity (fsub K (fmul K (fmul K r (dl1 A a))
                        (fadd K (fadd K (wsum2 A (pk_yts A pk) ms) (dl2 A (pk_xt A pk))) (fmul K t (dl2 A (pk_gt A pk)))))
                      (fmul K (fmul K r (fmul K t (dl1 A a))) (dl2 A (pk_gt A pk)))); [ring|].
        rewrite H. ring.
    - apply (ps_verify_iff_l A L) in E2. destruct E2 as (Na & Hl & H).
      assert (T : ps_verify_blinded A pk (ps_blind A (a, b) r t) ms t = true); [|congruence].
      unfold ps_blind. cbn [fst snd]. apply (ps_verify_blinded_iff_l A L). repeat split; [|exact Hl|].
      + intros Z. apply (dl1_eq_zero A L) in Z. rewrite (dl1_smul A L) in Z.
        apply Na. apply (dl1_eq_zero A L). apply (fmul_cancel_l_ps A L r); [exact Nr|]. rewrite Z. ring.
      + rewrite !(dl1_smul A L), (dl1_add A L), (dl1_smul A L).
        transitivity (fadd K (fmul K r (fmul K (dl1 A a) (fadd K (wsum2 A (pk_yts A pk) ms) (dl2 A (pk_xt A pk)))))
                        (fmul K (fmul K r (fmul K t (dl1 A a))) (dl2 A (pk_gt A pk)))); [ring|].
        rewrite H. ring.
  Qed.

  (** [verify] pads the message vector with zeros: a trailing zero message changes nothing *)
  Lemma ps_zero_padding_l (pk : ps_pk A) sig ms :
    length ms < length (pk_yts A pk) ->
    ps_verify A pk sig (ms ++ [f0 K]) = ps_verify A pk sig ms.
  Proof.
    intros Hl. destruct sig as [a b].
    destruct (ps_verify A pk (a, b) (ms ++ [f0 K])) eqn:E1; destruct (ps_verify A pk (a, b) ms) eqn:E2;
      try reflexivity; exfalso.
    - apply (ps_verify_iff_l A L) in E1. destruct E1 as (Na & Hl1 & H).
      assert (T : ps_verify A pk (a, b) ms = true); [|congruence].
      apply (ps_verify_iff_l A L). rewrite (wsum2_pad0 A L) in H. repeat split; [exact Na | lia | exact H].
    - apply (ps_verify_iff_l A L) in E2. destruct E2 as (Na & Hl2 & H).
      assert (T : ps_verify A pk (a, b) (ms ++ [f0 K]) = true); [|congruence].
      apply (ps_verify_iff_l A L). rewrite (wsum2_pad0 A L), app_length. cbn [length].
      repeat split; [exact Na | lia | exact H].
  Qed.
End PsGeneral.
