(** sigma_protocols/com_eq_sig.rs: knowledge of a Pointcheval-Sanders signature on committed values:
    given the blinded signature [(a_hat, b_hat)], commitments [C_i = m_i*g + r_i*h] and the public key
    [(g~, X~, Y~_i)], the prover knows [r'], [m_i], [r_i] with
      e(b_hat, g~) = e(a_hat, X~ + sum m_i*Y~_i + r'*g~).
    Pairing groups from [AlgPairing.v]; the commitments live in a fourth module [MC] (in the
    deployment MC = G1).  Response style [rho - c*w]; n = number of commitments (any n <= key length). *)
From Coq Require Import ZArith NArith List Field Lia String Bool.
From CB Require Import Crypto.Alg Crypto.AlgPairing Crypto.Transcript Crypto.TranscriptProofs Crypto.SigmaGeneric Crypto.SigmaCodec.
Import ListNotations.

Record ces_stmt {K : FieldOps} (P : PairOps K) (MC : ModOps K) := mkCes {
  cs_a : PM1 P; cs_b : PM1 P;                 (* blinded_sig *)
  cs_cmts : list MC;                           (* commitments *)
  cs_pkg : PM1 P; cs_gt : PM2 P; cs_ys : list (PM1 P); cs_yts : list (PM2 P); cs_xt : PM2 P;   (* ps_pub_key *)
  cs_g : MC; cs_h : MC }.                      (* comm_key *)
Arguments mkCes {K P MC} _ _ _ _ _ _ _ _ _ _.
Arguments cs_a {K P MC} _. Arguments cs_b {K P MC} _. Arguments cs_cmts {K P MC} _. Arguments cs_pkg {K P MC} _.
Arguments cs_gt {K P MC} _. Arguments cs_ys {K P MC} _. Arguments cs_yts {K P MC} _. Arguments cs_xt {K P MC} _.
Arguments cs_g {K P MC} _. Arguments cs_h {K P MC} _.

Section ComEqSig.
  Context {K : FieldOps} {P : PairOps K} {MC : ModOps K}
          (Cd1 : CodecOps (PM1 P)) (Cd2 : CodecOps (PM2 P)) (CdT : CodecOps (PMT P)) (CdC : CodecOps MC).
  Local Open Scope G_scope.
  Notation len := (@List.length _).
  Definition neqb (a b : nat) : bool := negb (Nat.eqb a b).
  Definition resp1 (c w rho : K) : K := Fadd K (Fopp K (Fmul K c w)) rho.
  Definition ces_wit : Type := (K * list (K * K))%type.   (* r' / rho', (m_i, r_i) / (mu_i, R_i) *)

  Definition ces_public (k : tkind) (s : ces_stmt P MC) : bytes :=
    msg k (str "blinded_sig") (serG Cd1 (cs_a s) ++ serG Cd1 (cs_b s)) ++
    msgs k (str "commitments") (map (serG CdC) (cs_cmts s)) ++
    msg k (str "ps_pub_key") (serG Cd1 (cs_pkg s) ++ serG Cd2 (cs_gt s) ++ ser_vec32 (map (serG Cd1) (cs_ys s)) ++
                              ser_vec32 (map (serG Cd2) (cs_yts s)) ++ serG Cd2 (cs_xt s)) ++
    msg k (str "comm_key") (serG CdC (cs_g s) ++ serG CdC (cs_h s)).

  (** [if n > self.ps_pub_key.len() return None] where [len()] is [ys.len()]; then [cY_tilda(i)]
      indexes [y_tildas] (a key with fewer [y_tildas] than [ys] would panic: modelled as None) *)
  Definition ces_commit (s : ces_stmt P MC) (r : ces_wit) : option (PMT P * list MC) :=
    let '(rho, mus) := r in
    let n := len (cs_cmts s) in
    if Nat.ltb (len (cs_ys s)) n || Nat.ltb (len (cs_yts s)) n then None else
    Some (pe P (cs_a s) (rho *: cs_gt s + msm (map fst mus) (cs_yts s)),
          map (fun mr => fst mr *: cs_g s + snd mr *: cs_h s) mus).
  Definition ces_respond (s : ces_stmt P MC) (w r : ces_wit) (c : K) : option ces_wit :=
    let '(r', vals) := w in let '(rho, mus) := r in
    if neqb (len vals) (len mus) then None else
    Some (resp1 c r' rho, map2 (fun v m => (resp1 c (fst v) (fst m), resp1 c (snd v) (snd m))) vals mus).
  Definition ces_extract (s : ces_stmt P MC) (c : K) (z : ces_wit) : option (PMT P * list MC) :=
    let '(zr, zs) := z in
    let n := len (cs_cmts s) in
    if neqb (len zs) n then None else
    if Nat.ltb (len (cs_yts s)) n then None else
    Some (pe P (cs_b s) (c *: cs_gt s) +
          pe P (cs_a s) (zr *: cs_gt s + (msm (map fst zs) (cs_yts s) + Fopp K c *: cs_xt s)),
          map2 (fun Ci z => c *: Ci + (fst z *: cs_g s + snd z *: cs_h s)) (cs_cmts s) zs).

  Definition ces_proto : proto K := {|
    p_stmt := ces_stmt P MC; p_wit := ces_wit; p_rand := ces_wit; p_cm := PMT P * list MC; p_resp := ces_wit;
    p_public := ces_public; p_commit := ces_commit; p_respond := ces_respond; p_extract := ces_extract;
    p_ser_cm := fun a => serG CdT (fst a) ++ ser_vec (map (serG CdC) (snd a));
    p_ser_resp := fun z => serF CdC (fst z) ++ ser_vec32 (map (fun p => serF CdC (fst p) ++ serF CdC (snd p)) (snd z)) |}.

  Definition ces_rel (s : ces_stmt P MC) (w : ces_wit) : Prop :=
    let '(r', vals) := w in
    len vals = len (cs_cmts s) /\ (len (cs_cmts s) <= len (cs_ys s))%nat /\ (len (cs_cmts s) <= len (cs_yts s))%nat /\
    cs_cmts s = map (fun v => fst v *: cs_g s + snd v *: cs_h s) vals /\
    pe P (cs_b s) (cs_gt s) = pe P (cs_a s) (cs_xt s + (msm (map fst vals) (cs_yts s) + r' *: cs_gt s)).
  Definition ces_rok (s : ces_stmt P MC) (r : ces_wit) : Prop := len (snd r) = len (cs_cmts s).
  Definition ces_recover (s : ces_stmt P MC) (w : ces_wit) (c : K) (z : ces_wit) : ces_wit :=
    let rec zi wi := Fadd K zi (Fmul K c wi) in
    (rec (fst z) (fst w), map2 (fun zp wp => (rec (fst zp) (fst wp), rec (snd zp) (snd wp))) (snd z) (snd w)).

  Context {KL : FieldLaws K} {PL : PairLaws P} {MLC : ModLaws MC}.
  Add Field Kf_ces : (@F_th K KL).

  Lemma map_fst_resp c : forall (vals mus : list (K * K)), len vals = len mus ->
    map fst (map2 (fun v m => (resp1 c (fst v) (fst m), resp1 c (snd v) (snd m))) vals mus) =
    m_respond RespMinus c (map fst vals) (map fst mus).
  Proof.
    unfold m_respond, vsub, vscale, resp1. induction vals as [|v vals IH]; intros [|m mus] L; try discriminate; [reflexivity|].
    cbn [map map2 fst]. rewrite IH by (cbn in L; lia). f_equal. ring.
  Qed.
  Lemma cmts_complete c (g h : MC) : forall (vals mus : list (K * K)), len vals = len mus ->
    map2 (fun Ci z => c *: Ci + (fst z *: g + snd z *: h)) (map (fun v => fst v *: g + snd v *: h) vals)
         (map2 (fun v m => (resp1 c (fst v) (fst m), resp1 c (snd v) (snd m))) vals mus) =
    map (fun mr => fst mr *: g + snd mr *: h) mus.
  Proof.
    induction vals as [|v vals IH]; intros [|m mus] L; try discriminate; [reflexivity|].
    cbn [map map2 fst snd]. rewrite IH by (cbn in L; lia). f_equal. unfold resp1. mod_norm.
  Qed.

  Theorem ces_complete_ : complete ces_proto ces_rel ces_rok.
  Proof.
    intros [a b cm pg gt ys yts xt g h] [r' vals] [rho mus] (Lv & Ly & Lyt & Hc & Hp) Lm. unfold ces_rok in Lm.
    cbn [cs_a cs_b cs_cmts cs_pkg cs_gt cs_ys cs_yts cs_xt cs_g cs_h snd] in *. subst cm. rewrite map_length in *.
    assert (B1 : Nat.ltb (len ys) (len vals) = false) by (apply Nat.ltb_ge; lia).
    assert (B2 : Nat.ltb (len yts) (len vals) = false) by (apply Nat.ltb_ge; lia).
    eexists. split.
    { cbn [p_commit ces_proto ces_commit cs_cmts cs_ys cs_yts]. rewrite map_length, B1, B2. reflexivity. }
    intro c. cbn [p_respond p_extract ces_proto ces_respond]. unfold neqb. rewrite Lm, Nat.eqb_refl. cbn [negb].
    eexists. split; [reflexivity|]. unfold ces_extract, neqb.
    cbn [cs_a cs_b cs_cmts cs_pkg cs_gt cs_ys cs_yts cs_xt cs_g cs_h].
    rewrite map2_length, map_length, Lm, Nat.min_id, Nat.eqb_refl, B2. cbn [negb]. f_equal. f_equal.
    - rewrite map_fst_resp by congruence. unfold m_respond.
      rewrite msm_vsub by (rewrite vscale_length, !map_length; congruence). rewrite msm_vscale.
      unfold Gsub. repeat (rewrite pe_add_r || rewrite pe_smul_r || rewrite pe_opp_r). rewrite Hp.
      repeat (rewrite pe_add_r || rewrite pe_smul_r || rewrite pe_opp_r). unfold resp1. mod_norm.
    - apply cmts_complete. congruence.
  Qed.

  (** special soundness: extractor (z - z')/(c' - c) componentwise *)
  Definition exd (c c' a b : K) : K := Fmul K (Finv K (Fsub K c' c)) (Fsub K a b).
  Definition ces_extractor (s : ces_stmt P MC) (c c' : K) (z z' : ces_wit) : ces_wit :=
    (exd c c' (fst z) (fst z'), map2 (fun p q => (exd c c' (fst p) (fst q), exd c c' (snd p) (snd q))) (snd z) (snd z')).
  Lemma cmts_ss c c' (g h : MC) : c <> c' -> forall (cm : list MC) (zs zs' : list (K * K)),
    len zs = len cm -> len zs' = len cm ->
    map2 (fun Ci z => c *: Ci + (fst z *: g + snd z *: h)) cm zs =
    map2 (fun Ci z => c' *: Ci + (fst z *: g + snd z *: h)) cm zs' ->
    cm = map (fun v => fst v *: g + snd v *: h)
             (map2 (fun p q => (exd c c' (fst p) (fst q), exd c c' (snd p) (snd q))) zs zs').
  Proof.
    intros Hc. induction cm as [|C cm IH]; intros [|z zs] [|z' zs'] L L' E; try discriminate; [reflexivity|].
    cbn [map2] in E. injection E as E0 E. cbn [map2 map fst snd]. f_equal.
    - apply (ss_row_l c c' C _ _ Hc) in E0. rewrite E0. unfold exd. mod_norm.
    - apply IH; cbn in *; auto; lia.
  Qed.
  Lemma map_fst_ex c c' : forall zs zs' : list (K * K), len zs = len zs' ->
    map fst (map2 (fun p q => (exd c c' (fst p) (fst q), exd c c' (snd p) (snd q))) zs zs') =
    vscale (Finv K (Fsub K c' c)) (vsub (map fst zs) (map fst zs')).
  Proof.
    unfold vscale, vsub, exd. induction zs as [|z zs IH]; intros [|z' zs'] L; try discriminate; [reflexivity|].
    cbn [map map2 fst]. rewrite IH by (cbn in L; lia). reflexivity.
  Qed.

  Theorem ces_special_sound_ : special_sound ces_proto
    (fun s w => (len (cs_cmts s) <= len (cs_ys s))%nat -> ces_rel s w) ces_extractor.
  Proof.
    intros [a b cm pg gt ys yts xt g h] cmsg c c' [zr zs] [zr' zs'] Hc E E' Hys.
    cbn [p_extract ces_proto] in E, E'. unfold ces_extract, neqb in E, E'.
    cbn [cs_a cs_b cs_cmts cs_pkg cs_gt cs_ys cs_yts cs_xt cs_g cs_h] in *.
    destruct (Nat.eqb (len zs) (len cm)) eqn:L; [|discriminate].
    destruct (Nat.eqb (len zs') (len cm)) eqn:L'; [|discriminate].
    destruct (Nat.ltb (len yts) (len cm)) eqn:Ly; [discriminate|].
    apply Nat.eqb_eq in L, L'. apply Nat.ltb_ge in Ly. cbn [negb] in E, E'.
    rewrite <- E' in E. injection E as E1 E2.
    unfold ces_rel, ces_extractor. cbn [cs_a cs_b cs_cmts cs_pkg cs_gt cs_ys cs_yts cs_xt cs_g cs_h fst snd].
    assert (Lx : len (map2 (fun p q : K * K => (exd c c' (fst p) (fst q), exd c c' (snd p) (snd q))) zs zs') = len cm)
      by (rewrite map2_length, L, L'; apply Nat.min_id).
    repeat split; auto.
    - apply cmts_ss; auto.
    - rewrite map_fst_ex by congruence. rewrite msm_vscale, msm_vsub by (rewrite !map_length; congruence).
      unfold Gsub in *. repeat (rewrite pe_add_r in * || rewrite pe_smul_r in * || rewrite pe_opp_r in *).
      set (Y := pe P b gt + Gopp (PMT P) (pe P a xt)).
      set (A := zr *: pe P a gt + pe P a (msm (map fst zs) yts)).
      set (A' := zr' *: pe P a gt + pe P a (msm (map fst zs') yts)).
      assert (EY : c *: Y + A = c' *: Y + A').
      { transitivity (c *: pe P b gt + (zr *: pe P a gt + (pe P a (msm (map fst zs) yts) + Fopp K c *: pe P a xt)));
          [unfold Y, A; mod_norm|]. rewrite E1. unfold Y, A'. mod_norm. }
      apply (ss_row_l c c' Y A A' Hc) in EY.
      transitivity (Y + pe P a xt); [unfold Y; mod_norm|]. rewrite EY. unfold A, A', exd. mod_norm.
  Qed.

  (** a response with the wrong number of components is rejected *)
  Theorem ces_extract_length_ : forall s c zr zs a, ces_extract s c (zr, zs) = Some a -> len zs = len (cs_cmts s).
  Proof.
    intros s c zr zs a. unfold ces_extract, neqb. destruct (Nat.eqb (len zs) (len (cs_cmts s))) eqn:E; [|discriminate].
    intros _. now apply Nat.eqb_eq.
  Qed.
  Context {CL1 : CodecLaws Cd1} {CL2 : CodecLaws Cd2} {CLC : CodecLaws CdC}.
  (** [public] covers the blinded signature, every commitment, the whole public key (both vectors with
      their lengths) and the commitment key *)
  Theorem ces_public_prefix_free_v1_ :
    public_prefix_free ces_proto V1
      (fun s => (N.of_nat (len (cs_cmts s)) < W64)%N /\ (N.of_nat (len (cs_ys s)) < W32)%N /\ (N.of_nat (len (cs_yts s)) < W32)%N).
  Proof.
    intros [a b cm pg gt ys yts xt g h] [a' b' cm' pg' gt' ys' yts' xt' g' h'] x y (L1 & L2 & L3) (L1' & L2' & L3') E.
    cbn [cs_cmts cs_ys cs_yts] in *. cbn [p_public ces_proto] in E. unfold ces_public in E.
    cbn [cs_a cs_b cs_cmts cs_pkg cs_gt cs_ys cs_yts cs_xt cs_g cs_h] in E. rewrite <- !app_assoc in E.
    unfold msg at 1 4 in E. rewrite <- !app_assoc in E. apply app_inv_head in E.
    apply (serG_split Cd1) in E. destruct E as [-> E]. apply (serG_split Cd1) in E. destruct E as [-> E].
    apply (msgs_v1_split_G CdC) in E; auto. destruct E as [-> E].
    unfold msg at 1 3 in E. rewrite <- !app_assoc in E. apply app_inv_head in E.
    apply (serG_split Cd1) in E. destruct E as [-> E]. apply (serG_split Cd2) in E. destruct E as [-> E].
    apply (ser_vec32_split_G Cd1) in E; auto. destruct E as [-> E].
    apply (ser_vec32_split_G Cd2) in E; auto. destruct E as [-> E].
    apply (serG_split Cd2) in E. destruct E as [-> E].
    unfold msg in E. rewrite <- !app_assoc in E. apply app_inv_head in E.
    apply (serG_split CdC) in E. destruct E as [-> E]. apply (serG_split CdC) in E. destruct E as [-> ->]. auto.
  Qed.
End ComEqSig.
