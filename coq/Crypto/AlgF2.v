(** C12 - the smallest lawful instance of [Alg.v]: the field F2 = bool and F2 as a module over
    itself.  Used only to show that the hypotheses of [transfer_complete] / [sec_to_pub_complete]
    are satisfiable (non-vacuity); the executable runs use Z mod r. *)
From Coq Require Import Bool Ring Field List.
From CB Require Import Crypto.Alg.

Definition F2 : FieldOps := mkFieldOps bool false true xorb andb xorb (fun b => b) andb (fun b => b) Bool.eqb.
Definition F2M : ModOps F2 := mkModOps F2 bool false xorb (fun b => b) andb Bool.eqb.

Lemma F2_laws : FieldLaws F2.
Proof.
  constructor.
  - constructor; cbn.
    + constructor; cbn; intros; repeat match goal with b : bool |- _ => destruct b end; reflexivity.
    + discriminate.
    + reflexivity.
    + intros [|] Hp; [reflexivity|contradiction Hp; reflexivity].
  - intros a b. cbn. apply Bool.eqb_true_iff.
Qed.
Lemma F2M_laws : ModLaws F2M.
Proof.
  constructor; cbn; intros; try (repeat match goal with b : bool |- _ => destruct b end; reflexivity).
  apply Bool.eqb_true_iff.
Qed.
