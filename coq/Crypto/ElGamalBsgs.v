(** C12 - [decrypt_amount] with the baby-step giant-step table in place of the abstract [dlog] of
    [ElGamalExp.v]: the only remaining hypothesis about the decryption table is that the multiples
    [x*h], [x < ord], are pairwise distinct (the generator has order at least [ord]). *)
From Coq Require Import NArith ZArith List Lia Ring Setoid Bool.
From CB Require Import Crypto.Chunks Crypto.ChunksProofs Crypto.ElGamalExp Crypto.Bsgs Crypto.BsgsProofs.
Import ListNotations.
Local Open Scope N_scope.

(** the two chunks of a u64 and their reassembly with a carry in the low chunk (aggregated amounts) *)
Lemma u64_to_chunks_32 x : x < W64 -> u64_to_chunks_checked 32 x = Some [x mod 2 ^ 32; x / 2 ^ 32].
Proof.
  intros Hx. unfold u64_to_chunks_checked. change (32 <? 64) with true. cbv iota.
  change (num_chunks 32) with 2%nat. unfold to_chunks. cbn [to_chunks_gen].
  rewrite !land_mask, N.shiftr_div_pow2. f_equal. f_equal. f_equal.
  apply N.mod_small. apply N.div_lt_upper_bound; [apply N.pow_nonzero; lia|].
  rewrite <- N.pow_add_r. exact Hx.
Qed.

Lemma chunks_to_u64_checked_pair lo hi :
  hi < 2 ^ 32 -> lo + 2 ^ 32 * hi < W64 -> chunks_to_u64_checked 32 [lo; hi] = Some (lo + 2 ^ 32 * hi).
Proof.
  intros Hhi Hsum. unfold chunks_to_u64_checked. cbn [from_chunks_checked].
  change (64 <=? 0) with false. cbv iota. rewrite N.pow_0_r, N.mul_1_r, !N.add_0_l.
  rewrite (N.mod_small lo W64) by lia.
  destruct (N.leb_spec W64 lo); [lia|].
  change (256 <=? 32) with false. change (64 <=? 32) with false. cbv iota.
  assert (Hh : hi * 2 ^ 32 < W64).
  { change W64 with (2 ^ 32 * 2 ^ 32). apply N.mul_lt_mono_pos_r; [apply N.neq_0_lt_0, N.pow_nonzero; lia|exact Hhi]. }
  rewrite (N.mod_small (hi * 2 ^ 32) W64) by exact Hh.
  destruct (N.leb_spec W64 (lo + hi * 2 ^ 32)); [lia|].
  change (256 <=? 32 + 32) with false. cbv iota. f_equal. lia.
Qed.

Section ElGamalBsgs.
  Variable F : Type.
  Variables (f0 f1 : F) (fadd fmul fsub : F -> F -> F) (fopp : F -> F).
  Hypothesis Fring : ring_theory f0 f1 fadd fmul fsub fopp (@eq F).
  Add Ring FRb : Fring.
  Variable G : Type.
  Variables (gzero : G) (gadd : G -> G -> G) (gopp : G -> G) (smul : F -> G -> G) (geqb : G -> G -> bool).
  Hypothesis gadd_assoc : forall a b c, gadd a (gadd b c) = gadd (gadd a b) c.
  Hypothesis gadd_comm : forall a b, gadd a b = gadd b a.
  Hypothesis gadd_0_l : forall a, gadd gzero a = a.
  Hypothesis gadd_opp : forall a, gadd a (gopp a) = gzero.
  Hypothesis smul_add_l : forall x y a, smul (fadd x y) a = gadd (smul x a) (smul y a).
  Hypothesis smul_add_r : forall x a b, smul x (gadd a b) = gadd (smul x a) (smul x b).
  Hypothesis smul_mul : forall x y a, smul (fmul x y) a = smul x (smul y a).
  Hypothesis smul_1 : forall a, smul f1 a = a.
  (** [to_bytes] is a canonical serialisation: equal keys of the HashMap = equal group elements *)
  Hypothesis geqb_spec : forall a b, geqb a b = true <-> a = b.
  Variables (g h : G).
  Local Notation fN := (f_of_N F f0 f1 fadd fmul).
  (** the encryption-in-the-exponent generator has order at least [ord] *)
  Variable ord : N.
  Hypothesis h_inj : forall a b, a < ord -> b < ord -> smul (fN a) h = smul (fN b) h -> a = b.

  Lemma smul_f0 a : smul f0 a = gzero.
  Proof.
    assert (E : gadd (smul f0 a) (smul f0 a) = smul f0 a).
    { rewrite <- smul_add_l. f_equal. ring. }
    transitivity (gadd (gadd (smul f0 a) (smul f0 a)) (gopp (smul f0 a))).
    - rewrite <- gadd_assoc, gadd_opp, gadd_comm, gadd_0_l. reflexivity.
    - rewrite E. apply gadd_opp.
  Qed.

  Lemma nmul_is_smul n : nmul G gzero gadd n h = smul (fN n) h.
  Proof.
    induction n as [|n IH] using N.peano_ind.
    - cbn. symmetry. apply smul_f0.
    - unfold nmul in *. rewrite N.iter_succ, IH. rewrite <- N.add_1_r.
      rewrite (f_of_N_add F f0 f1 fadd fmul fsub fopp Fring), smul_add_l. f_equal. cbn. symmetry. apply smul_1.
  Qed.

  Variable m : N.             (* table size *)
  Variable fuel : nat.        (* bound on the number of giant steps *)
  Hypothesis m_pos : 0 < m.
  Hypothesis m_le : m <= ord.
  Local Notation table := (bsgs_new G gzero gadd gopp h m).
  Local Notation dlogf := (bsgs_dlog G gadd geqb fuel table).

  (** BabyStepGiantStep inverts [x |-> x*h] on [0, B) for every B within the order, 2^64 and the fuel *)
  Theorem dlog_spec_bsgs B : B <= ord -> B <= W64 -> (N.to_nat ((B - 1) / m) < fuel)%nat ->
    forall x, x < B -> dlogf (smul (fN x) h) = x.
  Proof.
    intros HB HB64 Hf x Hx. rewrite <- nmul_is_smul. unfold bsgs_dlog.
    rewrite (bsgs_discrete_log_correct G gzero gadd gopp geqb gadd_assoc gadd_comm gadd_0_l gadd_opp geqb_spec h ord).
    - reflexivity.
    - intros a b Ha Hb. rewrite !nmul_is_smul. apply h_inj; assumption.
    - exact m_pos.
    - exact m_le.
    - lia.
    - lia.
    - assert (Hd : x / m <= (B - 1) / m) by (apply N.div_le_mono; lia).
      set (q := x / m) in *. set (q' := (B - 1) / m) in *. lia.
  Qed.

  Local Notation enc_amt := (encrypt_amount F f0 f1 fadd fmul G gadd smul g h).
  Local Notation dec_amt := (decrypt_amount F G gadd gopp smul dlogf).
  Local Notation pk := (pk_of F G smul g).

  (** ** encrypt then decrypt with the real table algorithm returns the amount *)
  Theorem decrypt_amount_correct_with_bsgs_ :
    2 ^ 32 <= ord -> (N.to_nat ((2 ^ 32 - 1) / m) < fuel)%nat ->
    forall sk x klo khi, x < W64 ->
    exists e, enc_amt (pk sk) x klo khi = Some e /\ dec_amt sk e = Some x.
  Proof.
    intros Hord Hf sk x klo khi Hx.
    eapply (encrypt_decrypt_amount F f0 f1 fadd fmul fsub fopp Fring G gzero gadd gopp smul) with (bound := 2 ^ 32);
      try eassumption.
    - apply dlog_spec_bsgs; [exact Hord|unfold W64; apply N.pow_le_mono_r; lia|exact Hf].
    - apply N.le_refl.
  Qed.

  (** ** aggregate then decrypt: the sum, with a carry out of the low chunk, as long as the
      per-chunk sums stay inside the table range (2^33 - 1 here) and the total fits a u64 *)
  Theorem aggregate_decrypt_amount_with_bsgs_ :
    2 ^ 33 <= ord -> (N.to_nat ((2 ^ 33 - 1) / m) < fuel)%nat ->
    forall sk x y k1 k2 k3 k4, x + y < W64 ->
    exists ex ey, enc_amt (pk sk) x k1 k2 = Some ex /\ enc_amt (pk sk) y k3 k4 = Some ey
      /\ dec_amt sk (aggregate G gadd ex ey) = Some (x + y).
  Proof.
    intros Hord Hf sk x y k1 k2 k3 k4 Hxy.
    assert (Hx : x < W64) by lia. assert (Hy : y < W64) by lia.
    unfold encrypt_amount. rewrite (u64_to_chunks_32 x Hx), (u64_to_chunks_32 y Hy).
    eexists. eexists. split; [reflexivity|]. split; [reflexivity|].
    unfold decrypt_amount, decrypt_chunk, aggregate. cbn [fst snd].
    rewrite !(aggregate_sum F f0 f1 fadd fmul fsub fopp Fring G gzero gadd gopp smul gadd_assoc gadd_comm gadd_0_l gadd_opp smul_add_l smul_add_r smul_mul).
    rewrite <- !(f_of_N_add F f0 f1 fadd fmul fsub fopp Fring).
    assert (P32 : 2 ^ 32 = 4294967296) by reflexivity.
    assert (P33 : 2 ^ 33 = 8589934592) by reflexivity.
    assert (P64 : W64 = 18446744073709551616) by reflexivity.
    pose proof (N.div_mod x (2 ^ 32) ltac:(rewrite P32; lia)) as Dx.
    pose proof (N.div_mod y (2 ^ 32) ltac:(rewrite P32; lia)) as Dy.
    pose proof (N.mod_lt x (2 ^ 32) ltac:(rewrite P32; lia)) as Mx.
    pose proof (N.mod_lt y (2 ^ 32) ltac:(rewrite P32; lia)) as My.
    set (xl := x mod 2 ^ 32) in *. set (yl := y mod 2 ^ 32) in *.
    set (xh := x / 2 ^ 32) in *. set (yh := y / 2 ^ 32) in *.
    assert (Hspec : forall v, v < 2 ^ 33 -> dlogf (smul (fN v) h) = v).
    { apply dlog_spec_bsgs; [exact Hord|unfold W64; apply N.pow_le_mono_r; lia|exact Hf]. }
    rewrite P32, P33, P64 in *.
    rewrite !Hspec by lia.
    pose proof (chunks_to_u64_checked_pair (xl + yl) (xh + yh)) as Hp. rewrite P32, P64 in Hp.
    rewrite Hp by lia. f_equal. lia.
  Qed.
End ElGamalBsgs.
