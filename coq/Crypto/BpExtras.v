(** C11 - two facts left open in the first round:
    (1) [svec_iter] (verify_scalars as coded: indices, floor(log2 i), u_sq table) equals the recursive
        [svec] used by the completeness theorems, for every list of invertible challenges;
    (2) the scalar represented by the n low bits of v, <bits_n(v), (1,2,..,2^(n-1))> in F, is the image
        of v mod 2^n under the canonical ring homomorphism Z -> F ([gen_phiZ], what
        [scalar_from_u64] computes).                                                            *)
From Coq Require Import List Ring Lia Arith ZArith InitialRing.
From CB Require Import Crypto.BpAlg Crypto.Ipa Crypto.RangeProof.
Import ListNotations.

Section Extras.
  Variable Ops : bp_ops.
  Local Notation F := (o_F Ops).
  Local Notation f0 := (o_f0 Ops).
  Local Notation f1 := (o_f1 Ops).
  Local Notation fadd := (o_fadd Ops).
  Local Notation fmul := (o_fmul Ops).
  Local Notation fsub := (o_fsub Ops).
  Local Notation fopp := (o_fopp Ops).
  Local Notation vscale := (vscale Ops).
  Local Notation dot := (dot Ops).
  Local Notation svec := (svec Ops).
  Local Notation svec_iter := (svec_iter Ops).
  Local Notation svec_iter_go := (svec_iter_go Ops).
  Local Notation s_zero := (s_zero Ops).
  Local Notation powers_from := (powers_from Ops).
  Local Notation two_n_vec := (two_n_vec Ops).
  Local Notation fbits := (fbits Ops).
  Local Notation fbit := (fbit Ops).

  Hypothesis Fth : ring_theory f0 f1 fadd fmul fsub fopp (@eq F).
  Add Ring Fring2 : Fth.

  (** * (1) verify_scalars *)
  Lemma go_add : forall a b i usq k s,
    svec_iter_go (a + b) i usq k s = svec_iter_go b (i + a) usq k (svec_iter_go a i usq k s).
  Proof.
    induction a as [|a IH]; intros b i usq k s.
    - cbn [Nat.add Ipa.svec_iter_go]. rewrite Nat.add_0_r. reflexivity.
    - cbn [Nat.add Ipa.svec_iter_go]. rewrite IH. replace (S i + a) with (i + S a) by lia. reflexivity.
  Qed.

  Lemma firstn_S_nth {A} (d : A) : forall c (s : list A), c < length s ->
    firstn (S c) s = firstn c s ++ [nth c s d].
  Proof.
    induction c as [|c IH]; intros [|x s] H; cbn [length] in H; try lia.
    - reflexivity.
    - change (x :: firstn (S c) s = (x :: firstn c s) ++ [nth c s d]). cbn [app]. f_equal. apply IH. lia.
  Qed.

  (** one block [2^t, 2^(t+1)) appends the current vector scaled by u_sq[k-1-t] *)
  Lemma go_block t usq k s : length s = Nat.pow 2 t ->
    forall j c, c + j = Nat.pow 2 t ->
    svec_iter_go j (Nat.pow 2 t + c) usq k (s ++ map (fun x => fmul x (nth (k - 1 - t) usq f0)) (firstn c s))
    = s ++ map (fun x => fmul x (nth (k - 1 - t) usq f0)) s.
  Proof.
    intros Hs. induction j as [|j IH]; intros c Hc.
    - cbn [Ipa.svec_iter_go]. rewrite firstn_all2 by lia. reflexivity.
    - cbn [Ipa.svec_iter_go].
      assert (Hlg : Nat.log2 (Nat.pow 2 t + c) = t).
      { apply Nat.log2_unique; [lia|]. cbn [Nat.pow]. lia. }
      rewrite Hlg. replace (Nat.pow 2 t + c - Nat.pow 2 t) with c by lia.
      rewrite app_nth1 by lia.
      replace (S (Nat.pow 2 t + c)) with (Nat.pow 2 t + S c) by lia.
      rewrite <- (IH (S c)) by lia. f_equal.
      rewrite (firstn_S_nth f0 c s) by lia. rewrite map_app, <- app_assoc. reflexivity.
  Qed.

  Fixpoint dbl (usq : list F) (k t : nat) (z : F) : list F :=
    match t with
    | O => [z]
    | S t' => let s := dbl usq k t' z in s ++ map (fun x => fmul x (nth (k - 1 - t') usq f0)) s
    end.

  Lemma dbl_length usq k z : forall t, length (dbl usq k t z) = Nat.pow 2 t.
  Proof. induction t; cbn [dbl length Nat.pow]; [reflexivity|]. rewrite app_length, map_length, IHt. lia. Qed.

  Lemma go_is_dbl usq k z : forall t,
    svec_iter_go (Nat.pow 2 t - 1) 1 usq k [z] = dbl usq k t z.
  Proof.
    induction t as [|t IH].
    - reflexivity.
    - replace (Nat.pow 2 (S t) - 1) with ((Nat.pow 2 t - 1) + Nat.pow 2 t)
        by (cbn [Nat.pow]; pose proof (Nat.pow_nonzero 2 t); lia).
      rewrite go_add, IH.
      replace (1 + (Nat.pow 2 t - 1)) with (Nat.pow 2 t + 0) by (pose proof (Nat.pow_nonzero 2 t); lia).
      pose proof (go_block t usq k (dbl usq k t z) (dbl_length usq k z t) (Nat.pow 2 t) 0 ltac:(lia)) as B.
      cbn [firstn map] in B. rewrite app_nil_r in B. rewrite B. reflexivity.
  Qed.

  Lemma dbl_scale usq k c z : forall t, dbl usq k t (fmul c z) = vscale c (dbl usq k t z).
  Proof.
    induction t; cbn [dbl].
    - reflexivity.
    - rewrite IHt. unfold BpAlg.vscale. rewrite map_app, !map_map. f_equal.
      apply map_ext. intros x. ring.
  Qed.

  Lemma dbl_tail u usq k z : forall t, t <= k ->
    dbl (u :: usq) (S k) t z = dbl usq k t z.
  Proof.
    induction t as [|t IH]; intros Ht; cbn [dbl]; [reflexivity|].
    rewrite IH by lia. f_equal. apply map_ext. intros x. f_equal.
    replace (S k - 1 - t) with (S (k - 1 - t)) by lia. reflexivity.
  Qed.

  Lemma s_zero_acc : forall us acc, fold_left (fun a p => fmul a (snd p)) us acc = fmul acc (fold_left (fun a (p : F * F) => fmul a (snd p)) us f1).
  Proof.
    induction us as [|p us IH]; intros acc; cbn [fold_left].
    - ring.
    - rewrite IH. rewrite (IH (fmul f1 (snd p))). ring.
  Qed.

  Theorem svec_iter_eq_svec : forall us,
    Forall (fun p => fmul (fst p) (snd p) = f1) us -> svec_iter us = svec us.
  Proof.
    intros us. unfold Ipa.svec_iter. rewrite go_is_dbl.
    induction us as [|[u ui] us IH]; intros Hinv.
    - reflexivity.
    - inversion Hinv as [|? ? Hu Hinv']; subst. cbn [fst snd] in Hu.
      cbn [length map fst snd Ipa.svec]. cbn [dbl].
      replace (S (length us) - 1 - length us) with 0 by lia. cbn [nth].
      rewrite dbl_tail by lia.
      assert (Hz : s_zero ((u, ui) :: us) = fmul ui (s_zero us)).
      { unfold Ipa.s_zero. cbn [fold_left snd]. rewrite s_zero_acc. ring. }
      rewrite Hz, dbl_scale, (IH Hinv').
      f_equal. unfold BpAlg.vscale. rewrite map_map. apply map_ext. intros x.
      transitivity (fmul (fmul u x) (fmul u ui)); [ring | rewrite Hu; ring].
  Qed.

  (** * (2) the value of a bit vector *)
  Definition fofZ (v : Z) : F := gen_phiZ f0 f1 fadd fmul fopp v.
  Lemma fofZ_add x y : fofZ (x + y) = fadd (fofZ x) (fofZ y).
  Proof. apply (gen_phiZ_add (Eqsth F) (Eq_ext fadd fmul fopp) Fth). Qed.
  Lemma fofZ_mul x y : fofZ (x * y) = fmul (fofZ x) (fofZ y).
  Proof. apply (gen_phiZ_mul (Eqsth F) (Eq_ext fadd fmul fopp) Fth). Qed.

  Lemma powers_scale z : forall n c, powers_from z (fmul c z) n = vscale z (powers_from z c n).
  Proof.
    induction n; intros c; cbn [BpAlg.powers_from]; [reflexivity|].
    unfold BpAlg.vscale. cbn [map]. f_equal; [ring|]. apply IHn.
  Qed.

  Lemma fbits_S v n : fbits v (S n) = fbit v 0 :: fbits (v / 2) n.
  Proof.
    unfold RangeProof.fbits. cbn [seq map]. f_equal. rewrite <- seq_shift, map_map. apply map_ext.
    intros i. unfold RangeProof.fbit. rewrite Nat2Z.inj_succ, Z.div2_bits by lia. reflexivity.
  Qed.

  Lemma two_n_S n : two_n_vec (S n) = f1 :: vscale (fadd f1 f1) (two_n_vec n).
  Proof. unfold RangeProof.two_n_vec. cbn [BpAlg.powers_from]. f_equal. apply powers_scale. Qed.

  Lemma dot_cons' x a y b : dot (x :: a) (y :: b) = fadd (fmul x y) (dot a b).
  Proof. reflexivity. Qed.
  Lemma dot_vscale_r' : forall c u p, dot u (vscale c p) = fmul c (dot u p).
  Proof.
    induction u as [|x u IH]; intros [|y p].
    - change (dot [] (vscale c [])) with f0. change (dot [] []) with f0. ring.
    - change (dot [] (vscale c (y :: p))) with f0. change (dot [] (y :: p)) with f0. ring.
    - change (dot (x :: u) (vscale c [])) with f0. change (dot (x :: u) []) with f0. ring.
    - change (vscale c (y :: p)) with (fmul c y :: vscale c p). rewrite !dot_cons', IH. ring.
  Qed.

  Theorem fval_canonical : forall n v,
    dot (fbits v n) (two_n_vec n) = fofZ (v mod 2 ^ Z.of_nat n).
  Proof.
    induction n as [|n IH]; intros v.
    - cbn [Z.of_nat Z.pow]. rewrite Z.mod_1_r. reflexivity.
    - rewrite fbits_S, two_n_S. rewrite dot_cons', dot_vscale_r', IH.
      rewrite Nat2Z.inj_succ, Z.pow_succ_r by lia.
      rewrite (Z.rem_mul_r v 2 (2 ^ Z.of_nat n)) by lia.
      rewrite fofZ_add, fofZ_mul.
      replace (fofZ 2) with (fadd f1 f1) by reflexivity.
      replace (fofZ (v mod 2)) with (fbit v 0).
      + ring.
      + unfold RangeProof.fbit. cbn [Z.of_nat]. rewrite <- Z.bit0_mod.
        destruct (Z.testbit v 0); reflexivity.
  Qed.

  (** for 0 <= v < 2^n the committed scalar is the canonical image of v itself *)
  Corollary fval_in_range : forall n v, (0 <= v < 2 ^ Z.of_nat n)%Z ->
    dot (fbits v n) (two_n_vec n) = fofZ v.
  Proof. intros n v H. rewrite fval_canonical, Z.mod_small by exact H. reflexivity. Qed.
End Extras.
