(** C07 round 4: executable entry point for DlogAndAggregateDlogsEqual (dlogaggequal.rs, a private
    reference module reached through the cfg hook [sigma_protocols::verif_dlogaggequal]) "in the
    exponent".  Definitions only.

    Flat layouts (the harness builds aggregate i with 1 + (i mod 3) coefficients, so the sizes are a
    function of the number k of aggregates, which the check prepends):
      pubs = k :: [dlog.public; dlog.coeff] ++ per aggregate (public :: coeffs)
      wit  = k :: common :: remaining exponents per aggregate
      resp = k :: response scalars per aggregate ++ [response_common]   (the order of the serialized response) *)
From Coq Require Import ZArith NArith List String Bool.
From CB Require Import Crypto.Alg Crypto.Transcript Crypto.SigmaGeneric Crypto.SigmaCodec Crypto.SigmaExec
  Crypto.Sigma_dlog Crypto.Sigma_aggregate_dlog Crypto.Sigma_dlogaggequal.
Import ListNotations.
Local Open Scope Z_scope.
Local Open Scope bool_scope.

Definition dae_size (i : nat) : nat := S (Nat.modulo i 3).
(** [k] aggregates starting with number [i] *)
Fixpoint dae_aggs (k i : nat) (l : list Z) : list (agg_stmt (K:=ZrF) ZrG) :=
  match k with
  | O => []
  | S k' => let n := dae_size i in
            @mkAgg ZrF ZrG (nz l 0) (firstn n (tl l)) :: dae_aggs k' (S i) (skipn (S n) l)
  end.
(** the per-aggregate scalar vectors (size - 1 each) and what is left *)
Fixpoint dae_vecs (k i : nat) (l : list Z) : list (list Z) * list Z :=
  match k with
  | O => ([], l)
  | S k' => let n := Nat.pred (dae_size i) in
            let '(vs, r) := dae_vecs k' (S i) (skipn n l) in (firstn n l :: vs, r)
  end.
Definition dae_rec (c z w : Z) : Z := fadd z (fmul c w).
Definition X_dlogaggequal : xproto := {|
  xp := dae_proto ZrCodec;
  x_stmt := fun p0 => let k := Z.to_nat (nz p0 0) in
    (@mkDlog ZrF ZrG (nz p0 1) (nz p0 2), dae_aggs k 0 (skipn 3 p0));
  x_wit := fun w0 => let k := Z.to_nat (nz w0 0) in (nz w0 1, fst (dae_vecs k 0 (skipn 2 w0)));
  x_resp := fun z0 => let k := Z.to_nat (nz z0 0) in
    let '(vs, r) := dae_vecs k 0 (tl z0) in (nz r 0, vs);
  x_recover := fun s w c z => (dae_rec c (fst z) (fst w), map2 (map2 (dae_rec c)) (snd z) (snd w));
  x_relb := fun s w =>
    geq (dl_public (fst s)) (smul ZrG (fst w) (dl_coeff (fst s)))
    && Nat.eqb (List.length (snd s)) (List.length (snd w))
    && forallb (fun b => b)
         (map2 (fun (a : agg_stmt (K:=ZrF) ZrG) (ws : list Z) => Nat.eqb (S (List.length ws)) (List.length (ag_coeff a))
                            && geq (ag_public a) (msm (M:=ZrG) (fst w :: ws) (ag_coeff a))) (snd s) (snd w)) |}.

(** a truncated response (k - 1 inner vectors for a statement with k aggregates): parsed with the
    response's own count [kz] *)
Definition x_verify_dae_trunc (k : tkind) (ctx : bytes) (pub : list Z) (chal : bytes) (kz : nat) (resp : list Z)
  : option (Z * bytes * bytes) :=
  let s := x_stmt X_dlogaggequal pub in
  let '(vs, r) := dae_vecs kz 0 resp in
  let z : p_resp (xp X_dlogaggequal) := (nz r 0, vs) in
  let c := scalar_from_bytes_bls chal in
  match p_extract (xp X_dlogaggequal) s c z with
  | Some a => Some (c, pack (frame (xp X_dlogaggequal) k ctx s a), pack (after (xp X_dlogaggequal) k ctx s a z))
  | None => None
  end.
