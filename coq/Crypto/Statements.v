(** C18 - attribute values, their scalar encoding, atomic statements, the honest prover's guards
    and the transcript contents of statement proofs / presentations.  Definitions only (executable).

    Anchors (rust-src/concordium_base/src):
      id/constants.rs           AttributeKind::to_field_element  (buf[0] = len, string right-aligned
                                in buf[1..32], zero padding in between, 32-byte big-endian scalar)
      web3id/mod.rs             Web3IdAttribute::{String,Numeric,Timestamp}::to_field_element, derived Ord
      id/id_proof_types.rs      AtomicStatement (reveal / in range [lower,upper) / in set / not in set)
      web3id/v1.rs              AtomicStatementV1::AttributeValue ("equals")
      id/id_prover.rs           AtomicStatement::prove, prove_attribute_in_range
      bulletproofs/range_proof.rs      prove_in_range -> prove_given_scalars (limb 0 of each scalar), n = 64, m = 2
      bulletproofs/set_membership_proof.rs       a_L_a_R (None when v not in the set), generators check
      bulletproofs/set_non_membership_proof.rs   inverse of (v - s_i) (None when v in the set)
      bulletproofs/inner_product_proof.rs        n.is_power_of_two() (false for n = 0)
      bulletproofs/utils.rs     pad_vector_to_power_of_two
      random_oracle/mod.rs      TranscriptProtocolV1 / RandomOracle framing
      id/id_prover.rs, web3id/proofs.rs, web3id/v1/proofs.rs   which fields enter the transcript *)
From Coq Require Import ZArith NArith List Bool Lia.
Import ListNotations.
Local Open Scope N_scope.

(** * Attribute values *)

(** [AStr] is [AttributeKind] (and [Web3IdAttribute::String]); [ANum] / [ATime] are
    [Web3IdAttribute::Numeric(u64)] / [::Timestamp(millis : u64)].  Bytes are [N] below 256. *)
Inductive attr :=
| AStr (bs : list N)
| ANum (n : N)
| ATime (ms : N).

Definition bytes_ok (bs : list N) : bool := forallb (fun b => b <? 256) bs.

Definition wf_attr (a : attr) : bool :=
  match a with
  | AStr bs => Nat.leb (length bs) 31 && bytes_ok bs
  | ANum n => n <? 2 ^ 64
  | ATime n => n <? 2 ^ 64
  end.

(** big-endian value of a byte string *)
Fixpoint be_val (bs : list N) : N :=
  match bs with
  | [] => 0
  | b :: t => b * 256 ^ N.of_nat (length t) + be_val t
  end.

(** the 32-byte buffer built by [AttributeKind::to_field_element] *)
Definition attr_buf (bs : list N) : list N :=
  N.of_nat (length bs) :: repeat 0 (31 - length bs) ++ bs.

(** [to_field_element] as an integer (it is below the group order, see [encode_lt_2_253]) *)
Definition encode (a : attr) : N :=
  match a with
  | AStr bs => be_val (attr_buf bs)
  | ANum n => n
  | ATime n => n
  end.

(** closed form used in the statements of the theorems *)
Definition encode_closed (a : attr) : N :=
  match a with
  | AStr bs => N.of_nat (length bs) * 2 ^ 248 + be_val bs
  | ANum n => n
  | ATime n => n
  end.

(** big-endian bytes of fixed width (what [Serial] of a scalar writes) *)
Fixpoint to_be (w : nat) (x : N) : list N :=
  match w with
  | O => []
  | S w' => (x / 256 ^ N.of_nat w') mod 256 :: to_be w' x
  end.
Definition encode_bytes (a : attr) : list N := to_be 32 (encode a).

(** normal form modulo the collisions of [encode] between kinds: the empty string, Numeric 0 and
    Timestamp 0 all encode to 0; Numeric n and Timestamp n always coincide *)
Definition canon (a : attr) : attr :=
  match a with
  | AStr [] => ANum 0
  | AStr bs => AStr bs
  | ANum n => ANum n
  | ATime n => ANum n
  end.

Definition same_kind (a b : attr) : bool :=
  match a, b with
  | AStr _, AStr _ | ANum _, ANum _ | ATime _, ATime _ => true
  | _, _ => false
  end.

(** * The orders *)

(** Rust [Ord] of [String]: bytewise lexicographic, a proper prefix is smaller *)
Fixpoint lex_cmp (a b : list N) : comparison :=
  match a, b with
  | [], [] => Eq
  | [], _ :: _ => Lt
  | _ :: _, [] => Gt
  | x :: a', y :: b' =>
      match x ?= y with
      | Eq => lex_cmp a' b'
      | c => c
      end
  end.

(** derived [Ord] of [Web3IdAttribute]: variant order String < Numeric < Timestamp, then payload.
    (It orders the [BTreeSet] of a set statement, i.e. the vector that is padded and hashed.) *)
Definition attr_cmp (a b : attr) : comparison :=
  match a, b with
  | AStr x, AStr y => lex_cmp x y
  | AStr _, _ => Lt
  | ANum _, AStr _ => Gt
  | ANum n, ANum m => n ?= m
  | ANum _, ATime _ => Lt
  | ATime n, ATime m => n ?= m
  | ATime _, _ => Gt
  end.

(** the order the proofs are about: the order of the scalars *)
Definition enc_ltb (a b : attr) : bool := encode a <? encode b.

(** shortlex: the order of the scalars restricted to strings *)
Definition shortlex_lt (x y : list N) : Prop :=
  (length x < length y)%nat \/ (length x = length y /\ lex_cmp x y = Lt).

(** * Statements and their truth *)

Inductive stmt :=
| SReveal (tag : N)
| SRange (tag : N) (lo hi : attr)
| SInSet (tag : N) (set : list attr)
| SNotInSet (tag : N) (set : list attr)
| SValue (tag : N) (v : attr).

Definition stmt_tag (s : stmt) : N :=
  match s with
  | SReveal t | SRange t _ _ | SInSet t _ | SNotInSet t _ | SValue t _ => t
  end.

Definition alist := list (N * attr).

Fixpoint lookup (tag : N) (al : alist) : option attr :=
  match al with
  | [] => None
  | (t, a) :: rest => if t =? tag then Some a else lookup tag rest
  end.

(** membership is membership of the scalar in the vector of scalars (a_L_a_R compares scalars) *)
Definition mem_enc (v : N) (set : list attr) : bool := existsb (fun x => encode x =? v) set.

Definition holds_value (v : attr) (s : stmt) : bool :=
  match s with
  | SReveal _ => true
  | SRange _ lo hi => (encode lo <=? encode v) && (encode v <? encode hi)
  | SInSet _ set => mem_enc (encode v) set
  | SNotInSet _ set => negb (mem_enc (encode v) set)
  | SValue _ w => encode w =? encode v
  end.

Definition holds (al : alist) (s : stmt) : bool :=
  match lookup (stmt_tag s) al with
  | None => false
  | Some v => holds_value v s
  end.

Definition all_hold (al : alist) (ss : list stmt) : bool := forallb (holds al) ss.

(** Prop-level specification of truth *)
Definition Holds (al : alist) (s : stmt) : Prop :=
  exists v, lookup (stmt_tag s) al = Some v /\
  match s with
  | SReveal _ => True
  | SRange _ lo hi => encode lo <= encode v < encode hi
  | SInSet _ set => exists x, In x set /\ encode x = encode v
  | SNotInSet _ set => forall x, In x set -> encode x <> encode v
  | SValue _ w => encode w = encode v
  end.

(** * The in-range arithmetic (prove_in_range / verify_in_range, n = 64) *)

Local Open Scope Z_scope.
Definition W64 : Z := 2 ^ 64.
Definition R_BLS : Z := 0x73eda753299d7d483339d80809a1d80553bda402fffe5bfeffffffff00000001.

(** the two scalars the verifier derives commitments to: v + 2^64 - b and v - a in the field *)
Definition range_scalars (r v a b : Z) : Z * Z := ((v + W64 - b) mod r, (v - a) mod r).
(** the two u64 the prover range-proves: [prove_given_scalars] keeps limb 0 of each scalar *)
Definition range_proved (r v a b : Z) : Z * Z :=
  (fst (range_scalars r v a b) mod W64, snd (range_scalars r v a b) mod W64).
Definition in_u64 (x : Z) : bool := (0 <=? x) && (x <? W64).
(** both committed scalars lie in [0, 2^64): what a verifying range proof establishes *)
Definition range_scalars_ok (r v a b : Z) : bool :=
  in_u64 (fst (range_scalars r v a b)) && in_u64 (snd (range_scalars r v a b)).
(** the honest proof is about [range_proved]; the verifier checks it against commitments to
    [range_scalars]: it can only verify when the two pairs coincide *)
Definition range_verifies (r v a b : Z) : bool :=
  (fst (range_scalars r v a b) =? fst (range_proved r v a b))
  && (snd (range_scalars r v a b) =? snd (range_proved r v a b)).

(** * The honest prover *)

(** [pad_vector_to_power_of_two]: 0 stays 0, otherwise next power of two *)
Fixpoint next_pow2_from (fuel k n : nat) : nat :=
  if Nat.leb n k then k else
  match fuel with O => k | S f => next_pow2_from f (2 * k) n end.
Definition padded_len (n : nat) : nat :=
  match n with O => O | _ => next_pow2_from n 1 n end.

(** the vector of scalars of a set statement after padding (repeat the last element) *)
Definition pad_pow2 {A} (l : list A) : list A :=
  match l with
  | [] => []
  | x :: _ => l ++ repeat (last l x) (padded_len (length l) - length l)
  end.

Inductive outcome :=
| Refuse       (* [prove] returns None / an error *)
| ProofOk      (* a proof is produced and it verifies (given completeness of the sub-protocol) *)
| ProofBad.    (* a proof is produced, but it is a proof about other values than the committed ones *)

(** [gens] = number of bulletproof generator pairs in the global context (256 on chain) *)
Definition prover_outcome (r : Z) (gens : nat) (v : attr) (s : stmt) : outcome :=
  match s with
  | SReveal _ => ProofOk
  | SValue _ w => if (encode w =? encode v)%N then ProofOk else ProofBad
  | SRange _ lo hi =>
      if Nat.ltb gens 128 then Refuse
      else if range_verifies r (Z.of_N (encode v)) (Z.of_N (encode lo)) (Z.of_N (encode hi))
           then ProofOk else ProofBad
  | SInSet _ set =>
      if Nat.ltb gens (padded_len (length set)) then Refuse
      else if mem_enc (encode v) set then ProofOk else Refuse
  | SNotInSet _ set =>
      if Nat.ltb gens (padded_len (length set)) then Refuse
      else if mem_enc (encode v) set then Refuse
      else match set with [] => Refuse | _ => ProofOk end
  end.

Definition outcome_of (r : Z) (gens : nat) (al : alist) (s : stmt) : outcome :=
  match lookup (stmt_tag s) al with
  | None => Refuse
  | Some v => prover_outcome r gens v s
  end.

Definition is_ok (o : outcome) : bool := match o with ProofOk => true | _ => false end.

(** the honest prover yields a verifying proof *)
Definition accepts (r : Z) (gens : nat) (al : alist) (s : stmt) : bool :=
  is_ok (outcome_of r gens al s).

(** [Statement::prove] / [prove_statements]: all or nothing, in order *)
Definition prove_all (r : Z) (gens : nat) (al : alist) (ss : list stmt) : option (list outcome) :=
  let os := map (outcome_of r gens al) ss in
  if existsb (fun o => match o with Refuse => true | _ => false end) os then None else Some os.
Definition accepts_all (r : Z) (gens : nat) (al : alist) (ss : list stmt) : bool :=
  forallb (accepts r gens al) ss.

(** the part of the statement space on which the implementation can prove every true statement *)
Definition supported (gens : nat) (v : attr) (s : stmt) : bool :=
  match s with
  | SReveal _ | SValue _ _ => true
  | SRange _ lo hi =>
      Nat.leb 128 gens
      && (Z.of_N (encode v) - Z.of_N (encode lo) <? W64)
      && (Z.of_N (encode hi) - Z.of_N (encode v) <=? W64)
  | SInSet _ set => Nat.leb (padded_len (length set)) gens
  | SNotInSet _ set =>
      Nat.leb (padded_len (length set)) gens && match set with [] => false | _ => true end
  end.

Definition wf_stmt (s : stmt) : bool :=
  match s with
  | SReveal _ => true
  | SRange _ lo hi => wf_attr lo && wf_attr hi
  | SInSet _ set | SNotInSet _ set => forallb wf_attr set
  | SValue _ w => wf_attr w
  end.

Definition supported_al (gens : nat) (al : alist) (s : stmt) : bool :=
  match lookup (stmt_tag s) al with None => true | Some v => supported gens v s end.

Definition wf_alist (al : alist) : bool := forallb (fun p => wf_attr (snd p)) al.

(** * Request anchors: matching the claims of a presentation against the anchored request
    (web3id/v1/anchor/verify.rs [verify_request_subject_claims], [verify_request_subject_claims_list]) *)

Local Open Scope N_scope.
Inductive cred_kind := KAccount | KIdentity.
Definition kind_eqb (a b : cred_kind) : bool :=
  match a, b with KAccount, KAccount | KIdentity, KIdentity => true | _, _ => false end.

(** an allowed issuer: identity provider index AND network (one entry) *)
Record issuer_did := Did { did_ip : N; did_net : N }.
Record req_claims := ReqClaims { rq_stmts : list stmt; rq_issuers : list issuer_did; rq_source : list cred_kind }.
Record pres_claims := PresClaims { pc_kind : cred_kind; pc_issuer : N; pc_net : N; pc_stmts : list stmt }.
Inductive match_result := MOk | MFailType | MFailIssuer | MFailClaims.

(** [statement_to_requested_statement]: an attribute-value statement answers a reveal request *)
Definition to_requested (s : stmt) : stmt := match s with SValue t _ => SReveal t | x => x end.

Definition attr_eq_dec : forall a b : attr, {a = b} + {a <> b}.
Proof. decide equality; try apply N.eq_dec. apply (list_eq_dec N.eq_dec). Defined.
Definition stmt_eq_dec : forall a b : stmt, {a = b} + {a <> b}.
Proof. decide equality; try apply N.eq_dec; try apply attr_eq_dec; apply (list_eq_dec attr_eq_dec). Defined.
Definition stmts_eqb (a b : list stmt) : bool := if list_eq_dec stmt_eq_dec a b then true else false.

(** ONE entry has to match both fields *)
Definition issuer_allowed (rq : req_claims) (pc : pres_claims) : bool :=
  existsb (fun d => (did_ip d =? pc_issuer pc) && (did_net d =? pc_net pc)) (rq_issuers rq).
(** the weaker, field-wise reading (some entry has the provider, some entry has the network) *)
Definition issuer_allowed_fieldwise (rq : req_claims) (pc : pres_claims) : bool :=
  existsb (fun d => did_ip d =? pc_issuer pc) (rq_issuers rq)
  && existsb (fun d => did_net d =? pc_net pc) (rq_issuers rq).

Definition claims_match (rq : req_claims) (pc : pres_claims) : match_result :=
  if negb (existsb (kind_eqb (pc_kind pc)) (rq_source rq)) then MFailType
  else if negb (issuer_allowed rq pc) then MFailIssuer
  else if negb (stmts_eqb (map to_requested (pc_stmts pc)) (rq_stmts rq)) then MFailClaims
  else MOk.

(** [zip_longest]: lists of different length never match; the first failure is reported *)
Fixpoint claims_list_match (rqs : list req_claims) (pcs : list pres_claims) : match_result :=
  match pcs, rqs with
  | [], [] => MOk
  | pc :: pcs', rq :: rqs' =>
      match claims_match rq pc with MOk => claims_list_match rqs' pcs' | e => e end
  | _, _ => MFailClaims
  end.

(** [verify_credential_validity]: EVERY credential of the presentation has to be valid at the
    verification time: valid_from <= now < valid_to  (integers = milliseconds) *)
Definition valid_at (now : N) (v : N * N) : bool := (fst v <=? now) && (now <? snd v).
Definition all_valid_at (now : N) (vs : list (N * N)) : bool := forallb (valid_at now) vs.
(** the weaker reading in which only the last credential decides *)
Definition last_valid_at (now : N) (vs : list (N * N)) : bool :=
  match rev vs with [] => true | v :: _ => valid_at now v end.

(** [verify_identity_attributes] (id/identity_attributes_credentials.rs): the structural checks in
    front of the sigma-proof verification.  [ncoeff] = number of commitments to the coefficients of
    the IdCredSec sharing polynomial published in the proof; [threshold] = the revocation threshold
    claimed in the values (and signed by the identity provider). *)
Inductive ia_verdict := IAOk | IAFailSignature | IAFailAr | IAFailProof.
Definition identity_attributes_verdict (ip_matches : bool) (threshold ncoeff : N) (sigma_ok : bool) : ia_verdict :=
  if negb ip_matches then IAFailSignature
  else if negb (threshold =? ncoeff) then IAFailAr
  else if negb sigma_ok then IAFailProof else IAOk.
(** the weaker test "threshold > ncoeff fails" *)
Definition threshold_check_gt (threshold ncoeff : N) : bool := negb (ncoeff <? threshold).

(** * Transcripts: labelled byte strings and the two framings *)

Local Open Scope N_scope.
Record item := Item { i_label : list N; i_body : list N }.

Definition u64be (n : N) : list N := to_be 8 n.
Definition len64 (l : list N) : list N := u64be (N.of_nat (length l)).

(** TranscriptProtocolV1: append_label = 8-byte BE length ++ label; append_message = that ++ Serial *)
Definition frame_item_v1 (i : item) : list N := len64 (i_label i) ++ i_label i ++ i_body i.
Definition frame_v1 (l : list item) : list N := concat (map frame_item_v1 l).
(** legacy RandomOracle: raw label bytes ++ Serial *)
Definition frame_item_v0 (i : item) : list N := i_label i ++ i_body i.
Definition frame_v0 (l : list item) : list N := concat (map frame_item_v0 l).

(** the challenge a Fiat-Shamir step derives: hash of everything absorbed so far *)
Definition challenge_of (H : list N -> list N) (absorbed : list N) : list N := H absorbed.

From Coq Require Import String Ascii.
Definition bytes_of_string (s : string) : list N := map N_of_ascii (list_ascii_of_string s).
Definition L (s : string) : item := Item (bytes_of_string s) [].
Definition M (s : string) (body : list N) : item := Item (bytes_of_string s) body.
(** raw bytes without label ([RandomOracle::add_bytes]) *)
Definition Raw (body : list N) : item := Item [] body.

(** ** Which fields enter which transcript, in order.  Arguments are the [Serial] bytes of the fields. *)

(** id_prover.rs [StatementWithContext::prove] / id_verifier.rs [Statement::verify] (legacy framing):
    domain, "ctx" global context, the RAW challenge bytes, "credential" cred id. *)
Definition id_header (global challenge cred : list N) : list item :=
  [ M "Concordium ID2.0 proof" []; M "ctx" global; Raw challenge; M "credential" cred ].

(** web3id/proofs.rs [Request::prove_with_rng] / [Presentation::verify] (legacy framing):
    domain, RAW 32-byte challenge, "ctx" global context.  Credential metadata is NOT absorbed
    (web3 credentials: covered by the linking signature; account credentials: see design/C18.md). *)
Definition web3_v0_header (challenge global : list N) : list item :=
  [ M "ConcordiumWeb3ID" []; Raw challenge; M "ctx" global ].

(** web3id/v1/proofs.rs (V1 framing): presentation header, then per credential (on a split copy) *)
Definition v1_header (given requested global : list N) : list item :=
  [ L "ConcordiumVerifiableCredentialV1"; L "ConcordiumContextInformationV1";
    M "given" given; M "requested" requested; M "GlobalContext" global ].
Definition v1_credential_prefix (proof_version created : list N) : list item :=
  [ M "ProofVersion" proof_version; M "CreationTime" created ].
Definition v1_account (issuer statements network cred_id : list N) : list item :=
  [ L "ConcordiumAccountBasedCredential"; M "Issuer" issuer; M "Statements" statements;
    M "Network" network; M "AccountCredId" cred_id ].
Definition v1_identity_pre (issuer statements network : list N) : list item :=
  [ L "ConcordiumIdBasedCredential"; M "Issuer" issuer; M "Statements" statements;
    M "Network" network ].
Definition v1_identity_post (valid_from valid_to cred_id : list N) : list item :=
  [ M "ValidFrom" valid_from; M "ValidTo" valid_to; M "EncryptedIdentityCredentialId" cred_id ].

(** ** per atomic statement (ProofVersion::Version2; Version1 omits "keys"/"C" and uses a separate
    transcript for the range proof) *)
Definition reveal_items (x keys commitment : list N) : list item :=
  [ L "RevealAttributeDlogProof"; M "x" x; M "keys" keys; M "C" commitment ].
Definition reveal_items_v1 (x : list N) : list item :=
  [ L "RevealAttributeDlogProof"; M "x" x ].
(** sigma_protocols/dlog.rs [public] and common.rs [prove]: "public", "coeff", then "point" commit *)
Definition dlog_items (public coeff point : list N) : list item :=
  [ M "public" public; M "coeff" coeff; M "point" point ].
Definition range_items (a b : list N) : list item :=
  [ L "AttributeRangeProof"; M "a" a; M "b" b ].
Definition set_items (name : string) (G H v_keys V the_set : list N) : list item :=
  [ L name; M "G" G; M "H" H; M "v_keys" v_keys; M "V" V; M "theSet" the_set ].
Definition already_revealed_items (value : list N) : list item := [ M "RevealedAttribute" value ].

(** the full absorbed prefix up to the first Fiat-Shamir challenge of a presentation whose first
    statement is a reveal / value statement *)
Definition v1_account_reveal_prefix
    (given requested global proof_version created issuer statements network cred_id
     x keys commitment public coeff point : list N) : list N :=
  frame_v1 (v1_header given requested global ++ v1_credential_prefix proof_version created
            ++ v1_account issuer statements network cred_id
            ++ reveal_items x keys commitment ++ dlog_items public coeff point).
Definition id_reveal_prefix (v2 : bool) (global challenge cred x keys commitment public coeff point : list N)
  : list N :=
  frame_v0 (id_header global challenge cred
            ++ (if v2 then reveal_items x keys commitment else reveal_items_v1 x)
            ++ dlog_items public coeff point).
Definition web3_v0_reveal_prefix (challenge global x keys commitment public coeff point : list N) : list N :=
  frame_v0 (web3_v0_header challenge global ++ reveal_items x keys commitment
            ++ dlog_items public coeff point).

(** ** the message signed by the holders of web3 credentials (web3id/proofs.rs
    [linking_proof_message_to_sign]): domain ++ SHA-512(challenge ++ Serial(credential proofs)) *)
Definition linking_message (H512 : list N -> list N) (challenge proofs : list N) : list N :=
  bytes_of_string "WEB3ID:LINKING" ++ H512 (challenge ++ proofs).
