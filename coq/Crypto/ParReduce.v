(** C19 - rayon's [par_iter().fold(identity, f).reduce(identity, op)] as used by
    [verify_aggregate_sig], [verify_aggregate_sig_hybrid] and [verify_aggregate_sig_trusted_keys]
    (rust-src/concordium_base/src/aggregate_sig/mod.rs).

    rayon splits the slice recursively into CONSECUTIVE segments (where and how often depends on
    the thread pool, the length and work stealing - not on anything in the code); every leaf
    segment is folded sequentially starting from [identity()], the fold result is fed into the
    leaf's reduce-folder (which itself starts from [identity()]), and two finished halves are
    joined by [op left right].  The model is therefore an ARBITRARY binary tree whose leaves
    carry consecutive (possibly empty) segments:

        peval (Leaf seg)   = op id (fold_left f seg id)
        peval (Node l r)   = op (peval l) (peval r)

    [chunks_of n] (fixed chunk size n, flat reduction from the identity) and [msplit d]
    (split in the middle, d levels deep - the shape rayon produces on an idle pool) are
    instances.  The step function of all three call sites has the form
    [f acc x = op acc (g x)].

    Everything here is generic in a monoid; only associativity and the identity laws are used
    (NOT commutativity, NOT the pairing laws). *)
From Coq Require Import List Arith Lia.
Import ListNotations.

Section ParReduce.
  Variable A : Type.   (* items *)
  Variable T : Type.   (* accumulator *)
  Variable op : T -> T -> T.
  Variable e : T.
  Variable g : A -> T.

  Inductive ptree : Type :=
  | PLeaf (seg : list A)
  | PNode (l r : ptree).

  Fixpoint pflatten (t : ptree) : list A :=
    match t with
    | PLeaf seg => seg
    | PNode l r => pflatten l ++ pflatten r
    end.

  Definition pstep (acc : T) (x : A) : T := op acc (g x).
  Definition seqfold (l : list A) : T := fold_left pstep l e.

  Fixpoint peval (t : ptree) : T :=
    match t with
    | PLeaf seg => op e (seqfold seg)
    | PNode l r => op (peval l) (peval r)
    end.

  (** fixed-size chunking, flat reduction (the shape of [par_sum] in Bls.v) *)
  Fixpoint chunks_fuel (fuel n : nat) (l : list A) : list (list A) :=
    match fuel with
    | O => []
    | S fuel' => match l with
                 | [] => []
                 | _ => firstn n l :: chunks_fuel fuel' n (skipn n l)
                 end
    end.
  Definition chunks_of (n : nat) (l : list A) : list (list A) := chunks_fuel (length l) n l.
  Definition chunked_eval (n : nat) (l : list A) : T :=
    fold_left op (map seqfold (chunks_of n l)) e.

  (** a flat list of chunks as a (right-leaning) tree *)
  Fixpoint tree_of_chunks (cs : list (list A)) : ptree :=
    match cs with
    | [] => PLeaf []
    | c :: cs' => PNode (PLeaf c) (tree_of_chunks cs')
    end.

  (** split in the middle, [d] levels *)
  Fixpoint msplit (d : nat) (l : list A) : ptree :=
    match d with
    | O => PLeaf l
    | S d' => let m := Nat.div2 (length l) in PNode (msplit d' (firstn m l)) (msplit d' (skipn m l))
    end.

  (** the coded choice: sequential fold below the threshold, parallel above *)
  Definition thresh_eval (thr : nat) (split : list A -> ptree) (l : list A) : T :=
    if length l <? thr then seqfold l else peval (split l).

  (** *** proofs *)
  Hypothesis op_assoc : forall a b c, op a (op b c) = op (op a b) c.
  Hypothesis op_e_l : forall a, op e a = a.
  Hypothesis op_e_r : forall a, op a e = a.

  Lemma fold_pstep_acc l : forall acc, fold_left pstep l acc = op acc (seqfold l).
  Proof.
    unfold seqfold. induction l as [|x l IH]; intros acc; cbn [fold_left].
    - now rewrite op_e_r.
    - rewrite IH, (IH (pstep e x)). unfold pstep. now rewrite op_e_l, op_assoc.
  Qed.

  Lemma seqfold_app l1 l2 : seqfold (l1 ++ l2) = op (seqfold l1) (seqfold l2).
  Proof. unfold seqfold at 1. rewrite fold_left_app. apply fold_pstep_acc. Qed.

  (** every split tree computes the sequential fold of its leaves in order *)
  Lemma peval_seq t : peval t = seqfold (pflatten t).
  Proof.
    induction t as [seg|l IHl r IHr]; cbn [peval pflatten].
    - apply op_e_l.
    - now rewrite IHl, IHr, seqfold_app.
  Qed.

  Lemma fold_op_acc (xs : list T) : forall acc, fold_left op xs acc = op acc (fold_left op xs e).
  Proof.
    induction xs as [|x xs IH]; intros acc; cbn [fold_left].
    - now rewrite op_e_r.
    - rewrite IH, (IH (op e x)). now rewrite op_e_l, op_assoc.
  Qed.

  Lemma flat_chunks_seq (cs : list (list A)) : fold_left op (map seqfold cs) e = seqfold (concat cs).
  Proof.
    induction cs as [|c cs IH]; cbn [map fold_left concat].
    - reflexivity.
    - rewrite fold_op_acc, IH, op_e_l. now rewrite seqfold_app.
  Qed.

  Lemma chunks_fuel_concat n : 0 < n -> forall fuel l, length l <= fuel -> concat (chunks_fuel fuel n l) = l.
  Proof.
    intros Hn. induction fuel as [|fuel IH]; intros l Hl.
    - destruct l; [reflexivity | cbn in Hl; lia].
    - destruct l as [|x l]; [reflexivity|]. cbn [chunks_fuel concat].
      rewrite IH; [apply firstn_skipn|]. rewrite skipn_length. cbn [length] in *. lia.
  Qed.

  Lemma chunks_of_concat n l : 0 < n -> concat (chunks_of n l) = l.
  Proof. intros Hn. apply chunks_fuel_concat; [exact Hn | lia]. Qed.

  Lemma chunks_fuel_sizes n : 0 < n -> forall fuel l c, In c (chunks_fuel fuel n l) -> 0 < length c <= n.
  Proof.
    intros Hn. induction fuel as [|fuel IH]; intros l c Hc; [contradiction|].
    destruct l as [|x l]; [contradiction|]. cbn [chunks_fuel] in Hc. destruct Hc as [<-|Hc].
    - rewrite firstn_length. cbn [length]. lia.
    - eapply IH; eassumption.
  Qed.

  (** fixed chunk size: equal to the sequential fold for EVERY chunk size and list length *)
  Lemma chunked_eval_seq n l : 0 < n -> chunked_eval n l = seqfold l.
  Proof. intros Hn. unfold chunked_eval. now rewrite flat_chunks_seq, chunks_of_concat. Qed.

  Lemma tree_of_chunks_flatten cs : pflatten (tree_of_chunks cs) = concat cs.
  Proof. induction cs as [|c cs IH]; cbn [tree_of_chunks pflatten concat]; [reflexivity | now rewrite IH]. Qed.

  Lemma msplit_flatten d : forall l, pflatten (msplit d l) = l.
  Proof.
    induction d as [|d IH]; intros l; cbn [msplit pflatten]; [reflexivity|].
    rewrite !IH. apply firstn_skipn.
  Qed.

  (** the threshold and the splitter cannot matter *)
  Lemma thresh_eval_seq thr split l : (forall l, pflatten (split l) = l) -> thresh_eval thr split l = seqfold l.
  Proof.
    intros Hs. unfold thresh_eval. destruct (length l <? thr); [reflexivity|]. now rewrite peval_seq, Hs.
  Qed.
End ParReduce.

Arguments PLeaf {A} _.
Arguments PNode {A} _ _.
