(** sigma_protocols/com_eq_different_groups.rs: the same value [x] is committed in two groups of the
    same prime order: [C1 = x*g1 + r1*h1] in [M1], [C2 = x*g2 + r2*h2] in [M2].  Response style
    [rho - c*w].  Two modules over one scalar field, two codecs. *)
From Coq Require Import ZArith NArith List Field Lia String.
From CB Require Import Crypto.Alg Crypto.Transcript Crypto.TranscriptProofs Crypto.SigmaGeneric Crypto.SigmaCodec.
Import ListNotations.

Record ced_stmt {K : FieldOps} (M1 M2 : ModOps K) := mkCed {
  cd_c1 : M1; cd_c2 : M2; cd_g1 : M1; cd_h1 : M1; cd_g2 : M2; cd_h2 : M2 }.
Arguments mkCed {K M1 M2} _ _ _ _ _ _. Arguments cd_c1 {K M1 M2} _. Arguments cd_c2 {K M1 M2} _.
Arguments cd_g1 {K M1 M2} _. Arguments cd_h1 {K M1 M2} _. Arguments cd_g2 {K M1 M2} _. Arguments cd_h2 {K M1 M2} _.

Section ComEqDiff.
  Context {K : FieldOps} {M1 M2 : ModOps K} (Cd1 : CodecOps M1) (Cd2 : CodecOps M2).
  Local Open Scope G_scope.
  Definition K3 : Type := (K * K * K)%type.

  Definition ced_public (k : tkind) (s : ced_stmt M1 M2) : bytes :=
    msg k (str "commitment_1") (serG Cd1 (cd_c1 s)) ++ msg k (str "commitment_2") (serG Cd2 (cd_c2 s)) ++
    msg k (str "cmm_key_1") (serG Cd1 (cd_g1 s) ++ serG Cd1 (cd_h1 s)) ++
    msg k (str "cmm_key_2") (serG Cd2 (cd_g2 s) ++ serG Cd2 (cd_h2 s)).
  (** randomness (alpha_1, alpha_2, R) *)
  Definition ced_commit (s : ced_stmt M1 M2) (r : K3) : option (M1 * M2) :=
    let '(a1, a2, R) := r in Some (a1 *: cd_g1 s + a2 *: cd_h1 s, a1 *: cd_g2 s + R *: cd_h2 s).
  (** secret (value, rand_cmm_1, rand_cmm_2) *)
  Definition ced_respond (s : ced_stmt M1 M2) (w r : K3) (c : K) : option K3 :=
    let '(x, r1, r2) := w in let '(a1, a2, R) := r in
    Some (Fadd K (Fopp K (Fmul K c x)) a1, Fadd K (Fopp K (Fmul K c r1)) a2, Fadd K (Fopp K (Fmul K c r2)) R).
  Definition ced_extract (s : ced_stmt M1 M2) (c : K) (z : K3) : option (M1 * M2) :=
    let '(s1, s2, t) := z in
    Some (c *: cd_c1 s + (s1 *: cd_g1 s + s2 *: cd_h1 s), c *: cd_c2 s + (s1 *: cd_g2 s + t *: cd_h2 s)).
  Definition ced_proto : proto K := {|
    p_stmt := ced_stmt M1 M2; p_wit := K3; p_rand := K3; p_cm := M1 * M2; p_resp := K3;
    p_public := ced_public; p_commit := ced_commit; p_respond := ced_respond; p_extract := ced_extract;
    p_ser_cm := fun a => serG Cd1 (fst a) ++ serG Cd2 (snd a);
    p_ser_resp := fun z => let '(s1, s2, t) := z in serF Cd1 s1 ++ serF Cd1 s2 ++ serF Cd2 t |}.
  Definition ced_rel (s : ced_stmt M1 M2) (w : K3) : Prop :=
    let '(x, r1, r2) := w in
    cd_c1 s = x *: cd_g1 s + r1 *: cd_h1 s /\ cd_c2 s = x *: cd_g2 s + r2 *: cd_h2 s.
  Definition ced_recover (s : ced_stmt M1 M2) (w : K3) (c : K) (z : K3) : K3 :=
    let '(x, r1, r2) := w in let '(s1, s2, t) := z in
    (Fadd K s1 (Fmul K c x), Fadd K s2 (Fmul K c r1), Fadd K t (Fmul K c r2)).

  Context {KL : FieldLaws K} {ML1 : ModLaws M1} {ML2 : ModLaws M2}.
  Add Field Kf_ced : (@F_th K KL).

  Theorem ced_complete_ : complete ced_proto ced_rel (fun _ _ => True).
  Proof.
    intros [c1 c2 g1 h1 g2 h2] [[x r1] r2] [[a1 a2] R] [H1 H2] _. cbn in H1, H2. subst c1 c2.
    eexists. split; [reflexivity|]. intro c. eexists. split; [reflexivity|]. cbn. list_split; mod_norm.
  Qed.

  Definition ced_extractor (s : ced_stmt M1 M2) (c c' : K) (z z' : K3) : K3 :=
    let '(s1, s2, t) := z in let '(s1', s2', t') := z' in
    let d := Finv K (Fsub K c' c) in (Fmul K d (Fsub K s1 s1'), Fmul K d (Fsub K s2 s2'), Fmul K d (Fsub K t t')).
  Theorem ced_special_sound_ : special_sound ced_proto ced_rel ced_extractor.
  Proof.
    intros [c1 c2 g1 h1 g2 h2] a c c' [[s1 s2] t] [[s1' s2'] t'] Hc E E'. cbn in E, E'.
    rewrite <- E' in E. injection E as E1 E2. cbn.
    apply (ss_row_l c c' c1 _ _ Hc) in E1. apply (ss_row_l c c' c2 _ _ Hc) in E2. split.
    - rewrite E1 at 1. mod_norm.
    - rewrite E2 at 1. mod_norm.
  Qed.

  Context {CL1 : CodecLaws Cd1} {CL2 : CodecLaws Cd2}.
  Theorem ced_public_prefix_free_ : forall k, public_prefix_free ced_proto k (fun _ => True).
  Proof.
    intros k [a b c d e f] [a' b' c' d' e' f'] x y _ _ E. cbn [p_public ced_proto] in E. unfold ced_public in E.
    cbn [cd_c1 cd_c2 cd_g1 cd_h1 cd_g2 cd_h2] in E. rewrite <- !app_assoc in E.
    apply (msg_split_G Cd1) in E. destruct E as [-> E]. apply (msg_split_G Cd2) in E. destruct E as [-> E].
    unfold msg at 1 3 in E. rewrite <- !app_assoc in E. apply app_inv_head in E.
    apply (serG_split Cd1) in E. destruct E as [-> E]. apply (serG_split Cd1) in E. destruct E as [-> E].
    unfold msg in E. rewrite <- !app_assoc in E. apply app_inv_head in E.
    apply (serG_split Cd2) in E. destruct E as [-> E]. apply (serG_split Cd2) in E. destruct E as [-> ->]. auto.
  Qed.
End ComEqDiff.
