(** C12 - completeness of encrypted transfers and secret-to-public transfers, by composition of
    C07 ([enc_trans_complete_], [prove_verify_complete_]) and C11 ([range_complete_in_range_p]),
    and the exact relation asserted by the [EncTrans] statement that [gen_enc_trans_proof_info] builds. *)
From Coq Require Import ZArith NArith List Lia Bool InitialRing Field Ring Setoid.
From CB Require Import Crypto.Alg Crypto.Transcript Crypto.TranscriptProofs Crypto.SigmaGeneric Crypto.SigmaCodec
  Crypto.Sigma_dlog Crypto.Sigma_com_eq Crypto.Sigma_enc_trans Crypto.Chunks Crypto.ChunksProofs Crypto.ElGamalBsgs
  Crypto.BpAlg Crypto.Ipa Crypto.RangeProof Crypto.BpTheorems Crypto.EncTransfer.
Import ListNotations.

(** the two 32-bit chunks of a u64 *)
Lemma chunks32_sum x : (x < W64)%N ->
  exists c0 c1, u64_to_chunks_checked 32 x = Some [c0; c1]
    /\ (c0 < 2 ^ 32)%N /\ (c1 < 2 ^ 32)%N /\ (c0 + 2 ^ 32 * c1 = x)%N.
Proof.
  intros Hx. exists (x mod 2 ^ 32)%N, (x / 2 ^ 32)%N. split; [apply u64_to_chunks_32; exact Hx|].
  assert (P : (2 ^ 32 <> 0)%N) by (apply N.pow_nonzero; lia).
  split; [apply N.mod_lt; exact P|]. split.
  - apply N.div_lt_upper_bound; [exact P|]. rewrite <- N.pow_add_r. exact Hx.
  - pose proof (N.div_mod x (2 ^ 32)%N P). lia.
Qed.

Section Proofs.
  Context {K : FieldOps} {KL : FieldLaws K} {M : ModOps K} {ML : ModLaws M} (Cd : CodecOps M).
  Variable H : bytes -> bytes.
  Variable sfb : bytes -> K.
  Variables (g h : M) (Gs Hs : list M).
  Add Field Kf_tr : (@F_th K KL).
  Local Open Scope G_scope.

  Lemma K_ring : ring_theory (F0 K) (F1 K) (Fadd K) (Fmul K) (Fsub K) (Fopp K) eq.
  Proof. exact (F_R F_th). Qed.

  (** [scalar_from_u64] is a ring homomorphism *)
  Lemma kofZ_add a b : @kofZ K (a + b) = Fadd K (kofZ a) (kofZ b).
  Proof. apply (gen_phiZ_add (Eqsth K) (Eq_ext (Fadd K) (Fmul K) (Fopp K)) K_ring). Qed.
  Lemma kofZ_mul a b : @kofZ K (a * b) = Fmul K (kofZ a) (kofZ b).
  Proof. apply (gen_phiZ_mul (Eqsth K) (Eq_ext (Fadd K) (Fmul K) (Fopp K)) K_ring). Qed.
  Lemma kofN_add a b : @kofN K (a + b) = Fadd K (kofN a) (kofN b).
  Proof. unfold kofN. rewrite N2Z.inj_add. apply kofZ_add. Qed.
  Lemma kofN_mul a b : @kofN K (a * b) = Fmul K (kofN a) (kofN b).
  Proof. unfold kofN. rewrite N2Z.inj_mul. apply kofZ_mul. Qed.

  (** [scalar_from_u64(1 << 32)] of enc_trans.rs is the scale factor of [join] *)
  Lemma pow2K_kofZ n : @pow2K K n = kofZ (2 ^ Z.of_nat n).
  Proof.
    induction n as [|n IH]; [reflexivity|].
    rewrite Nat2Z.inj_succ, Z.pow_succ_r by lia. rewrite kofZ_mul, <- IH. reflexivity.
  Qed.
  Lemma two_chunk_kofN : @two_chunk K = kofN (2 ^ 32).
  Proof. unfold two_chunk, kofN. rewrite pow2K_kofZ. f_equal. Qed.

  Lemma lin2_pair (x0 x1 : K) : lin2 [x0; x1] = Fadd K x0 (Fmul K (kofN (2 ^ 32)) x1).
  Proof. unfold lin2. cbn [lin2_go]. rewrite two_chunk_kofN. set (t := kofN _). ring. Qed.
  Lemma lin2_single (x : K) : lin2 [x] = x.
  Proof. unfold lin2. cbn [lin2_go]. ring. Qed.

  Lemma decrypt_encrypt_exp sk x k : decrypt sk (encrypt_exp g h (sk *: g) x k) = x *: h.
  Proof. unfold decrypt, encrypt_exp. cbn [fst snd]. mod_norm. Qed.

  (** ** what the statement built by [gen_enc_trans_proof_info] asserts *)
  Lemma com_eq_rel_enc pk (c : cipher) (w : K * K) :
    com_eq_rel (enc_exp_info g h pk c) w <-> c = encrypt_exp g h pk (fst w) (snd w).
  Proof.
    destruct c as [c0 c1]. unfold com_eq_rel, enc_exp_info, encrypt_exp.
    cbn [ce_commitment ce_y ce_kg ce_kh ce_g fst snd]. split.
    - intros [-> ->]. reflexivity.
    - intros E. injection E as -> ->. split; reflexivity.
  Qed.
  Lemma com_eq_rel_enc_all pk : forall (cs : list cipher) (ws : list (K * K)),
    Forall2 com_eq_rel (map (enc_exp_info g h pk) cs) ws
    <-> Forall2 (fun c w => c = encrypt_exp g h pk (fst w) (snd w)) cs ws.
  Proof.
    induction cs as [|c cs IH]; intros ws; cbn [map]; split; intros F; inversion F; subst; constructor;
      try (apply com_eq_rel_enc; (assumption || reflexivity)); try (apply IH; assumption).
  Qed.

  (** witness (sk, (a_j, r_j)_j, (s'_j, r'_j)_j): the sender key is sk*g, every A_j is the encryption
      of a_j under the receiver key, every S'_j the encryption of s'_j under the sender key, and S
      decrypts under sk to  (sum_j 2^(32 j) a_j + sum_j 2^(32 j) s'_j) * h *)
  Theorem enc_trans_statement_meaning_ pk_s pk_r (S : cipher) (A S' : list cipher) sk w1 w2 :
    enc_trans_rel (gen_enc_trans_proof_info g h pk_s pk_r S A S') (sk, w1, w2)
    <-> (pk_s = sk *: g
         /\ Forall2 (fun c w => c = encrypt_exp g h pk_r (fst w) (snd w)) A w1
         /\ Forall2 (fun c w => c = encrypt_exp g h pk_s (fst w) (snd w)) S' w2
         /\ decrypt sk S = Fadd K (lin2 (map fst w1)) (lin2 (map fst w2)) *: h).
  Proof.
    unfold enc_trans_rel, gen_enc_trans_proof_info.
    cbn [et_dlog et_elg et_e1 et_e2 dl_public dl_coeff ed_public ed_c0 ed_c1].
    rewrite !com_eq_rel_enc_all. unfold decrypt.
    set (X := Fadd K (lin2 (map fst w1)) (lin2 (map fst w2))).
    split; intros (H1 & H2 & H3 & H4); repeat split; try assumption.
    - rewrite H4. mod_norm.
    - rewrite <- H4. mod_norm.
  Qed.

  (** the honest witness satisfies the relation: [transfer_accounting] in the exponent *)
  Lemma transfer_rel_holds sk pk_r (S : cipher) s a a0 a1 r0 r1 k0 k1 k2 k3 :
    (a <= s)%N -> (a0 + 2 ^ 32 * a1 = a)%N -> (r0 + 2 ^ 32 * r1 = s - a)%N ->
    decrypt sk S = kofN s *: h ->
    enc_trans_rel
      (gen_enc_trans_proof_info g h (sk *: g) pk_r S (encrypt_chunks g h pk_r [a0; a1] [k0; k1])
                                (encrypt_chunks g h (sk *: g) [r0; r1] [k2; k3]))
      (sk, chunk_secrets [a0; a1] [k0; k1], chunk_secrets [r0; r1] [k2; k3]).
  Proof.
    intros Hle Ha Hr Hbal. apply enc_trans_statement_meaning_.
    split; [reflexivity|]. split; [repeat constructor|]. split; [repeat constructor|].
    rewrite Hbal. f_equal. cbn [chunk_secrets map2 map fst]. rewrite !lin2_pair.
    rewrite <- !kofN_mul, <- !kofN_add. f_equal. set (T := (2 ^ 32)%N) in *. lia.
  Qed.
  Lemma sec_to_pub_rel_holds sk (S : cipher) s a r0 r1 k2 k3 :
    (a <= s)%N -> (r0 + 2 ^ 32 * r1 = s - a)%N ->
    decrypt sk S = kofN s *: h ->
    enc_trans_rel
      (gen_enc_trans_proof_info g h (sk *: g) (sk *: g) S [dummy_encryption h a]
                                (encrypt_chunks g h (sk *: g) [r0; r1] [k2; k3]))
      (sk, [(kofN a, F0 K)], chunk_secrets [r0; r1] [k2; k3]).
  Proof.
    intros Hle Hr Hbal. apply enc_trans_statement_meaning_.
    split; [reflexivity|]. split.
    { constructor; [|constructor]. unfold dummy_encryption, encrypt_exp. cbn [fst snd]. f_equal; mod_norm. }
    split; [repeat constructor|].
    rewrite Hbal. f_equal. cbn [chunk_secrets map2 map fst]. rewrite lin2_pair, lin2_single.
    rewrite <- !kofN_mul, <- !kofN_add. f_equal. set (T := (2 ^ 32)%N) in *. lia.
  Qed.

  (** ** the bulletproof part: bridge to C11 *)
  Lemma bpOps_laws : bp_laws (@bpOps K M).
  Proof.
    constructor; cbn.
    - exact K_ring.
    - apply Gadd_assoc.
    - apply Gadd_comm.
    - apply Gadd_0_l.
    - apply Gadd_opp_r.
    - apply smul_add_r.
    - apply smul_add_l.
    - apply smul_mul.
    - apply smul_1.
    - apply Feqb_spec.
    - apply Geqb_spec.
  Qed.

  Definition bp_rand_ok (r : @bp_rand K) : Prop := length (br_sL r) = 64%nat /\ length (br_sR r) = 64%nat.
  (** the challenges y and u_j must be invertible (the verifier returns DivisionError otherwise) *)
  Definition bp_chal_ok (c : @bp_chal K) : Prop :=
    bc_y c <> F0 K /\ length (bc_us c) = 6%nat /\ Forall (fun u => u <> F0 K) (bc_us c).

  Lemma with_inv_ok us : Forall (fun u => u <> F0 K) us -> inv_ok (@bpOps K M) (with_inv us).
  Proof.
    intros F. unfold inv_ok, with_inv. induction F as [|u us Hu _ IH]; cbn [map]; constructor; [|exact IH].
    cbn. field. exact Hu.
  Qed.

  Lemma bullet_complete pk c0 c1 k0 k1 r c :
    (c0 < 2 ^ 32)%N -> (c1 < 2 ^ 32)%N -> (64 <= length Gs)%nat -> (64 <= length Hs)%nat ->
    bp_rand_ok r -> bp_chal_ok c ->
    bulletverify h Gs Hs pk (map snd (encrypt_chunks g h pk [c0; c1] [k0; k1]))
                 (bulletprove h Gs Hs pk [c0; c1] [k0; k1] r c) c = VOk.
  Proof.
    intros H0 H1 HG HH [HsL HsR] (Hy & Hus & Hnz). unfold bulletverify, bulletprove.
    replace (map snd (encrypt_chunks g h pk [c0; c1] [k0; k1]))
      with (vzip (commit bpOps h pk) (map (fofZ_ bpOps) (map Z.of_N [c0; c1])) [k0; k1]).
    2:{ cbn. unfold commit. cbn. f_equal; [apply Gadd_comm|f_equal; apply Gadd_comm]. }
    apply (range_complete_in_range_p bpOps bpOps_laws).
    - cbn [map]. repeat constructor; try apply N2Z.is_nonneg;
        change (2 ^ Z.of_nat 32)%Z with (Z.of_N (2 ^ 32)); apply N2Z.inj_lt; assumption.
    - reflexivity.
    - unfold with_inv. rewrite map_length, Hus, firstn_length_le by exact HG. reflexivity.
    - rewrite firstn_length_le by exact HG. reflexivity.
    - rewrite !firstn_length_le by assumption. reflexivity.
    - rewrite firstn_length_le by exact HG. exact HsL.
    - rewrite firstn_length_le by exact HG. exact HsR.
    - cbn. field. exact Hy.
    - apply with_inv_ok. exact Hnz.
  Qed.

  Definition sigma_rand_ok (n1 n2 : nat) (r : @et_rand K) : Prop :=
    let '(_, r1, r2) := r in length r1 = n1 /\ length r2 = n2.

  (** ** transfer_complete *)
  Theorem transfer_complete_ gc pk_r sk agg_enc s idx a rnd ch_a ch_s :
    (s < W64)%N -> (a <= s)%N ->
    decrypt sk (join agg_enc) = kofN s *: h ->          (* the input amount is what the input ciphertext holds *)
    length (tr_A rnd) = 2%nat -> length (tr_S rnd) = 2%nat -> sigma_rand_ok 2 2 (tr_sigma rnd) ->
    bp_rand_ok (tr_bp_a rnd) -> bp_rand_ok (tr_bp_s rnd) -> bp_chal_ok ch_a -> bp_chal_ok ch_s ->
    (64 <= length Gs)%nat -> (64 <= length Hs)%nat ->
    exists td a0 a1 r0 r1,
      make_transfer_data Cd H sfb g h Gs Hs gc pk_r sk agg_enc s idx a rnd ch_a ch_s = Some td
      /\ verify_transfer_data Cd H sfb g h Gs Hs gc pk_r (sk *: g) agg_enc td ch_a ch_s = true
      /\ td_index td = idx
      /\ (a0 + 2 ^ 32 * a1 = a)%N /\ (r0 + 2 ^ 32 * r1 = s - a)%N
      /\ enc_list (td_transfer td) = encrypt_chunks g h pk_r [a0; a1] (tr_A rnd)
      /\ enc_list (td_remaining td) = encrypt_chunks g h (sk *: g) [r0; r1] (tr_S rnd).
  Proof.
    intros Hs64 Ha Hbal LA LS Hsig HrA HrS HcA HcS HG HH.
    destruct (chunks32_sum a ltac:(lia)) as (a0 & a1 & Ea & Ba0 & Ba1 & Sa).
    destruct (chunks32_sum (s - a) ltac:(lia)) as (r0 & r1 & Er & Br0 & Br1 & Sr).
    destruct rnd as [kA kS sg bpa bps]. cbn [tr_A tr_S tr_sigma tr_bp_a tr_bp_s] in *.
    destruct kA as [|k0 [|k1 [|? ?]]]; try discriminate LA.
    destruct kS as [|k2 [|k3 [|? ?]]]; try discriminate LS.
    destruct sg as [[rc r1s] r2s]. cbn in Hsig.
    pose proof (transfer_rel_holds sk pk_r (join agg_enc) s a a0 a1 r0 r1 k0 k1 k2 k3 Ha Sa Sr Hbal) as Hrel.
    assert (Hrok : enc_trans_rok (gen_enc_trans_proof_info g h (sk *: g) pk_r (join agg_enc)
                     (encrypt_chunks g h pk_r [a0; a1] [k0; k1]) (encrypt_chunks g h (sk *: g) [r0; r1] [k2; k3]))
                     (rc, r1s, r2s)).
    { unfold enc_trans_rok. cbn. exact Hsig. }
    destruct (prove_verify_complete_ H sfb (enc_trans_proto Cd) enc_trans_rel enc_trans_rok (enc_trans_complete_ Cd)
                Legacy (transfer_ctx Cd g gc pk_r (sk *: g)) _ _ _ Hrel Hrok) as (pi & st & Hp & Hv).
    pose proof (bullet_complete pk_r a0 a1 k0 k1 bpa ch_a Ba0 Ba1 HG HH HrA HcA) as BA.
    pose proof (bullet_complete (sk *: g) r0 r1 k2 k3 bps ch_s Br0 Br1 HG HH HrS HcS) as BS.
    unfold make_transfer_data, gen_enc_trans. cbn [tr_A tr_S tr_sigma tr_bp_a tr_bp_s].
    destruct (N.ltb_spec s a) as [Hlt|_]; [lia|]. rewrite Ea, Er, Hp.
    cbn [encrypt_chunks map2] in *.
    eexists. exists a0, a1, r0, r1. split; [reflexivity|].
    split.
    { unfold verify_transfer_data, verify_enc_trans, enc_list. cbn [td_remaining td_transfer td_accounting td_bp_transfer td_bp_remaining enc_list fst snd].
      rewrite Hv. cbn [fst negb]. cbn [map snd] in BA, BS |- *. rewrite BA, BS. reflexivity. }
    unfold enc_list. cbn [td_index td_transfer td_remaining fst snd]. repeat split; assumption || reflexivity.
  Qed.

  (** ** sec_to_pub_complete *)
  Theorem sec_to_pub_complete_ gc sk agg_enc s idx a rnd ch_s :
    (s < W64)%N -> (a <= s)%N ->
    decrypt sk (join agg_enc) = kofN s *: h ->
    length (sr_S rnd) = 2%nat -> sigma_rand_ok 1 2 (sr_sigma rnd) ->
    bp_rand_ok (sr_bp_s rnd) -> bp_chal_ok ch_s ->
    (64 <= length Gs)%nat -> (64 <= length Hs)%nat ->
    exists sd r0 r1,
      make_sec_to_pub_transfer_data Cd H sfb g h Gs Hs gc sk agg_enc s idx a rnd ch_s = Some sd
      /\ verify_sec_to_pub_transfer_data Cd H sfb g h Gs Hs gc (sk *: g) agg_enc sd ch_s = true
      /\ sd_index sd = idx /\ sd_transfer_amount sd = a
      /\ (r0 + 2 ^ 32 * r1 = s - a)%N
      /\ enc_list (sd_remaining sd) = encrypt_chunks g h (sk *: g) [r0; r1] (sr_S rnd).
  Proof.
    intros Hs64 Ha Hbal LS Hsig HrS HcS HG HH.
    destruct (chunks32_sum (s - a) ltac:(lia)) as (r0 & r1 & Er & Br0 & Br1 & Sr).
    destruct rnd as [kS sg bps]. cbn [sr_S sr_sigma sr_bp_s] in *.
    destruct kS as [|k2 [|k3 [|? ?]]]; try discriminate LS.
    destruct sg as [[rc r1s] r2s]. cbn in Hsig.
    pose proof (sec_to_pub_rel_holds sk (join agg_enc) s a r0 r1 k2 k3 Ha Sr Hbal) as Hrel.
    assert (Hrok : enc_trans_rok (gen_enc_trans_proof_info g h (sk *: g) (sk *: g) (join agg_enc)
                     [dummy_encryption h a] (encrypt_chunks g h (sk *: g) [r0; r1] [k2; k3]))
                     (rc, r1s, r2s)).
    { unfold enc_trans_rok. cbn. exact Hsig. }
    destruct (prove_verify_complete_ H sfb (enc_trans_proto Cd) enc_trans_rel enc_trans_rok (enc_trans_complete_ Cd)
                Legacy (sec_to_pub_ctx Cd g gc (sk *: g)) _ _ _ Hrel Hrok) as (pi & st & Hp & Hv).
    pose proof (bullet_complete (sk *: g) r0 r1 k2 k3 bps ch_s Br0 Br1 HG HH HrS HcS) as BS.
    unfold make_sec_to_pub_transfer_data, gen_sec_to_pub_trans. cbn [sr_S sr_sigma sr_bp_s].
    destruct (N.ltb_spec s a) as [Hlt|_]; [lia|]. rewrite Er, Hp.
    cbn [encrypt_chunks map2] in *.
    eexists. exists r0, r1. split; [reflexivity|].
    split.
    { unfold verify_sec_to_pub_transfer_data, verify_sec_to_pub_trans, enc_list.
      cbn [sd_remaining sd_transfer_amount sd_accounting sd_bp_remaining enc_list fst snd].
      rewrite Hv. cbn [fst negb]. cbn [map snd] in BS |- *. rewrite BS. reflexivity. }
    unfold enc_list. cbn [sd_index sd_transfer_amount sd_remaining fst snd]. repeat split; assumption || reflexivity.
  Qed.

  (** ** a transfer exceeding the balance is not produced (by the models of the real entry points) *)
  Theorem transfer_none_if_exceeds_ gc pk_r sk agg_enc s idx a rnd ch_a ch_s : (s < a)%N ->
    make_transfer_data Cd H sfb g h Gs Hs gc pk_r sk agg_enc s idx a rnd ch_a ch_s = None.
  Proof. intros Hlt. unfold make_transfer_data, gen_enc_trans. destruct (N.ltb_spec s a); [reflexivity|lia]. Qed.
  Theorem sec_to_pub_none_if_exceeds_ gc sk agg_enc s idx a rnd ch_s : (s < a)%N ->
    make_sec_to_pub_transfer_data Cd H sfb g h Gs Hs gc sk agg_enc s idx a rnd ch_s = None.
  Proof. intros Hlt. unfold make_sec_to_pub_transfer_data, gen_sec_to_pub_trans. destruct (N.ltb_spec s a); [reflexivity|lia]. Qed.
End Proofs.
