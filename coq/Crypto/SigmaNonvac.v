(** C07 round 4: a lawful instance with two INDEPENDENT generators, to show that the injectivity
    hypotheses of [ces_response_injective_] / [vcom_response_injective_] are satisfiable: the module
    F2 x F2 over F2 (AlgF2.v) with g = (1,0), h = (0,1), and the pairing e(a,b) = a*b on F2. *)
From Coq Require Import Bool List.
From CB Require Import Crypto.Alg Crypto.AlgF2 Crypto.AlgPairing.
Import ListNotations.

Definition F2M2 : ModOps F2 :=
  mkModOps F2 (bool * bool)%type (false, false) (fun a b => (xorb (fst a) (fst b), xorb (snd a) (snd b))) (fun a => a)
    (fun x a => (andb x (fst a), andb x (snd a))) (fun a b => Bool.eqb (fst a) (fst b) && Bool.eqb (snd a) (snd b)).
Lemma F2M2_laws : ModLaws F2M2.
Proof.
  constructor; cbn; intros;
    try (repeat match goal with b : bool |- _ => destruct b | p : (bool * bool)%type |- _ => destruct p end; reflexivity).
  destruct a as [[|] [|]], b as [[|] [|]]; cbn; split; intro E; try reflexivity; try discriminate.
Qed.
Definition F2Pair : PairOps F2 := mkPairOps F2 F2M F2M F2M andb.
Lemma F2Pair_laws : PairLaws F2Pair.
Proof.
  constructor; try exact F2M_laws; cbn; intros;
    repeat match goal with b : bool |- _ => destruct b end; reflexivity.
Qed.
(** g = (1,0) and h = (0,1) are independent *)
Lemma F2M2_independent : forall x y x' y' : F2,
  Gadd F2M2 (smul F2M2 x (true, false)) (smul F2M2 y (false, true)) =
  Gadd F2M2 (smul F2M2 x' (true, false)) (smul F2M2 y' (false, true)) -> x = x' /\ y = y'.
Proof. intros [|] [|] [|] [|]; cbn; intro E; split; try reflexivity; discriminate. Qed.
Lemma F2_unit_faithful : forall x x' : F2, smul F2M x (pe F2Pair true true) = smul F2M x' (pe F2Pair true true) -> x = x'.
Proof. intros [|] [|]; cbn; intro E; try reflexivity; discriminate. Qed.
