(** C12 - model of [BabyStepGiantStep::{new, discrete_log}] (rust-src/concordium_base/src/elgamal/secret.rs)
    over an abstract group (definitions only, executable).

    [new(base, m)]: [for j in 0..m { table.insert(to_bytes(base_j), j); base_j += base }], then
    [inverse_point = -(m*base)].  The HashMap is keyed by the serialisation of the point; it is
    modelled as the list of inserted (point, j) pairs in insertion order, and a lookup returns the
    value of the LAST insertion with an equal key ([HashMap::insert] overwrites).  Equality of keys is
    the decidable equality [geqb] of the group (assumption: [to_bytes] is a canonical, injective
    serialisation of group elements).

    [discrete_log(v)]: [for i in 0..=u64::MAX { if let Some(j) = table.get(y) { return i*m + j }; y += inverse_point }].
    The loop is given explicit fuel; [i * m + j] is u64 arithmetic (checked build: overflow = panic). *)
From Coq Require Import NArith List.
From CB Require Import Crypto.Chunks.
Import ListNotations.
Local Open Scope N_scope.

Inductive dl_result := DlFound (x : N) | DlOverflow | DlFuel.

Section Bsgs.
  Variable G : Type.
  Variables (gzero : G) (gadd : G -> G -> G) (gopp : G -> G) (geqb : G -> G -> bool).

  Record bsgs := mkBsgs { bs_table : list (G * N); bs_inverse_point : G; bs_m : N }.

  (** the [n] insertions starting at [cur = j*base] *)
  Fixpoint table_entries (n : nat) (base cur : G) (j : N) : list (G * N) :=
    match n with
    | O => []
    | S n' => (cur, j) :: table_entries n' base (gadd cur base) (j + 1)
    end.
  (** [base_j] after the loop *)
  Fixpoint after_steps (n : nat) (base cur : G) : G :=
    match n with O => cur | S n' => after_steps n' base (gadd cur base) end.

  Definition bsgs_new (base : G) (m : N) : bsgs :=
    mkBsgs (table_entries (N.to_nat m) base gzero 0) (gopp (after_steps (N.to_nat m) base gzero)) m.

  (** [HashMap::get] after the insertions of [t] in order: the last insertion with that key wins *)
  Fixpoint lookup_last (t : list (G * N)) (y : G) : option N :=
    match t with
    | [] => None
    | (p, j) :: t' =>
        match lookup_last t' y with
        | Some j' => Some j'
        | None => if geqb p y then Some j else None
        end
    end.

  Fixpoint dl_go (fuel : nat) (b : bsgs) (y : G) (i : N) : dl_result :=
    match fuel with
    | O => DlFuel
    | S f =>
        match lookup_last (bs_table b) y with
        | Some j =>
            if W64 <=? i * bs_m b then DlOverflow
            else if W64 <=? i * bs_m b + j then DlOverflow
            else DlFound (i * bs_m b + j)
        | None => dl_go f b (gadd y (bs_inverse_point b)) (i + 1)
        end
    end.
  Definition discrete_log (fuel : nat) (b : bsgs) (v : G) : dl_result := dl_go fuel b v 0.

  (** the total function handed to [decrypt_amount]; 0 stands for "did not return" *)
  Definition bsgs_dlog (fuel : nat) (b : bsgs) (v : G) : N :=
    match discrete_log fuel b v with DlFound x => x | _ => 0 end.

  (** [Serial] / [Deserial] at the level of entries: [serial] writes m, the giant-step point and the
      (key, value) pairs in the iteration order of the map (here: list order; the proof does not depend
      on it); [deserial] reads m and the point, then EXACTLY m pairs ([for _ in 0..m]), failing on a
      short stream and on a duplicate key ([table.insert(k, v).is_some()] => bail).  The preallocation
      [HashMap::with_capacity(min(1 << 16, m))] is a capacity hint only and does not appear. *)
  Definition bsgs_serial (b : bsgs) : N * G * list (G * N) := (bs_m b, bs_inverse_point b, bs_table b).
  Fixpoint read_entries (n : nat) (stream acc : list (G * N)) : option (list (G * N)) :=
    match n with
    | O => Some (rev acc)
    | S n' =>
        match stream with
        | [] => None
        | (p, j) :: rest =>
            if existsb (fun q => geqb (fst q) p) acc then None
            else read_entries n' rest ((p, j) :: acc)
        end
    end.
  Definition bsgs_deserial (s : N * G * list (G * N)) : option bsgs :=
    let '(m, inv, stream) := s in
    match read_entries (N.to_nat m) stream [] with
    | Some t => Some (mkBsgs t inv m)
    | None => None
    end.

  (** n-fold multiple by repeated addition *)
  Definition nmul (n : N) (a : G) : G := N.iter n (fun c => gadd c a) gzero.
End Bsgs.
