
(** val negb : bool -> bool **)

let negb = function
| true -> false
| false -> true

type nat =
| O
| S of nat

type ('a, 'b) sum =
| Inl of 'a
| Inr of 'b

(** val fst : ('a1 * 'a2) -> 'a1 **)

let fst = function
| (x, _) -> x

(** val snd : ('a1 * 'a2) -> 'a2 **)

let snd = function
| (_, y) -> y

(** val length : 'a1 list -> nat **)

let rec length = function
| [] -> O
| _ :: l' -> S (length l')

(** val app : 'a1 list -> 'a1 list -> 'a1 list **)

let rec app l m =
  match l with
  | [] -> m
  | a :: l1 -> a :: (app l1 m)

type comparison =
| Eq
| Lt
| Gt

(** val compOpp : comparison -> comparison **)

let compOpp = function
| Eq -> Eq
| Lt -> Gt
| Gt -> Lt

(** val pred : nat -> nat **)

let pred n0 = match n0 with
| O -> n0
| S u -> u

module Coq__1 = struct
 (** val add : nat -> nat -> nat **)
 let rec add n0 m =
   match n0 with
   | O -> m
   | S p -> S (add p m)
end
include Coq__1

(** val sub : nat -> nat -> nat **)

let rec sub n0 m =
  match n0 with
  | O -> n0
  | S k -> (match m with
            | O -> n0
            | S l -> sub k l)

type positive =
| XI of positive
| XO of positive
| XH

type n =
| N0
| Npos of positive

type z =
| Z0
| Zpos of positive
| Zneg of positive

module Nat =
 struct
  (** val add : nat -> nat -> nat **)

  let rec add n0 m =
    match n0 with
    | O -> m
    | S p -> S (add p m)

  (** val eqb : nat -> nat -> bool **)

  let rec eqb n0 m =
    match n0 with
    | O -> (match m with
            | O -> true
            | S _ -> false)
    | S n' -> (match m with
               | O -> false
               | S m' -> eqb n' m')

  (** val leb : nat -> nat -> bool **)

  let rec leb n0 m =
    match n0 with
    | O -> true
    | S n' -> (match m with
               | O -> false
               | S m' -> leb n' m')

  (** val ltb : nat -> nat -> bool **)

  let ltb n0 m =
    leb (S n0) m

  (** val min : nat -> nat -> nat **)

  let rec min n0 m =
    match n0 with
    | O -> O
    | S n' -> (match m with
               | O -> O
               | S m' -> S (min n' m'))
 end

module Pos =
 struct
  type mask =
  | IsNul
  | IsPos of positive
  | IsNeg
 end

module Coq_Pos =
 struct
  (** val succ : positive -> positive **)

  let rec succ = function
  | XI p -> XO (succ p)
  | XO p -> XI p
  | XH -> XO XH

  (** val add : positive -> positive -> positive **)

  let rec add x y =
    match x with
    | XI p ->
      (match y with
       | XI q -> XO (add_carry p q)
       | XO q -> XI (add p q)
       | XH -> XO (succ p))
    | XO p ->
      (match y with
       | XI q -> XI (add p q)
       | XO q -> XO (add p q)
       | XH -> XI p)
    | XH -> (match y with
             | XI q -> XO (succ q)
             | XO q -> XI q
             | XH -> XO XH)

  (** val add_carry : positive -> positive -> positive **)

  and add_carry x y =
    match x with
    | XI p ->
      (match y with
       | XI q -> XI (add_carry p q)
       | XO q -> XO (add_carry p q)
       | XH -> XI (succ p))
    | XO p ->
      (match y with
       | XI q -> XO (add_carry p q)
       | XO q -> XI (add p q)
       | XH -> XO (succ p))
    | XH ->
      (match y with
       | XI q -> XI (succ q)
       | XO q -> XO (succ q)
       | XH -> XI XH)

  (** val pred_double : positive -> positive **)

  let rec pred_double = function
  | XI p -> XI (XO p)
  | XO p -> XI (pred_double p)
  | XH -> XH

  (** val pred_N : positive -> n **)

  let pred_N = function
  | XI p -> Npos (XO p)
  | XO p -> Npos (pred_double p)
  | XH -> N0

  type mask = Pos.mask =
  | IsNul
  | IsPos of positive
  | IsNeg

  (** val succ_double_mask : mask -> mask **)

  let succ_double_mask = function
  | IsNul -> IsPos XH
  | IsPos p -> IsPos (XI p)
  | IsNeg -> IsNeg

  (** val double_mask : mask -> mask **)

  let double_mask = function
  | IsPos p -> IsPos (XO p)
  | x0 -> x0

  (** val double_pred_mask : positive -> mask **)

  let double_pred_mask = function
  | XI p -> IsPos (XO (XO p))
  | XO p -> IsPos (XO (pred_double p))
  | XH -> IsNul

  (** val sub_mask : positive -> positive -> mask **)

  let rec sub_mask x y =
    match x with
    | XI p ->
      (match y with
       | XI q -> double_mask (sub_mask p q)
       | XO q -> succ_double_mask (sub_mask p q)
       | XH -> IsPos (XO p))
    | XO p ->
      (match y with
       | XI q -> succ_double_mask (sub_mask_carry p q)
       | XO q -> double_mask (sub_mask p q)
       | XH -> IsPos (pred_double p))
    | XH -> (match y with
             | XH -> IsNul
             | _ -> IsNeg)

  (** val sub_mask_carry : positive -> positive -> mask **)

  and sub_mask_carry x y =
    match x with
    | XI p ->
      (match y with
       | XI q -> succ_double_mask (sub_mask_carry p q)
       | XO q -> double_mask (sub_mask p q)
       | XH -> IsPos (pred_double p))
    | XO p ->
      (match y with
       | XI q -> double_mask (sub_mask_carry p q)
       | XO q -> succ_double_mask (sub_mask_carry p q)
       | XH -> double_pred_mask p)
    | XH -> IsNeg

  (** val mul : positive -> positive -> positive **)

  let rec mul x y =
    match x with
    | XI p -> add y (XO (mul p y))
    | XO p -> XO (mul p y)
    | XH -> y

  (** val iter : ('a1 -> 'a1) -> 'a1 -> positive -> 'a1 **)

  let rec iter f x = function
  | XI n' -> f (iter f (iter f x n') n')
  | XO n' -> iter f (iter f x n') n'
  | XH -> f x

  (** val div2 : positive -> positive **)

  let div2 = function
  | XI p0 -> p0
  | XO p0 -> p0
  | XH -> XH

  (** val div2_up : positive -> positive **)

  let div2_up = function
  | XI p0 -> succ p0
  | XO p0 -> p0
  | XH -> XH

  (** val size : positive -> positive **)

  let rec size = function
  | XI p0 -> succ (size p0)
  | XO p0 -> succ (size p0)
  | XH -> XH

  (** val compare_cont : comparison -> positive -> positive -> comparison **)

  let rec compare_cont r x y =
    match x with
    | XI p ->
      (match y with
       | XI q -> compare_cont r p q
       | XO q -> compare_cont Gt p q
       | XH -> Gt)
    | XO p ->
      (match y with
       | XI q -> compare_cont Lt p q
       | XO q -> compare_cont r p q
       | XH -> Gt)
    | XH -> (match y with
             | XH -> r
             | _ -> Lt)

  (** val compare : positive -> positive -> comparison **)

  let compare =
    compare_cont Eq

  (** val eqb : positive -> positive -> bool **)

  let rec eqb p q =
    match p with
    | XI p0 -> (match q with
                | XI q0 -> eqb p0 q0
                | _ -> false)
    | XO p0 -> (match q with
                | XO q0 -> eqb p0 q0
                | _ -> false)
    | XH -> (match q with
             | XH -> true
             | _ -> false)

  (** val coq_Nsucc_double : n -> n **)

  let coq_Nsucc_double = function
  | N0 -> Npos XH
  | Npos p -> Npos (XI p)

  (** val coq_Ndouble : n -> n **)

  let coq_Ndouble = function
  | N0 -> N0
  | Npos p -> Npos (XO p)

  (** val coq_lor : positive -> positive -> positive **)

  let rec coq_lor p q =
    match p with
    | XI p0 ->
      (match q with
       | XI q0 -> XI (coq_lor p0 q0)
       | XO q0 -> XI (coq_lor p0 q0)
       | XH -> p)
    | XO p0 ->
      (match q with
       | XI q0 -> XI (coq_lor p0 q0)
       | XO q0 -> XO (coq_lor p0 q0)
       | XH -> XI p0)
    | XH -> (match q with
             | XO q0 -> XI q0
             | _ -> q)

  (** val coq_land : positive -> positive -> n **)

  let rec coq_land p q =
    match p with
    | XI p0 ->
      (match q with
       | XI q0 -> coq_Nsucc_double (coq_land p0 q0)
       | XO q0 -> coq_Ndouble (coq_land p0 q0)
       | XH -> Npos XH)
    | XO p0 ->
      (match q with
       | XI q0 -> coq_Ndouble (coq_land p0 q0)
       | XO q0 -> coq_Ndouble (coq_land p0 q0)
       | XH -> N0)
    | XH -> (match q with
             | XO _ -> N0
             | _ -> Npos XH)

  (** val ldiff : positive -> positive -> n **)

  let rec ldiff p q =
    match p with
    | XI p0 ->
      (match q with
       | XI q0 -> coq_Ndouble (ldiff p0 q0)
       | XO q0 -> coq_Nsucc_double (ldiff p0 q0)
       | XH -> Npos (XO p0))
    | XO p0 ->
      (match q with
       | XI q0 -> coq_Ndouble (ldiff p0 q0)
       | XO q0 -> coq_Ndouble (ldiff p0 q0)
       | XH -> Npos p)
    | XH -> (match q with
             | XO _ -> Npos XH
             | _ -> N0)

  (** val coq_lxor : positive -> positive -> n **)

  let rec coq_lxor p q =
    match p with
    | XI p0 ->
      (match q with
       | XI q0 -> coq_Ndouble (coq_lxor p0 q0)
       | XO q0 -> coq_Nsucc_double (coq_lxor p0 q0)
       | XH -> Npos (XO p0))
    | XO p0 ->
      (match q with
       | XI q0 -> coq_Nsucc_double (coq_lxor p0 q0)
       | XO q0 -> coq_Ndouble (coq_lxor p0 q0)
       | XH -> Npos (XI p0))
    | XH ->
      (match q with
       | XI q0 -> Npos (XO q0)
       | XO q0 -> Npos (XI q0)
       | XH -> N0)

  (** val iter_op : ('a1 -> 'a1 -> 'a1) -> positive -> 'a1 -> 'a1 **)

  let rec iter_op op p a =
    match p with
    | XI p0 -> op a (iter_op op p0 (op a a))
    | XO p0 -> iter_op op p0 (op a a)
    | XH -> a

  (** val to_nat : positive -> nat **)

  let to_nat x =
    iter_op Coq__1.add x (S O)

  (** val of_succ_nat : nat -> positive **)

  let rec of_succ_nat = function
  | O -> XH
  | S x -> succ (of_succ_nat x)
 end

module N =
 struct
  (** val succ_double : n -> n **)

  let succ_double = function
  | N0 -> Npos XH
  | Npos p -> Npos (XI p)

  (** val double : n -> n **)

  let double = function
  | N0 -> N0
  | Npos p -> Npos (XO p)

  (** val succ_pos : n -> positive **)

  let succ_pos = function
  | N0 -> XH
  | Npos p -> Coq_Pos.succ p

  (** val add : n -> n -> n **)

  let add n0 m =
    match n0 with
    | N0 -> m
    | Npos p -> (match m with
                 | N0 -> n0
                 | Npos q -> Npos (Coq_Pos.add p q))

  (** val sub : n -> n -> n **)

  let sub n0 m =
    match n0 with
    | N0 -> N0
    | Npos n' ->
      (match m with
       | N0 -> n0
       | Npos m' ->
         (match Coq_Pos.sub_mask n' m' with
          | Coq_Pos.IsPos p -> Npos p
          | _ -> N0))

  (** val mul : n -> n -> n **)

  let mul n0 m =
    match n0 with
    | N0 -> N0
    | Npos p -> (match m with
                 | N0 -> N0
                 | Npos q -> Npos (Coq_Pos.mul p q))

  (** val compare : n -> n -> comparison **)

  let compare n0 m =
    match n0 with
    | N0 -> (match m with
             | N0 -> Eq
             | Npos _ -> Lt)
    | Npos n' -> (match m with
                  | N0 -> Gt
                  | Npos m' -> Coq_Pos.compare n' m')

  (** val eqb : n -> n -> bool **)

  let eqb n0 m =
    match n0 with
    | N0 -> (match m with
             | N0 -> true
             | Npos _ -> false)
    | Npos p -> (match m with
                 | N0 -> false
                 | Npos q -> Coq_Pos.eqb p q)

  (** val leb : n -> n -> bool **)

  let leb x y =
    match compare x y with
    | Gt -> false
    | _ -> true

  (** val min : n -> n -> n **)

  let min n0 n' =
    match compare n0 n' with
    | Gt -> n'
    | _ -> n0

  (** val pos_div_eucl : positive -> n -> n * n **)

  let rec pos_div_eucl a b =
    match a with
    | XI a' ->
      let (q, r) = pos_div_eucl a' b in
      let r' = succ_double r in
      if leb b r' then ((succ_double q), (sub r' b)) else ((double q), r')
    | XO a' ->
      let (q, r) = pos_div_eucl a' b in
      let r' = double r in
      if leb b r' then ((succ_double q), (sub r' b)) else ((double q), r')
    | XH ->
      (match b with
       | N0 -> (N0, (Npos XH))
       | Npos p -> (match p with
                    | XH -> ((Npos XH), N0)
                    | _ -> (N0, (Npos XH))))

  (** val coq_lor : n -> n -> n **)

  let coq_lor n0 m =
    match n0 with
    | N0 -> m
    | Npos p -> (match m with
                 | N0 -> n0
                 | Npos q -> Npos (Coq_Pos.coq_lor p q))

  (** val coq_land : n -> n -> n **)

  let coq_land n0 m =
    match n0 with
    | N0 -> N0
    | Npos p -> (match m with
                 | N0 -> N0
                 | Npos q -> Coq_Pos.coq_land p q)

  (** val ldiff : n -> n -> n **)

  let ldiff n0 m =
    match n0 with
    | N0 -> N0
    | Npos p -> (match m with
                 | N0 -> n0
                 | Npos q -> Coq_Pos.ldiff p q)

  (** val coq_lxor : n -> n -> n **)

  let coq_lxor n0 m =
    match n0 with
    | N0 -> m
    | Npos p -> (match m with
                 | N0 -> n0
                 | Npos q -> Coq_Pos.coq_lxor p q)

  (** val to_nat : n -> nat **)

  let to_nat = function
  | N0 -> O
  | Npos p -> Coq_Pos.to_nat p

  (** val of_nat : nat -> n **)

  let of_nat = function
  | O -> N0
  | S n' -> Npos (Coq_Pos.of_succ_nat n')
 end

module Z =
 struct
  (** val double : z -> z **)

  let double = function
  | Z0 -> Z0
  | Zpos p -> Zpos (XO p)
  | Zneg p -> Zneg (XO p)

  (** val succ_double : z -> z **)

  let succ_double = function
  | Z0 -> Zpos XH
  | Zpos p -> Zpos (XI p)
  | Zneg p -> Zneg (Coq_Pos.pred_double p)

  (** val pred_double : z -> z **)

  let pred_double = function
  | Z0 -> Zneg XH
  | Zpos p -> Zpos (Coq_Pos.pred_double p)
  | Zneg p -> Zneg (XI p)

  (** val pos_sub : positive -> positive -> z **)

  let rec pos_sub x y =
    match x with
    | XI p ->
      (match y with
       | XI q -> double (pos_sub p q)
       | XO q -> succ_double (pos_sub p q)
       | XH -> Zpos (XO p))
    | XO p ->
      (match y with
       | XI q -> pred_double (pos_sub p q)
       | XO q -> double (pos_sub p q)
       | XH -> Zpos (Coq_Pos.pred_double p))
    | XH ->
      (match y with
       | XI q -> Zneg (XO q)
       | XO q -> Zneg (Coq_Pos.pred_double q)
       | XH -> Z0)

  (** val add : z -> z -> z **)

  let add x y =
    match x with
    | Z0 -> y
    | Zpos x' ->
      (match y with
       | Z0 -> x
       | Zpos y' -> Zpos (Coq_Pos.add x' y')
       | Zneg y' -> pos_sub x' y')
    | Zneg x' ->
      (match y with
       | Z0 -> x
       | Zpos y' -> pos_sub y' x'
       | Zneg y' -> Zneg (Coq_Pos.add x' y'))

  (** val opp : z -> z **)

  let opp = function
  | Z0 -> Z0
  | Zpos x0 -> Zneg x0
  | Zneg x0 -> Zpos x0

  (** val sub : z -> z -> z **)

  let sub m n0 =
    add m (opp n0)

  (** val mul : z -> z -> z **)

  let mul x y =
    match x with
    | Z0 -> Z0
    | Zpos x' ->
      (match y with
       | Z0 -> Z0
       | Zpos y' -> Zpos (Coq_Pos.mul x' y')
       | Zneg y' -> Zneg (Coq_Pos.mul x' y'))
    | Zneg x' ->
      (match y with
       | Z0 -> Z0
       | Zpos y' -> Zneg (Coq_Pos.mul x' y')
       | Zneg y' -> Zpos (Coq_Pos.mul x' y'))

  (** val pow_pos : z -> positive -> z **)

  let pow_pos z0 =
    Coq_Pos.iter (mul z0) (Zpos XH)

  (** val pow : z -> z -> z **)

  let pow x = function
  | Z0 -> Zpos XH
  | Zpos p -> pow_pos x p
  | Zneg _ -> Z0

  (** val compare : z -> z -> comparison **)

  let compare x y =
    match x with
    | Z0 -> (match y with
             | Z0 -> Eq
             | Zpos _ -> Lt
             | Zneg _ -> Gt)
    | Zpos x' -> (match y with
                  | Zpos y' -> Coq_Pos.compare x' y'
                  | _ -> Gt)
    | Zneg x' ->
      (match y with
       | Zneg y' -> compOpp (Coq_Pos.compare x' y')
       | _ -> Lt)

  (** val leb : z -> z -> bool **)

  let leb x y =
    match compare x y with
    | Gt -> false
    | _ -> true

  (** val ltb : z -> z -> bool **)

  let ltb x y =
    match compare x y with
    | Lt -> true
    | _ -> false

  (** val geb : z -> z -> bool **)

  let geb x y =
    match compare x y with
    | Lt -> false
    | _ -> true

  (** val gtb : z -> z -> bool **)

  let gtb x y =
    match compare x y with
    | Gt -> true
    | _ -> false

  (** val eqb : z -> z -> bool **)

  let eqb x y =
    match x with
    | Z0 -> (match y with
             | Z0 -> true
             | _ -> false)
    | Zpos p -> (match y with
                 | Zpos q -> Coq_Pos.eqb p q
                 | _ -> false)
    | Zneg p -> (match y with
                 | Zneg q -> Coq_Pos.eqb p q
                 | _ -> false)

  (** val to_nat : z -> nat **)

  let to_nat = function
  | Zpos p -> Coq_Pos.to_nat p
  | _ -> O

  (** val to_N : z -> n **)

  let to_N = function
  | Zpos p -> Npos p
  | _ -> N0

  (** val of_nat : nat -> z **)

  let of_nat = function
  | O -> Z0
  | S n1 -> Zpos (Coq_Pos.of_succ_nat n1)

  (** val of_N : n -> z **)

  let of_N = function
  | N0 -> Z0
  | Npos p -> Zpos p

  (** val to_pos : z -> positive **)

  let to_pos = function
  | Zpos p -> p
  | _ -> XH

  (** val pos_div_eucl : positive -> z -> z * z **)

  let rec pos_div_eucl a b =
    match a with
    | XI a' ->
      let (q, r) = pos_div_eucl a' b in
      let r' = add (mul (Zpos (XO XH)) r) (Zpos XH) in
      if ltb r' b
      then ((mul (Zpos (XO XH)) q), r')
      else ((add (mul (Zpos (XO XH)) q) (Zpos XH)), (sub r' b))
    | XO a' ->
      let (q, r) = pos_div_eucl a' b in
      let r' = mul (Zpos (XO XH)) r in
      if ltb r' b
      then ((mul (Zpos (XO XH)) q), r')
      else ((add (mul (Zpos (XO XH)) q) (Zpos XH)), (sub r' b))
    | XH -> if leb (Zpos (XO XH)) b then (Z0, (Zpos XH)) else ((Zpos XH), Z0)

  (** val div_eucl : z -> z -> z * z **)

  let div_eucl a b =
    match a with
    | Z0 -> (Z0, Z0)
    | Zpos a' ->
      (match b with
       | Z0 -> (Z0, a)
       | Zpos _ -> pos_div_eucl a' b
       | Zneg b' ->
         let (q, r) = pos_div_eucl a' (Zpos b') in
         (match r with
          | Z0 -> ((opp q), Z0)
          | _ -> ((opp (add q (Zpos XH))), (add b r))))
    | Zneg a' ->
      (match b with
       | Z0 -> (Z0, a)
       | Zpos _ ->
         let (q, r) = pos_div_eucl a' b in
         (match r with
          | Z0 -> ((opp q), Z0)
          | _ -> ((opp (add q (Zpos XH))), (sub b r)))
       | Zneg b' -> let (q, r) = pos_div_eucl a' (Zpos b') in (q, (opp r)))

  (** val div : z -> z -> z **)

  let div a b =
    let (q, _) = div_eucl a b in q

  (** val modulo : z -> z -> z **)

  let modulo a b =
    let (_, r) = div_eucl a b in r

  (** val quotrem : z -> z -> z * z **)

  let quotrem a b =
    match a with
    | Z0 -> (Z0, Z0)
    | Zpos a0 ->
      (match b with
       | Z0 -> (Z0, a)
       | Zpos b0 ->
         let (q, r) = N.pos_div_eucl a0 (Npos b0) in ((of_N q), (of_N r))
       | Zneg b0 ->
         let (q, r) = N.pos_div_eucl a0 (Npos b0) in
         ((opp (of_N q)), (of_N r)))
    | Zneg a0 ->
      (match b with
       | Z0 -> (Z0, a)
       | Zpos b0 ->
         let (q, r) = N.pos_div_eucl a0 (Npos b0) in
         ((opp (of_N q)), (opp (of_N r)))
       | Zneg b0 ->
         let (q, r) = N.pos_div_eucl a0 (Npos b0) in
         ((of_N q), (opp (of_N r))))

  (** val quot : z -> z -> z **)

  let quot a b =
    fst (quotrem a b)

  (** val rem : z -> z -> z **)

  let rem a b =
    snd (quotrem a b)

  (** val div2 : z -> z **)

  let div2 = function
  | Z0 -> Z0
  | Zpos p -> (match p with
               | XH -> Z0
               | _ -> Zpos (Coq_Pos.div2 p))
  | Zneg p -> Zneg (Coq_Pos.div2_up p)

  (** val log2 : z -> z **)

  let log2 = function
  | Zpos p0 ->
    (match p0 with
     | XI p -> Zpos (Coq_Pos.size p)
     | XO p -> Zpos (Coq_Pos.size p)
     | XH -> Z0)
  | _ -> Z0

  (** val shiftl : z -> z -> z **)

  let shiftl a = function
  | Z0 -> a
  | Zpos p -> Coq_Pos.iter (mul (Zpos (XO XH))) a p
  | Zneg p -> Coq_Pos.iter div2 a p

  (** val shiftr : z -> z -> z **)

  let shiftr a n0 =
    shiftl a (opp n0)

  (** val coq_lor : z -> z -> z **)

  let coq_lor a b =
    match a with
    | Z0 -> b
    | Zpos a0 ->
      (match b with
       | Z0 -> a
       | Zpos b0 -> Zpos (Coq_Pos.coq_lor a0 b0)
       | Zneg b0 -> Zneg (N.succ_pos (N.ldiff (Coq_Pos.pred_N b0) (Npos a0))))
    | Zneg a0 ->
      (match b with
       | Z0 -> a
       | Zpos b0 -> Zneg (N.succ_pos (N.ldiff (Coq_Pos.pred_N a0) (Npos b0)))
       | Zneg b0 ->
         Zneg
           (N.succ_pos (N.coq_land (Coq_Pos.pred_N a0) (Coq_Pos.pred_N b0))))

  (** val coq_land : z -> z -> z **)

  let coq_land a b =
    match a with
    | Z0 -> Z0
    | Zpos a0 ->
      (match b with
       | Z0 -> Z0
       | Zpos b0 -> of_N (Coq_Pos.coq_land a0 b0)
       | Zneg b0 -> of_N (N.ldiff (Npos a0) (Coq_Pos.pred_N b0)))
    | Zneg a0 ->
      (match b with
       | Z0 -> Z0
       | Zpos b0 -> of_N (N.ldiff (Npos b0) (Coq_Pos.pred_N a0))
       | Zneg b0 ->
         Zneg (N.succ_pos (N.coq_lor (Coq_Pos.pred_N a0) (Coq_Pos.pred_N b0))))

  (** val coq_lxor : z -> z -> z **)

  let coq_lxor a b =
    match a with
    | Z0 -> b
    | Zpos a0 ->
      (match b with
       | Z0 -> a
       | Zpos b0 -> of_N (Coq_Pos.coq_lxor a0 b0)
       | Zneg b0 ->
         Zneg (N.succ_pos (N.coq_lxor (Npos a0) (Coq_Pos.pred_N b0))))
    | Zneg a0 ->
      (match b with
       | Z0 -> a
       | Zpos b0 ->
         Zneg (N.succ_pos (N.coq_lxor (Coq_Pos.pred_N a0) (Npos b0)))
       | Zneg b0 -> of_N (N.coq_lxor (Coq_Pos.pred_N a0) (Coq_Pos.pred_N b0)))
 end

(** val nth : nat -> 'a1 list -> 'a1 -> 'a1 **)

let rec nth n0 l default =
  match n0 with
  | O -> (match l with
          | [] -> default
          | x :: _ -> x)
  | S m -> (match l with
            | [] -> default
            | _ :: t0 -> nth m t0 default)

(** val nth_error : 'a1 list -> nat -> 'a1 option **)

let rec nth_error l = function
| O -> (match l with
        | [] -> None
        | x :: _ -> Some x)
| S n1 -> (match l with
           | [] -> None
           | _ :: l0 -> nth_error l0 n1)

(** val last : 'a1 list -> 'a1 -> 'a1 **)

let rec last l d =
  match l with
  | [] -> d
  | a :: l0 -> (match l0 with
                | [] -> a
                | _ :: _ -> last l0 d)

(** val map : ('a1 -> 'a2) -> 'a1 list -> 'a2 list **)

let rec map f = function
| [] -> []
| a :: t0 -> (f a) :: (map f t0)

(** val flat_map : ('a1 -> 'a2 list) -> 'a1 list -> 'a2 list **)

let rec flat_map f = function
| [] -> []
| x :: t0 -> app (f x) (flat_map f t0)

(** val fold_left : ('a1 -> 'a2 -> 'a1) -> 'a2 list -> 'a1 -> 'a1 **)

let rec fold_left f l a0 =
  match l with
  | [] -> a0
  | b :: t0 -> fold_left f t0 (f a0 b)

(** val existsb : ('a1 -> bool) -> 'a1 list -> bool **)

let rec existsb f = function
| [] -> false
| a :: l0 -> (||) (f a) (existsb f l0)

(** val find : ('a1 -> bool) -> 'a1 list -> 'a1 option **)

let rec find f = function
| [] -> None
| x :: tl -> if f x then Some x else find f tl

(** val firstn : nat -> 'a1 list -> 'a1 list **)

let rec firstn n0 l =
  match n0 with
  | O -> []
  | S n1 -> (match l with
             | [] -> []
             | a :: l0 -> a :: (firstn n1 l0))

(** val skipn : nat -> 'a1 list -> 'a1 list **)

let rec skipn n0 l =
  match n0 with
  | O -> l
  | S n1 -> (match l with
             | [] -> []
             | _ :: l0 -> skipn n1 l0)

(** val repeat : 'a1 -> nat -> 'a1 list **)

let rec repeat x = function
| O -> []
| S k -> x :: (repeat x k)

(** val append : positive -> positive -> positive **)

let rec append i j =
  match i with
  | XI ii -> XI (append ii j)
  | XO ii -> XO (append ii j)
  | XH -> j

module PositiveMap =
 struct
  type key = positive

  type 'a tree =
  | Leaf
  | Node of 'a tree * 'a option * 'a tree

  type 'a t = 'a tree

  (** val empty : 'a1 t **)

  let empty =
    Leaf

  (** val find : key -> 'a1 t -> 'a1 option **)

  let rec find i = function
  | Leaf -> None
  | Node (l, o, r) ->
    (match i with
     | XI ii -> find ii r
     | XO ii -> find ii l
     | XH -> o)

  (** val add : key -> 'a1 -> 'a1 t -> 'a1 t **)

  let rec add i v = function
  | Leaf ->
    (match i with
     | XI ii -> Node (Leaf, None, (add ii v Leaf))
     | XO ii -> Node ((add ii v Leaf), None, Leaf)
     | XH -> Node (Leaf, (Some v), Leaf))
  | Node (l, o, r) ->
    (match i with
     | XI ii -> Node (l, o, (add ii v r))
     | XO ii -> Node ((add ii v l), o, r)
     | XH -> Node (l, (Some v), r))

  (** val xelements : 'a1 t -> key -> (key * 'a1) list **)

  let rec xelements m i =
    match m with
    | Leaf -> []
    | Node (l, o, r) ->
      (match o with
       | Some x ->
         app (xelements l (append i (XO XH))) ((i,
           x) :: (xelements r (append i (XI XH))))
       | None ->
         app (xelements l (append i (XO XH))) (xelements r (append i (XI XH))))

  (** val elements : 'a1 t -> (key * 'a1) list **)

  let elements m =
    xelements m XH
 end

(** val modulus : z -> z **)

let modulus n0 =
  Z.pow (Zpos (XO XH)) n0

(** val half_modulus : z -> z **)

let half_modulus n0 =
  Z.pow (Zpos (XO XH)) (Z.sub n0 (Zpos XH))

(** val wrap : z -> z -> z **)

let wrap n0 x =
  Z.modulo x (modulus n0)

(** val signed : z -> z -> z **)

let signed n0 x =
  if Z.ltb x (half_modulus n0) then x else Z.sub x (modulus n0)

(** val unsigned : z -> z -> z **)

let unsigned =
  wrap

(** val bool_to_Z : bool -> z **)

let bool_to_Z = function
| true -> Zpos XH
| false -> Z0

(** val iadd : z -> z -> z -> z **)

let iadd n0 x y =
  wrap n0 (Z.add x y)

(** val isub : z -> z -> z -> z **)

let isub n0 x y =
  wrap n0 (Z.add (Z.sub x y) (modulus n0))

(** val imul : z -> z -> z -> z **)

let imul n0 x y =
  wrap n0 (Z.mul x y)

(** val idiv_u : z -> z -> z -> z option **)

let idiv_u _ x y =
  if Z.eqb y Z0 then None else Some (Z.div x y)

(** val irem_u : z -> z -> z -> z option **)

let irem_u _ x y =
  if Z.eqb y Z0 then None else Some (Z.modulo x y)

(** val idiv_s : z -> z -> z -> z option **)

let idiv_s n0 x y =
  if Z.eqb y Z0
  then None
  else let q = Z.quot (signed n0 x) (signed n0 y) in
       if Z.eqb q (half_modulus n0) then None else Some (unsigned n0 q)

(** val irem_s : z -> z -> z -> z option **)

let irem_s n0 x y =
  if Z.eqb y Z0
  then None
  else Some (unsigned n0 (Z.rem (signed n0 x) (signed n0 y)))

(** val iand : z -> z -> z -> z **)

let iand _ =
  Z.coq_land

(** val ior : z -> z -> z -> z **)

let ior _ =
  Z.coq_lor

(** val ixor : z -> z -> z -> z **)

let ixor _ =
  Z.coq_lxor

(** val ishl : z -> z -> z -> z **)

let ishl n0 x k =
  wrap n0 (Z.mul x (Z.pow (Zpos (XO XH)) (Z.modulo k n0)))

(** val ishr_u : z -> z -> z -> z **)

let ishr_u n0 x k =
  Z.div x (Z.pow (Zpos (XO XH)) (Z.modulo k n0))

(** val ishr_s : z -> z -> z -> z **)

let ishr_s n0 x k =
  unsigned n0 (Z.div (signed n0 x) (Z.pow (Zpos (XO XH)) (Z.modulo k n0)))

(** val irotl : z -> z -> z -> z **)

let irotl n0 x k =
  let k0 = Z.modulo k n0 in
  Z.add (wrap n0 (Z.mul x (Z.pow (Zpos (XO XH)) k0)))
    (Z.div x (Z.pow (Zpos (XO XH)) (Z.sub n0 k0)))

(** val irotr : z -> z -> z -> z **)

let irotr n0 x k =
  let k0 = Z.modulo k n0 in
  Z.add (Z.div x (Z.pow (Zpos (XO XH)) k0))
    (wrap n0 (Z.mul x (Z.pow (Zpos (XO XH)) (Z.sub n0 k0))))

(** val pos_ctz : positive -> z **)

let rec pos_ctz = function
| XO q -> Z.add (Zpos XH) (pos_ctz q)
| _ -> Z0

(** val pos_popcnt : positive -> z **)

let rec pos_popcnt = function
| XI q -> Z.add (Zpos XH) (pos_popcnt q)
| XO q -> pos_popcnt q
| XH -> Zpos XH

(** val bitlen : z -> z **)

let bitlen x = match x with
| Zpos _ -> Z.add (Z.log2 x) (Zpos XH)
| _ -> Z0

(** val iclz : z -> z -> z **)

let iclz n0 x =
  Z.sub n0 (bitlen x)

(** val ictz : z -> z -> z **)

let ictz n0 = function
| Zpos p -> pos_ctz p
| _ -> n0

(** val ipopcnt : z -> z -> z **)

let ipopcnt _ = function
| Zpos p -> pos_popcnt p
| _ -> Z0

(** val ieqz : z -> z -> z **)

let ieqz _ x =
  bool_to_Z (Z.eqb x Z0)

(** val ieq : z -> z -> z -> z **)

let ieq _ x y =
  bool_to_Z (Z.eqb x y)

(** val ine : z -> z -> z -> z **)

let ine _ x y =
  bool_to_Z (negb (Z.eqb x y))

(** val ilt_u : z -> z -> z -> z **)

let ilt_u _ x y =
  bool_to_Z (Z.ltb x y)

(** val igt_u : z -> z -> z -> z **)

let igt_u _ x y =
  bool_to_Z (Z.gtb x y)

(** val ile_u : z -> z -> z -> z **)

let ile_u _ x y =
  bool_to_Z (Z.leb x y)

(** val ige_u : z -> z -> z -> z **)

let ige_u _ x y =
  bool_to_Z (Z.geb x y)

(** val ilt_s : z -> z -> z -> z **)

let ilt_s n0 x y =
  bool_to_Z (Z.ltb (signed n0 x) (signed n0 y))

(** val igt_s : z -> z -> z -> z **)

let igt_s n0 x y =
  bool_to_Z (Z.gtb (signed n0 x) (signed n0 y))

(** val ile_s : z -> z -> z -> z **)

let ile_s n0 x y =
  bool_to_Z (Z.leb (signed n0 x) (signed n0 y))

(** val ige_s : z -> z -> z -> z **)

let ige_s n0 x y =
  bool_to_Z (Z.geb (signed n0 x) (signed n0 y))

(** val iwrap : z -> z -> z -> z **)

let iwrap _ =
  wrap

(** val iextend_u : z -> z -> z -> z **)

let iextend_u _ _ x =
  x

(** val iextend_s : z -> z -> z -> z **)

let iextend_s m n0 x =
  unsigned n0 (signed m x)

(** val iextendM_s : z -> z -> z -> z **)

let iextendM_s m n0 x =
  iextend_s m n0 (wrap m x)

(** val bytes_of : nat -> z -> z list **)

let rec bytes_of k x =
  match k with
  | O -> []
  | S k' ->
    (Z.modulo x (Zpos (XO (XO (XO (XO (XO (XO (XO (XO XH)))))))))) :: 
      (bytes_of k'
        (Z.div x (Zpos (XO (XO (XO (XO (XO (XO (XO (XO XH)))))))))))

(** val of_bytes : z list -> z **)

let rec of_bytes = function
| [] -> Z0
| b :: r ->
  Z.add b
    (Z.mul (Zpos (XO (XO (XO (XO (XO (XO (XO (XO XH))))))))) (of_bytes r))

type valtype =
| T_i32
| T_i64

type blocktype = valtype option

type functype = { ft_params : valtype list; ft_result : valtype option }

(** val valtype_eqb : valtype -> valtype -> bool **)

let valtype_eqb a b =
  match a with
  | T_i32 -> (match b with
              | T_i32 -> true
              | T_i64 -> false)
  | T_i64 -> (match b with
              | T_i32 -> false
              | T_i64 -> true)

(** val valtypes_eqb : valtype list -> valtype list -> bool **)

let rec valtypes_eqb a b =
  match a with
  | [] -> (match b with
           | [] -> true
           | _ :: _ -> false)
  | x :: a' ->
    (match b with
     | [] -> false
     | y :: b' -> (&&) (valtype_eqb x y) (valtypes_eqb a' b'))

(** val blocktype_eqb : blocktype -> blocktype -> bool **)

let blocktype_eqb a b =
  match a with
  | Some x -> (match b with
               | Some y -> valtype_eqb x y
               | None -> false)
  | None -> (match b with
             | Some _ -> false
             | None -> true)

(** val functype_eqb : functype -> functype -> bool **)

let functype_eqb a b =
  (&&) (valtypes_eqb a.ft_params b.ft_params)
    (blocktype_eqb a.ft_result b.ft_result)

type val0 =
| VI32 of z
| VI64 of z

(** val type_of_val : val0 -> valtype **)

let type_of_val = function
| VI32 _ -> T_i32
| VI64 _ -> T_i64

(** val bits : valtype -> z **)

let bits = function
| T_i32 -> Zpos (XO (XO (XO (XO (XO XH)))))
| T_i64 -> Zpos (XO (XO (XO (XO (XO (XO XH))))))

(** val zero_of : valtype -> val0 **)

let zero_of = function
| T_i32 -> VI32 Z0
| T_i64 -> VI64 Z0

type unop =
| Clz
| Ctz
| Popcnt
| Extend8S
| Extend16S
| Extend32S

type binop =
| Add
| Sub
| Mul
| DivS
| DivU
| RemS
| RemU
| And
| Or
| Xor
| Shl
| ShrS
| ShrU
| Rotl
| Rotr

type relop =
| Eq0
| Ne
| LtS
| LtU
| GtS
| GtU
| LeS
| LeU
| GeS
| GeU

type cvtop =
| WrapI64
| ExtendI32S
| ExtendI32U

type sx =
| SX_S
| SX_U

type packsize =
| P8
| P16
| P32

(** val pack_bytes : packsize -> nat **)

let pack_bytes = function
| P8 -> S O
| P16 -> S (S O)
| P32 -> S (S (S (S O)))

(** val type_bytes : valtype -> nat **)

let type_bytes = function
| T_i32 -> S (S (S (S O)))
| T_i64 -> S (S (S (S (S (S (S (S O)))))))

type binstr =
| BUnreachable
| BNop
| BBr of nat
| BBrIf of nat
| BBrTable of nat list * nat
| BReturn
| BCall of nat
| BCallIndirect of nat
| BDrop
| BSelect
| BLocalGet of nat
| BLocalSet of nat
| BLocalTee of nat
| BGlobalGet of nat
| BGlobalSet of nat
| BLoad of valtype * (packsize * sx) option * n
| BStore of valtype * packsize option * n
| BMemorySize
| BMemoryGrow
| BConst of valtype * z
| BUnop of valtype * unop
| BBinop of valtype * binop
| BEqz of valtype
| BRelop of valtype * relop
| BCvt of cvtop
| BTick of n

type instr =
| Basic of binstr
| Block of blocktype * instr list
| Loop of blocktype * instr list
| If of blocktype * instr list * instr list

type opcode =
| OEnd
| OElse
| OBlock of blocktype
| OLoop of blocktype
| OIf of blocktype
| OBasic of binstr

(** val flatten_instr : instr -> opcode list **)

let rec flatten_instr = function
| Basic b -> (OBasic b) :: []
| Block (bt, body) ->
  (OBlock bt) :: (app (flat_map flatten_instr body) (OEnd :: []))
| Loop (bt, body) ->
  (OLoop bt) :: (app (flat_map flatten_instr body) (OEnd :: []))
| If (bt, thn, els) ->
  (OIf
    bt) :: (app (flat_map flatten_instr thn)
             (match els with
              | [] -> OEnd :: []
              | _ :: _ ->
                OElse :: (app (flat_map flatten_instr els) (OEnd :: []))))

(** val flatten : instr list -> opcode list **)

let flatten is =
  flat_map flatten_instr is

(** val flatten_body : instr list -> opcode list **)

let flatten_body is =
  app (flatten is) (OEnd :: [])

(** val parse_seq :
    nat -> opcode list -> ((instr list * bool) * opcode list) option **)

let rec parse_seq fuel ops =
  match fuel with
  | O -> None
  | S f ->
    (match ops with
     | [] -> None
     | o :: rest ->
       (match o with
        | OEnd -> Some (([], false), rest)
        | OElse -> Some (([], true), rest)
        | OBlock bt ->
          (match parse_seq f rest with
           | Some p ->
             let (p0, r) = p in
             let (body, b) = p0 in
             if b
             then None
             else (match parse_seq f r with
                   | Some p1 ->
                     let (p2, r') = p1 in
                     let (is, d) = p2 in
                     Some ((((Block (bt, body)) :: is), d), r')
                   | None -> None)
           | None -> None)
        | OLoop bt ->
          (match parse_seq f rest with
           | Some p ->
             let (p0, r) = p in
             let (body, b) = p0 in
             if b
             then None
             else (match parse_seq f r with
                   | Some p1 ->
                     let (p2, r') = p1 in
                     let (is, d) = p2 in
                     Some ((((Loop (bt, body)) :: is), d), r')
                   | None -> None)
           | None -> None)
        | OIf bt ->
          (match parse_seq f rest with
           | Some p ->
             let (p0, r) = p in
             let (thn, b) = p0 in
             if b
             then (match parse_seq f r with
                   | Some p1 ->
                     let (p2, r2) = p1 in
                     let (els, b0) = p2 in
                     if b0
                     then None
                     else (match parse_seq f r2 with
                           | Some p3 ->
                             let (p4, r') = p3 in
                             let (is, d) = p4 in
                             Some ((((If (bt, thn, els)) :: is), d), r')
                           | None -> None)
                   | None -> None)
             else (match parse_seq f r with
                   | Some p1 ->
                     let (p2, r') = p1 in
                     let (is, d) = p2 in
                     Some ((((If (bt, thn, [])) :: is), d), r')
                   | None -> None)
           | None -> None)
        | OBasic b ->
          (match parse_seq f rest with
           | Some p ->
             let (p0, r) = p in
             let (is, d) = p0 in Some ((((Basic b) :: is), d), r)
           | None -> None)))

(** val structure_body : opcode list -> instr list option **)

let structure_body ops =
  match parse_seq (S (length ops)) ops with
  | Some p ->
    let (p0, l) = p in
    let (is, b) = p0 in
    if b then None else (match l with
                         | [] -> Some is
                         | _ :: _ -> None)
  | None -> None

type func = { f_type : nat; f_locals : valtype list; f_body : instr list }

type global = { g_mut : bool; g_init : val0 }

type limits = { l_min : n; l_max : n option }

type module0 = { m_types : functype list; m_imports : nat list;
                 m_funcs : func list; m_table : n option;
                 m_elems : (n * nat list) list; m_mem : limits option;
                 m_data : (n * z list) list; m_globals : global list }

(** val page_size : n **)

let page_size =
  Npos (XO (XO (XO (XO (XO (XO (XO (XO (XO (XO (XO (XO (XO (XO (XO (XO
    XH))))))))))))))))

(** val binops : binop list **)

let binops =
  Add :: (Sub :: (Mul :: (DivS :: (DivU :: (RemS :: (RemU :: (And :: (Or :: (Xor :: (Shl :: (ShrS :: (ShrU :: (Rotl :: (Rotr :: []))))))))))))))

(** val relops : relop list **)

let relops =
  Eq0 :: (Ne :: (LtS :: (LtU :: (GtS :: (GtU :: (LeS :: (LeU :: (GeS :: (GeU :: [])))))))))

(** val cnt_unops : unop list **)

let cnt_unops =
  Clz :: (Ctz :: (Popcnt :: []))

(** val in_range : n -> n -> n -> bool **)

let in_range b lo hi =
  (&&) (N.leb lo b) (N.leb b hi)

(** val nth_from : 'a1 list -> n -> n -> 'a1 option **)

let nth_from l b lo =
  nth_error l (N.to_nat (N.sub b lo))

(** val omap : ('a1 -> 'a2) -> 'a1 option -> 'a2 option **)

let omap f = function
| Some x -> Some (f x)
| None -> None

(** val plain_of_byte : n -> binstr option **)

let plain_of_byte b =
  if N.eqb b N0
  then Some BUnreachable
  else if N.eqb b (Npos XH)
       then Some BNop
       else if N.eqb b (Npos (XI (XI (XI XH))))
            then Some BReturn
            else if N.eqb b (Npos (XO (XI (XO (XI XH)))))
                 then Some BDrop
                 else if N.eqb b (Npos (XI (XI (XO (XI XH)))))
                      then Some BSelect
                      else if N.eqb b (Npos (XI (XI (XI (XI (XI XH))))))
                           then Some BMemorySize
                           else if N.eqb b (Npos (XO (XO (XO (XO (XO (XO
                                     XH)))))))
                                then Some BMemoryGrow
                                else if N.eqb b (Npos (XI (XO (XI (XO (XO (XO
                                          XH)))))))
                                     then Some (BEqz T_i32)
                                     else if in_range b (Npos (XO (XI (XI (XO
                                               (XO (XO XH))))))) (Npos (XI
                                               (XI (XI (XI (XO (XO XH)))))))
                                          then omap (fun x -> BRelop (T_i32,
                                                 x))
                                                 (nth_from relops b (Npos (XO
                                                   (XI (XI (XO (XO (XO
                                                   XH))))))))
                                          else if N.eqb b (Npos (XO (XO (XO
                                                    (XO (XI (XO XH)))))))
                                               then Some (BEqz T_i64)
                                               else if in_range b (Npos (XI
                                                         (XO (XO (XO (XI (XO
                                                         XH))))))) (Npos (XO
                                                         (XI (XO (XI (XI (XO
                                                         XH)))))))
                                                    then omap (fun x ->
                                                           BRelop (T_i64, x))
                                                           (nth_from relops b
                                                             (Npos (XI (XO
                                                             (XO (XO (XI (XO
                                                             XH))))))))
                                                    else if in_range b (Npos
                                                              (XI (XI (XI (XO
                                                              (XO (XI
                                                              XH))))))) (Npos
                                                              (XI (XO (XO (XI
                                                              (XO (XI
                                                              XH)))))))
                                                         then omap (fun x ->
                                                                BUnop (T_i32,
                                                                x))
                                                                (nth_from
                                                                  cnt_unops b
                                                                  (Npos (XI
                                                                  (XI (XI (XO
                                                                  (XO (XI
                                                                  XH))))))))
                                                         else if in_range b
                                                                   (Npos (XO
                                                                   (XI (XO
                                                                   (XI (XO
                                                                   (XI
                                                                   XH)))))))
                                                                   (Npos (XO
                                                                   (XO (XO
                                                                   (XI (XI
                                                                   (XI
                                                                   XH)))))))
                                                              then omap
                                                                    (fun x ->
                                                                    BBinop
                                                                    (T_i32,
                                                                    x))
                                                                    (nth_from
                                                                    binops b
                                                                    (Npos (XO
                                                                    (XI (XO
                                                                    (XI (XO
                                                                    (XI
                                                                    XH))))))))
                                                              else if 
                                                                    in_range
                                                                    b (Npos
                                                                    (XI (XO
                                                                    (XO (XI
                                                                    (XI (XI
                                                                    XH)))))))
                                                                    (Npos (XI
                                                                    (XI (XO
                                                                    (XI (XI
                                                                    (XI
                                                                    XH)))))))
                                                                   then 
                                                                    omap
                                                                    (fun x ->
                                                                    BUnop
                                                                    (T_i64,
                                                                    x))
                                                                    (nth_from
                                                                    cnt_unops
                                                                    b (Npos
                                                                    (XI (XO
                                                                    (XO (XI
                                                                    (XI (XI
                                                                    XH))))))))
                                                                   else 
                                                                    if 
                                                                    in_range
                                                                    b (Npos
                                                                    (XO (XO
                                                                    (XI (XI
                                                                    (XI (XI
                                                                    XH)))))))
                                                                    (Npos (XO
                                                                    (XI (XO
                                                                    (XI (XO
                                                                    (XO (XO
                                                                    XH))))))))
                                                                    then 
                                                                    omap
                                                                    (fun x ->
                                                                    BBinop
                                                                    (T_i64,
                                                                    x))
                                                                    (nth_from
                                                                    binops b
                                                                    (Npos (XO
                                                                    (XO (XI
                                                                    (XI (XI
                                                                    (XI
                                                                    XH))))))))
                                                                    else 
                                                                    if 
                                                                    N.eqb b
                                                                    (Npos (XI
                                                                    (XI (XI
                                                                    (XO (XO
                                                                    (XI (XO
                                                                    XH))))))))
                                                                    then 
                                                                    Some
                                                                    (BCvt
                                                                    WrapI64)
                                                                    else 
                                                                    if 
                                                                    N.eqb b
                                                                    (Npos (XO
                                                                    (XO (XI
                                                                    (XI (XO
                                                                    (XI (XO
                                                                    XH))))))))
                                                                    then 
                                                                    Some
                                                                    (BCvt
                                                                    ExtendI32S)
                                                                    else 
                                                                    if 
                                                                    N.eqb b
                                                                    (Npos (XI
                                                                    (XO (XI
                                                                    (XI (XO
                                                                    (XI (XO
                                                                    XH))))))))
                                                                    then 
                                                                    Some
                                                                    (BCvt
                                                                    ExtendI32U)
                                                                    else 
                                                                    if 
                                                                    N.eqb b
                                                                    (Npos (XO
                                                                    (XO (XO
                                                                    (XO (XO
                                                                    (XO (XI
                                                                    XH))))))))
                                                                    then 
                                                                    Some
                                                                    (BUnop
                                                                    (T_i32,
                                                                    Extend8S))
                                                                    else 
                                                                    if 
                                                                    N.eqb b
                                                                    (Npos (XI
                                                                    (XO (XO
                                                                    (XO (XO
                                                                    (XO (XI
                                                                    XH))))))))
                                                                    then 
                                                                    Some
                                                                    (BUnop
                                                                    (T_i32,
                                                                    Extend16S))
                                                                    else 
                                                                    if 
                                                                    N.eqb b
                                                                    (Npos (XO
                                                                    (XI (XO
                                                                    (XO (XO
                                                                    (XO (XI
                                                                    XH))))))))
                                                                    then 
                                                                    Some
                                                                    (BUnop
                                                                    (T_i64,
                                                                    Extend8S))
                                                                    else 
                                                                    if 
                                                                    N.eqb b
                                                                    (Npos (XI
                                                                    (XI (XO
                                                                    (XO (XO
                                                                    (XO (XI
                                                                    XH))))))))
                                                                    then 
                                                                    Some
                                                                    (BUnop
                                                                    (T_i64,
                                                                    Extend16S))
                                                                    else 
                                                                    if 
                                                                    N.eqb b
                                                                    (Npos (XO
                                                                    (XO (XI
                                                                    (XO (XO
                                                                    (XO (XI
                                                                    XH))))))))
                                                                    then 
                                                                    Some
                                                                    (BUnop
                                                                    (T_i64,
                                                                    Extend32S))
                                                                    else None

(** val mem_of_byte : n -> n -> binstr option **)

let mem_of_byte b offset =
  if N.eqb b (Npos (XO (XO (XO (XI (XO XH))))))
  then Some (BLoad (T_i32, None, offset))
  else if N.eqb b (Npos (XI (XO (XO (XI (XO XH))))))
       then Some (BLoad (T_i64, None, offset))
       else if N.eqb b (Npos (XO (XO (XI (XI (XO XH))))))
            then Some (BLoad (T_i32, (Some (P8, SX_S)), offset))
            else if N.eqb b (Npos (XI (XO (XI (XI (XO XH))))))
                 then Some (BLoad (T_i32, (Some (P8, SX_U)), offset))
                 else if N.eqb b (Npos (XO (XI (XI (XI (XO XH))))))
                      then Some (BLoad (T_i32, (Some (P16, SX_S)), offset))
                      else if N.eqb b (Npos (XI (XI (XI (XI (XO XH))))))
                           then Some (BLoad (T_i32, (Some (P16, SX_U)),
                                  offset))
                           else if N.eqb b (Npos (XO (XO (XO (XO (XI XH))))))
                                then Some (BLoad (T_i64, (Some (P8, SX_S)),
                                       offset))
                                else if N.eqb b (Npos (XI (XO (XO (XO (XI
                                          XH))))))
                                     then Some (BLoad (T_i64, (Some (P8,
                                            SX_U)), offset))
                                     else if N.eqb b (Npos (XO (XI (XO (XO
                                               (XI XH))))))
                                          then Some (BLoad (T_i64, (Some
                                                 (P16, SX_S)), offset))
                                          else if N.eqb b (Npos (XI (XI (XO
                                                    (XO (XI XH))))))
                                               then Some (BLoad (T_i64, (Some
                                                      (P16, SX_U)), offset))
                                               else if N.eqb b (Npos (XO (XO
                                                         (XI (XO (XI XH))))))
                                                    then Some (BLoad (T_i64,
                                                           (Some (P32,
                                                           SX_S)), offset))
                                                    else if N.eqb b (Npos (XI
                                                              (XO (XI (XO (XI
                                                              XH))))))
                                                         then Some (BLoad
                                                                (T_i64, (Some
                                                                (P32, SX_U)),
                                                                offset))
                                                         else if N.eqb b
                                                                   (Npos (XO
                                                                   (XI (XI
                                                                   (XO (XI
                                                                   XH))))))
                                                              then Some
                                                                    (BStore
                                                                    (T_i32,
                                                                    None,
                                                                    offset))
                                                              else if 
                                                                    N.eqb b
                                                                    (Npos (XI
                                                                    (XI (XI
                                                                    (XO (XI
                                                                    XH))))))
                                                                   then 
                                                                    Some
                                                                    (BStore
                                                                    (T_i64,
                                                                    None,
                                                                    offset))
                                                                   else 
                                                                    if 
                                                                    N.eqb b
                                                                    (Npos (XO
                                                                    (XI (XO
                                                                    (XI (XI
                                                                    XH))))))
                                                                    then 
                                                                    Some
                                                                    (BStore
                                                                    (T_i32,
                                                                    (Some
                                                                    P8),
                                                                    offset))
                                                                    else 
                                                                    if 
                                                                    N.eqb b
                                                                    (Npos (XI
                                                                    (XI (XO
                                                                    (XI (XI
                                                                    XH))))))
                                                                    then 
                                                                    Some
                                                                    (BStore
                                                                    (T_i32,
                                                                    (Some
                                                                    P16),
                                                                    offset))
                                                                    else 
                                                                    if 
                                                                    N.eqb b
                                                                    (Npos (XO
                                                                    (XO (XI
                                                                    (XI (XI
                                                                    XH))))))
                                                                    then 
                                                                    Some
                                                                    (BStore
                                                                    (T_i64,
                                                                    (Some
                                                                    P8),
                                                                    offset))
                                                                    else 
                                                                    if 
                                                                    N.eqb b
                                                                    (Npos (XI
                                                                    (XO (XI
                                                                    (XI (XI
                                                                    XH))))))
                                                                    then 
                                                                    Some
                                                                    (BStore
                                                                    (T_i64,
                                                                    (Some
                                                                    P16),
                                                                    offset))
                                                                    else 
                                                                    if 
                                                                    N.eqb b
                                                                    (Npos (XO
                                                                    (XI (XI
                                                                    (XI (XI
                                                                    XH))))))
                                                                    then 
                                                                    Some
                                                                    (BStore
                                                                    (T_i64,
                                                                    (Some
                                                                    P32),
                                                                    offset))
                                                                    else None

(** val mk_const : valtype -> z -> binstr **)

let mk_const t0 c =
  BConst (t0, (wrap (bits t0) c))

(** val mk_val : valtype -> z -> val0 **)

let mk_val t0 c =
  match t0 with
  | T_i32 -> VI32 (wrap (Zpos (XO (XO (XO (XO (XO XH)))))) c)
  | T_i64 -> VI64 (wrap (Zpos (XO (XO (XO (XO (XO (XO XH))))))) c)

type memory = { mem_pages : n; mem_max : n option; mem_data : z PositiveMap.t }

(** val mem_len : memory -> n **)

let mem_len m =
  N.mul m.mem_pages page_size

(** val mem_key : n -> positive **)

let mem_key =
  N.succ_pos

(** val mem_get : memory -> n -> z **)

let mem_get m a =
  match PositiveMap.find (mem_key a) m.mem_data with
  | Some b -> b
  | None -> Z0

(** val mem_set : memory -> n -> z -> memory **)

let mem_set m a b =
  { mem_pages = m.mem_pages; mem_max = m.mem_max; mem_data =
    (PositiveMap.add (mem_key a) b m.mem_data) }

(** val mem_read : memory -> n -> nat -> z list **)

let rec mem_read m a = function
| O -> []
| S k' -> (mem_get m a) :: (mem_read m (N.add a (Npos XH)) k')

(** val mem_write : memory -> n -> z list -> memory **)

let rec mem_write m a = function
| [] -> m
| b :: r -> mem_write (mem_set m a b) (N.add a (Npos XH)) r

(** val in_bounds : memory -> n -> nat -> bool **)

let in_bounds m ea k =
  N.leb (N.add ea (N.of_nat k)) (mem_len m)

(** val mem_load : memory -> n -> nat -> z option **)

let mem_load m ea k =
  if in_bounds m ea k then Some (of_bytes (mem_read m ea k)) else None

(** val mem_store : memory -> n -> nat -> z -> memory option **)

let mem_store m ea k x =
  if in_bounds m ea k then Some (mem_write m ea (bytes_of k x)) else None

type store = { s_mem : memory option; s_globals : val0 list;
               s_table : nat option list }

(** val set_mem : store -> memory option -> store **)

let set_mem s mm =
  { s_mem = mm; s_globals = s.s_globals; s_table = s.s_table }

(** val set_globals : store -> val0 list -> store **)

let set_globals s g =
  { s_mem = s.s_mem; s_globals = g; s_table = s.s_table }

type host_result =
| HostOk of memory option * val0 option
| HostTrap

type res =
| RNormal of store * val0 list * val0 list
| RBr of nat * store * val0 list * val0 list
| RReturn of store * val0 list
| RTrap
| RStuck
| RFuel

type outcome =
| Done of val0 option * memory option * val0 list
| Trap
| Stuck
| OutOfFuel

(** val app_unop : valtype -> unop -> z -> z option **)

let app_unop t0 op x =
  let n0 = bits t0 in
  (match op with
   | Clz -> Some (iclz n0 x)
   | Ctz -> Some (ictz n0 x)
   | Popcnt -> Some (ipopcnt n0 x)
   | Extend8S -> Some (iextendM_s (Zpos (XO (XO (XO XH)))) n0 x)
   | Extend16S -> Some (iextendM_s (Zpos (XO (XO (XO (XO XH))))) n0 x)
   | Extend32S ->
     (match t0 with
      | T_i32 -> None
      | T_i64 -> Some (iextendM_s (Zpos (XO (XO (XO (XO (XO XH)))))) n0 x)))

(** val app_binop : valtype -> binop -> z -> z -> z option **)

let app_binop t0 op x y =
  let n0 = bits t0 in
  (match op with
   | Add -> Some (iadd n0 x y)
   | Sub -> Some (isub n0 x y)
   | Mul -> Some (imul n0 x y)
   | DivS -> idiv_s n0 x y
   | DivU -> idiv_u n0 x y
   | RemS -> irem_s n0 x y
   | RemU -> irem_u n0 x y
   | And -> Some (iand n0 x y)
   | Or -> Some (ior n0 x y)
   | Xor -> Some (ixor n0 x y)
   | Shl -> Some (ishl n0 x y)
   | ShrS -> Some (ishr_s n0 x y)
   | ShrU -> Some (ishr_u n0 x y)
   | Rotl -> Some (irotl n0 x y)
   | Rotr -> Some (irotr n0 x y))

(** val app_relop : valtype -> relop -> z -> z -> z **)

let app_relop t0 op x y =
  let n0 = bits t0 in
  (match op with
   | Eq0 -> ieq n0 x y
   | Ne -> ine n0 x y
   | LtS -> ilt_s n0 x y
   | LtU -> ilt_u n0 x y
   | GtS -> igt_s n0 x y
   | GtU -> igt_u n0 x y
   | LeS -> ile_s n0 x y
   | LeU -> ile_u n0 x y
   | GeS -> ige_s n0 x y
   | GeU -> ige_u n0 x y)

(** val mkval : valtype -> z -> val0 **)

let mkval t0 z0 =
  match t0 with
  | T_i32 -> VI32 z0
  | T_i64 -> VI64 z0

(** val payload : valtype -> val0 -> z option **)

let payload t0 v =
  match t0 with
  | T_i32 -> (match v with
              | VI32 z0 -> Some z0
              | VI64 _ -> None)
  | T_i64 -> (match v with
              | VI32 _ -> None
              | VI64 z0 -> Some z0)

(** val nth_opt : 'a1 list -> nat -> 'a1 option **)

let nth_opt =
  nth_error

(** val set_nth : 'a1 list -> nat -> 'a1 -> 'a1 list option **)

let rec set_nth l i x =
  match l with
  | [] -> None
  | y :: r ->
    (match i with
     | O -> Some (x :: r)
     | S i' ->
       (match set_nth r i' x with
        | Some r' -> Some (y :: r')
        | None -> None))

(** val arity : blocktype -> nat **)

let arity = function
| Some _ -> S O
| None -> O

(** val func_type : module0 -> nat -> functype option **)

let func_type m fidx =
  let ni = length m.m_imports in
  if Nat.ltb fidx ni
  then (match nth_opt m.m_imports fidx with
        | Some ti -> nth_opt m.m_types ti
        | None -> None)
  else (match nth_opt m.m_funcs (sub fidx ni) with
        | Some f -> nth_opt m.m_types f.f_type
        | None -> None)

(** val grow_limit : n -> memory -> n **)

let grow_limit page_cap mm =
  N.min page_cap
    (N.min (Npos (XO (XO (XO (XO (XO (XO (XO (XO (XO (XO (XO (XO (XO (XO (XO
      (XO XH)))))))))))))))))
      (match mm.mem_max with
       | Some x -> x
       | None ->
         Npos (XO (XO (XO (XO (XO (XO (XO (XO (XO (XO (XO (XO (XO (XO (XO (XO
           XH))))))))))))))))))

(** val mem_grow : n -> memory -> z -> memory * z **)

let mem_grow page_cap mm n0 =
  let new0 = N.add mm.mem_pages (Z.to_N n0) in
  if N.leb new0 (grow_limit page_cap mm)
  then ({ mem_pages = new0; mem_max = mm.mem_max; mem_data = mm.mem_data },
         (Z.of_N mm.mem_pages))
  else (mm, (Zpos (XI (XI (XI (XI (XI (XI (XI (XI (XI (XI (XI (XI (XI (XI (XI
         (XI (XI (XI (XI (XI (XI (XI (XI (XI (XI (XI (XI (XI (XI (XI (XI
         XH)))))))))))))))))))))))))))))))))

type step_result = (bool, (store * val0 list) * val0 list) sum

(** val ok : store -> val0 list -> val0 list -> step_result **)

let ok s l st =
  Inr ((s, l), st)

(** val trap : step_result **)

let trap =
  Inl true

(** val stuck : step_result **)

let stuck =
  Inl false

(** val with_mem : store -> memory -> store **)

let with_mem s mm =
  set_mem s (Some mm)

(** val exec_simple :
    n -> binstr -> store -> val0 list -> val0 list -> step_result **)

let exec_simple page_cap b s locals stack =
  match b with
  | BUnreachable -> trap
  | BNop -> ok s locals stack
  | BDrop -> (match stack with
              | [] -> stuck
              | _ :: st -> ok s locals st)
  | BSelect ->
    (match stack with
     | [] -> stuck
     | v :: l ->
       (match v with
        | VI32 c ->
          (match l with
           | [] -> stuck
           | v2 :: l0 ->
             (match l0 with
              | [] -> stuck
              | v1 :: st ->
                if valtype_eqb (type_of_val v1) (type_of_val v2)
                then ok s locals ((if Z.eqb c Z0 then v2 else v1) :: st)
                else stuck))
        | VI64 _ -> stuck))
  | BLocalGet i ->
    (match nth_opt locals i with
     | Some v -> ok s locals (v :: stack)
     | None -> stuck)
  | BLocalSet i ->
    (match stack with
     | [] -> stuck
     | v :: st ->
       (match set_nth locals i v with
        | Some l' -> ok s l' st
        | None -> stuck))
  | BLocalTee i ->
    (match stack with
     | [] -> stuck
     | v :: st ->
       (match set_nth locals i v with
        | Some l' -> ok s l' (v :: st)
        | None -> stuck))
  | BGlobalGet i ->
    (match nth_opt s.s_globals i with
     | Some v -> ok s locals (v :: stack)
     | None -> stuck)
  | BGlobalSet i ->
    (match stack with
     | [] -> stuck
     | v :: st ->
       (match set_nth s.s_globals i v with
        | Some g' -> ok (set_globals s g') locals st
        | None -> stuck))
  | BLoad (t0, pk, off) ->
    (match stack with
     | [] -> stuck
     | v :: st ->
       (match v with
        | VI32 i ->
          (match s.s_mem with
           | Some mm ->
             let ea = N.add (Z.to_N i) off in
             (match pk with
              | Some p0 ->
                let (p, sg) = p0 in
                (match mem_load mm ea (pack_bytes p) with
                 | Some x ->
                   let w =
                     Z.mul (Zpos (XO (XO (XO XH)))) (Z.of_nat (pack_bytes p))
                   in
                   let x' =
                     match sg with
                     | SX_S -> iextend_s w (bits t0) x
                     | SX_U -> iextend_u w (bits t0) x
                   in
                   ok s locals ((mkval t0 x') :: st)
                 | None -> trap)
              | None ->
                (match mem_load mm ea (type_bytes t0) with
                 | Some x -> ok s locals ((mkval t0 x) :: st)
                 | None -> trap))
           | None -> stuck)
        | VI64 _ -> stuck))
  | BStore (t0, pk, off) ->
    (match stack with
     | [] -> stuck
     | v :: l ->
       (match l with
        | [] -> stuck
        | v0 :: st ->
          (match v0 with
           | VI32 i ->
             (match s.s_mem with
              | Some mm ->
                (match payload t0 v with
                 | Some x ->
                   let ea = N.add (Z.to_N i) off in
                   let k =
                     match pk with
                     | Some p -> pack_bytes p
                     | None -> type_bytes t0
                   in
                   (match mem_store mm ea k x with
                    | Some mm' -> ok (with_mem s mm') locals st
                    | None -> trap)
                 | None -> stuck)
              | None -> stuck)
           | VI64 _ -> stuck)))
  | BMemorySize ->
    (match s.s_mem with
     | Some mm -> ok s locals ((VI32 (Z.of_N mm.mem_pages)) :: stack)
     | None -> stuck)
  | BMemoryGrow ->
    (match stack with
     | [] -> stuck
     | v :: st ->
       (match v with
        | VI32 n0 ->
          (match s.s_mem with
           | Some mm ->
             let (mm', r) = mem_grow page_cap mm n0 in
             ok (with_mem s mm') locals ((VI32 r) :: st)
           | None -> stuck)
        | VI64 _ -> stuck))
  | BConst (t0, z0) -> ok s locals ((mkval t0 z0) :: stack)
  | BUnop (t0, op) ->
    (match stack with
     | [] -> stuck
     | v :: st ->
       (match payload t0 v with
        | Some x ->
          (match app_unop t0 op x with
           | Some r -> ok s locals ((mkval t0 r) :: st)
           | None -> stuck)
        | None -> stuck))
  | BBinop (t0, op) ->
    (match stack with
     | [] -> stuck
     | v2 :: l ->
       (match l with
        | [] -> stuck
        | v1 :: st ->
          (match payload t0 v1 with
           | Some x ->
             (match payload t0 v2 with
              | Some y ->
                (match app_binop t0 op x y with
                 | Some r -> ok s locals ((mkval t0 r) :: st)
                 | None -> trap)
              | None -> stuck)
           | None -> stuck)))
  | BEqz t0 ->
    (match stack with
     | [] -> stuck
     | v :: st ->
       (match payload t0 v with
        | Some x -> ok s locals ((VI32 (ieqz (bits t0) x)) :: st)
        | None -> stuck))
  | BRelop (t0, op) ->
    (match stack with
     | [] -> stuck
     | v2 :: l ->
       (match l with
        | [] -> stuck
        | v1 :: st ->
          (match payload t0 v1 with
           | Some x ->
             (match payload t0 v2 with
              | Some y -> ok s locals ((VI32 (app_relop t0 op x y)) :: st)
              | None -> stuck)
           | None -> stuck)))
  | BCvt op ->
    (match op with
     | WrapI64 ->
       (match stack with
        | [] -> stuck
        | v :: st ->
          (match v with
           | VI32 _ -> stuck
           | VI64 x ->
             ok s locals ((VI32
               (iwrap (Zpos (XO (XO (XO (XO (XO (XO XH))))))) (Zpos (XO (XO
                 (XO (XO (XO XH)))))) x)) :: st)))
     | ExtendI32S ->
       (match stack with
        | [] -> stuck
        | v :: st ->
          (match v with
           | VI32 x ->
             ok s locals ((VI64
               (iextend_s (Zpos (XO (XO (XO (XO (XO XH)))))) (Zpos (XO (XO
                 (XO (XO (XO (XO XH))))))) x)) :: st)
           | VI64 _ -> stuck))
     | ExtendI32U ->
       (match stack with
        | [] -> stuck
        | v :: st ->
          (match v with
           | VI32 x ->
             ok s locals ((VI64
               (iextend_u (Zpos (XO (XO (XO (XO (XO XH)))))) (Zpos (XO (XO
                 (XO (XO (XO (XO XH))))))) x)) :: st)
           | VI64 _ -> stuck)))
  | BTick _ -> ok s locals stack
  | _ -> stuck

(** val take_args :
    nat -> val0 list -> val0 list -> (val0 list * val0 list) option **)

let rec take_args n0 stack acc =
  match n0 with
  | O -> Some (acc, stack)
  | S n' ->
    (match stack with
     | [] -> None
     | v :: st -> take_args n' st (v :: acc))

(** val invoke :
    (nat -> val0 list -> memory option -> host_result) -> n -> module0 -> nat
    -> store -> nat -> val0 list -> (res, store * val0 option) sum **)

let invoke host page_cap m =
  let rec exec_seq fuel s locals stack is =
    match fuel with
    | O -> RFuel
    | S f ->
      (match is with
       | [] -> RNormal (s, locals, stack)
       | i :: rest ->
         (match exec_instr f s locals stack i with
          | RNormal (s', l', st') -> exec_seq f s' l' st' rest
          | x -> x))
  and exec_instr fuel s locals stack i =
    match fuel with
    | O -> RFuel
    | S f ->
      (match i with
       | Basic b ->
         (match b with
          | BBr l -> RBr (l, s, locals, stack)
          | BBrIf l ->
            (match stack with
             | [] -> RStuck
             | v :: st ->
               (match v with
                | VI32 c ->
                  if Z.eqb c Z0
                  then RNormal (s, locals, st)
                  else RBr (l, s, locals, st)
                | VI64 _ -> RStuck))
          | BBrTable (ls, d) ->
            (match stack with
             | [] -> RStuck
             | v :: st ->
               (match v with
                | VI32 c ->
                  RBr
                    ((if Z.ltb c (Z.of_nat (length ls))
                      then (match nth_opt ls (Z.to_nat c) with
                            | Some l -> l
                            | None -> d)
                      else d), s, locals, st)
                | VI64 _ -> RStuck))
          | BReturn -> RReturn (s, stack)
          | BCall fi ->
            (match func_type m fi with
             | Some ft ->
               (match take_args (length ft.ft_params) stack [] with
                | Some p ->
                  let (args, st) = p in
                  (match invoke0 f s fi args with
                   | Inl r -> r
                   | Inr p0 ->
                     let (s', r) = p0 in
                     RNormal (s', locals,
                     (match r with
                      | Some v -> v :: st
                      | None -> st)))
                | None -> RStuck)
             | None -> RStuck)
          | BCallIndirect ti ->
            (match stack with
             | [] -> RStuck
             | v :: st0 ->
               (match v with
                | VI32 c ->
                  (match nth_opt m.m_types ti with
                   | Some ft ->
                     (match if Z.ltb c (Z.of_nat (length s.s_table))
                            then nth_opt s.s_table (Z.to_nat c)
                            else None with
                      | Some o ->
                        (match o with
                         | Some fi ->
                           (match func_type m fi with
                            | Some ft' ->
                              if functype_eqb ft ft'
                              then (match take_args (length ft.ft_params) st0
                                            [] with
                                    | Some p ->
                                      let (args, st) = p in
                                      (match invoke0 f s fi args with
                                       | Inl r -> r
                                       | Inr p0 ->
                                         let (s', r) = p0 in
                                         RNormal (s', locals,
                                         (match r with
                                          | Some v0 -> v0 :: st
                                          | None -> st)))
                                    | None -> RStuck)
                              else RTrap
                            | None -> RStuck)
                         | None -> RTrap)
                      | None -> RTrap)
                   | None -> RStuck)
                | VI64 _ -> RStuck))
          | _ ->
            (match exec_simple page_cap b s locals stack with
             | Inl b0 -> if b0 then RTrap else RStuck
             | Inr p ->
               let (p0, st') = p in let (s', l') = p0 in RNormal (s', l', st')))
       | Block (bt, body) ->
         (match exec_seq f s locals [] body with
          | RNormal (s', l', vs) ->
            RNormal (s', l', (app (firstn (arity bt) vs) stack))
          | RBr (l, s', l', vs) ->
            (match l with
             | O -> RNormal (s', l', (app (firstn (arity bt) vs) stack))
             | S k -> RBr (k, s', l', vs))
          | x -> x)
       | Loop (bt, body) ->
         (match exec_seq f s locals [] body with
          | RNormal (s', l', vs) ->
            RNormal (s', l', (app (firstn (arity bt) vs) stack))
          | RBr (l, s', l', vs) ->
            (match l with
             | O -> exec_instr f s' l' stack (Loop (bt, body))
             | S k -> RBr (k, s', l', vs))
          | x -> x)
       | If (bt, thn, els) ->
         (match stack with
          | [] -> RStuck
          | v :: st ->
            (match v with
             | VI32 c ->
               exec_instr f s locals st (Block (bt,
                 (if Z.eqb c Z0 then els else thn)))
             | VI64 _ -> RStuck)))
  and invoke0 fuel s fi args =
    match fuel with
    | O -> Inl RFuel
    | S f ->
      let ni = length m.m_imports in
      if Nat.ltb fi ni
      then (match func_type m fi with
            | Some _ ->
              (match host fi args s.s_mem with
               | HostOk (mm, r) -> Inr ((set_mem s mm), r)
               | HostTrap -> Inl RTrap)
            | None -> Inl RStuck)
      else (match nth_opt m.m_funcs (sub fi ni) with
            | Some fn ->
              (match nth_opt m.m_types fn.f_type with
               | Some ft ->
                 let locals = app args (map zero_of fn.f_locals) in
                 let fin = fun s' vs ->
                   match ft.ft_result with
                   | Some _ ->
                     (match vs with
                      | [] -> Inl RStuck
                      | v :: _ -> Inr (s', (Some v)))
                   | None -> Inr (s', None)
                 in
                 (match exec_seq f s locals [] fn.f_body with
                  | RNormal (s', _, vs) -> fin s' vs
                  | RBr (l, s', _, vs) ->
                    (match l with
                     | O -> fin s' vs
                     | S _ -> Inl RStuck)
                  | RReturn (s', vs) -> fin s' vs
                  | x -> Inl x)
               | None -> Inl RStuck)
            | None -> Inl RStuck)
  in invoke0

(** val write_elems :
    nat option list -> nat -> nat list -> nat option list option **)

let rec write_elems t0 off = function
| [] -> Some t0
| fi :: r ->
  (match set_nth t0 off (Some fi) with
   | Some t' -> write_elems t' (S off) r
   | None -> None)

(** val init_table :
    nat option list -> (n * nat list) list -> nat option list option **)

let rec init_table t0 = function
| [] -> Some t0
| p :: r ->
  let (off, fs) = p in
  (match write_elems t0 (N.to_nat off) fs with
   | Some t' -> init_table t' r
   | None -> None)

(** val init_data : memory -> (n * z list) list -> memory option **)

let rec init_data mm = function
| [] -> Some mm
| p :: r ->
  let (off, bs) = p in
  if in_bounds mm off (length bs)
  then init_data (mem_write mm off bs) r
  else None

(** val instantiate : module0 -> store option **)

let instantiate m =
  let tbl =
    match m.m_table with
    | Some n0 -> Some (repeat None (N.to_nat n0))
    | None -> Some []
  in
  (match tbl with
   | Some t0 ->
     (match init_table t0 m.m_elems with
      | Some t1 ->
        let mm0 =
          match m.m_mem with
          | Some l ->
            Some { mem_pages = l.l_min; mem_max = l.l_max; mem_data =
              PositiveMap.empty }
          | None -> None
        in
        let mm =
          match mm0 with
          | Some x ->
            (match init_data x m.m_data with
             | Some y -> Some (Some y)
             | None -> None)
          | None -> (match m.m_data with
                     | [] -> Some None
                     | _ :: _ -> None)
        in
        (match mm with
         | Some mem ->
           Some { s_mem = mem; s_globals =
             (map (fun g -> g.g_init) m.m_globals); s_table = t1 }
         | None -> None)
      | None -> None)
   | None -> None)

(** val run :
    (nat -> val0 list -> memory option -> host_result) -> n -> module0 -> nat
    -> nat -> val0 list -> outcome **)

let run host page_cap m fuel fi args =
  match instantiate m with
  | Some s ->
    (match invoke host page_cap m fuel s fi args with
     | Inl r -> (match r with
                 | RTrap -> Trap
                 | RFuel -> OutOfFuel
                 | _ -> Stuck)
     | Inr p -> let (s', r) = p in Done (r, s'.s_mem, s'.s_globals))
  | None -> Stuck

(** val no_host : nat -> val0 list -> memory option -> host_result **)

let no_host _ _ _ =
  HostTrap

(** val iUnreachable : n **)

let iUnreachable =
  N0

(** val iIf : n **)

let iIf =
  Npos XH

(** val iBr : n **)

let iBr =
  Npos (XO XH)

(** val iBrIf : n **)

let iBrIf =
  Npos (XI XH)

(** val iBrTable : n **)

let iBrTable =
  Npos (XO (XO XH))

(** val iBrTableCarry : n **)

let iBrTableCarry =
  Npos (XI (XO XH))

(** val iReturn : n **)

let iReturn =
  Npos (XO (XI XH))

(** val iCall : n **)

let iCall =
  Npos (XI (XI XH))

(** val iTickEnergy : n **)

let iTickEnergy =
  Npos (XO (XO (XO XH)))

(** val iCallIndirect : n **)

let iCallIndirect =
  Npos (XI (XO (XO XH)))

(** val iSelect : n **)

let iSelect =
  Npos (XO (XI (XO XH)))

(** val iGlobalGet : n **)

let iGlobalGet =
  Npos (XI (XI (XO XH)))

(** val iGlobalSet : n **)

let iGlobalSet =
  Npos (XO (XO (XI XH)))

(** val iMemorySize : n **)

let iMemorySize =
  Npos (XO (XO (XO (XO (XO XH)))))

(** val iMemoryGrow : n **)

let iMemoryGrow =
  Npos (XI (XO (XO (XO (XO XH)))))

(** val iCopy : n **)

let iCopy =
  Npos (XO (XO (XI (XO (XO (XI XH))))))

(** val relop_idx : relop -> n **)

let relop_idx = function
| Eq0 -> N0
| Ne -> Npos XH
| LtS -> Npos (XO XH)
| LtU -> Npos (XI XH)
| GtS -> Npos (XO (XO XH))
| GtU -> Npos (XI (XO XH))
| LeS -> Npos (XO (XI XH))
| LeU -> Npos (XI (XI XH))
| GeS -> Npos (XO (XO (XO XH)))
| GeU -> Npos (XI (XO (XO XH)))

(** val binop_idx : binop -> n **)

let binop_idx = function
| Add -> N0
| Sub -> Npos XH
| Mul -> Npos (XO XH)
| DivS -> Npos (XI XH)
| DivU -> Npos (XO (XO XH))
| RemS -> Npos (XI (XO XH))
| RemU -> Npos (XO (XI XH))
| And -> Npos (XI (XI XH))
| Or -> Npos (XO (XO (XO XH)))
| Xor -> Npos (XI (XO (XO XH)))
| Shl -> Npos (XO (XI (XO XH)))
| ShrS -> Npos (XI (XI (XO XH)))
| ShrU -> Npos (XO (XO (XI XH)))
| Rotl -> Npos (XI (XO (XI XH)))
| Rotr -> Npos (XO (XI (XI XH)))

(** val load_opcode : valtype -> (packsize * sx) option -> n **)

let load_opcode t0 pk =
  match t0 with
  | T_i32 ->
    (match pk with
     | Some p ->
       let (p0, s) = p in
       (match p0 with
        | P8 ->
          (match s with
           | SX_S -> Npos (XI (XI (XI XH)))
           | SX_U -> Npos (XO (XO (XO (XO XH)))))
        | P16 ->
          (match s with
           | SX_S -> Npos (XI (XO (XO (XO XH))))
           | SX_U -> Npos (XO (XI (XO (XO XH)))))
        | P32 -> Npos (XI (XO (XI XH))))
     | None -> Npos (XI (XO (XI XH))))
  | T_i64 ->
    (match pk with
     | Some p ->
       let (p0, s) = p in
       (match p0 with
        | P8 ->
          (match s with
           | SX_S -> Npos (XI (XI (XO (XO XH))))
           | SX_U -> Npos (XO (XO (XI (XO XH)))))
        | P16 ->
          (match s with
           | SX_S -> Npos (XI (XO (XI (XO XH))))
           | SX_U -> Npos (XO (XI (XI (XO XH)))))
        | P32 ->
          (match s with
           | SX_S -> Npos (XI (XI (XI (XO XH))))
           | SX_U -> Npos (XO (XO (XO (XI XH))))))
     | None -> Npos (XO (XI (XI XH))))

(** val store_opcode : valtype -> packsize option -> n **)

let store_opcode t0 pk =
  match t0 with
  | T_i32 ->
    (match pk with
     | Some p ->
       (match p with
        | P8 -> Npos (XI (XI (XO (XI XH))))
        | P16 -> Npos (XO (XO (XI (XI XH))))
        | P32 -> Npos (XI (XO (XO (XI XH)))))
     | None -> Npos (XI (XO (XO (XI XH)))))
  | T_i64 ->
    (match pk with
     | Some p ->
       (match p with
        | P8 -> Npos (XI (XO (XI (XI XH))))
        | P16 -> Npos (XO (XI (XI (XI XH))))
        | P32 -> Npos (XI (XI (XI (XI XH)))))
     | None -> Npos (XO (XI (XO (XI XH)))))

(** val unop_opcode : valtype -> unop -> n **)

let unop_opcode t0 op =
  match t0 with
  | T_i32 ->
    (match op with
     | Clz -> Npos (XO (XO (XO (XI (XI XH)))))
     | Ctz -> Npos (XI (XO (XO (XI (XI XH)))))
     | Popcnt -> Npos (XO (XI (XO (XI (XI XH)))))
     | Extend8S -> Npos (XI (XI (XI (XI (XI (XO XH))))))
     | Extend16S -> Npos (XO (XO (XO (XO (XO (XI XH))))))
     | Extend32S -> Npos (XI (XI (XO (XO (XO (XI XH)))))))
  | T_i64 ->
    (match op with
     | Clz -> Npos (XO (XI (XO (XI (XO (XO XH))))))
     | Ctz -> Npos (XI (XI (XO (XI (XO (XO XH))))))
     | Popcnt -> Npos (XO (XO (XI (XI (XO (XO XH))))))
     | Extend8S -> Npos (XI (XO (XO (XO (XO (XI XH))))))
     | Extend16S -> Npos (XO (XI (XO (XO (XO (XI XH))))))
     | Extend32S -> Npos (XI (XI (XO (XO (XO (XI XH)))))))

(** val binop_opcode : valtype -> binop -> n **)

let binop_opcode t0 op =
  N.add
    (match t0 with
     | T_i32 -> Npos (XI (XI (XO (XI (XI XH)))))
     | T_i64 -> Npos (XI (XO (XI (XI (XO (XO XH))))))) (binop_idx op)

(** val relop_opcode : valtype -> relop -> n **)

let relop_opcode t0 op =
  N.add
    (match t0 with
     | T_i32 -> Npos (XI (XI (XO (XO (XO XH)))))
     | T_i64 -> Npos (XO (XI (XI (XI (XO XH)))))) (relop_idx op)

(** val eqz_opcode : valtype -> n **)

let eqz_opcode = function
| T_i32 -> Npos (XO (XI (XO (XO (XO XH)))))
| T_i64 -> Npos (XI (XO (XI (XI (XO XH)))))

(** val cvt_opcode : cvtop -> n **)

let cvt_opcode = function
| WrapI64 -> Npos (XO (XO (XI (XI (XI (XO XH))))))
| ExtendI32S -> Npos (XI (XO (XI (XI (XI (XO XH))))))
| ExtendI32U -> Npos (XO (XI (XI (XI (XI (XO XH))))))

(** val le_bytes : nat -> z -> n list **)

let rec le_bytes k x =
  match k with
  | O -> []
  | S k' ->
    (Z.to_N (Z.modulo x (Zpos (XO (XO (XO (XO (XO (XO (XO (XO XH))))))))))) :: 
      (le_bytes k'
        (Z.div x (Zpos (XO (XO (XO (XO (XO (XO (XO (XO XH)))))))))))

(** val u16_bytes : z -> n list **)

let u16_bytes x =
  le_bytes (S (S O))
    (Z.modulo x (Zpos (XO (XO (XO (XO (XO (XO (XO (XO (XO (XO (XO (XO (XO (XO
      (XO (XO XH))))))))))))))))))

(** val u32_bytes : z -> n list **)

let u32_bytes x =
  le_bytes (S (S (S (S O))))
    (Z.modulo x (Zpos (XO (XO (XO (XO (XO (XO (XO (XO (XO (XO (XO (XO (XO (XO
      (XO (XO (XO (XO (XO (XO (XO (XO (XO (XO (XO (XO (XO (XO (XO (XO (XO (XO
      XH))))))))))))))))))))))))))))))))))

(** val i32_bytes : z -> n list **)

let i32_bytes x =
  le_bytes (S (S (S (S O))))
    (Z.modulo x (Zpos (XO (XO (XO (XO (XO (XO (XO (XO (XO (XO (XO (XO (XO (XO
      (XO (XO (XO (XO (XO (XO (XO (XO (XO (XO (XO (XO (XO (XO (XO (XO (XO (XO
      XH))))))))))))))))))))))))))))))))))

type vframe = { vf_is_if : bool; vf_label : blocktype; vf_end : blocktype;
                vf_height : nat; vf_unreachable : bool }

type vstate = { v_opds : nat; v_ctrls : vframe list; v_unreach : nat option }

type reachability =
| Reachable
| UnreachableInstruction
| UnreachableFrame

(** val v_reachability : vstate -> reachability **)

let v_reachability v =
  match v.v_unreach with
  | Some idx ->
    if Nat.ltb (add idx (S O)) (length v.v_ctrls)
    then UnreachableFrame
    else UnreachableInstruction
  | None -> Reachable

(** val v_push : vstate -> vstate **)

let v_push v =
  { v_opds = (S v.v_opds); v_ctrls = v.v_ctrls; v_unreach = v.v_unreach }

(** val v_pop : vstate -> vstate option **)

let v_pop v =
  match v.v_ctrls with
  | [] -> None
  | f :: _ ->
    if Nat.eqb v.v_opds f.vf_height
    then if f.vf_unreachable then Some v else None
    else Some { v_opds = (pred v.v_opds); v_ctrls = v.v_ctrls; v_unreach =
           v.v_unreach }

(** val v_popn : nat -> vstate -> vstate option **)

let rec v_popn n0 v =
  match n0 with
  | O -> Some v
  | S n' -> (match v_pop v with
             | Some v' -> v_popn n' v'
             | None -> None)

(** val v_pushn : nat -> vstate -> vstate **)

let rec v_pushn n0 v =
  match n0 with
  | O -> v
  | S n' -> v_pushn n' (v_push v)

(** val bt_arity : blocktype -> nat **)

let bt_arity = function
| Some _ -> S O
| None -> O

(** val v_push_ctrl : bool -> blocktype -> blocktype -> vstate -> vstate **)

let v_push_ctrl is_if label end_ v =
  { v_opds = v.v_opds; v_ctrls = ({ vf_is_if = is_if; vf_label = label;
    vf_end = end_; vf_height = v.v_opds; vf_unreachable =
    false } :: v.v_ctrls); v_unreach = v.v_unreach }

(** val v_pop_ctrl : vstate -> ((blocktype * bool) * vstate) option **)

let v_pop_ctrl v =
  match v.v_ctrls with
  | [] -> None
  | f :: rest ->
    (match v_popn (bt_arity f.vf_end) v with
     | Some v1 ->
       if Nat.eqb v1.v_opds f.vf_height
       then let un =
              match v1.v_unreach with
              | Some idx ->
                if Nat.eqb idx (length rest) then None else Some idx
              | None -> None
            in
            Some ((f.vf_end, f.vf_is_if), { v_opds = v1.v_opds; v_ctrls =
            rest; v_unreach = un })
       else None
     | None -> None)

(** val v_mark_unreachable : vstate -> vstate option **)

let v_mark_unreachable v =
  match v.v_ctrls with
  | [] -> None
  | f :: rest ->
    let last_idx = length rest in
    Some { v_opds = f.vf_height; v_ctrls = ({ vf_is_if = f.vf_is_if;
    vf_label = f.vf_label; vf_end = f.vf_end; vf_height = f.vf_height;
    vf_unreachable = true } :: rest); v_unreach =
    (match v.v_unreach with
     | Some idx -> Some (Nat.min idx last_idx)
     | None -> Some last_idx) }

type cctx = { cx_func_type : (nat -> functype option);
              cx_type : (nat -> functype option); cx_return : blocktype }

(** val pops_pushes : binstr -> nat * nat **)

let pops_pushes = function
| BDrop -> ((S O), O)
| BSelect -> ((S (S (S O))), (S O))
| BLocalGet _ -> (O, (S O))
| BLocalSet _ -> ((S O), O)
| BLocalTee _ -> ((S O), (S O))
| BGlobalGet _ -> (O, (S O))
| BGlobalSet _ -> ((S O), O)
| BLoad (_, _, _) -> ((S O), (S O))
| BStore (_, _, _) -> ((S (S O)), O)
| BMemorySize -> (O, (S O))
| BMemoryGrow -> ((S O), (S O))
| BConst (_, _) -> (O, (S O))
| BUnop (_, _) -> ((S O), (S O))
| BBinop (_, _) -> ((S (S O)), (S O))
| BEqz _ -> ((S O), (S O))
| BRelop (_, _) -> ((S (S O)), (S O))
| BCvt _ -> ((S O), (S O))
| _ -> (O, O)

(** val label_type : vstate -> nat -> blocktype option **)

let label_type v l =
  match nth_error v.v_ctrls l with
  | Some f -> Some f.vf_label
  | None -> None

(** val vstep : cctx -> vstate -> opcode -> vstate option **)

let vstep cx v = function
| OEnd ->
  (match v_pop_ctrl v with
   | Some p ->
     let (p0, v1) = p in
     let (res0, _) = p0 in Some (v_pushn (bt_arity res0) v1)
   | None -> None)
| OElse ->
  (match v_pop_ctrl v with
   | Some p ->
     let (p0, v1) = p in
     let (res0, b) = p0 in
     if b then Some (v_push_ctrl false res0 res0 v1) else None
   | None -> None)
| OBlock ty -> Some (v_push_ctrl false ty ty v)
| OLoop ty -> Some (v_push_ctrl false None ty v)
| OIf ty ->
  (match v_pop v with
   | Some v1 -> Some (v_push_ctrl true ty ty v1)
   | None -> None)
| OBasic b ->
  (match b with
   | BUnreachable -> v_mark_unreachable v
   | BBr l ->
     (match label_type v l with
      | Some lt ->
        (match v_popn (bt_arity lt) v with
         | Some v1 -> v_mark_unreachable v1
         | None -> None)
      | None -> None)
   | BBrIf l ->
     (match label_type v l with
      | Some lt ->
        (match v_pop v with
         | Some v1 ->
           (match v_popn (bt_arity lt) v1 with
            | Some v2 -> Some (v_pushn (bt_arity lt) v2)
            | None -> None)
         | None -> None)
      | None -> None)
   | BBrTable (_, d) ->
     (match label_type v d with
      | Some lt ->
        (match v_pop v with
         | Some v1 ->
           (match v_popn (bt_arity lt) v1 with
            | Some v2 -> v_mark_unreachable v2
            | None -> None)
         | None -> None)
      | None -> None)
   | BReturn ->
     (match last (map (fun f -> Some f.vf_label) v.v_ctrls) None with
      | Some lt ->
        (match v_popn (bt_arity lt) v with
         | Some v1 -> v_mark_unreachable v1
         | None -> None)
      | None -> Some v)
   | BCall f ->
     (match cx.cx_func_type f with
      | Some ft ->
        (match v_popn (length ft.ft_params) v with
         | Some v1 -> Some (v_pushn (bt_arity ft.ft_result) v1)
         | None -> None)
      | None -> None)
   | BCallIndirect ti ->
     (match cx.cx_type ti with
      | Some ft ->
        (match v_popn (S (length ft.ft_params)) v with
         | Some v1 -> Some (v_pushn (bt_arity ft.ft_result) v1)
         | None -> None)
      | None -> None)
   | _ ->
     let (po, pu) = pops_pushes b in
     (match v_popn po v with
      | Some v1 -> Some (v_pushn pu v1)
      | None -> None))

type provider =
| PDyn of z
| PLocal of z
| PConst of z

(** val provider_eqb : provider -> provider -> bool **)

let provider_eqb a b =
  match a with
  | PDyn x -> (match b with
               | PDyn y -> Z.eqb x y
               | _ -> false)
  | PLocal x -> (match b with
                 | PLocal y -> Z.eqb x y
                 | _ -> false)
  | PConst x -> (match b with
                 | PConst y -> Z.eqb x y
                 | _ -> false)

(** val provider_idx : provider -> z **)

let provider_idx = function
| PDyn i -> i
| PLocal i -> i
| PConst i -> i

type jump_target =
| JKnown of z
| JUnknown of z list * provider option

type cstate = { c_out : n list; c_bp : jump_target list;
                c_stack : provider list; c_next : z; c_reuse : z list;
                c_consts : (z * z) list; c_last : z option }

(** val set_out : cstate -> n list -> cstate **)

let set_out s o =
  { c_out = o; c_bp = s.c_bp; c_stack = s.c_stack; c_next = s.c_next;
    c_reuse = s.c_reuse; c_consts = s.c_consts; c_last = s.c_last }

(** val set_bp : cstate -> jump_target list -> cstate **)

let set_bp s b =
  { c_out = s.c_out; c_bp = b; c_stack = s.c_stack; c_next = s.c_next;
    c_reuse = s.c_reuse; c_consts = s.c_consts; c_last = s.c_last }

(** val set_stack : cstate -> provider list -> cstate **)

let set_stack s st =
  { c_out = s.c_out; c_bp = s.c_bp; c_stack = st; c_next = s.c_next;
    c_reuse = s.c_reuse; c_consts = s.c_consts; c_last = s.c_last }

(** val set_dyn : cstate -> z -> z list -> cstate **)

let set_dyn s nx ru =
  { c_out = s.c_out; c_bp = s.c_bp; c_stack = s.c_stack; c_next = nx;
    c_reuse = ru; c_consts = s.c_consts; c_last = s.c_last }

(** val set_consts : cstate -> (z * z) list -> cstate **)

let set_consts s cs =
  { c_out = s.c_out; c_bp = s.c_bp; c_stack = s.c_stack; c_next = s.c_next;
    c_reuse = s.c_reuse; c_consts = cs; c_last = s.c_last }

(** val set_last : cstate -> z option -> cstate **)

let set_last s l =
  { c_out = s.c_out; c_bp = s.c_bp; c_stack = s.c_stack; c_next = s.c_next;
    c_reuse = s.c_reuse; c_consts = s.c_consts; c_last = l }

(** val emit : cstate -> n list -> cstate **)

let emit s bs =
  set_out s (app s.c_out bs)

(** val cur_off : cstate -> z **)

let cur_off s =
  Z.of_nat (length s.c_out)

(** val push_op : cstate -> n -> cstate **)

let push_op s o =
  emit s (o :: [])

(** val push_loc : cstate -> provider -> cstate **)

let push_loc s p =
  emit s (i32_bytes (provider_idx p))

(** val insert_sorted : z -> z list -> z list **)

let rec insert_sorted x l = match l with
| [] -> x :: []
| y :: r ->
  if Z.ltb x y
  then x :: l
  else if Z.eqb x y then l else y :: (insert_sorted x r)

(** val remove_z : z -> z list -> z list **)

let rec remove_z x = function
| [] -> []
| y :: r -> if Z.eqb x y then r else y :: (remove_z x r)

(** val dyn_get : cstate -> z * cstate **)

let dyn_get s =
  match s.c_reuse with
  | [] -> (s.c_next, (set_dyn s (Z.add s.c_next (Zpos XH)) []))
  | r :: rs -> (r, (set_dyn s s.c_next rs))

(** val dyn_reuse : cstate -> provider -> cstate **)

let dyn_reuse s = function
| PDyn i -> set_dyn s s.c_next (insert_sorted i s.c_reuse)
| _ -> s

(** val consume : cstate -> (provider * cstate) option **)

let consume s =
  match s.c_stack with
  | [] -> None
  | p :: st ->
    let s1 = set_stack s st in
    let unused = negb (existsb (provider_eqb p) st) in
    Some (p, (if unused then dyn_reuse s1 p else s1))

(** val provide : cstate -> z * cstate **)

let provide s =
  let (r, s1) = dyn_get s in (r, (set_stack s1 ((PDyn r) :: s1.c_stack)))

(** val provide_existing : cstate -> provider -> cstate **)

let provide_existing s p =
  let s1 = set_stack s (p :: s.c_stack) in
  (match p with
   | PDyn i -> set_dyn s1 s1.c_next (remove_z i s1.c_reuse)
   | _ -> s1)

(** val push_constant : cstate -> z -> cstate **)

let push_constant s c =
  match find (fun e -> Z.eqb (fst e) c) s.c_consts with
  | Some p -> let (_, idx) = p in set_stack s ((PConst idx) :: s.c_stack)
  | None ->
    let idx = Z.sub (Z.opp (Z.of_nat (length s.c_consts))) (Zpos XH) in
    set_stack (set_consts s (app s.c_consts ((c, idx) :: []))) ((PConst
      idx) :: s.c_stack)

(** val truncate_n : nat -> cstate -> cstate option **)

let rec truncate_n k s =
  match k with
  | O -> Some s
  | S k' ->
    (match consume s with
     | Some p -> let (_, s1) = p in truncate_n k' s1
     | None -> None)

(** val truncate : cstate -> nat -> cstate option **)

let truncate s new_len =
  truncate_n (sub (length s.c_stack) new_len) s

(** val overwrite : n list -> nat -> n list -> n list **)

let rec overwrite l pos bs =
  match pos with
  | O -> app bs (skipn (length bs) l)
  | S p -> (match l with
            | [] -> []
            | x :: r -> x :: (overwrite r p bs))

(** val back_patch : cstate -> z -> z -> cstate **)

let back_patch s pos v =
  set_out s (overwrite s.c_out (Z.to_nat pos) (u32_bytes v))

(** val update_nth : 'a1 list -> nat -> 'a1 -> 'a1 list **)

let rec update_nth l n0 x =
  match l with
  | [] -> []
  | y :: r -> (match n0 with
               | O -> x :: r
               | S n' -> y :: (update_nth r n' x))

(** val insert_jump_location : cstate -> nat -> cstate option **)

let insert_jump_location s l =
  match nth_error s.c_bp l with
  | Some j ->
    (match j with
     | JKnown pos -> Some (emit s (u32_bytes pos))
     | JUnknown (locs, res0) ->
       let s1 =
         set_bp s
           (update_nth s.c_bp l (JUnknown ((app locs ((cur_off s) :: [])),
             res0)))
       in
       Some (emit s1 (u32_bytes Z0)))
  | None -> None

(** val copy_if_needed : cstate -> provider -> provider -> cstate **)

let copy_if_needed s p res0 =
  if provider_eqb p res0
  then s
  else push_loc (push_loc (push_op s iCopy) p) res0

(** val push_br_if_jump : cstate -> nat -> cstate option **)

let push_br_if_jump s l =
  match nth_error s.c_bp l with
  | Some j ->
    (match j with
     | JKnown _ -> insert_jump_location (push_op s iBrIf) l
     | JUnknown (_, result) ->
       (match result with
        | Some res0 ->
          (match consume s with
           | Some p0 ->
             let (p, s1) = p0 in
             let s2 = copy_if_needed s1 p res0 in
             let s3 = provide_existing s2 res0 in
             insert_jump_location (push_op s3 iBrIf) l
           | None -> None)
        | None -> insert_jump_location (push_op s iBrIf) l))
  | None -> None

(** val push_br_jump : cstate -> bool -> nat -> cstate option **)

let push_br_jump s reachable l =
  match nth_error s.c_bp l with
  | Some tgt ->
    let s1 =
      if reachable
      then (match tgt with
            | JKnown _ -> Some s
            | JUnknown (_, result) ->
              (match result with
               | Some res0 ->
                 (match consume s with
                  | Some p0 ->
                    let (p, s1) = p0 in Some (copy_if_needed s1 p res0)
                  | None -> None)
               | None -> Some s))
      else Some s
    in
    (match s1 with
     | Some s2 -> insert_jump_location (push_op s2 iBr) l
     | None -> None)
  | None -> None

(** val push_br_table_jump : cstate -> nat -> cstate option **)

let push_br_table_jump s l =
  match nth_error s.c_bp l with
  | Some j ->
    (match j with
     | JKnown _ -> insert_jump_location s l
     | JUnknown (_, result) ->
       (match result with
        | Some res0 -> insert_jump_location (push_loc s res0) l
        | None -> insert_jump_location s l))
  | None -> None

(** val push_br_table_jumps : cstate -> nat list -> cstate option **)

let rec push_br_table_jumps s = function
| [] -> Some s
| l :: r ->
  (match push_br_table_jump s l with
   | Some s1 -> push_br_table_jumps s1 r
   | None -> None)

(** val push_consume : cstate -> (provider * cstate) option **)

let push_consume s =
  match consume s with
  | Some p0 -> let (p, s1) = p0 in Some (p, (push_loc s1 p))
  | None -> None

(** val push_consume_n : nat -> cstate -> cstate option **)

let rec push_consume_n k s =
  match k with
  | O -> Some s
  | S k' ->
    (match push_consume s with
     | Some p -> let (_, s1) = p in push_consume_n k' s1
     | None -> None)

(** val push_provide : cstate -> cstate **)

let push_provide s =
  let (r, s1) = provide s in
  let off = cur_off s1 in set_last (emit s1 (i32_bytes r)) (Some off)

(** val push_nary : cstate -> n -> nat -> cstate option **)

let push_nary s o k =
  match push_consume_n k (push_op s o) with
  | Some s1 -> Some (push_provide s1)
  | None -> None

(** val rETURN_VALUE_LOCATION : provider **)

let rETURN_VALUE_LOCATION =
  PLocal Z0

(** val preserve_local :
    z -> provider list -> cstate -> provider option -> (provider
    list * cstate) * provider option **)

let rec preserve_local idx st s reserve =
  match st with
  | [] -> (([], s), reserve)
  | p :: r ->
    let (p0, res1) = preserve_local idx r s reserve in
    let (r', s1) = p0 in
    (match p with
     | PLocal l ->
       if Z.eqb l idx
       then (match res1 with
             | Some rp -> (((rp :: r'), s1), res1)
             | None ->
               let (d, s2) = dyn_get s1 in
               ((((PDyn d) :: r'), s2), (Some (PDyn d))))
       else (((p :: r'), s1), res1)
     | _ -> (((p :: r'), s1), res1))

(** val handle_opcode :
    cctx -> cstate -> vstate -> reachability -> opcode -> cstate option **)

let handle_opcode cx s0 v reach op =
  let last_provide = s0.c_last in
  let s = set_last s0 None in
  let go = fun instruction_reachable ->
    let r =
      match op with
      | OEnd ->
        (match s.c_bp with
         | [] -> None
         | j :: bp' ->
           (match j with
            | JKnown _ ->
              let s1 = set_bp s bp' in
              if (&&) (negb instruction_reachable)
                   (Nat.ltb (length s1.c_stack) v.v_opds)
              then Some (snd (provide s1))
              else Some s1
            | JUnknown (locs, result) ->
              let s1 = set_bp s bp' in
              let s2 =
                match result with
                | Some res0 ->
                  if instruction_reachable
                  then (match consume s1 with
                        | Some p0 ->
                          let (p, s2) = p0 in
                          Some
                          (provide_existing (copy_if_needed s2 p res0) res0)
                        | None -> None)
                  else let s2 =
                         if Nat.eqb (length s1.c_stack) v.v_opds
                         then (match consume s1 with
                               | Some p -> let (_, x) = p in Some x
                               | None -> None)
                         else Some s1
                       in
                       (match s2 with
                        | Some s3 -> Some (provide_existing s3 res0)
                        | None -> None)
                | None -> Some s1
              in
              (match s2 with
               | Some s3 ->
                 let pos = cur_off s3 in
                 Some (fold_left (fun acc l -> back_patch acc l pos) locs s3)
               | None -> None)))
      | OElse ->
        (match push_br_jump s instruction_reachable O with
         | Some s1 ->
           (match s1.c_bp with
            | [] -> None
            | j :: bp' ->
              (match j with
               | JKnown _ -> None
               | JUnknown (locs, res0) ->
                 (match locs with
                  | [] -> None
                  | first :: rest ->
                    let pos = cur_off s1 in
                    Some
                    (back_patch (set_bp s1 ((JUnknown (rest, res0)) :: bp'))
                      first pos))))
         | None -> None)
      | OBlock ty ->
        (match ty with
         | Some _ ->
           let (r, s1) = dyn_get s in
           Some (set_bp s1 ((JUnknown ([], (Some (PDyn r)))) :: s1.c_bp))
         | None -> Some (set_bp s ((JUnknown ([], None)) :: s.c_bp)))
      | OLoop _ -> Some (set_bp s ((JKnown (cur_off s)) :: s.c_bp))
      | OIf ty ->
        (match push_consume (push_op s iIf) with
         | Some p ->
           let (_, s1) = p in
           (match ty with
            | Some _ ->
              let (r, s2) = dyn_get s1 in
              let res0 = Some (PDyn r) in
              let s3 =
                set_bp s2 ((JUnknown (((cur_off s2) :: []), res0)) :: s2.c_bp)
              in
              Some (emit s3 (u32_bytes Z0))
            | None ->
              let res0 = None in
              let s3 =
                set_bp s1 ((JUnknown (((cur_off s1) :: []), res0)) :: s1.c_bp)
              in
              Some (emit s3 (u32_bytes Z0)))
         | None -> None)
      | OBasic b ->
        (match b with
         | BUnreachable -> truncate (push_op s iUnreachable) v.v_opds
         | BNop -> Some s
         | BBr l ->
           (match push_br_jump s instruction_reachable l with
            | Some s1 -> truncate s1 v.v_opds
            | None -> None)
         | BBrIf l ->
           (match consume s with
            | Some p ->
              let (cond, s1) = p in
              (match push_br_if_jump s1 l with
               | Some s2 -> Some (push_loc s2 cond)
               | None -> None)
            | None -> None)
         | BBrTable (ls, d) ->
           (match nth_error v.v_ctrls d with
            | Some tf ->
              let s1 =
                match tf.vf_label with
                | Some _ -> push_consume_n (S (S O)) (push_op s iBrTableCarry)
                | None ->
                  (match push_consume (push_op s iBrTable) with
                   | Some p -> let (_, x) = p in Some x
                   | None -> None)
              in
              (match s1 with
               | Some s2 ->
                 let s3 = emit s2 (u16_bytes (Z.of_nat (length ls))) in
                 (match push_br_table_jump s3 d with
                  | Some s4 ->
                    (match push_br_table_jumps s4 ls with
                     | Some s5 -> truncate s5 v.v_opds
                     | None -> None)
                  | None -> None)
               | None -> None)
            | None -> None)
         | BReturn ->
           let s1 =
             match cx.cx_return with
             | Some _ ->
               (match consume s with
                | Some p ->
                  let (top, s1) = p in
                  Some (copy_if_needed s1 top rETURN_VALUE_LOCATION)
                | None -> None)
             | None -> Some s
           in
           (match s1 with
            | Some s2 -> truncate (push_op s2 iReturn) v.v_opds
            | None -> None)
         | BCall f ->
           (match cx.cx_func_type f with
            | Some ft ->
              (match push_consume_n (length ft.ft_params)
                       (emit (push_op s iCall) (u32_bytes (Z.of_nat f))) with
               | Some s1 ->
                 Some
                   (match ft.ft_result with
                    | Some _ -> push_provide s1
                    | None -> s1)
               | None -> None)
            | None -> None)
         | BCallIndirect ti ->
           (match push_consume
                    (emit (push_op s iCallIndirect) (u32_bytes (Z.of_nat ti))) with
            | Some p ->
              let (_, s1) = p in
              (match cx.cx_type ti with
               | Some ft ->
                 (match push_consume_n (length ft.ft_params) s1 with
                  | Some s2 ->
                    Some
                      (match ft.ft_result with
                       | Some _ -> push_provide s2
                       | None -> s2)
                  | None -> None)
               | None -> None)
            | None -> None)
         | BDrop ->
           (match consume s with
            | Some p -> let (_, s1) = p in Some s1
            | None -> None)
         | BSelect -> push_nary s iSelect (S (S (S O)))
         | BLocalGet i -> Some (provide_existing s (PLocal (Z.of_nat i)))
         | BLocalSet i ->
           let idx = Z.of_nat i in
           let is_set =
             match op with
             | OBasic b0 -> (match b0 with
                             | BLocalSet _ -> true
                             | _ -> false)
             | _ -> false
           in
           let (p, reserve) = preserve_local idx s.c_stack s None in
           let (st', s1) = p in
           let s2 = set_stack s1 st' in
           let s3 =
             match reserve with
             | Some rp ->
               push_loc (emit (push_op s2 iCopy) (i32_bytes idx)) rp
             | None -> s2
           in
           let short =
             match last_provide with
             | Some bl ->
               (match reserve with
                | Some _ -> None
                | None -> Some bl)
             | None -> None
           in
           (match short with
            | Some back_loc ->
              (match consume (back_patch s3 back_loc idx) with
               | Some p0 ->
                 let (_, s4) = p0 in
                 Some
                 (if is_set then s4 else provide_existing s4 (PLocal idx))
               | None -> None)
            | None ->
              (match push_consume (push_op s3 iCopy) with
               | Some p0 ->
                 let (_, s4) = p0 in
                 let s5 = emit s4 (i32_bytes idx) in
                 Some
                 (if is_set then s5 else provide_existing s5 (PLocal idx))
               | None -> None))
         | BLocalTee i ->
           let idx = Z.of_nat i in
           let is_set =
             match op with
             | OBasic b0 -> (match b0 with
                             | BLocalSet _ -> true
                             | _ -> false)
             | _ -> false
           in
           let (p, reserve) = preserve_local idx s.c_stack s None in
           let (st', s1) = p in
           let s2 = set_stack s1 st' in
           let s3 =
             match reserve with
             | Some rp ->
               push_loc (emit (push_op s2 iCopy) (i32_bytes idx)) rp
             | None -> s2
           in
           let short =
             match last_provide with
             | Some bl ->
               (match reserve with
                | Some _ -> None
                | None -> Some bl)
             | None -> None
           in
           (match short with
            | Some back_loc ->
              (match consume (back_patch s3 back_loc idx) with
               | Some p0 ->
                 let (_, s4) = p0 in
                 Some
                 (if is_set then s4 else provide_existing s4 (PLocal idx))
               | None -> None)
            | None ->
              (match push_consume (push_op s3 iCopy) with
               | Some p0 ->
                 let (_, s4) = p0 in
                 let s5 = emit s4 (i32_bytes idx) in
                 Some
                 (if is_set then s5 else provide_existing s5 (PLocal idx))
               | None -> None))
         | BGlobalGet i ->
           Some
             (push_provide
               (emit (push_op s iGlobalGet) (u16_bytes (Z.of_nat i))))
         | BGlobalSet i ->
           (match push_consume
                    (emit (push_op s iGlobalSet) (u16_bytes (Z.of_nat i))) with
            | Some p -> let (_, s1) = p in Some s1
            | None -> None)
         | BLoad (t0, pk, off) ->
           (match push_consume
                    (emit (push_op s (load_opcode t0 pk))
                      (u32_bytes (Z.of_N off))) with
            | Some p -> let (_, s1) = p in Some (push_provide s1)
            | None -> None)
         | BStore (t0, pk, off) ->
           push_consume_n (S (S O))
             (emit (push_op s (store_opcode t0 pk)) (u32_bytes (Z.of_N off)))
         | BMemorySize -> Some (push_provide (push_op s iMemorySize))
         | BMemoryGrow -> push_nary s iMemoryGrow (S O)
         | BConst (t0, z0) ->
           let c =
             match t0 with
             | T_i32 ->
               if Z.ltb z0 (Zpos (XO (XO (XO (XO (XO (XO (XO (XO (XO (XO (XO
                    (XO (XO (XO (XO (XO (XO (XO (XO (XO (XO (XO (XO (XO (XO
                    (XO (XO (XO (XO (XO (XO XH))))))))))))))))))))))))))))))))
               then z0
               else Z.sub z0 (Zpos (XO (XO (XO (XO (XO (XO (XO (XO (XO (XO
                      (XO (XO (XO (XO (XO (XO (XO (XO (XO (XO (XO (XO (XO (XO
                      (XO (XO (XO (XO (XO (XO (XO (XO
                      XH)))))))))))))))))))))))))))))))))
             | T_i64 ->
               if Z.ltb z0 (Zpos (XO (XO (XO (XO (XO (XO (XO (XO (XO (XO (XO
                    (XO (XO (XO (XO (XO (XO (XO (XO (XO (XO (XO (XO (XO (XO
                    (XO (XO (XO (XO (XO (XO (XO (XO (XO (XO (XO (XO (XO (XO
                    (XO (XO (XO (XO (XO (XO (XO (XO (XO (XO (XO (XO (XO (XO
                    (XO (XO (XO (XO (XO (XO (XO (XO (XO (XO
                    XH))))))))))))))))))))))))))))))))))))))))))))))))))))))))))))))))
               then z0
               else Z.sub z0 (Zpos (XO (XO (XO (XO (XO (XO (XO (XO (XO (XO
                      (XO (XO (XO (XO (XO (XO (XO (XO (XO (XO (XO (XO (XO (XO
                      (XO (XO (XO (XO (XO (XO (XO (XO (XO (XO (XO (XO (XO (XO
                      (XO (XO (XO (XO (XO (XO (XO (XO (XO (XO (XO (XO (XO (XO
                      (XO (XO (XO (XO (XO (XO (XO (XO (XO (XO (XO (XO
                      XH)))))))))))))))))))))))))))))))))))))))))))))))))))))))))))))))))
           in
           Some (push_constant s c)
         | BUnop (t0, o) -> push_nary s (unop_opcode t0 o) (S O)
         | BBinop (t0, o) -> push_nary s (binop_opcode t0 o) (S (S O))
         | BEqz t0 -> push_nary s (eqz_opcode t0) (S O)
         | BRelop (t0, o) -> push_nary s (relop_opcode t0 o) (S (S O))
         | BCvt o -> push_nary s (cvt_opcode o) (S O)
         | BTick n0 ->
           Some (emit (push_op s iTickEnergy) (u32_bytes (Z.of_N n0))))
    in
    (match r with
     | Some s' ->
       if Nat.eqb (length s'.c_stack) v.v_opds then Some s' else None
     | None -> None)
  in
  (match reach with
   | Reachable -> go true
   | UnreachableInstruction ->
     (match op with
      | OEnd -> go false
      | OElse -> go false
      | _ -> Some s)
   | UnreachableFrame -> Some s)

(** val compile_ops :
    cctx -> opcode list -> vstate -> cstate -> (vstate * cstate) option **)

let rec compile_ops cx ops v s =
  match ops with
  | [] -> Some (v, s)
  | op :: rest ->
    let reach = v_reachability v in
    (match vstep cx v op with
     | Some v1 ->
       (match handle_opcode cx s v1 reach op with
        | Some s1 -> compile_ops cx rest v1 s1
        | None -> None)
     | None -> None)

type compiled_function = { cf_type_idx : nat; cf_params : valtype list;
                           cf_num_locals : nat; cf_return : blocktype;
                           cf_num_registers : z; cf_constants : z list;
                           cf_code : n list }

(** val compile_function :
    cctx -> nat -> functype -> nat -> opcode list -> compiled_function option **)

let compile_function cx type_idx ft num_declared ops =
  let num_locals = add (length ft.ft_params) num_declared in
  let next =
    match num_locals with
    | O ->
      (match ft.ft_result with
       | Some _ -> Zpos XH
       | None -> Z.of_nat num_locals)
    | S _ -> Z.of_nat num_locals
  in
  let s0 = { c_out = []; c_bp = ((JUnknown ([],
    (match ft.ft_result with
     | Some _ -> Some rETURN_VALUE_LOCATION
     | None -> None))) :: []); c_stack = []; c_next = next; c_reuse = [];
    c_consts = []; c_last = None }
  in
  let v0 =
    v_push_ctrl false ft.ft_result ft.ft_result { v_opds = O; v_ctrls = [];
      v_unreach = None }
  in
  (match compile_ops cx ops v0 s0 with
   | Some p ->
     let (v, s) = p in
     (match v.v_ctrls with
      | [] ->
        (match s.c_bp with
         | [] ->
           Some { cf_type_idx = type_idx; cf_params = ft.ft_params;
             cf_num_locals = num_declared; cf_return = ft.ft_result;
             cf_num_registers = s.c_next; cf_constants =
             (map fst s.c_consts); cf_code = (app s.c_out (iReturn :: [])) }
         | _ :: _ -> None)
      | _ :: _ -> None)
   | None -> None)

type cmodule = { cm_types : functype list; cm_imports : nat list;
                 cm_funcs : ((nat * valtype list) * opcode list) list }

(** val cm_func_type : cmodule -> nat -> functype option **)

let cm_func_type cm f =
  let ni = length cm.cm_imports in
  if Nat.ltb f ni
  then (match nth_error cm.cm_imports f with
        | Some ti -> nth_error cm.cm_types ti
        | None -> None)
  else (match nth_error cm.cm_funcs (sub f ni) with
        | Some p ->
          let (p0, _) = p in let (ti, _) = p0 in nth_error cm.cm_types ti
        | None -> None)

(** val compile_module_function :
    cmodule -> ((nat * valtype list) * opcode list) -> compiled_function
    option **)

let compile_module_function cm = function
| (p, ops) ->
  let (ti, locals) = p in
  (match nth_error cm.cm_types ti with
   | Some ft ->
     compile_function { cx_func_type = (cm_func_type cm); cx_type =
       (nth_error cm.cm_types); cx_return = ft.ft_result } ti ft
       (length locals) ops
   | None -> None)

(** val compile_module : cmodule -> compiled_function option list **)

let compile_module cm =
  map (compile_module_function cm) cm.cm_funcs

(** val two32 : z **)

let two32 =
  Zpos (XO (XO (XO (XO (XO (XO (XO (XO (XO (XO (XO (XO (XO (XO (XO (XO (XO
    (XO (XO (XO (XO (XO (XO (XO (XO (XO (XO (XO (XO (XO (XO (XO
    XH))))))))))))))))))))))))))))))))

(** val two64 : z **)

let two64 =
  Zpos (XO (XO (XO (XO (XO (XO (XO (XO (XO (XO (XO (XO (XO (XO (XO (XO (XO
    (XO (XO (XO (XO (XO (XO (XO (XO (XO (XO (XO (XO (XO (XO (XO (XO (XO (XO
    (XO (XO (XO (XO (XO (XO (XO (XO (XO (XO (XO (XO (XO (XO (XO (XO (XO (XO
    (XO (XO (XO (XO (XO (XO (XO (XO (XO (XO (XO
    XH))))))))))))))))))))))))))))))))))))))))))))))))))))))))))))))))

(** val low32 : z -> z **)

let low32 r =
  Z.modulo r two32

(** val as_i32 : z -> z **)

let as_i32 r =
  let u = low32 r in
  if Z.ltb u (Zpos (XO (XO (XO (XO (XO (XO (XO (XO (XO (XO (XO (XO (XO (XO
       (XO (XO (XO (XO (XO (XO (XO (XO (XO (XO (XO (XO (XO (XO (XO (XO (XO
       XH))))))))))))))))))))))))))))))))
  then u
  else Z.sub u two32

(** val as_i64 : z -> z **)

let as_i64 r =
  let u = Z.modulo r two64 in
  if Z.ltb u (Zpos (XO (XO (XO (XO (XO (XO (XO (XO (XO (XO (XO (XO (XO (XO
       (XO (XO (XO (XO (XO (XO (XO (XO (XO (XO (XO (XO (XO (XO (XO (XO (XO
       (XO (XO (XO (XO (XO (XO (XO (XO (XO (XO (XO (XO (XO (XO (XO (XO (XO
       (XO (XO (XO (XO (XO (XO (XO (XO (XO (XO (XO (XO (XO (XO (XO
       XH))))))))))))))))))))))))))))))))))))))))))))))))))))))))))))))))
  then u
  else Z.sub u two64

(** val as_u32 : z -> z **)

let as_u32 =
  low32

(** val as_u64 : z -> z **)

let as_u64 r =
  Z.modulo r two64

(** val set_short : z -> z -> z **)

let set_short old v =
  Z.add (Z.mul (Z.div (Z.modulo old two64) two32) two32) (Z.modulo v two32)

(** val set_long : z -> z -> z **)

let set_long _ v =
  Z.modulo v two64

(** val from_i32 : z -> z **)

let from_i32 v =
  Z.modulo v two32

(** val from_i64 : z -> z **)

let from_i64 v =
  Z.modulo v two64

type trap_reason =
| TUnreachable
| TMemory
| TDivI32
| TDivI64
| TRemSOverflow
| TCallUndefined
| TCallType
| THost
| TBadCode

(** val min_int : z -> z **)

let min_int w =
  Z.opp (Z.pow (Zpos (XO XH)) (Z.sub w (Zpos XH)))

(** val rs_leading_zeros : z -> z -> z **)

let rs_leading_zeros w u = match u with
| Zpos _ -> Z.sub w (Z.add (Z.log2 u) (Zpos XH))
| _ -> w

(** val pos_tz : positive -> z **)

let rec pos_tz = function
| XO q -> Z.add (Zpos XH) (pos_tz q)
| _ -> Z0

(** val rs_trailing_zeros : z -> z -> z **)

let rs_trailing_zeros w = function
| Zpos p -> pos_tz p
| _ -> w

(** val pos_ones : positive -> z **)

let rec pos_ones = function
| XI q -> Z.add (Zpos XH) (pos_ones q)
| XO q -> pos_ones q
| XH -> Zpos XH

(** val rs_count_ones : z -> z **)

let rs_count_ones = function
| Zpos p -> pos_ones p
| _ -> Z0

(** val rs_rotl : z -> z -> z -> z **)

let rs_rotl w u k =
  Z.add (Z.modulo (Z.shiftl u k) (Z.pow (Zpos (XO XH)) w))
    (Z.shiftr u (Z.sub w k))

(** val rs_rotr : z -> z -> z -> z **)

let rs_rotr w u k =
  Z.add (Z.shiftr u k)
    (Z.modulo (Z.shiftl u (Z.sub w k)) (Z.pow (Zpos (XO XH)) w))

(** val rs_binop : z -> binop -> z -> z -> z -> z -> (trap_reason, z) sum **)

let rs_binop w op x y ux uy =
  let dv =
    if Z.eqb w (Zpos (XO (XO (XO (XO (XO XH)))))) then TDivI32 else TDivI64
  in
  (match op with
   | Add -> Inr (Z.add x y)
   | Sub -> Inr (Z.sub x y)
   | Mul -> Inr (Z.mul x y)
   | DivS ->
     if Z.eqb y Z0
     then Inl dv
     else if (&&) (Z.eqb x (min_int w)) (Z.eqb y (Zneg XH))
          then Inl dv
          else Inr (Z.quot x y)
   | DivU -> if Z.eqb uy Z0 then Inl dv else Inr (Z.div ux uy)
   | RemS ->
     if Z.eqb y Z0
     then Inl dv
     else if (&&) (Z.eqb x (min_int w)) (Z.eqb y (Zneg XH))
          then Inl TRemSOverflow
          else Inr (Z.rem x y)
   | RemU -> if Z.eqb uy Z0 then Inl dv else Inr (Z.modulo ux uy)
   | And -> Inr (Z.coq_land ux uy)
   | Or -> Inr (Z.coq_lor ux uy)
   | Xor -> Inr (Z.coq_lxor ux uy)
   | Shl -> Inr (Z.shiftl ux (Z.modulo uy w))
   | ShrS -> Inr (Z.shiftr x (Z.modulo uy w))
   | ShrU -> Inr (Z.shiftr ux (Z.modulo uy w))
   | Rotl -> Inr (rs_rotl w ux (Z.modulo uy w))
   | Rotr -> Inr (rs_rotr w ux (Z.modulo uy w)))

(** val rs_relop : relop -> z -> z -> z -> z -> z **)

let rs_relop op x y ux uy =
  let b =
    match op with
    | Eq0 -> Z.eqb x y
    | Ne -> negb (Z.eqb x y)
    | LtS -> Z.ltb x y
    | LtU -> Z.ltb ux uy
    | GtS -> Z.gtb x y
    | GtU -> Z.gtb ux uy
    | LeS -> Z.leb x y
    | LeU -> Z.leb ux uy
    | GeS -> Z.geb x y
    | GeU -> Z.geb ux uy
  in
  if b then Zpos XH else Z0

type artifact = { a_imports : functype list; a_types : functype list;
                  a_table : nat option list;
                  a_memory : ((n * n) * (n * z list) list) option;
                  a_globals : z list; a_code : compiled_function list }

type fstate = { fs_pc : z; fs_idx : nat; fs_base : nat; fs_ret : nat option }

type mstate = { ms_pc : z; ms_idx : nat; ms_frames : fstate list;
                ms_ret : nat option; ms_mem : memory option;
                ms_regs : z list; ms_base : nat; ms_globals : z list;
                ms_energy : n }

type moutcome =
| MDone of val0 option * memory option * z list * n
| MTrap of trap_reason
| MOutOfFuel

type code_map = n PositiveMap.t

(** val build_code : n list -> positive -> code_map -> code_map **)

let rec build_code bs k m =
  match bs with
  | [] -> m
  | b :: r -> build_code r (Coq_Pos.succ k) (PositiveMap.add k b m)

(** val byte_at : code_map -> z -> z **)

let byte_at c pc =
  match PositiveMap.find (Z.to_pos (Z.add pc (Zpos XH))) c with
  | Some b -> Z.of_N b
  | None -> Z0

(** val get_u16 : code_map -> z -> z **)

let get_u16 c pc =
  Z.add (byte_at c pc)
    (Z.mul (Zpos (XO (XO (XO (XO (XO (XO (XO (XO XH)))))))))
      (byte_at c (Z.add pc (Zpos XH))))

(** val get_u32 : code_map -> z -> z **)

let get_u32 c pc =
  Z.add
    (Z.add
      (Z.add (byte_at c pc)
        (Z.mul (Zpos (XO (XO (XO (XO (XO (XO (XO (XO XH)))))))))
          (byte_at c (Z.add pc (Zpos XH)))))
      (Z.mul (Zpos (XO (XO (XO (XO (XO (XO (XO (XO (XO (XO (XO (XO (XO (XO
        (XO (XO XH))))))))))))))))) (byte_at c (Z.add pc (Zpos (XO XH))))))
    (Z.mul (Zpos (XO (XO (XO (XO (XO (XO (XO (XO (XO (XO (XO (XO (XO (XO (XO
      (XO (XO (XO (XO (XO (XO (XO (XO (XO XH)))))))))))))))))))))))))
      (byte_at c (Z.add pc (Zpos (XI XH)))))

(** val get_i32 : code_map -> z -> z **)

let get_i32 c pc =
  let u = get_u32 c pc in
  if Z.ltb u (Zpos (XO (XO (XO (XO (XO (XO (XO (XO (XO (XO (XO (XO (XO (XO
       (XO (XO (XO (XO (XO (XO (XO (XO (XO (XO (XO (XO (XO (XO (XO (XO (XO
       XH))))))))))))))))))))))))))))))))
  then u
  else Z.sub u two32

(** val list_set : z list -> nat -> z -> z list **)

let rec list_set l i x =
  match l with
  | [] -> []
  | y :: r -> (match i with
               | O -> x :: r
               | S i' -> y :: (list_set r i' x))

(** val reg : mstate -> z -> z **)

let reg st i =
  nth (add st.ms_base (Z.to_nat i)) st.ms_regs Z0

(** val get_local : z list -> mstate -> z -> z **)

let get_local consts st v =
  if Z.leb Z0 v
  then reg st v
  else from_i64 (nth (Z.to_nat (Z.opp (Z.add v (Zpos XH)))) consts Z0)

(** val set_reg : mstate -> z -> z -> mstate **)

let set_reg st i x =
  { ms_pc = st.ms_pc; ms_idx = st.ms_idx; ms_frames = st.ms_frames; ms_ret =
    st.ms_ret; ms_mem = st.ms_mem; ms_regs =
    (list_set st.ms_regs (add st.ms_base (Z.to_nat i)) x); ms_base =
    st.ms_base; ms_globals = st.ms_globals; ms_energy = st.ms_energy }

(** val set_pc : mstate -> z -> mstate **)

let set_pc st pc =
  { ms_pc = pc; ms_idx = st.ms_idx; ms_frames = st.ms_frames; ms_ret =
    st.ms_ret; ms_mem = st.ms_mem; ms_regs = st.ms_regs; ms_base =
    st.ms_base; ms_globals = st.ms_globals; ms_energy = st.ms_energy }

(** val set_mmem : mstate -> memory -> mstate **)

let set_mmem st mm =
  { ms_pc = st.ms_pc; ms_idx = st.ms_idx; ms_frames = st.ms_frames; ms_ret =
    st.ms_ret; ms_mem = (Some mm); ms_regs = st.ms_regs; ms_base =
    st.ms_base; ms_globals = st.ms_globals; ms_energy = st.ms_energy }

(** val set_mglobals : mstate -> z list -> mstate **)

let set_mglobals st g =
  { ms_pc = st.ms_pc; ms_idx = st.ms_idx; ms_frames = st.ms_frames; ms_ret =
    st.ms_ret; ms_mem = st.ms_mem; ms_regs = st.ms_regs; ms_base =
    st.ms_base; ms_globals = g; ms_energy = st.ms_energy }

type step_res =
| SNext of mstate
| SDone of mstate
| STrap of trap_reason

(** val mlen : mstate -> z **)

let mlen st =
  match st.ms_mem with
  | Some mm -> Z.of_N (mem_len mm)
  | None -> Z0

(** val do_load :
    code_map -> z list -> mstate -> z -> nat -> (z -> z) -> step_res **)

let do_load c consts st pc width conv =
  let offset = get_u32 c pc in
  let base = get_local consts st (get_i32 c (Z.add pc (Zpos (XO (XO XH))))) in
  let result = get_i32 c (Z.add pc (Zpos (XO (XO (XO XH))))) in
  let pos = Z.add (as_u32 base) offset in
  (match st.ms_mem with
   | Some mm ->
     if Z.leb (Z.add pos (Z.of_nat width)) (mlen st)
     then let raw = of_bytes (mem_read mm (Z.to_N pos) width) in
          SNext
          (set_pc (set_reg st result (conv raw))
            (Z.add pc (Zpos (XO (XO (XI XH))))))
     else STrap TMemory
   | None -> STrap TMemory)

(** val do_store : code_map -> z list -> mstate -> z -> nat -> step_res **)

let do_store c consts st pc width =
  let offset = get_u32 c pc in
  let value = get_local consts st (get_i32 c (Z.add pc (Zpos (XO (XO XH)))))
  in
  let base =
    get_local consts st (get_i32 c (Z.add pc (Zpos (XO (XO (XO XH))))))
  in
  let pos = Z.add (as_u32 base) offset in
  (match st.ms_mem with
   | Some mm ->
     if Z.leb (Z.add pos (Z.of_nat width)) (mlen st)
     then SNext
            (set_pc
              (set_mmem st (mem_write mm (Z.to_N pos) (bytes_of width value)))
              (Z.add pc (Zpos (XO (XO (XI XH))))))
     else STrap TMemory
   | None -> STrap TMemory)

(** val sext : z -> z -> z **)

let sext k x =
  let u = Z.modulo x (Z.pow (Zpos (XO XH)) k) in
  if Z.ltb u (Z.pow (Zpos (XO XH)) (Z.sub k (Zpos XH)))
  then u
  else Z.sub u (Z.pow (Zpos (XO XH)) k)

(** val unary :
    code_map -> z list -> mstate -> z -> (z -> z -> z) -> step_res **)

let unary c consts st pc f =
  let source = get_local consts st (get_i32 c pc) in
  let t0 = get_i32 c (Z.add pc (Zpos (XO (XO XH)))) in
  SNext
  (set_pc (set_reg st t0 (f source (reg st t0)))
    (Z.add pc (Zpos (XO (XO (XO XH))))))

(** val binary :
    code_map -> z list -> mstate -> z -> (z -> z -> z -> (trap_reason, z)
    sum) -> step_res **)

let binary c consts st pc f =
  let right = get_local consts st (get_i32 c pc) in
  let left = get_local consts st (get_i32 c (Z.add pc (Zpos (XO (XO XH))))) in
  let t0 = get_i32 c (Z.add pc (Zpos (XO (XO (XO XH))))) in
  (match f left right (reg st t0) with
   | Inl r -> STrap r
   | Inr x ->
     SNext (set_pc (set_reg st t0 x) (Z.add pc (Zpos (XO (XO (XI XH)))))))

(** val read_args :
    code_map -> z list -> mstate -> z -> nat -> z list -> z list * z **)

let rec read_args c consts st pc n0 acc =
  match n0 with
  | O -> (acc, pc)
  | S n' ->
    read_args c consts st (Z.add pc (Zpos (XO (XO XH)))) n'
      ((get_local consts st (get_i32 c pc)) :: acc)

(** val enter_function :
    mstate -> z -> nat -> compiled_function -> z list -> nat option -> mstate **)

let enter_function st pc_after local_idx f args new_ret =
  let current_size = length st.ms_regs in
  let fresh =
    app args (repeat Z0 (sub (Z.to_nat f.cf_num_registers) (length args)))
  in
  { ms_pc = Z0; ms_idx = local_idx; ms_frames = ({ fs_pc = pc_after; fs_idx =
  st.ms_idx; fs_base = st.ms_base; fs_ret = st.ms_ret } :: st.ms_frames);
  ms_ret = new_ret; ms_mem = st.ms_mem; ms_regs = (app st.ms_regs fresh);
  ms_base = current_size; ms_globals = st.ms_globals; ms_energy =
  st.ms_energy }

(** val call_function :
    artifact -> (nat -> z list -> z option option) -> code_map -> z list ->
    mstate -> z -> nat -> (functype -> nat -> bool) -> step_res **)

let call_function art mhost c consts st pc fidx check =
  let ni = length art.a_imports in
  if Nat.ltb fidx ni
  then (match nth_error art.a_imports fidx with
        | Some ft ->
          if check ft O
          then let (args, pc1) =
                 read_args c consts st pc (length ft.ft_params) []
               in
               (match ft.ft_result with
                | Some _ ->
                  let loc = get_i32 c pc1 in
                  (match mhost fidx args with
                   | Some o ->
                     (match o with
                      | Some r ->
                        SNext
                          (set_pc (set_reg st loc r)
                            (Z.add pc1 (Zpos (XO (XO XH)))))
                      | None -> STrap THost)
                   | None -> STrap THost)
                | None ->
                  (match mhost fidx args with
                   | Some _ -> SNext (set_pc st pc1)
                   | None -> STrap THost))
          else STrap TCallType
        | None -> STrap TBadCode)
  else let local_idx = sub fidx ni in
       (match nth_error art.a_code local_idx with
        | Some f ->
          if check { ft_params = f.cf_params; ft_result = f.cf_return } (S
               f.cf_type_idx)
          then let (args, pc1) =
                 read_args c consts st pc (length f.cf_params) []
               in
               (match f.cf_return with
                | Some _ ->
                  SNext
                    (enter_function st (Z.add pc1 (Zpos (XO (XO XH))))
                      local_idx f args (Some (Z.to_nat (get_i32 c pc1))))
                | None -> SNext (enter_function st pc1 local_idx f args None))
          else STrap TCallType
        | None -> STrap TBadCode)

(** val step :
    artifact -> (nat -> z list -> z option option) -> (code_map * z list)
    list -> mstate -> step_res **)

let step art mhost codes st =
  match nth_error codes st.ms_idx with
  | Some p ->
    let (c, consts) = p in
    let pc = Z.add st.ms_pc (Zpos XH) in
    let op = Z.to_N (byte_at c st.ms_pc) in
    let gl = get_local consts st in
    let w32 = fun f src old -> set_short old (f src) in
    let w64 = fun f src old -> set_long old (f src) in
    let bin32 = fun o ->
      binary c consts st pc (fun l r old ->
        match rs_binop (Zpos (XO (XO (XO (XO (XO XH)))))) o (as_i32 l)
                (as_i32 r) (as_u32 l) (as_u32 r) with
        | Inl e -> Inl e
        | Inr x -> Inr (set_short old x))
    in
    let bin64 = fun o ->
      binary c consts st pc (fun l r old ->
        match rs_binop (Zpos (XO (XO (XO (XO (XO (XO XH))))))) o (as_i64 l)
                (as_i64 r) (as_u64 l) (as_u64 r) with
        | Inl e -> Inl e
        | Inr x -> Inr (set_long old x))
    in
    let rel32 = fun o ->
      binary c consts st pc (fun l r old -> Inr
        (set_short old
          (rs_relop o (as_i32 l) (as_i32 r) (as_u32 l) (as_u32 r))))
    in
    let rel64 = fun o ->
      binary c consts st pc (fun l r old -> Inr
        (set_short old
          (rs_relop o (as_i64 l) (as_i64 r) (as_u64 l) (as_u64 r))))
    in
    if N.eqb op N0
    then STrap TUnreachable
    else if N.eqb op (Npos XH)
         then let cond = gl (get_i32 c pc) in
              let tgt = get_u32 c (Z.add pc (Zpos (XO (XO XH)))) in
              SNext
              (set_pc st
                (if Z.eqb (as_i32 cond) Z0
                 then tgt
                 else Z.add pc (Zpos (XO (XO (XO XH))))))
         else if N.eqb op (Npos (XO XH))
              then SNext (set_pc st (get_u32 c pc))
              else if N.eqb op (Npos (XI XH))
                   then let tgt = get_u32 c pc in
                        let cond =
                          gl (get_i32 c (Z.add pc (Zpos (XO (XO XH)))))
                        in
                        SNext
                        (set_pc st
                          (if Z.eqb (as_i32 cond) Z0
                           then Z.add pc (Zpos (XO (XO (XO XH))))
                           else tgt))
                   else if N.eqb op (Npos (XO (XO XH)))
                        then let cond = gl (get_i32 c pc) in
                             let n0 = get_u16 c (Z.add pc (Zpos (XO (XO XH))))
                             in
                             let top = as_u32 cond in
                             let p0 =
                               Z.add (Z.add pc (Zpos (XO (XI XH))))
                                 (if Z.ltb top n0
                                  then Z.mul (Z.add top (Zpos XH)) (Zpos (XO
                                         (XO XH)))
                                  else Z0)
                             in
                             SNext (set_pc st (get_u32 c p0))
                        else if N.eqb op (Npos (XI (XO XH)))
                             then let cond = gl (get_i32 c pc) in
                                  let src =
                                    gl
                                      (get_i32 c
                                        (Z.add pc (Zpos (XO (XO XH)))))
                                  in
                                  let n0 =
                                    get_u16 c
                                      (Z.add pc (Zpos (XO (XO (XO XH)))))
                                  in
                                  let top = as_u32 cond in
                                  let p0 =
                                    Z.add (Z.add pc (Zpos (XO (XI (XO XH)))))
                                      (if Z.ltb top n0
                                       then Z.mul (Z.add top (Zpos XH)) (Zpos
                                              (XO (XO (XO XH))))
                                       else Z0)
                                  in
                                  let tgt_reg = get_i32 c p0 in
                                  SNext
                                  (set_pc (set_reg st tgt_reg src)
                                    (get_u32 c (Z.add p0 (Zpos (XO (XO XH))))))
                             else if N.eqb op (Npos (XO (XO (XI (XO (XO (XI
                                       XH)))))))
                                  then let src = gl (get_i32 c pc) in
                                       SNext
                                       (set_pc
                                         (set_reg st
                                           (get_i32 c
                                             (Z.add pc (Zpos (XO (XO XH)))))
                                           src)
                                         (Z.add pc (Zpos (XO (XO (XO XH))))))
                                  else if N.eqb op (Npos (XO (XI XH)))
                                       then (match st.ms_frames with
                                             | [] -> SDone st
                                             | fr :: rest ->
                                               let regs1 =
                                                 match st.ms_ret with
                                                 | Some place ->
                                                   list_set st.ms_regs
                                                     (add fr.fs_base place)
                                                     (reg st Z0)
                                                 | None -> st.ms_regs
                                               in
                                               SNext { ms_pc = fr.fs_pc;
                                               ms_idx = fr.fs_idx;
                                               ms_frames = rest; ms_ret =
                                               fr.fs_ret; ms_mem = st.ms_mem;
                                               ms_regs =
                                               (firstn st.ms_base regs1);
                                               ms_base = fr.fs_base;
                                               ms_globals = st.ms_globals;
                                               ms_energy = st.ms_energy })
                                       else if N.eqb op (Npos (XO (XO (XO
                                                 XH))))
                                            then SNext { ms_pc =
                                                   (Z.add pc (Zpos (XO (XO
                                                     XH)))); ms_idx =
                                                   st.ms_idx; ms_frames =
                                                   st.ms_frames; ms_ret =
                                                   st.ms_ret; ms_mem =
                                                   st.ms_mem; ms_regs =
                                                   st.ms_regs; ms_base =
                                                   st.ms_base; ms_globals =
                                                   st.ms_globals; ms_energy =
                                                   (N.add st.ms_energy
                                                     (Z.to_N (get_u32 c pc))) }
                                            else if N.eqb op (Npos (XI (XI
                                                      XH)))
                                                 then call_function art mhost
                                                        c consts st
                                                        (Z.add pc (Zpos (XO
                                                          (XO XH))))
                                                        (Z.to_nat
                                                          (get_u32 c pc))
                                                        (fun _ _ -> true)
                                                 else if N.eqb op (Npos (XI
                                                           (XO (XO XH))))
                                                      then let ty_idx =
                                                             Z.to_nat
                                                               (get_u32 c pc)
                                                           in
                                                           (match nth_error
                                                                    art.a_types
                                                                    ty_idx with
                                                            | Some ty ->
                                                              let idx =
                                                                as_u32
                                                                  (gl
                                                                    (get_i32
                                                                    c
                                                                    (Z.add pc
                                                                    (Zpos (XO
                                                                    (XO XH))))))
                                                              in
                                                              (match 
                                                               if Z.ltb idx
                                                                    (Z.of_nat
                                                                    (length
                                                                    art.a_table))
                                                               then nth_error
                                                                    art.a_table
                                                                    (Z.to_nat
                                                                    idx)
                                                               else None with
                                                               | Some o ->
                                                                 (match o with
                                                                  | Some fidx ->
                                                                    call_function
                                                                    art mhost
                                                                    c consts
                                                                    st
                                                                    (Z.add pc
                                                                    (Zpos (XO
                                                                    (XO (XO
                                                                    XH)))))
                                                                    fidx
                                                                    (fun ft tag ->
                                                                    match tag with
                                                                    | O ->
                                                                    functype_eqb
                                                                    ft ty
                                                                    | S ti ->
                                                                    (||)
                                                                    (Nat.eqb
                                                                    ti ty_idx)
                                                                    (match 
                                                                    nth_error
                                                                    art.a_types
                                                                    ti with
                                                                    | Some ta ->
                                                                    functype_eqb
                                                                    ta ty
                                                                    | None ->
                                                                    false))
                                                                  | None ->
                                                                    STrap
                                                                    TCallUndefined)
                                                               | None ->
                                                                 STrap
                                                                   TCallUndefined)
                                                            | None ->
                                                              STrap TBadCode)
                                                      else if N.eqb op (Npos
                                                                (XO (XI (XO
                                                                XH))))
                                                           then let top =
                                                                  gl
                                                                    (get_i32
                                                                    c pc)
                                                                in
                                                                let t2 =
                                                                  gl
                                                                    (get_i32
                                                                    c
                                                                    (Z.add pc
                                                                    (Zpos (XO
                                                                    (XO XH)))))
                                                                in
                                                                let t1 =
                                                                  gl
                                                                    (get_i32
                                                                    c
                                                                    (Z.add pc
                                                                    (Zpos (XO
                                                                    (XO (XO
                                                                    XH))))))
                                                                in
                                                                SNext
                                                                (set_pc
                                                                  (set_reg st
                                                                    (get_i32
                                                                    c
                                                                    (Z.add pc
                                                                    (Zpos (XO
                                                                    (XO (XI
                                                                    XH))))))
                                                                    (
                                                                    if 
                                                                    Z.eqb
                                                                    (as_i32
                                                                    top) Z0
                                                                    then t2
                                                                    else t1))
                                                                  (Z.add pc
                                                                    (Zpos (XO
                                                                    (XO (XO
                                                                    (XO
                                                                    XH)))))))
                                                           else if N.eqb op
                                                                    (Npos (XI
                                                                    (XI (XO
                                                                    XH))))
                                                                then 
                                                                  let g =
                                                                    nth
                                                                    (Z.to_nat
                                                                    (get_u16
                                                                    c pc))
                                                                    st.ms_globals
                                                                    Z0
                                                                  in
                                                                  SNext
                                                                  (set_pc
                                                                    (set_reg
                                                                    st
                                                                    (get_i32
                                                                    c
                                                                    (Z.add pc
                                                                    (Zpos (XO
                                                                    XH)))) g)
                                                                    (Z.add pc
                                                                    (Zpos (XO
                                                                    (XI XH)))))
                                                                else 
                                                                  if 
                                                                    N.eqb op
                                                                    (Npos (XO
                                                                    (XO (XI
                                                                    XH))))
                                                                  then 
                                                                    let v =
                                                                    gl
                                                                    (get_i32
                                                                    c
                                                                    (Z.add pc
                                                                    (Zpos (XO
                                                                    XH))))
                                                                    in
                                                                    SNext
                                                                    (set_pc
                                                                    (set_mglobals
                                                                    st
                                                                    (list_set
                                                                    st.ms_globals
                                                                    (Z.to_nat
                                                                    (get_u16
                                                                    c pc)) v))
                                                                    (Z.add pc
                                                                    (Zpos (XO
                                                                    (XI XH)))))
                                                                  else 
                                                                    if 
                                                                    N.eqb op
                                                                    (Npos (XI
                                                                    (XO (XI
                                                                    XH))))
                                                                    then 
                                                                    do_load c
                                                                    consts st
                                                                    pc (S (S
                                                                    (S (S
                                                                    O))))
                                                                    from_i32
                                                                    else 
                                                                    if 
                                                                    N.eqb op
                                                                    (Npos (XO
                                                                    (XI (XI
                                                                    XH))))
                                                                    then 
                                                                    do_load c
                                                                    consts st
                                                                    pc (S (S
                                                                    (S (S (S
                                                                    (S (S (S
                                                                    O))))))))
                                                                    from_i64
                                                                    else 
                                                                    if 
                                                                    N.eqb op
                                                                    (Npos (XI
                                                                    (XI (XI
                                                                    XH))))
                                                                    then 
                                                                    do_load c
                                                                    consts st
                                                                    pc (S O)
                                                                    (fun x ->
                                                                    from_i32
                                                                    (sext
                                                                    (Zpos (XO
                                                                    (XO (XO
                                                                    XH)))) x))
                                                                    else 
                                                                    if 
                                                                    N.eqb op
                                                                    (Npos (XO
                                                                    (XO (XO
                                                                    (XO
                                                                    XH)))))
                                                                    then 
                                                                    do_load c
                                                                    consts st
                                                                    pc (S O)
                                                                    from_i32
                                                                    else 
                                                                    if 
                                                                    N.eqb op
                                                                    (Npos (XI
                                                                    (XO (XO
                                                                    (XO
                                                                    XH)))))
                                                                    then 
                                                                    do_load c
                                                                    consts st
                                                                    pc (S (S
                                                                    O))
                                                                    (fun x ->
                                                                    from_i32
                                                                    (sext
                                                                    (Zpos (XO
                                                                    (XO (XO
                                                                    (XO
                                                                    XH))))) x))
                                                                    else 
                                                                    if 
                                                                    N.eqb op
                                                                    (Npos (XO
                                                                    (XI (XO
                                                                    (XO
                                                                    XH)))))
                                                                    then 
                                                                    do_load c
                                                                    consts st
                                                                    pc (S (S
                                                                    O))
                                                                    from_i32
                                                                    else 
                                                                    if 
                                                                    N.eqb op
                                                                    (Npos (XI
                                                                    (XI (XO
                                                                    (XO
                                                                    XH)))))
                                                                    then 
                                                                    do_load c
                                                                    consts st
                                                                    pc (S O)
                                                                    (fun x ->
                                                                    from_i64
                                                                    (sext
                                                                    (Zpos (XO
                                                                    (XO (XO
                                                                    XH)))) x))
                                                                    else 
                                                                    if 
                                                                    N.eqb op
                                                                    (Npos (XO
                                                                    (XO (XI
                                                                    (XO
                                                                    XH)))))
                                                                    then 
                                                                    do_load c
                                                                    consts st
                                                                    pc (S O)
                                                                    from_i64
                                                                    else 
                                                                    if 
                                                                    N.eqb op
                                                                    (Npos (XI
                                                                    (XO (XI
                                                                    (XO
                                                                    XH)))))
                                                                    then 
                                                                    do_load c
                                                                    consts st
                                                                    pc (S (S
                                                                    O))
                                                                    (fun x ->
                                                                    from_i64
                                                                    (sext
                                                                    (Zpos (XO
                                                                    (XO (XO
                                                                    (XO
                                                                    XH))))) x))
                                                                    else 
                                                                    if 
                                                                    N.eqb op
                                                                    (Npos (XO
                                                                    (XI (XI
                                                                    (XO
                                                                    XH)))))
                                                                    then 
                                                                    do_load c
                                                                    consts st
                                                                    pc (S (S
                                                                    O))
                                                                    from_i64
                                                                    else 
                                                                    if 
                                                                    N.eqb op
                                                                    (Npos (XI
                                                                    (XI (XI
                                                                    (XO
                                                                    XH)))))
                                                                    then 
                                                                    do_load c
                                                                    consts st
                                                                    pc (S (S
                                                                    (S (S
                                                                    O))))
                                                                    (fun x ->
                                                                    from_i64
                                                                    (sext
                                                                    (Zpos (XO
                                                                    (XO (XO
                                                                    (XO (XO
                                                                    XH))))))
                                                                    x))
                                                                    else 
                                                                    if 
                                                                    N.eqb op
                                                                    (Npos (XO
                                                                    (XO (XO
                                                                    (XI
                                                                    XH)))))
                                                                    then 
                                                                    do_load c
                                                                    consts st
                                                                    pc (S (S
                                                                    (S (S
                                                                    O))))
                                                                    from_i64
                                                                    else 
                                                                    if 
                                                                    N.eqb op
                                                                    (Npos (XI
                                                                    (XO (XO
                                                                    (XI
                                                                    XH)))))
                                                                    then 
                                                                    do_store
                                                                    c consts
                                                                    st pc (S
                                                                    (S (S (S
                                                                    O))))
                                                                    else 
                                                                    if 
                                                                    N.eqb op
                                                                    (Npos (XO
                                                                    (XI (XO
                                                                    (XI
                                                                    XH)))))
                                                                    then 
                                                                    do_store
                                                                    c consts
                                                                    st pc (S
                                                                    (S (S (S
                                                                    (S (S (S
                                                                    (S
                                                                    O))))))))
                                                                    else 
                                                                    if 
                                                                    N.eqb op
                                                                    (Npos (XI
                                                                    (XI (XO
                                                                    (XI
                                                                    XH)))))
                                                                    then 
                                                                    do_store
                                                                    c consts
                                                                    st pc (S
                                                                    O)
                                                                    else 
                                                                    if 
                                                                    N.eqb op
                                                                    (Npos (XO
                                                                    (XO (XI
                                                                    (XI
                                                                    XH)))))
                                                                    then 
                                                                    do_store
                                                                    c consts
                                                                    st pc (S
                                                                    (S O))
                                                                    else 
                                                                    if 
                                                                    N.eqb op
                                                                    (Npos (XI
                                                                    (XO (XI
                                                                    (XI
                                                                    XH)))))
                                                                    then 
                                                                    do_store
                                                                    c consts
                                                                    st pc (S
                                                                    O)
                                                                    else 
                                                                    if 
                                                                    N.eqb op
                                                                    (Npos (XO
                                                                    (XI (XI
                                                                    (XI
                                                                    XH)))))
                                                                    then 
                                                                    do_store
                                                                    c consts
                                                                    st pc (S
                                                                    (S O))
                                                                    else 
                                                                    if 
                                                                    N.eqb op
                                                                    (Npos (XI
                                                                    (XI (XI
                                                                    (XI
                                                                    XH)))))
                                                                    then 
                                                                    do_store
                                                                    c consts
                                                                    st pc (S
                                                                    (S (S (S
                                                                    O))))
                                                                    else 
                                                                    if 
                                                                    N.eqb op
                                                                    (Npos (XO
                                                                    (XO (XO
                                                                    (XO (XO
                                                                    XH))))))
                                                                    then 
                                                                    SNext
                                                                    (set_pc
                                                                    (set_reg
                                                                    st
                                                                    (get_i32
                                                                    c pc)
                                                                    (from_i32
                                                                    (Z.div
                                                                    (mlen st)
                                                                    (Zpos (XO
                                                                    (XO (XO
                                                                    (XO (XO
                                                                    (XO (XO
                                                                    (XO (XO
                                                                    (XO (XO
                                                                    (XO (XO
                                                                    (XO (XO
                                                                    (XO
                                                                    XH))))))))))))))))))))
                                                                    (Z.add pc
                                                                    (Zpos (XO
                                                                    (XO XH)))))
                                                                    else 
                                                                    if 
                                                                    N.eqb op
                                                                    (Npos (XI
                                                                    (XO (XO
                                                                    (XO (XO
                                                                    XH))))))
                                                                    then 
                                                                    let v =
                                                                    gl
                                                                    (get_i32
                                                                    c pc)
                                                                    in
                                                                    let t0 =
                                                                    get_i32 c
                                                                    (Z.add pc
                                                                    (Zpos (XO
                                                                    (XO XH))))
                                                                    in
                                                                    let n0 =
                                                                    as_u32 v
                                                                    in
                                                                    let sz =
                                                                    Z.div
                                                                    (mlen st)
                                                                    (Zpos (XO
                                                                    (XO (XO
                                                                    (XO (XO
                                                                    (XO (XO
                                                                    (XO (XO
                                                                    (XO (XO
                                                                    (XO (XO
                                                                    (XO (XO
                                                                    (XO
                                                                    XH)))))))))))))))))
                                                                    in
                                                                    let max_memory =
                                                                    match art.a_memory with
                                                                    | Some p0 ->
                                                                    let (
                                                                    p1, _) =
                                                                    p0
                                                                    in
                                                                    let (
                                                                    _, mx) =
                                                                    p1
                                                                    in
                                                                    Z.of_N mx
                                                                    | None ->
                                                                    Z0
                                                                    in
                                                                    if 
                                                                    Z.gtb
                                                                    (Z.add sz
                                                                    n0)
                                                                    max_memory
                                                                    then 
                                                                    SNext
                                                                    (set_pc
                                                                    (set_reg
                                                                    st t0
                                                                    (set_short
                                                                    (reg st
                                                                    t0) (Zneg
                                                                    XH)))
                                                                    (Z.add pc
                                                                    (Zpos (XO
                                                                    (XO (XO
                                                                    XH))))))
                                                                    else 
                                                                    let st1 =
                                                                    match st.ms_mem with
                                                                    | Some mm ->
                                                                    if 
                                                                    Z.eqb n0
                                                                    Z0
                                                                    then st
                                                                    else 
                                                                    set_mmem
                                                                    st
                                                                    { mem_pages =
                                                                    (Z.to_N
                                                                    (Z.add sz
                                                                    n0));
                                                                    mem_max =
                                                                    mm.mem_max;
                                                                    mem_data =
                                                                    mm.mem_data }
                                                                    | None ->
                                                                    st
                                                                    in
                                                                    SNext
                                                                    (set_pc
                                                                    (set_reg
                                                                    st1 t0
                                                                    (set_short
                                                                    (reg st
                                                                    t0) sz))
                                                                    (Z.add pc
                                                                    (Zpos (XO
                                                                    (XO (XO
                                                                    XH))))))
                                                                    else 
                                                                    if 
                                                                    N.eqb op
                                                                    (Npos (XO
                                                                    (XI (XO
                                                                    (XO (XO
                                                                    XH))))))
                                                                    then 
                                                                    unary c
                                                                    consts st
                                                                    pc
                                                                    (w32
                                                                    (fun s ->
                                                                    if 
                                                                    Z.eqb
                                                                    (as_i32 s)
                                                                    Z0
                                                                    then 
                                                                    Zpos XH
                                                                    else Z0))
                                                                    else 
                                                                    if 
                                                                    (&&)
                                                                    (N.leb
                                                                    (Npos (XI
                                                                    (XI (XO
                                                                    (XO (XO
                                                                    XH))))))
                                                                    op)
                                                                    (N.leb op
                                                                    (Npos (XO
                                                                    (XO (XI
                                                                    (XI (XO
                                                                    XH)))))))
                                                                    then 
                                                                    (match 
                                                                    nth_error
                                                                    relops
                                                                    (N.to_nat
                                                                    (N.sub op
                                                                    (Npos (XI
                                                                    (XI (XO
                                                                    (XO (XO
                                                                    XH)))))))) with
                                                                    | Some o ->
                                                                    rel32 o
                                                                    | None ->
                                                                    STrap
                                                                    TBadCode)
                                                                    else 
                                                                    if 
                                                                    N.eqb op
                                                                    (Npos (XI
                                                                    (XO (XI
                                                                    (XI (XO
                                                                    XH))))))
                                                                    then 
                                                                    unary c
                                                                    consts st
                                                                    pc
                                                                    (w32
                                                                    (fun s ->
                                                                    if 
                                                                    Z.eqb
                                                                    (as_i64 s)
                                                                    Z0
                                                                    then 
                                                                    Zpos XH
                                                                    else Z0))
                                                                    else 
                                                                    if 
                                                                    (&&)
                                                                    (N.leb
                                                                    (Npos (XO
                                                                    (XI (XI
                                                                    (XI (XO
                                                                    XH))))))
                                                                    op)
                                                                    (N.leb op
                                                                    (Npos (XI
                                                                    (XI (XI
                                                                    (XO (XI
                                                                    XH)))))))
                                                                    then 
                                                                    (match 
                                                                    nth_error
                                                                    relops
                                                                    (N.to_nat
                                                                    (N.sub op
                                                                    (Npos (XO
                                                                    (XI (XI
                                                                    (XI (XO
                                                                    XH)))))))) with
                                                                    | Some o ->
                                                                    rel64 o
                                                                    | None ->
                                                                    STrap
                                                                    TBadCode)
                                                                    else 
                                                                    if 
                                                                    N.eqb op
                                                                    (Npos (XO
                                                                    (XO (XO
                                                                    (XI (XI
                                                                    XH))))))
                                                                    then 
                                                                    unary c
                                                                    consts st
                                                                    pc
                                                                    (w32
                                                                    (fun s ->
                                                                    rs_leading_zeros
                                                                    (Zpos (XO
                                                                    (XO (XO
                                                                    (XO (XO
                                                                    XH))))))
                                                                    (as_u32 s)))
                                                                    else 
                                                                    if 
                                                                    N.eqb op
                                                                    (Npos (XI
                                                                    (XO (XO
                                                                    (XI (XI
                                                                    XH))))))
                                                                    then 
                                                                    unary c
                                                                    consts st
                                                                    pc
                                                                    (w32
                                                                    (fun s ->
                                                                    rs_trailing_zeros
                                                                    (Zpos (XO
                                                                    (XO (XO
                                                                    (XO (XO
                                                                    XH))))))
                                                                    (as_u32 s)))
                                                                    else 
                                                                    if 
                                                                    N.eqb op
                                                                    (Npos (XO
                                                                    (XI (XO
                                                                    (XI (XI
                                                                    XH))))))
                                                                    then 
                                                                    unary c
                                                                    consts st
                                                                    pc
                                                                    (w32
                                                                    (fun s ->
                                                                    rs_count_ones
                                                                    (as_u32 s)))
                                                                    else 
                                                                    if 
                                                                    (&&)
                                                                    (N.leb
                                                                    (Npos (XI
                                                                    (XI (XO
                                                                    (XI (XI
                                                                    XH))))))
                                                                    op)
                                                                    (N.leb op
                                                                    (Npos (XI
                                                                    (XO (XO
                                                                    (XI (XO
                                                                    (XO
                                                                    XH))))))))
                                                                    then 
                                                                    (match 
                                                                    nth_error
                                                                    binops
                                                                    (N.to_nat
                                                                    (N.sub op
                                                                    (Npos (XI
                                                                    (XI (XO
                                                                    (XI (XI
                                                                    XH)))))))) with
                                                                    | Some o ->
                                                                    bin32 o
                                                                    | None ->
                                                                    STrap
                                                                    TBadCode)
                                                                    else 
                                                                    if 
                                                                    N.eqb op
                                                                    (Npos (XO
                                                                    (XI (XO
                                                                    (XI (XO
                                                                    (XO
                                                                    XH)))))))
                                                                    then 
                                                                    unary c
                                                                    consts st
                                                                    pc
                                                                    (w64
                                                                    (fun s ->
                                                                    rs_leading_zeros
                                                                    (Zpos (XO
                                                                    (XO (XO
                                                                    (XO (XO
                                                                    (XO
                                                                    XH)))))))
                                                                    (as_u64 s)))
                                                                    else 
                                                                    if 
                                                                    N.eqb op
                                                                    (Npos (XI
                                                                    (XI (XO
                                                                    (XI (XO
                                                                    (XO
                                                                    XH)))))))
                                                                    then 
                                                                    unary c
                                                                    consts st
                                                                    pc
                                                                    (w64
                                                                    (fun s ->
                                                                    rs_trailing_zeros
                                                                    (Zpos (XO
                                                                    (XO (XO
                                                                    (XO (XO
                                                                    (XO
                                                                    XH)))))))
                                                                    (as_u64 s)))
                                                                    else 
                                                                    if 
                                                                    N.eqb op
                                                                    (Npos (XO
                                                                    (XO (XI
                                                                    (XI (XO
                                                                    (XO
                                                                    XH)))))))
                                                                    then 
                                                                    unary c
                                                                    consts st
                                                                    pc
                                                                    (w64
                                                                    (fun s ->
                                                                    rs_count_ones
                                                                    (as_u64 s)))
                                                                    else 
                                                                    if 
                                                                    (&&)
                                                                    (N.leb
                                                                    (Npos (XI
                                                                    (XO (XI
                                                                    (XI (XO
                                                                    (XO
                                                                    XH)))))))
                                                                    op)
                                                                    (N.leb op
                                                                    (Npos (XI
                                                                    (XI (XO
                                                                    (XI (XI
                                                                    (XO
                                                                    XH))))))))
                                                                    then 
                                                                    (match 
                                                                    nth_error
                                                                    binops
                                                                    (N.to_nat
                                                                    (N.sub op
                                                                    (Npos (XI
                                                                    (XO (XI
                                                                    (XI (XO
                                                                    (XO
                                                                    XH))))))))) with
                                                                    | Some o ->
                                                                    bin64 o
                                                                    | None ->
                                                                    STrap
                                                                    TBadCode)
                                                                    else 
                                                                    if 
                                                                    N.eqb op
                                                                    (Npos (XO
                                                                    (XO (XI
                                                                    (XI (XI
                                                                    (XO
                                                                    XH)))))))
                                                                    then 
                                                                    unary c
                                                                    consts st
                                                                    pc
                                                                    (w32
                                                                    as_i64)
                                                                    else 
                                                                    if 
                                                                    N.eqb op
                                                                    (Npos (XI
                                                                    (XO (XI
                                                                    (XI (XI
                                                                    (XO
                                                                    XH)))))))
                                                                    then 
                                                                    unary c
                                                                    consts st
                                                                    pc
                                                                    (w64
                                                                    as_i32)
                                                                    else 
                                                                    if 
                                                                    N.eqb op
                                                                    (Npos (XO
                                                                    (XI (XI
                                                                    (XI (XI
                                                                    (XO
                                                                    XH)))))))
                                                                    then 
                                                                    unary c
                                                                    consts st
                                                                    pc
                                                                    (w64
                                                                    as_u32)
                                                                    else 
                                                                    if 
                                                                    N.eqb op
                                                                    (Npos (XI
                                                                    (XI (XI
                                                                    (XI (XI
                                                                    (XO
                                                                    XH)))))))
                                                                    then 
                                                                    unary c
                                                                    consts st
                                                                    pc
                                                                    (w32
                                                                    (fun s ->
                                                                    sext
                                                                    (Zpos (XO
                                                                    (XO (XO
                                                                    XH))))
                                                                    (as_i32 s)))
                                                                    else 
                                                                    if 
                                                                    N.eqb op
                                                                    (Npos (XO
                                                                    (XO (XO
                                                                    (XO (XO
                                                                    (XI
                                                                    XH)))))))
                                                                    then 
                                                                    unary c
                                                                    consts st
                                                                    pc
                                                                    (w32
                                                                    (fun s ->
                                                                    sext
                                                                    (Zpos (XO
                                                                    (XO (XO
                                                                    (XO
                                                                    XH)))))
                                                                    (as_i32 s)))
                                                                    else 
                                                                    if 
                                                                    N.eqb op
                                                                    (Npos (XI
                                                                    (XO (XO
                                                                    (XO (XO
                                                                    (XI
                                                                    XH)))))))
                                                                    then 
                                                                    unary c
                                                                    consts st
                                                                    pc
                                                                    (w64
                                                                    (fun s ->
                                                                    sext
                                                                    (Zpos (XO
                                                                    (XO (XO
                                                                    XH))))
                                                                    (as_i64 s)))
                                                                    else 
                                                                    if 
                                                                    N.eqb op
                                                                    (Npos (XO
                                                                    (XI (XO
                                                                    (XO (XO
                                                                    (XI
                                                                    XH)))))))
                                                                    then 
                                                                    unary c
                                                                    consts st
                                                                    pc
                                                                    (w64
                                                                    (fun s ->
                                                                    sext
                                                                    (Zpos (XO
                                                                    (XO (XO
                                                                    (XO
                                                                    XH)))))
                                                                    (as_i64 s)))
                                                                    else 
                                                                    if 
                                                                    N.eqb op
                                                                    (Npos (XI
                                                                    (XI (XO
                                                                    (XO (XO
                                                                    (XI
                                                                    XH)))))))
                                                                    then 
                                                                    unary c
                                                                    consts st
                                                                    pc
                                                                    (w64
                                                                    (fun s ->
                                                                    sext
                                                                    (Zpos (XO
                                                                    (XO (XO
                                                                    (XO (XO
                                                                    XH))))))
                                                                    (as_i64 s)))
                                                                    else 
                                                                    STrap
                                                                    TBadCode
  | None -> STrap TBadCode

(** val run_steps :
    artifact -> (nat -> z list -> z option option) -> (code_map * z list)
    list -> nat -> mstate -> (moutcome, mstate) sum **)

let rec run_steps art mhost codes fuel st =
  match fuel with
  | O -> Inl MOutOfFuel
  | S f ->
    (match step art mhost codes st with
     | SNext st' -> run_steps art mhost codes f st'
     | SDone st' -> Inr st'
     | STrap r -> Inl (MTrap r))

(** val decode_codes : artifact -> (code_map * z list) list **)

let decode_codes art =
  map (fun f -> ((build_code f.cf_code XH PositiveMap.empty),
    f.cf_constants)) art.a_code

(** val mrun :
    artifact -> (nat -> z list -> z option option) -> nat -> nat -> val0 list
    -> moutcome **)

let mrun art mhost fuel entry args =
  match nth_error art.a_code entry with
  | Some f ->
    let argregs =
      map (fun v ->
        match v with
        | VI32 z0 -> from_i32 z0
        | VI64 z0 -> from_i64 z0) args
    in
    let regs =
      app argregs
        (repeat Z0 (sub (Z.to_nat f.cf_num_registers) (length argregs)))
    in
    let mem0 =
      match art.a_memory with
      | Some p ->
        let (p0, data) = p in
        let (init, mx) = p0 in
        Some
        (fold_left (fun mm d -> mem_write mm (fst d) (snd d)) data
          { mem_pages = init; mem_max = (Some mx); mem_data =
          PositiveMap.empty })
      | None -> None
    in
    let st0 = { ms_pc = Z0; ms_idx = entry; ms_frames = []; ms_ret =
      (match f.cf_return with
       | Some _ -> Some O
       | None -> None); ms_mem = mem0; ms_regs = regs; ms_base = O;
      ms_globals = art.a_globals; ms_energy = N0 }
    in
    (match run_steps art mhost (decode_codes art) fuel st0 with
     | Inl o -> o
     | Inr st ->
       let r =
         match f.cf_return with
         | Some v0 ->
           (match v0 with
            | T_i32 ->
              (match st.ms_ret with
               | Some v ->
                 Some (VI32 (as_u32 (nth (add st.ms_base v) st.ms_regs Z0)))
               | None -> None)
            | T_i64 ->
              (match st.ms_ret with
               | Some v ->
                 Some (VI64 (as_u64 (nth (add st.ms_base v) st.ms_regs Z0)))
               | None -> None))
         | None -> None
       in
       MDone (r, st.ms_mem, st.ms_globals, st.ms_energy))
  | None -> MTrap TBadCode

(** val max_num_pages : n **)

let max_num_pages =
  Npos (XO (XO (XO (XO (XO (XO (XO (XO (XO XH)))))))))

(** val build_artifact :
    cmodule -> module0 -> nat -> compiled_function list -> artifact option **)

let build_artifact cm m elem_shift code =
  let tbl0 =
    match m.m_table with
    | Some n0 -> repeat None (N.to_nat n0)
    | None -> []
  in
  (match init_table tbl0
           (map (fun e -> ((fst e),
             (map (fun f -> add f elem_shift) (snd e)))) m.m_elems) with
   | Some tbl ->
     let imports =
       map (fun ti ->
         nth ti cm.cm_types { ft_params = []; ft_result = None })
         cm.cm_imports
     in
     Some { a_imports = imports; a_types = cm.cm_types; a_table = tbl;
     a_memory =
     (match m.m_mem with
      | Some l ->
        Some ((l.l_min,
          (match l.l_max with
           | Some x -> N.min x max_num_pages
           | None -> max_num_pages)), m.m_data)
      | None -> None); a_globals =
     (map (fun g ->
       match g.g_init with
       | VI32 z0 -> from_i32 z0
       | VI64 z0 -> from_i64 z0) m.m_globals); a_code = code }
   | None -> None)

(** val metering_host : nat -> z list -> z option option **)

let metering_host i args =
  match i with
  | O ->
    (match args with
     | [] -> None
     | x :: l -> (match l with
                  | [] -> Some (Some x)
                  | _ :: _ -> None))
  | S _ -> None

(** val is_terminator : binstr -> bool **)

let is_terminator = function
| BUnreachable -> true
| BBr _ -> true
| BBrTable (_, _) -> true
| BReturn -> true
| _ -> false

(** val f1_instr : blocktype list -> instr -> bool **)

let rec f1_instr labels i =
  let seq =
    let rec seq labels0 = function
    | [] -> false
    | x :: r -> (||) (f1_instr labels0 x) (seq labels0 r)
    in seq
  in
  (match i with
   | Basic b ->
     (match b with
      | BBrIf l ->
        (match nth_error labels l with
         | Some b0 -> (match b0 with
                       | Some _ -> true
                       | None -> false)
         | None -> false)
      | _ -> false)
   | Block (bt, body) -> seq (bt :: labels) body
   | Loop (_, body) -> seq (None :: labels) body
   | If (bt, thn, els) ->
     (||) (seq (bt :: labels) thn) (seq (bt :: labels) els))

(** val f1_body : blocktype -> instr list -> bool **)

let f1_body result body =
  existsb (f1_instr (result :: [])) body

type aentry = nat option

(** val is_local : nat -> aentry -> bool **)

let is_local i = function
| Some j -> Nat.eqb i j
| None -> false

(** val forget : nat -> aentry list -> aentry list **)

let forget i st =
  map (fun e -> if is_local i e then None else e) st

type f2_state = { f2_found : bool; f2_cur : aentry list;
                  f2_outer : aentry list; f2_dead : bool }

(** val f2_basic :
    (nat -> functype option) -> (nat -> functype option) -> nat -> blocktype
    list -> binstr -> f2_state -> f2_state **)

let f2_basic func_type0 type_at depth labels b s =
  let cur = s.f2_cur in
  let mk = fun f c o d -> { f2_found = f; f2_cur = c; f2_outer = o; f2_dead =
    d }
  in
  if is_terminator b
  then mk s.f2_found cur s.f2_outer true
  else (match b with
        | BBrIf l ->
          let cur1 = skipn (S O) cur in
          let cur2 =
            match nth_error labels l with
            | Some b0 ->
              (match b0 with
               | Some _ -> None :: (skipn (S O) cur1)
               | None -> cur1)
            | None -> cur1
          in
          mk s.f2_found cur2 s.f2_outer false
        | BCall f ->
          (match func_type0 f with
           | Some ft ->
             mk s.f2_found
               (app (repeat None (bt_arity ft.ft_result))
                 (skipn (length ft.ft_params) cur)) s.f2_outer false
           | None -> s)
        | BCallIndirect ti ->
          (match type_at ti with
           | Some ft ->
             mk s.f2_found
               (app (repeat None (bt_arity ft.ft_result))
                 (skipn (S (length ft.ft_params)) cur)) s.f2_outer false
           | None -> s)
        | BLocalGet i -> mk s.f2_found ((Some i) :: cur) s.f2_outer false
        | BLocalSet i ->
          let hit =
            (&&) (negb (Nat.eqb depth O)) (existsb (is_local i) s.f2_outer)
          in
          mk ((||) s.f2_found hit) (forget i (skipn (S O) cur))
            (forget i s.f2_outer) false
        | BLocalTee i ->
          let hit =
            (&&) (negb (Nat.eqb depth O)) (existsb (is_local i) s.f2_outer)
          in
          mk ((||) s.f2_found hit) ((Some i) :: (forget i (skipn (S O) cur)))
            (forget i s.f2_outer) false
        | _ ->
          let (po, pu) = pops_pushes b in
          mk s.f2_found (app (repeat None pu) (skipn po cur)) s.f2_outer false)

(** val f2_instr :
    (nat -> functype option) -> (nat -> functype option) -> nat -> blocktype
    list -> instr -> f2_state -> f2_state **)

let rec f2_instr func_type0 type_at depth labels i s =
  let seq =
    let rec seq depth0 labels0 is s0 =
      match is with
      | [] -> s0
      | x :: r ->
        if s0.f2_dead
        then s0
        else seq depth0 labels0 r
               (f2_instr func_type0 type_at depth0 labels0 x s0)
    in seq
  in
  let nested = fun labels' body s0 ->
    let n0 = length s0.f2_cur in
    let s1 =
      seq (S depth) labels' body { f2_found = s0.f2_found; f2_cur = [];
        f2_outer = (app s0.f2_cur s0.f2_outer); f2_dead = false }
    in
    { f2_found = s1.f2_found; f2_cur = (firstn n0 s1.f2_outer); f2_outer =
    (skipn n0 s1.f2_outer); f2_dead = false }
  in
  let push_res = fun bt s0 -> { f2_found = s0.f2_found; f2_cur =
    (app (repeat None (bt_arity bt)) s0.f2_cur); f2_outer = s0.f2_outer;
    f2_dead = false }
  in
  (match i with
   | Basic b -> f2_basic func_type0 type_at depth labels b s
   | Block (bt, body) -> push_res bt (nested (bt :: labels) body s)
   | Loop (bt, body) -> push_res bt (nested (None :: labels) body s)
   | If (bt, thn, els) ->
     let s0 = { f2_found = s.f2_found; f2_cur = (skipn (S O) s.f2_cur);
       f2_outer = s.f2_outer; f2_dead = false }
     in
     push_res bt (nested (bt :: labels) els (nested (bt :: labels) thn s0)))

(** val f2_body :
    (nat -> functype option) -> (nat -> functype option) -> blocktype ->
    instr list -> bool **)

let f2_body func_type0 type_at result body =
  (fold_left (fun s i ->
    if s.f2_dead then s else f2_instr func_type0 type_at O (result :: []) i s)
    body { f2_found = false; f2_cur = []; f2_outer = []; f2_dead = false }).f2_found

(** val classes_of_function :
    cmodule -> ((nat * valtype list) * opcode list) -> (bool * bool) option **)

let classes_of_function cm = function
| (p, ops) ->
  let (ti, _) = p in
  (match nth_error cm.cm_types ti with
   | Some ft ->
     (match structure_body ops with
      | Some body ->
        Some ((f1_body ft.ft_result body),
          (f2_body (cm_func_type cm) (nth_error cm.cm_types) ft.ft_result
            body))
      | None -> None)
   | None -> None)
