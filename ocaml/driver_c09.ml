(* Line-oriented driver for the extracted validation model (C09).
   MOD <module in the line format of harness/c09/src/ast.rs>
        -> v0=<ok|err> v1=<ok|err> mem=<init:max|none> fn=<r,r,..>   r = ok:<maxheight>:<ends_early 0|1> | err | skip | notype
   LEB <u32|u64|i32|i64> <hex bytes>
        -> ok <value> <consumed> | err
   IMP <v0|v1|v1n> <dup 0|1> <module name hex|-> <item name hex|-> <np> t.. <nr> t..   -> true | false
   EXP <v0|v1> <name hex|-> <np> t.. <nr> t..                                          -> true | false *)
type ostr = string
open C09_model

exception Bad of ostr

let cap = 70000
let rec nat_of_int (i : int) : nat = if i <= 0 then O else S (nat_of_int (i - 1))
let nat_capped (i : int) : nat = nat_of_int (if i > cap || i < 0 then cap else i)
let rec int_of_nat (n : nat) : int = match n with O -> 0 | S m -> 1 + int_of_nat m

let rec pos_of_u64 (x : int64) : positive =
  if x = 1L then XH
  else if Int64.logand x 1L = 0L then XO (pos_of_u64 (Int64.shift_right_logical x 1))
  else XI (pos_of_u64 (Int64.shift_right_logical x 1))
let z_of_int64 (x : int64) : z =
  if x = 0L then Z0 else if Int64.compare x 0L > 0 then Zpos (pos_of_u64 x) else Zneg (pos_of_u64 (Int64.neg x))
let n_of_int64 (x : int64) : n = if x = 0L then N0 else Npos (pos_of_u64 x)
let z_of_string (s : ostr) : z = z_of_int64 (Int64.of_string s)
let n_of_string (s : ostr) : n = n_of_int64 (Int64.of_string s)
let n_of_int (i : int) : n = n_of_int64 (Int64.of_int i)
let rec u64_of_pos (p : positive) : int64 =
  match p with
  | XH -> 1L
  | XO q -> Int64.shift_left (u64_of_pos q) 1
  | XI q -> Int64.logor (Int64.shift_left (u64_of_pos q) 1) 1L
let int64_of_z (x : z) : int64 = match x with Z0 -> 0L | Zpos p -> u64_of_pos p | Zneg p -> Int64.neg (u64_of_pos p)
let int64_of_n (x : n) : int64 = match x with N0 -> 0L | Npos p -> u64_of_pos p

type rd = { toks : ostr array; mutable pos : int }
let next r = if r.pos >= Array.length r.toks then raise (Bad "eof") else (let t = r.toks.(r.pos) in r.pos <- r.pos + 1; t)
let num r = int_of_string (next r)
let expect r s = let t = next r in if t <> s then raise (Bad ("expected " ^ s ^ " got " ^ t))
let vt_of s = match s with "7f" -> T_i32 | "7e" -> T_i64 | _ -> raise (Bad ("valtype " ^ s))
let bt_of s = match s with "40" -> None | _ -> Some (vt_of s)
let rec times k f = if k <= 0 then [] else (let x = f () in x :: times (k - 1) f)

(* indices are u32 in the line format; anything above [cap] is out of range for every list *)
let idx (s : ostr) : nat = nat_capped (try int_of_string s with _ -> cap)

let vop_of_tok (tok : ostr) : (opcode * n) =
  match String.split_on_char ':' tok with
  | [] -> raise (Bad "empty op")
  | b :: imm ->
      let byte = int_of_string ("0x" ^ b) in
      let nat k = idx (List.nth imm k) in
      (match byte with
       | 0x02 -> (OBlock (bt_of (List.nth imm 0)), N0)
       | 0x03 -> (OLoop (bt_of (List.nth imm 0)), N0)
       | 0x04 -> (OIf (bt_of (List.nth imm 0)), N0)
       | 0x05 -> (OElse, N0)
       | 0x0b -> (OEnd, N0)
       | 0x0c -> (OBasic (BBr (nat 0)), N0)
       | 0x0d -> (OBasic (BBrIf (nat 0)), N0)
       | 0x0e ->
           let k = int_of_string (List.nth imm 0) in
           let ls = List.init k (fun j -> nat (1 + j)) in
           (OBasic (BBrTable (ls, nat (1 + k))), N0)
       | 0x10 -> (OBasic (BCall (nat 0)), N0)
       | 0x11 -> (OBasic (BCallIndirect (nat 0)), N0)
       | 0x20 -> (OBasic (BLocalGet (nat 0)), N0)
       | 0x21 -> (OBasic (BLocalSet (nat 0)), N0)
       | 0x22 -> (OBasic (BLocalTee (nat 0)), N0)
       | 0x23 -> (OBasic (BGlobalGet (nat 0)), N0)
       | 0x24 -> (OBasic (BGlobalSet (nat 0)), N0)
       | 0x41 -> (OBasic (mk_const T_i32 (z_of_string (List.nth imm 0))), N0)
       | 0x42 -> (OBasic (mk_const T_i64 (z_of_string (List.nth imm 0))), N0)
       | 0xfe -> (OBasic (BTick (n_of_string (List.nth imm 0))), N0)
       | _ when byte >= 0x28 && byte <= 0x3e ->
           (match mem_of_byte (n_of_int byte) (n_of_string (List.nth imm 0)) with
            | Some x -> (OBasic x, n_of_string (List.nth imm 1))
            | None -> raise (Bad ("mem op " ^ tok)))
       | _ ->
           (match plain_of_byte (n_of_int byte) with
            | Some x -> (OBasic x, N0)
            | None -> raise (Bad ("op " ^ tok))))

let names : (ostr, int) Hashtbl.t = Hashtbl.create 64
let intern (s : ostr) : n =
  match Hashtbl.find_opt names s with
  | Some i -> n_of_int i
  | None -> let i = Hashtbl.length names in Hashtbl.add names s i; n_of_int i

let parse_module_line (r : rd) : vmodule =
  Hashtbl.reset names;
  expect r "T";
  let nt = num r in
  let types = times nt (fun () ->
    let np = num r in
    let ps = times np (fun () -> vt_of (next r)) in
    let nr = num r in
    let res = if nr = 1 then Some (vt_of (next r)) else None in
    { ft_params = ps; ft_result = res }) in
  expect r "I";
  let ni = num r in
  let imports = times ni (fun () -> idx (next r)) in
  expect r "M";
  let has = num r in let mn = next r in let hasmax = num r in let mx = next r in
  let mem = if has = 1 then Some (n_of_string mn, (if hasmax = 1 then Some (n_of_string mx) else None)) else None in
  expect r "G";
  let ng = num r in
  let globals = times ng (fun () ->
    let mu = num r = 1 in
    let t = vt_of (next r) in
    let _ = next r in
    (t, mu)) in
  expect r "B";
  let hast = num r in let tsz = next r in
  let table = if hast = 1 then Some (n_of_string tsz) else None in
  expect r "E";
  let ne = num r in
  let elems = times ne (fun () ->
    let off = n_of_string (next r) in
    let k = num r in
    (off, times k (fun () -> n_of_string (next r)))) in
  expect r "D";
  let nd = num r in
  let data = times nd (fun () ->
    let off = n_of_string (next r) in
    let k = n_of_string (next r) in
    (off, k)) in
  expect r "F";
  let nf = num r in
  let fs = times nf (fun () ->
    let ty = idx (next r) in
    let nl = num r in
    let locals = times nl (fun () -> let mult = n_of_string (next r) in let t = vt_of (next r) in (mult, t)) in
    let nops = num r in
    let ops = times nops (fun () -> vop_of_tok (next r)) in
    { mf_type = ty; mf_locals = locals; mf_body = ops }) in
  expect r "P";
  let np = num r in
  let exports = times np (fun () ->
    let name = intern (next r) in
    let kind = n_of_string (next r) in
    let i = n_of_string (next r) in
    ((name, kind), i)) in
  { vm_types = types; vm_imports = imports; vm_funcs = fs; vm_table = table; vm_mem = mem;
    vm_globals = globals; vm_exports = exports; vm_elems = elems; vm_data = data }

let fn_result (m : vmodule) (f : mfunc) : ostr =
  match List.nth_opt m.vm_types (int_of_nat f.mf_type) with
  | None -> "notype"
  | Some ft ->
      (match make_locals ft.ft_params f.mf_locals with
       | None -> "skip"
       | Some locals ->
           let c = func_ctx true m ft locals in
           (match validate_func c f.mf_body with
            | Some h -> Printf.sprintf "ok:%d:%d" (int_of_nat h) (if ends_early c f.mf_body then 1 else 0)
            | None -> "err"))

let do_mod (r : rd) : ostr =
  let m = parse_module_line r in
  let v b = if validate_module b m then "ok" else "err" in
  let mem = match artifact_memory m with
    | Some (i, x) -> Printf.sprintf "%Lu:%Lu" (int64_of_n i) (int64_of_n x)
    | None -> "none" in
  Printf.sprintf "v0=%s v1=%s mem=%s fn=%s" (v false) (v true) mem (String.concat "," (List.map (fn_result m) m.vm_funcs))

let bytes_of_hex (s : ostr) : n list =
  List.init (String.length s / 2) (fun i -> n_of_int (int_of_string ("0x" ^ String.sub s (2 * i) 2)))

let do_leb (r : rd) : ostr =
  let k = next r in
  let bs = if r.pos < Array.length r.toks then bytes_of_hex (next r) else [] in
  let total = List.length bs in
  match k with
  | "u32" | "u64" ->
      (match (if k = "u32" then decode_u32 bs else decode_u64 bs) with
       | Some (v, rest) -> Printf.sprintf "ok %s %d" (Printf.sprintf "%Lu" (int64_of_n v)) (total - List.length rest)
       | None -> "err")
  | _ ->
      (match (if k = "i32" then decode_s32 bs else decode_s64 bs) with
       | Some (v, rest) -> Printf.sprintf "ok %s %d" (Int64.to_string (int64_of_z v)) (total - List.length rest)
       | None -> "err")

(* ---------- import / export tables ---------- *)
let ascii_of_char (c : char) : ascii =
  let n = Char.code c in
  let b i = (n lsr i) land 1 = 1 in
  Ascii (b 0, b 1, b 2, b 3, b 4, b 5, b 6, b 7)
let coq_string (s : ostr) : C09_model.string =
  let rec go i = if i >= String.length s then EmptyString else String (ascii_of_char s.[i], go (i + 1)) in go 0
let str_of_hex (h : ostr) : ostr =
  String.init (String.length h / 2) (fun i -> Char.chr (int_of_string ("0x" ^ String.sub h (2 * i) 2)))
let hexarg (t : ostr) : ostr = if t = "-" then "" else str_of_hex t
let read_ft (r : rd) : functype =
  let np = num r in
  let ps = times np (fun () -> vt_of (next r)) in
  let nr = num r in
  let res = if nr = 1 then Some (vt_of (next r)) else None in
  { ft_params = ps; ft_result = res }
let do_imp (r : rd) : ostr =
  let v = next r in
  let dup = num r = 1 in
  let md = coq_string (hexarg (next r)) in
  let nm = coq_string (hexarg (next r)) in
  let ft = read_ft r in
  let b = match v with
    | "v0" -> import_ok_v0 dup md nm ft
    | "v1" -> import_ok_v1 true false dup md nm ft
    | _ -> import_ok_v1 false false dup md nm ft in
  if b then "true" else "false"
let do_exp (r : rd) : ostr =
  let v = next r in
  let nm = coq_string (hexarg (next r)) in
  let ft = read_ft r in
  if (match v with "v0" -> export_ok_v0 nm ft | _ -> export_ok_v1 nm ft) then "true" else "false"

(* ---------- the parser model on raw bytes ---------- *)
let perr_name (e : perr) : ostr = match e with
  | E_eof -> "eof" | E_magic -> "magic" | E_version -> "version" | E_section_id -> "section-id"
  | E_section_order -> "section-order" | E_size -> "size" | E_leb -> "leb" | E_opcode -> "opcode"
  | E_valtype -> "valtype" | E_blocktype -> "blocktype" | E_tag -> "tag" | E_name -> "name" | E_limits -> "limits"
  | E_table -> "table" | E_memory -> "memory" | E_start -> "start" | E_constexpr -> "constexpr" | E_multi -> "multi"
  | E_leftover -> "leftover" | E_byte -> "byte" | E_code_size -> "code-size"
let do_bytes (r : rd) : ostr =
  let bs = if r.pos < Array.length r.toks then bytes_of_hex (next r) else [] in
  let cap = n_of_int (List.length bs) in
  let v cfg sx = match parse_module cfg bs with
    | POk (p, _, a) ->
        (match to_vmodule cap p with
         | Some vm -> if validate_module sx vm then Printf.sprintf "ok:%Lu" (int64_of_n a) else "err:validate"
         | None -> "err:validate")
    | PErr e -> "err:" ^ perr_name e
    | PFuel -> "FUEL" in
  let sk = match parse_skeleton bs with
    | POk (ss, _, _) ->
        let item ((id, _), len) = Printf.sprintf "%Lu:%Lu" (int64_of_n id) (int64_of_n len) in
        let noncustom = List.sort (fun ((a, _), _) ((b, _), _) -> compare (int64_of_n a) (int64_of_n b))
                          (List.filter (fun ((id, _), _) -> int64_of_n id <> 0L) ss) in
        let custom = List.filter (fun ((id, _), _) -> int64_of_n id = 0L) ss in
        "ok:" ^ String.concat "," (List.map item (noncustom @ custom))
    | PErr e -> "err:" ^ perr_name e
    | PFuel -> "FUEL" in
  Printf.sprintf "v0=%s v1=%s skel=%s" (v cfg_v0 false) (v cfg_v1 true) sk

let () =
  try
    while true do
      let line = input_line stdin in
      let toks = Array.of_list (List.filter (fun s -> s <> "") (String.split_on_char ' ' (String.trim line))) in
      let r = { toks; pos = 0 } in
      let out =
        try
          (match next r with
           | "MOD" -> do_mod r
           | "LEB" -> do_leb r
           | "BYTES" -> do_bytes r
           | "IMP" -> do_imp r
           | "EXP" -> do_exp r
           | c -> "bad-command " ^ c)
        with Bad s -> "unrepresentable " ^ s
           | Failure s -> "unrepresentable " ^ s
           | Not_found -> "unrepresentable" in
      print_string out; print_newline ()
    done
  with End_of_file -> ()
