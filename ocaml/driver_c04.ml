(* Line-oriented driver for the extracted C04 model (coq/Run/ExtractC04.v).
   usage: runner (model|verbose)    reads stdin:
     C <id> <op>;<op>;...     a history of the C04 machine
   prints  M <id> <out>;<out>;...   the observations of the model (same format as the harness' R lines)
           Q <id> <pre>;<pre>;...   the hash preimage tree of every frozen state (B<hex> | H(p,p,...)),
                                    folded with SHA-256 by the check (not by this driver)
   The extracted model is parametrised by the hash function; this driver passes a plain OCaml
   SHA-256 (self-tested against the FIPS vectors at start-up). *)
open C04_model

let rec pos_of_int n = if n = 1 then XH else if n land 1 = 0 then XO (pos_of_int (n lsr 1)) else XI (pos_of_int (n lsr 1))
let n_of_int n = if n = 0 then N0 else Npos (pos_of_int n)
let rec int_of_pos = function XH -> 1 | XO p -> 2 * int_of_pos p | XI p -> 2 * int_of_pos p + 1
let int_of_n = function N0 -> 0 | Npos p -> int_of_pos p
let rec nat_of_int n = if n = 0 then O else S (nat_of_int (n - 1))
let rec int_of_nat = function O -> 0 | S n -> 1 + int_of_nat n

let byte_tab = Array.init 256 n_of_int
let string_of_bytes (l : n list) : string =
  let b = Buffer.create 64 in
  List.iter (fun x -> Buffer.add_char b (Char.chr (int_of_n x land 255))) l; Buffer.contents b
let bytes_of_string (s : string) : n list =
  List.init (String.length s) (fun i -> byte_tab.(Char.code s.[i]))

(* ---------------------------------------------------------------- SHA-256 (FIPS 180-4) *)
let kk = [|
  0x428a2f98; 0x71374491; 0xb5c0fbcf; 0xe9b5dba5; 0x3956c25b; 0x59f111f1; 0x923f82a4; 0xab1c5ed5;
  0xd807aa98; 0x12835b01; 0x243185be; 0x550c7dc3; 0x72be5d74; 0x80deb1fe; 0x9bdc06a7; 0xc19bf174;
  0xe49b69c1; 0xefbe4786; 0x0fc19dc6; 0x240ca1cc; 0x2de92c6f; 0x4a7484aa; 0x5cb0a9dc; 0x76f988da;
  0x983e5152; 0xa831c66d; 0xb00327c8; 0xbf597fc7; 0xc6e00bf3; 0xd5a79147; 0x06ca6351; 0x14292967;
  0x27b70a85; 0x2e1b2138; 0x4d2c6dfc; 0x53380d13; 0x650a7354; 0x766a0abb; 0x81c2c92e; 0x92722c85;
  0xa2bfe8a1; 0xa81a664b; 0xc24b8b70; 0xc76c51a3; 0xd192e819; 0xd6990624; 0xf40e3585; 0x106aa070;
  0x19a4c116; 0x1e376c08; 0x2748774c; 0x34b0bcb5; 0x391c0cb3; 0x4ed8aa4a; 0x5b9cca4f; 0x682e6ff3;
  0x748f82ee; 0x78a5636f; 0x84c87814; 0x8cc70208; 0x90befffa; 0xa4506ceb; 0xbef9a3f7; 0xc67178f2 |]

let sha256_string (s : string) : string =
  let h = [| 0x6a09e667; 0xbb67ae85; 0x3c6ef372; 0xa54ff53a; 0x510e527f; 0x9b05688c; 0x1f83d9ab; 0x5be0cd19 |] in
  let len = String.length s in
  let padlen = let r = (len + 9) mod 64 in if r = 0 then 0 else 64 - r in
  let total = len + 9 + padlen in
  let m = Bytes.make total '\000' in
  Bytes.blit_string s 0 m 0 len;
  Bytes.set m len '\x80';
  let bits = len * 8 in
  for i = 0 to 7 do Bytes.set m (total - 1 - i) (Char.chr ((bits lsr (8 * i)) land 0xff)) done;
  let w = Array.make 64 0 in
  let mask = 0xffffffff in
  let rotr x n = ((x lsr n) lor (x lsl (32 - n))) land mask in
  for blk = 0 to total / 64 - 1 do
    for i = 0 to 15 do
      let b j = Char.code (Bytes.get m (blk * 64 + 4 * i + j)) in
      w.(i) <- ((b 0) lsl 24) lor ((b 1) lsl 16) lor ((b 2) lsl 8) lor (b 3)
    done;
    for i = 16 to 63 do
      let s0 = (rotr w.(i-15) 7) lxor (rotr w.(i-15) 18) lxor (w.(i-15) lsr 3) in
      let s1 = (rotr w.(i-2) 17) lxor (rotr w.(i-2) 19) lxor (w.(i-2) lsr 10) in
      w.(i) <- (w.(i-16) + s0 + w.(i-7) + s1) land mask
    done;
    let a = ref h.(0) and b = ref h.(1) and c = ref h.(2) and d = ref h.(3)
    and e = ref h.(4) and f = ref h.(5) and g = ref h.(6) and hh = ref h.(7) in
    for i = 0 to 63 do
      let s1 = (rotr !e 6) lxor (rotr !e 11) lxor (rotr !e 25) in
      let ch = (!e land !f) lxor (((lnot !e) land mask) land !g) in
      let t1 = (!hh + s1 + ch + kk.(i) + w.(i)) land mask in
      let s0 = (rotr !a 2) lxor (rotr !a 13) lxor (rotr !a 22) in
      let maj = (!a land !b) lxor (!a land !c) lxor (!b land !c) in
      let t2 = (s0 + maj) land mask in
      hh := !g; g := !f; f := !e; e := (!d + t1) land mask;
      d := !c; c := !b; b := !a; a := (t1 + t2) land mask
    done;
    h.(0) <- (h.(0) + !a) land mask; h.(1) <- (h.(1) + !b) land mask;
    h.(2) <- (h.(2) + !c) land mask; h.(3) <- (h.(3) + !d) land mask;
    h.(4) <- (h.(4) + !e) land mask; h.(5) <- (h.(5) + !f) land mask;
    h.(6) <- (h.(6) + !g) land mask; h.(7) <- (h.(7) + !hh) land mask
  done;
  let out = Bytes.create 32 in
  for i = 0 to 7 do
    for j = 0 to 3 do Bytes.set out (4 * i + j) (Char.chr ((h.(i) lsr (8 * (3 - j))) land 0xff)) done
  done;
  Bytes.to_string out

let hexs (s : string) = String.concat "" (List.init (String.length s) (fun i -> Printf.sprintf "%02x" (Char.code s.[i])))

let () =
  let chk inp exp = if hexs (sha256_string inp) <> exp then (prerr_endline "driver_c04: SHA-256 self-test failed"; exit 3) in
  chk "" "e3b0c44298fc1c149afbf4c8996fb92427ae41e4649b934ca495991b7852b855";
  chk "abc" "ba7816bf8f01cfea414140de5dae2223b00361a396177a9cb410ff61f20015ad";
  chk "abcdbcdecdefdefgefghfghighijhijkijkljklmklmnlmnomnopnopq" "248d6a61d20638b8e5c026930c3e6039a33ce45964ff2167f6ecedd419db06c1";
  chk (String.make 1000 'a') "41edece42d63e8d9bf515a9ba6932e1c20cbc9f5a5d134645adb5db1b9737ea3"

let sha (l : n list) : n list = bytes_of_string (sha256_string (string_of_bytes l))

(* ------------------------------------------------------------------------------ parsing *)
let unhex s =
  let n = (String.length s - 1) / 2 in
  List.init n (fun i -> byte_tab.(int_of_string ("0x" ^ String.sub s (1 + 2 * i) 2)))
let hex l = hexs (string_of_bytes l)

let parse_op s =
  match String.split_on_char ' ' s with
  | ["I"; k; v] -> CInsert (unhex k, unhex v)
  | ["D"; k] -> CDelete (unhex k)
  | ["P"; k] -> CDelPrefix (unhex k)
  | ["G"; k] -> CGet (unhex k)
  | ["M"; k; v] -> CMut (unhex k, unhex v)
  | ["T"; k] -> CIter (unhex k)
  | ["+"] -> CNewGen
  | ["-"; r] -> CNormalize (nat_of_int (int_of_string r))
  | ["F"] -> CFreeze
  | ["S"] -> CStore
  | ["L"] -> CLoad
  | ["C"] -> CCache
  | ["Z"] -> CSerial
  | ["X"] -> CMigrate
  | _ -> failwith ("bad op: " ^ s)

let verbose = ref false

let digest16 (s : string) = String.sub (hexs (sha256_string s)) 0 16
let optref = function None -> "-" | Some r -> string_of_int (int_of_n r)

let rec show_sym = function
  | SB bs -> "B" ^ hex bs
  | SH parts -> "H(" ^ String.concat "," (List.map show_sym parts) ^ ")"

let dump root =
  "{" ^ String.concat "," (List.map (fun (k, v) -> hex (unnib k) ^ "=" ^ hex v) (to_list_root root)) ^ "}"

(* model self-checks: what was written can be read back by the model's own loader *)
let check_load st rr root =
  match rr, root with
  | Some r, Some t ->
      (match load_node (nat_of_int 200) st r with
       | Some (t', h) -> if t' = t && h = hash_root sha (Some t) then "" else "!LOAD"
       | None -> "!LOAD")
  | _, _ -> ""

let run_history ops =
  let st = ref c_init in
  let pre = ref [] in
  let outs = List.map (fun o ->
    let (s', x) = c_step sha o !st in
    st := s';
    match x with
    | XBool b -> if b then "1" else "0"
    | XVal None -> "-"
    | XVal (Some v) -> "=" ^ hex v
    | XCount n -> Printf.sprintf "n%d" (int_of_nat n)
    | XGens n -> Printf.sprintf "g%d" (int_of_nat n)
    | XFrozen (root, charge) ->
        pre := show_sym (pre_root root) :: !pre;
        Printf.sprintf "h%s,c%d,%s%s" (hex (hash_root sha root)) (int_of_n charge) (dump root)
          (if wfb_root root then "" else "!WF")
    | XStored (rr, top, store) ->
        let flat = flatten store in
        let bytes = string_of_bytes flat in
        let root = erase_root s'.c_pers in
        let byte_level = match rr with
          | Some r -> (match read_at flat r with Some _ -> "" | None -> "!READ")
          | None -> "" in
        Printf.sprintf "s%s:%d:%d:%s%s%s%s" (optref rr) (int_of_n top) (String.length bytes) (digest16 bytes)
          (check_load store rr root) byte_level (if !verbose then "|" ^ hexs bytes else "")
    | XCached -> "c"
    | XSerial bs ->
        let bytes = string_of_bytes bs in
        let root = erase_root s'.c_pers in
        let back = match deserialize bs, root with
          | Some (None, []), None -> ""
          | Some (Some (t', h), []), Some t -> if t' = t && h = hash_root sha root then "" else "!DESER"
          | _, _ -> "!DESER" in
        Printf.sprintf "z%d:%s%s%s" (String.length bytes) (digest16 bytes) back (if !verbose then "|" ^ hexs bytes else "")
    | XMigrated (rr, store) ->
        let bytes = string_of_bytes (flatten store) in
        let root = erase_root s'.c_pers in
        Printf.sprintf "x%s:%d:%s%s%s" (optref rr) (String.length bytes) (digest16 bytes)
          (check_load store rr root) (if !verbose then "|" ^ hexs bytes else "")) ops in
  (outs, List.rev !pre)

let split_ops s = if s = "" then [] else String.split_on_char ';' s

let () =
  verbose := Array.length Sys.argv > 1 && Sys.argv.(1) = "verbose";
  (try
    while true do
      let line = input_line stdin in
      let n = String.length line in
      if n >= 2 && line.[0] = 'C' && line.[1] = ' ' then begin
        let rest = String.sub line 2 (n - 2) in
        let i = try String.index rest ' ' with Not_found -> String.length rest in
        let id = String.sub rest 0 i in
        let body = if i < String.length rest then String.sub rest (i + 1) (String.length rest - i - 1) else "" in
        let (outs, pre) = run_history (List.map parse_op (split_ops body)) in
        print_string ("M " ^ id ^ " " ^ String.concat ";" outs ^ "\n");
        print_string ("Q " ^ id ^ " " ^ String.concat ";" pre ^ "\n")
      end
    done
  with End_of_file -> ());
  flush stdout
