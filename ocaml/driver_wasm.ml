(* Line-oriented driver for the extracted Wasm models (C01).
   One request per input line, one answer line per request:
     SEM <fuel> <program in the line format of harness/c01/src/ast.rs>
        -> per entry, separated by " | ":   ok <res> <pages> G <globals..> M <addr:byte ..>
                                          | trap | fuel | stuck
   (further commands are added by the layers built on top: see the dispatch at the end) *)
open Wasm_model

exception Bad of string

(* ---------- conversions between OCaml integers and the extracted numbers ---------- *)
let rec nat_of_int (i : int) : nat = if i <= 0 then O else S (nat_of_int (i - 1))
let rec int_of_nat (n : nat) : int = match n with O -> 0 | S m -> 1 + int_of_nat m

(* positive from an unsigned 64-bit pattern (must be non-zero) *)
let rec pos_of_u64 (x : int64) : positive =
  if x = 1L then XH
  else if Int64.logand x 1L = 0L then XO (pos_of_u64 (Int64.shift_right_logical x 1))
  else XI (pos_of_u64 (Int64.shift_right_logical x 1))

let z_of_int64 (x : int64) : z =
  if x = 0L then Z0 else if Int64.compare x 0L > 0 then Zpos (pos_of_u64 x) else Zneg (pos_of_u64 (Int64.neg x))
let n_of_int64 (x : int64) : n = if x = 0L then N0 else Npos (pos_of_u64 x)
let z_of_string (s : string) : z = z_of_int64 (Int64.of_string s)
let n_of_string (s : string) : n = n_of_int64 (Int64.of_string s)

(* u64 bit pattern of a positive (wraps above 64 bits) *)
let rec u64_of_pos (p : positive) : int64 =
  match p with
  | XH -> 1L
  | XO q -> Int64.shift_left (u64_of_pos q) 1
  | XI q -> Int64.logor (Int64.shift_left (u64_of_pos q) 1) 1L
let int64_of_z (x : z) : int64 = match x with Z0 -> 0L | Zpos p -> u64_of_pos p | Zneg p -> Int64.neg (u64_of_pos p)
let int64_of_n (x : n) : int64 = match x with N0 -> 0L | Npos p -> u64_of_pos p

(* canonical unsigned value -> signed decimal string, as Rust prints i32 / i64 *)
let show_val (v : val0) : string =
  match v with
  | VI32 x ->
      let u = int64_of_z x in
      let s = if Int64.compare u 0x80000000L >= 0 then Int64.sub u 0x100000000L else u in
      "7f:" ^ Int64.to_string s
  | VI64 x -> "7e:" ^ Int64.to_string (int64_of_z x)

(* ---------- token reader ---------- *)
type rd = { toks : string array; mutable pos : int }
let next r = if r.pos >= Array.length r.toks then raise (Bad "eof") else (let t = r.toks.(r.pos) in r.pos <- r.pos + 1; t)
let num r = int_of_string (next r)
let expect r s = let t = next r in if t <> s then raise (Bad ("expected " ^ s ^ " got " ^ t))
let vt_of s = match s with "7f" -> T_i32 | "7e" -> T_i64 | _ -> raise (Bad ("valtype " ^ s))
let bt_of s = match s with "40" -> None | _ -> Some (vt_of s)
let rec times k f = if k <= 0 then [] else (let x = f () in x :: times (k - 1) f)

let opcode_of_tok (tok : string) : opcode =
  match String.split_on_char ':' tok with
  | [] -> raise (Bad "empty op")
  | b :: imm ->
      let byte = int_of_string ("0x" ^ b) in
      let i k = int_of_string (List.nth imm k) in
      let nat k = nat_of_int (i k) in
      (match byte with
       | 0x02 -> OBlock (bt_of (List.nth imm 0))
       | 0x03 -> OLoop (bt_of (List.nth imm 0))
       | 0x04 -> OIf (bt_of (List.nth imm 0))
       | 0x05 -> OElse
       | 0x0b -> OEnd
       | 0x0c -> OBasic (BBr (nat 0))
       | 0x0d -> OBasic (BBrIf (nat 0))
       | 0x0e ->
           let k = i 0 in
           let ls = List.init k (fun j -> nat (1 + j)) in
           OBasic (BBrTable (ls, nat (1 + k)))
       | 0x10 -> OBasic (BCall (nat 0))
       | 0x11 -> OBasic (BCallIndirect (nat 0))
       | 0x20 -> OBasic (BLocalGet (nat 0))
       | 0x21 -> OBasic (BLocalSet (nat 0))
       | 0x22 -> OBasic (BLocalTee (nat 0))
       | 0x23 -> OBasic (BGlobalGet (nat 0))
       | 0x24 -> OBasic (BGlobalSet (nat 0))
       | 0x41 -> OBasic (mk_const T_i32 (z_of_string (List.nth imm 0)))
       | 0x42 -> OBasic (mk_const T_i64 (z_of_string (List.nth imm 0)))
       | 0xfe -> OBasic (BTick (n_of_string (List.nth imm 0)))
       | _ when byte >= 0x28 && byte <= 0x3e ->
           (match mem_of_byte (n_of_int64 (Int64.of_int byte)) (n_of_string (List.nth imm 0)) with
            | Some x -> OBasic x
            | None -> raise (Bad ("mem op " ^ tok)))
       | _ ->
           (match plain_of_byte (n_of_int64 (Int64.of_int byte)) with
            | Some x -> OBasic x
            | None -> raise (Bad ("op " ^ tok))))

type case = { m : module0; flat : opcode list list; entries : int list; args : val0 list }

let parse_case (r : rd) : case =
  expect r "T";
  let nt = num r in
  let types = times nt (fun () ->
    let np = num r in
    let ps = times np (fun () -> vt_of (next r)) in
    let nr = num r in
    let res = if nr = 1 then Some (vt_of (next r)) else None in
    { ft_params = ps; ft_result = res }) in
  expect r "M";
  let has = num r in let mn = next r in let hasmax = num r in let mx = next r in
  let mem = if has = 1 then Some { l_min = n_of_string mn; l_max = (if hasmax = 1 then Some (n_of_string mx) else None) } else None in
  expect r "G";
  let ng = num r in
  let globals = times ng (fun () ->
    let mu = num r = 1 in
    let t = vt_of (next r) in
    let v = z_of_string (next r) in
    { g_mut = mu; g_init = mk_val t v }) in
  expect r "B";
  let hast = num r in let tsz = next r in
  let table = if hast = 1 then Some (n_of_string tsz) else None in
  expect r "E";
  let ne = num r in
  let elems = times ne (fun () ->
    let off = n_of_string (next r) in
    let k = num r in
    (off, times k (fun () -> nat_of_int (num r)))) in
  expect r "D";
  let nd = num r in
  let data = times nd (fun () ->
    let off = n_of_string (next r) in
    let k = num r in
    (off, times k (fun () -> z_of_string (next r)))) in
  expect r "F";
  let nf = num r in
  let fs = times nf (fun () ->
    let ty = num r in
    let nl = num r in
    let locals = times nl (fun () -> vt_of (next r)) in
    let nops = num r in
    let ops = times nops (fun () -> opcode_of_tok (next r)) in
    (ty, locals, ops)) in
  expect r "X";
  let k = num r in
  let entries = times k (fun () -> num r) in
  let na = num r in
  let args = times na (fun () -> let t = vt_of (next r) in mk_val t (z_of_string (next r))) in
  let funcs = List.map (fun (ty, locals, ops) ->
    match structure_body ops with
    | Some body -> { f_type = nat_of_int ty; f_locals = locals; f_body = body }
    | None -> raise (Bad "structure_body failed")) fs in
  { m = { m_types = types; m_imports = []; m_funcs = funcs; m_table = table; m_elems = elems;
          m_mem = mem; m_data = data; m_globals = globals };
    flat = List.map (fun (_, _, ops) -> ops) fs; entries; args }

let page_cap = n_of_int64 512L

let show_mem (mm : memory option) : string =
  match mm with
  | None -> "0 M"
  | Some mm ->
      let els = PositiveMap.elements mm.mem_data in
      let nz = List.filter_map (fun (k, b) ->
        let b = int64_of_z b in
        if b = 0L then None else Some (Int64.pred (u64_of_pos k), b)) els in
      let nz = List.sort compare nz in
      Int64.to_string (int64_of_n mm.mem_pages) ^ " M" ^
      String.concat "" (List.map (fun (a, b) -> " " ^ Int64.to_string a ^ ":" ^ Int64.to_string b) nz)

let show_outcome (o : outcome) : string =
  match o with
  | Trap -> "trap"
  | Stuck -> "stuck"
  | OutOfFuel -> "fuel"
  | Done (r, mm, gs) ->
      "ok " ^ (match r with None -> "-" | Some v -> show_val v)
      ^ " G" ^ String.concat "" (List.map (fun v -> " " ^ show_val v) gs)
      ^ " P " ^ show_mem mm

let fuel_cache : (int, nat) Hashtbl.t = Hashtbl.create 4
let fuel_of (k : int) : nat =
  match Hashtbl.find_opt fuel_cache k with
  | Some f -> f
  | None ->
      let rec go acc i = if i = 0 then acc else go (S acc) (i - 1) in
      let f = go O k in Hashtbl.add fuel_cache k f; f

let cmd_sem (r : rd) : string =
  let fuel = fuel_of (num r) in
  let c = parse_case r in
  String.concat " | " (List.map (fun e ->
    show_outcome (run no_host page_cap c.m fuel (nat_of_int e) c.args)) c.entries)

(* ---------- layers (i) and (ii): compiler and machine models ---------- *)
let hex_of_bytes (bs : n list) : string =
  String.concat "" (List.map (fun b -> Printf.sprintf "%02x" (Int64.to_int (int64_of_n b))) bs)

let show_trap (r : trap_reason) : string =
  match r with
  | TUnreachable -> "unreachable" | TMemory -> "memory" | TDivI32 -> "div32" | TDivI64 -> "div64"
  | TRemSOverflow -> "rem_s_overflow" | TCallUndefined -> "call_undefined" | TCallType -> "call_type"
  | THost -> "host" | TBadCode -> "badcode"

let show_moutcome (gts : valtype list) (o : moutcome) : string =
  match o with
  | MTrap r -> "trap " ^ show_trap r
  | MOutOfFuel -> "fuel"
  | MDone (r, mm, gs, en) ->
      let gvals = List.map2 (fun t g -> match t with T_i32 -> VI32 (as_u32 g) | T_i64 -> VI64 (as_u64 g)) gts gs in
      "ok " ^ (match r with None -> "-" | Some v -> show_val v)
      ^ " G" ^ String.concat "" (List.map (fun v -> " " ^ show_val v) gvals)
      ^ " E " ^ Int64.to_string (int64_of_n en)
      ^ " P " ^ show_mem mm

(* FULL <fuel> <program> C <k> { <cfg> <metered> <nf> { <nops> op* }*nf }*k
   answer:  <sem outcomes> ## <cfg> <per function: code:regs:consts:f1:f2:frag ...> @ <machine outcomes> ## ... *)
let cmd_full (r : rd) : string =
  let fuel = fuel_of (num r) in
  let c = parse_case r in
  let sem = String.concat " | " (List.map (fun e ->
    show_outcome (run no_host page_cap c.m fuel (nat_of_int e) c.args)) c.entries) in
  expect r "C";
  let k = num r in
  let gts = List.map (fun g -> match g.g_init with VI32 _ -> T_i32 | VI64 _ -> T_i64) c.m.m_globals in
  let parts = times k (fun () ->
    let cfg = next r in
    let metered = num r = 1 in
    let nf = num r in
    let bodies = times nf (fun () -> let nops = num r in times nops (fun () -> opcode_of_tok (next r))) in
    let types = if metered then c.m.m_types @ [ { ft_params = [T_i32]; ft_result = Some T_i32 } ] else c.m.m_types in
    let imports = if metered then [ nat_of_int (List.length c.m.m_types) ] else [] in
    let funcs = List.map2 (fun f ops -> ((f.f_type, f.f_locals), ops)) c.m.m_funcs bodies in
    let cm = { cm_types = types; cm_imports = imports; cm_funcs = funcs } in
    let compiled = compile_module cm in
    let cls = List.map (fun fd -> classes_of_function cm fd) funcs in
    (* proved fragments of the compiler-correctness theorems and the dead-code stripping they rest on:
       o = blocks_ok / blocks_ok_r, n = blocks_ok_dead / blocks_ok_r_dead, d = the body has dead code,
       s = Compile.v gives the same function for the stripped body (theorem dead_code_compiles_away);
       rrrr = the opcode stream is not the flattening of its structured form (an if with an explicit empty else:
       [flatten] drops that else), so the theorems, stated over [flatten_body], do not speak about this function *)
    let structured = List.map (fun ((_, _), ops) -> structure_body ops) funcs in
    let funcs2 = List.map2 (fun ((ty, locals), ops) st ->
      match st with Some is when flatten_body is = ops -> ((ty, locals), flatten_body (strip is)) | _ -> ((ty, locals), ops)) funcs structured in
    let compiled2 = compile_module { cm_types = types; cm_imports = imports; cm_funcs = funcs2 } in
    let b2s b = if b then "1" else "0" in
    let frag = List.map2 (fun (((ty, locals), ops), st) (cf, cf2) ->
      match st, nth_error types ty with
      | Some is, Some ft when flatten_body is <> ops -> "rrrr"   (* explicit empty else: ops is not the flattening of its structure *)
      | Some is, Some ft ->
          let nl = Z.of_N (N.of_nat (nat_of_int (List.length ft.ft_params + List.length locals))) in
          let cx = { cx_func_type = cm_func_type cm; cx_type = (fun i -> nth_error types i); cx_return = ft.ft_result } in
          let (o, n) = match ft.ft_result with
            | None -> (blocks_ok nl cx is, blocks_ok_dead nl cx is)
            | Some t -> (blocks_ok_r nl cx t is, blocks_ok_r_dead nl cx t is) in
          let d = flatten_body (strip is) <> ops in
          let same = match cf, cf2 with
            | Some f, Some g -> f.cf_code = g.cf_code && f.cf_num_registers = g.cf_num_registers && f.cf_constants = g.cf_constants
            | None, None -> true
            | _, _ -> false in
          b2s o ^ b2s n ^ b2s d ^ b2s same
      | _, _ -> "????")
      (List.combine funcs structured) (List.combine compiled compiled2) in
    let fstr = List.map2 (fun (cf, fr) cl ->
      let cl = match cl with Some (a, b) -> (if a then "1" else "0") ^ ":" ^ (if b then "1" else "0") | None -> "?:?" in
      match cf with
      | None -> "FAIL:0::" ^ cl ^ ":" ^ fr
      | Some f -> hex_of_bytes f.cf_code ^ ":" ^ Int64.to_string (int64_of_z f.cf_num_registers) ^ ":"
                  ^ String.concat "," (List.map (fun z -> Int64.to_string (int64_of_z z)) f.cf_constants) ^ ":" ^ cl ^ ":" ^ fr)
      (List.combine compiled frag) cls in
    let mach =
      if List.exists (fun x -> x = None) compiled then "nocode"
      else
        let code = List.filter_map (fun x -> x) compiled in
        match build_artifact cm c.m (nat_of_int (if metered then 1 else 0)) code with
        | None -> "noartifact"
        | Some art ->
            String.concat " | " (List.map (fun e ->
              show_moutcome gts (mrun art metering_host fuel (nat_of_int e) c.args)) c.entries)
    in
    cfg ^ " " ^ String.concat " " fstr ^ " @ " ^ mach) in
  String.concat " ## " (sem :: parts)

(* CMPW T n {np t*np nr t*nr}*n I k tyidx*k F n {ty nl t*nl nops op*nops}*n
   compile a real module's functions with the compiler model: answer = code:regs:consts per function *)
let cmd_cmpw (r : rd) : string =
  expect r "T";
  let nt = num r in
  let types = times nt (fun () ->
    let np = num r in
    let ps = times np (fun () -> vt_of (next r)) in
    let nr = num r in
    let res = if nr = 1 then Some (vt_of (next r)) else None in
    { ft_params = ps; ft_result = res }) in
  expect r "I";
  let ni = num r in
  let imports = times ni (fun () -> nat_of_int (num r)) in
  expect r "F";
  let nf = num r in
  let funcs = times nf (fun () ->
    let ty = nat_of_int (num r) in
    let nl = num r in
    let locals = times nl (fun () -> vt_of (next r)) in
    let nops = num r in
    let ops = times nops (fun () -> opcode_of_tok (next r)) in
    ((ty, locals), ops)) in
  let cm = { cm_types = types; cm_imports = imports; cm_funcs = funcs } in
  String.concat " " (List.map (fun cf ->
    match cf with
    | None -> "FAIL:0:"
    | Some f -> hex_of_bytes f.cf_code ^ ":" ^ Int64.to_string (int64_of_z f.cf_num_registers) ^ ":"
                ^ String.concat "," (List.map (fun z -> Int64.to_string (int64_of_z z)) f.cf_constants))
    (compile_module cm))

let extra_commands : (string * (rd -> string)) list ref = ref [ ("FULL", cmd_full); ("CMPW", cmd_cmpw) ]

let () =
  try
    while true do
      let line = input_line stdin in
      let toks = Array.of_list (List.filter (fun s -> s <> "") (String.split_on_char ' ' (String.trim line))) in
      let r = { toks; pos = 0 } in
      let out =
        try
          (match next r with
           | "SEM" -> cmd_sem r
           | c -> (match List.assoc_opt c !extra_commands with
                   | Some f -> f r
                   | None -> "ERR unknown command " ^ c))
        with
        | Bad s -> "ERR " ^ s
        | Stack_overflow -> "ERR stack overflow"
        | Failure s -> "ERR failure " ^ s
        | Not_found -> "ERR not found"
        | Invalid_argument s -> "ERR invalid " ^ s
      in
      print_string out; print_newline ()
    done
  with End_of_file -> ()
