(* Line-oriented driver for the extracted C06 model (Chain/Auth.v, [verify_bits]).
   stdin: the harness output.  Lines
     A <T>;<ci>:<t>:<ki>,<ki>..|..;<ci>:<ki>.<bit>,..|..;<r>
   are evaluated with the extracted model and compared with <r> (the implementation's decision);
   every other line is echoed unchanged.  Output: MISMATCH lines, a few SAMPLE lines, one STATS line.
   argv[1] = "distinct" to count distinct cases (md5 of the case text) - used for sampled streams. *)
open C06_model

let rec pos_of_int i = if i = 1 then XH else if i land 1 = 0 then XO (pos_of_int (i lsr 1)) else XI (pos_of_int (i lsr 1))
let n_of_int i = if i = 0 then N0 else Npos (pos_of_int i)
let ni s = n_of_int (int_of_string s)
let split c s = if s = "" then [] else String.split_on_char c s

let parse_access t creds =
  let cs = List.map (fun c ->
    match String.split_on_char ':' c with
    | [ci; th; ks] -> (ni ci, { ck_keys = List.map (fun k -> (ni k, ())) (split ',' ks); ck_threshold = ni th })
    | _ -> failwith ("bad credential " ^ c)) (split '|' creds) in
  { as_creds = cs; as_threshold = ni t }

let parse_sigs s =
  List.map (fun c ->
    match String.split_on_char ':' c with
    | [ci; ks] -> (ni ci, List.map (fun kb ->
        match String.split_on_char '.' kb with
        | [k; b] -> (ni k, b = "1")
        | _ -> failwith ("bad signature " ^ kb)) (split ',' ks))
    | _ -> failwith ("bad sig credential " ^ c)) (split '|' s)

let () =
  let distinct = Array.length Sys.argv > 1 && Sys.argv.(1) = "distinct" in
  let seen = Hashtbl.create 100000 in
  let seen_acc = Hashtbl.create 100000 in
  let total = ref 0 and acc = ref 0 and rej = ref 0 and pan = ref 0 and mism = ref 0 in
  let maxcreds = ref 0 and maxkeys = ref 0 and nsig_hist = Array.make 6 0 in
  (try
    while true do
      let line = input_line stdin in
      if String.length line > 2 && line.[0] = 'A' && line.[1] = ' ' then begin
        (match String.split_on_char ';' (String.sub line 2 (String.length line - 2)) with
         | [t; creds; sigs; r] ->
             let a = parse_access t creds in
             let sm = parse_sigs sigs in
             let m = verify_bits a sm in
             incr total;
             let ms = if m then "1" else "0" in
             if r = "P" then incr pan;
             if m then incr acc else incr rej;
             let nc = List.length a.as_creds in
             if nc > !maxcreds then maxcreds := nc;
             List.iter (fun (_, ck) -> let k = List.length ck.ck_keys in if k > !maxkeys then maxkeys := k) a.as_creds;
             let ns = List.fold_left (fun s (_, l) -> s + List.length l) 0 sm in
             let b = if ns = 0 then 0 else if ns = 1 then 1 else if ns <= 3 then 2 else if ns <= 9 then 3 else if ns <= 50 then 4 else 5 in
             nsig_hist.(b) <- nsig_hist.(b) + 1;
             if distinct then begin
               let key = Digest.string (t ^ ";" ^ creds ^ ";" ^ sigs) in
               Hashtbl.replace seen key ();
               if m then Hashtbl.replace seen_acc key ()
             end;
             if ms <> r then begin
               incr mism;
               if !mism <= 20 then Printf.printf "MISMATCH model=%s %s\n" ms line
             end;
             if !total <= 2 || (!total mod 400009 = 0) then Printf.printf "SAMPLE %s\n" line
         | _ -> Printf.printf "MISMATCH unparsable %s\n" line; incr mism)
      end else print_endline line
    done
  with End_of_file -> ());
  Printf.printf "STATS {\"total\":%d,\"model_accept\":%d,\"model_reject\":%d,\"impl_panics\":%d,\"mismatches\":%d,\"distinct\":%d,\"distinct_accept\":%d,\"max_creds\":%d,\"max_keys\":%d,\"nsigs_hist_0_1_3_9_50_more\":[%d,%d,%d,%d,%d,%d]}\n"
    !total !acc !rej !pan !mism (Hashtbl.length seen) (Hashtbl.length seen_acc) !maxcreds !maxkeys
    nsig_hist.(0) nsig_hist.(1) nsig_hist.(2) nsig_hist.(3) nsig_hist.(4) nsig_hist.(5)
