(* Line-oriented driver for the extracted host-function model (C14).
   Input (one case per line, space separated tokens; byte strings are hex, "-" = empty, "~" = absent):
     S <id> <ver1> <init> <pv> <pages> <param> <policy> <sender_acc> <state0>
       <nkv> {<k> <v>} <ndata> {<off> <hex>} <ncalls> {<fn> <rw> <nargs> {C <dec>|A <slot>|B <slot>}}
       <ret> <nresp> {<resp>} <ndig> {<hex>} <ne> {<energy>}
     resp := (O <bal> <data|~> <upd> | R <code> <data> <upd> | F <n> <upd>)
             (L0 | L <key> <count>)  P <padlen>
             (N0 | N1 <param> <ndata> {<off> <hex>} <ncalls> {call} <ret> <commit> <energy>)
     D <id> <n> <energy>
   Output: one JSON object per (case, energy). *)
open C14_model

exception Bad of string

let rec pos_of_u64 (x : int64) : positive =
  if x = 1L then XH
  else if Int64.logand x 1L = 0L then XO (pos_of_u64 (Int64.shift_right_logical x 1))
  else XI (pos_of_u64 (Int64.shift_right_logical x 1))
let n_of_int64 (x : int64) : n = if x = 0L then N0 else Npos (pos_of_u64 x)
let n_of_string (s : string) : n = n_of_int64 (Int64.of_string ("0u" ^ s))
let n_of_int (i : int) : n = n_of_int64 (Int64.of_int i)
let rec u64_of_pos (p : positive) : int64 =
  match p with
  | XH -> 1L
  | XO q -> Int64.shift_left (u64_of_pos q) 1
  | XI q -> Int64.logor (Int64.shift_left (u64_of_pos q) 1) 1L
let int64_of_n (x : n) : int64 = match x with N0 -> 0L | Npos p -> u64_of_pos p
let str_of_n (x : n) : string = Printf.sprintf "%Lu" (int64_of_n x)
let int_of_n (x : n) : int = Int64.to_int (int64_of_n x)
let rec nat_of_int (i : int) : nat = if i <= 0 then O else S (nat_of_int (i - 1))

let bytes_of_hex (h : string) : n list =
  if h = "-" then []
  else begin
    let k = String.length h / 2 in
    let rec go i acc = if i < 0 then acc else go (i - 1) (n_of_int (int_of_string ("0x" ^ String.sub h (2 * i) 2)) :: acc) in
    go (k - 1) []
  end
let hex_of_bytes (l : n list) : string =
  let b = Buffer.create 64 in
  List.iter (fun x -> Buffer.add_string b (Printf.sprintf "%02x" (int_of_n x))) l;
  Buffer.contents b

type rd = { toks : string array; mutable pos : int }
let next r = if r.pos >= Array.length r.toks then raise (Bad "eof") else (let t = r.toks.(r.pos) in r.pos <- r.pos + 1; t)
let num r = int_of_string (next r)
let nn r = n_of_string (next r)
let bb r = match next r with "1" -> true | "0" -> false | t -> raise (Bad ("bool " ^ t))
let hx r = bytes_of_hex (next r)
let rec times k f = if k <= 0 then [] else (let x = f () in x :: times (k - 1) f)

let v0fn_of = function
  | "accept" -> V0accept | "simple_transfer" -> V0simple_transfer | "send" -> V0send
  | "combine_and" -> V0combine_and | "combine_or" -> V0combine_or | "get_parameter_size" -> V0get_parameter_size
  | "get_parameter_section" -> V0get_parameter_section | "get_policy_section" -> V0get_policy_section
  | "log_event" -> V0log_event | "load_state" -> V0load_state | "write_state" -> V0write_state
  | "resize_state" -> V0resize_state | "state_size" -> V0state_size | "get_init_origin" -> V0get_init_origin
  | "get_receive_invoker" -> V0get_receive_invoker | "get_receive_self_address" -> V0get_receive_self_address
  | "get_receive_self_balance" -> V0get_receive_self_balance | "get_receive_sender" -> V0get_receive_sender
  | "get_receive_owner" -> V0get_receive_owner | "get_slot_time" -> V0get_slot_time
  | s -> raise (Bad ("v0 function " ^ s))

let v1fn_of = function
  | "invoke" -> V1invoke | "write_output" -> V1write_output | "get_parameter_size" -> V1get_parameter_size
  | "get_parameter_section" -> V1get_parameter_section | "get_policy_section" -> V1get_policy_section
  | "log_event" -> V1log_event | "get_init_origin" -> V1get_init_origin
  | "get_receive_invoker" -> V1get_receive_invoker | "get_receive_self_address" -> V1get_receive_self_address
  | "get_receive_self_balance" -> V1get_receive_self_balance | "get_receive_sender" -> V1get_receive_sender
  | "get_receive_owner" -> V1get_receive_owner | "get_receive_entrypoint_size" -> V1get_receive_entrypoint_size
  | "get_receive_entrypoint" -> V1get_receive_entrypoint | "get_slot_time" -> V1get_slot_time
  | "state_lookup_entry" -> V1state_lookup_entry | "state_create_entry" -> V1state_create_entry
  | "state_delete_entry" -> V1state_delete_entry | "state_delete_prefix" -> V1state_delete_prefix
  | "state_iterate_prefix" -> V1state_iterate_prefix | "state_iterator_next" -> V1state_iterator_next
  | "state_iterator_delete" -> V1state_iterator_delete | "state_iterator_key_size" -> V1state_iterator_key_size
  | "state_iterator_key_read" -> V1state_iterator_key_read | "state_entry_read" -> V1state_entry_read
  | "state_entry_write" -> V1state_entry_write | "state_entry_size" -> V1state_entry_size
  | "state_entry_resize" -> V1state_entry_resize | "verify_ed25519_signature" -> V1verify_ed25519_signature
  | "verify_ecdsa_secp256k1_signature" -> V1verify_ecdsa_secp256k1_signature
  | "hash_sha2_256" -> V1hash_sha2_256 | "hash_sha3_256" -> V1hash_sha3_256 | "hash_keccak_256" -> V1hash_keccak_256
  | "upgrade" -> V1upgrade
  | s -> raise (Bad ("v1 function " ^ s))

let read_call (ver1 : bool) r : call =
  let f = next r in
  let rw = nn r in
  let k = num r in
  let args = times k (fun () ->
    match next r with
    | "C" -> AC (nn r) | "A" -> AS32 (nn r) | "B" -> AS64 (nn r)
    | t -> raise (Bad ("arg " ^ t))) in
  { c_fn = (if ver1 then F1 (v1fn_of f) else F0 (v0fn_of f)); c_args = args; c_rw = rw }

let read_data r = let k = num r in times k (fun () -> let o = nn r in let h = hx r in (o, h))

let read_rsp (ver1 : bool) r : rsp =
  let resp = match next r with
    | "O" -> let bal = nn r in let d = next r in let u = bb r in
             RespOk (bal, (if d = "~" then None else Some (bytes_of_hex d)), u)
    | "R" -> let c = nn r in let d = hx r in let u = bb r in RespReject (c, d, u)
    | "F" -> let k = nn r in let u = bb r in RespFail (k, u)
    | t -> raise (Bad ("resp " ^ t)) in
  let lock = match next r with
    | "L0" -> None
    | "L" -> let k = hx r in let c = nn r in Some (k, c)
    | t -> raise (Bad ("lock " ^ t)) in
  (match next r with "P" -> () | t -> raise (Bad ("pad " ^ t)));
  let pad = nn r in
  let nested = match next r with
    | "N0" -> None
    | "N1" ->
        let param = hx r in
        let data = read_data r in
        let k = num r in
        let calls = times k (fun () -> read_call ver1 r) in
        let ret = nn r in
        let commit = bb r in
        let e = nn r in
        Some { n_param = param; n_data = data; n_calls = calls; n_ret = ret; n_commit = commit; n_energy = e }
    | t -> raise (Bad ("nested " ^ t)) in
  { r_resp = resp; r_setlock = lock; r_pad = pad; r_nested = nested }

let js_list f l = "[" ^ String.concat "," (List.map f l) ^ "]"
let js_hex l = "\"" ^ hex_of_bytes l ^ "\""
let js_n x = "\"" ^ str_of_n x ^ "\""
let js_b b = if b then "true" else "false"

let js_action (a : action) : string =
  match a with
  | AAccept -> "[\"accept\"]"
  | ATransfer (addr, amt) -> Printf.sprintf "[\"transfer\",%s,%s]" (js_hex addr) (js_n amt)
  | ASend (i, s, name, amt, p) ->
      Printf.sprintf "[\"send\",%s,%s,%s,%s,%s]" (js_n i) (js_n s) (js_hex name) (js_n amt) (js_hex p)
  | AAnd (l, r) -> Printf.sprintf "[\"and\",%s,%s]" (str_of_n l) (str_of_n r)
  | AOr (l, r) -> Printf.sprintf "[\"or\",%s,%s]" (str_of_n l) (str_of_n r)

let print_outcome (id : string) (e : n) (o : outcome) : unit =
  let ticks = List.filter_map (fun ev -> match ev with EvTick c -> Some c | _ -> None) o.o_events in
  (* tree-traversal ticks: the tick that follows the marker [EvFixed 0] emitted by [tick_tree] *)
  let rec tree_ticks evs = match evs with
    | EvFixed N0 :: EvTick c :: r -> c :: tree_ticks r
    | _ :: r -> tree_ticks r
    | [] -> [] in
  let tree = tree_ticks o.o_events in
  Printf.printf
    "{\"tree\":%s,\"id\":%s,\"e\":%s,\"cls\":%s,\"code\":%s,\"rem\":%s,\"state\":%s,\"kv\":%s,\"logs\":%s,\"rv\":%s,\"actions\":%s,\"ints\":%s,\"changed\":%s,\"hashes\":%s,\"unspec\":%s,\"lower\":%s,\"nested\":%s,\"ticks\":%s}\n"
    (js_list js_n tree) id (js_n e) (str_of_n o.o_class) (js_n o.o_code) (js_n o.o_rem) (js_hex o.o_state)
    (js_list (fun (k, v) -> "[" ^ js_hex k ^ "," ^ js_hex v ^ "]") o.o_kv)
    (js_list (js_list js_hex) o.o_logs) (js_hex o.o_rv) (js_list js_action o.o_actions)
    (js_list js_hex o.o_ints) (js_list js_b o.o_changed)
    (js_list (fun (k, d) -> "[" ^ str_of_n k ^ "," ^ js_hex d ^ "]") o.o_hashes)
    (js_b o.o_unspec) (js_b o.o_lower)
    (js_list (fun ((c, rm), lw) -> "[" ^ str_of_n c ^ "," ^ js_n rm ^ "," ^ js_b lw ^ "]") o.o_nested)
    (js_list js_n ticks)

let handle (line : string) : unit =
  let toks = Array.of_list (List.filter (fun s -> s <> "") (String.split_on_char ' ' line)) in
  if Array.length toks = 0 then () else begin
    let r = { toks; pos = 0 } in
    match next r with
    | "D" ->
        let id = next r in
        let k = num r in
        let e = nn r in
        let (c, rm) = run_depth (nat_of_int k) e in
        Printf.printf "{\"id\":%s,\"cls\":%s,\"rem\":%s}\n" id (str_of_n c) (js_n rm)
    | "S" ->
        let id = next r in
        let ver1 = bb r in
        let init = bb r in
        let pv = nn r in
        let pages = nn r in
        let param = hx r in
        let policy = hx r in
        let sender = bb r in
        let state0 = hx r in
        let nkv = num r in
        let kv = times nkv (fun () -> let k = hx r in let v = hx r in (k, v)) in
        let data = read_data r in
        let nc = num r in
        let calls = times nc (fun () -> read_call ver1 r) in
        let ret = nn r in
        let nr = num r in
        let resps = times nr (fun () -> read_rsp ver1 r) in
        let nd = num r in
        let digs = times nd (fun () -> hx r) in
        let ne = num r in
        let es = times ne (fun () -> nn r) in
        let sc = { s_ver1 = ver1; s_init = init; s_pv = pv; s_pages = pages; s_param = param; s_policy = policy;
                   s_sender_acc = sender; s_state0 = state0; s_kv0 = kv; s_data = data; s_calls = calls; s_ret = ret;
                   s_resps = resps; s_digests = digs } in
        List.iter (fun e -> print_outcome id e (run_script sc e)) es
    | t -> raise (Bad ("line kind " ^ t))
  end

let () =
  try
    while true do
      let line = input_line stdin in
      (try handle line with
       | Bad m -> Printf.printf "{\"error\":\"%s\"}\n" (String.escaped m)
       | Failure m -> Printf.printf "{\"error\":\"%s\"}\n" (String.escaped m)
       | Stack_overflow -> Printf.printf "{\"error\":\"stack overflow\"}\n");
      flush stdout
    done
  with End_of_file -> ()
