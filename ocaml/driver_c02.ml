(* Line-oriented driver for the extracted C02 model (metering transformation + traced semantics).
   One request per input line:   C02 <fuel> <program in the line format of harness/c02/src/ast.rs>
   One answer line:  for cost configuration V0 then V1, separated by " ## ":
     FLAT <f0 ops> | <f1 ops> ...        flat transcription of InstrSeqTransformer::run on the source ops
     STRUCT <f0 ops> | ...               flatten of the structured transformer's output
     MOD <ntypes> <last type> I <import type idxs> E <off:f,f,..> ...
     EV <events> => <outcome>            events of the metered run (recording-host format)
     SUM <ticks> <work> <bal> <srcwork> <srcoutcome-equal>
     COSTS <invoke_after> <c:tk> ... | ...
   A failing component prints FAIL instead. *)
open C02_model

exception Bad of string

let rec nat_of_int (i : int) : nat = if i <= 0 then O else S (nat_of_int (i - 1))
let rec int_of_nat (n : nat) : int = match n with O -> 0 | S m -> 1 + int_of_nat m

let rec pos_of_u64 (x : int64) : positive =
  if x = 1L then XH
  else if Int64.logand x 1L = 0L then XO (pos_of_u64 (Int64.shift_right_logical x 1))
  else XI (pos_of_u64 (Int64.shift_right_logical x 1))
let z_of_int64 (x : int64) : z =
  if x = 0L then Z0 else if Int64.compare x 0L > 0 then Zpos (pos_of_u64 x) else Zneg (pos_of_u64 (Int64.neg x))
let n_of_int64 (x : int64) : n = if x = 0L then N0 else Npos (pos_of_u64 x)
let z_of_string (s : string) : z = z_of_int64 (Int64.of_string s)
let n_of_string (s : string) : n = n_of_int64 (Int64.of_string s)
let rec u64_of_pos (p : positive) : int64 =
  match p with
  | XH -> 1L
  | XO q -> Int64.shift_left (u64_of_pos q) 1
  | XI q -> Int64.logor (Int64.shift_left (u64_of_pos q) 1) 1L
let int64_of_z (x : z) : int64 = match x with Z0 -> 0L | Zpos p -> u64_of_pos p | Zneg p -> Int64.neg (u64_of_pos p)
let int64_of_n (x : n) : int64 = match x with N0 -> 0L | Npos p -> u64_of_pos p
(* decimal string of an arbitrary-size N (tick sums stay far below 2^62 in practice, but be exact) *)
let string_of_n (x : n) : string = Printf.sprintf "%Lu" (int64_of_n x)

let show_val (v : val0) : string =
  match v with
  | VI32 x ->
      let u = int64_of_z x in
      let s = if Int64.compare u 0x80000000L >= 0 then Int64.sub u 0x100000000L else u in
      "7f:" ^ Int64.to_string s
  | VI64 x -> "7e:" ^ Int64.to_string (int64_of_z x)
let show_unsigned (v : val0) : string =
  match v with VI32 x -> Printf.sprintf "%Lu" (int64_of_z x) | VI64 x -> Printf.sprintf "%Lu" (int64_of_z x)

type rd = { toks : string array; mutable pos : int }
let next r = if r.pos >= Array.length r.toks then raise (Bad "eof") else (let t = r.toks.(r.pos) in r.pos <- r.pos + 1; t)
let num r = int_of_string (next r)
let expect r s = let t = next r in if t <> s then raise (Bad ("expected " ^ s ^ " got " ^ t))
let vt_of s = match s with "7f" -> T_i32 | "7e" -> T_i64 | _ -> raise (Bad ("valtype " ^ s))
let bt_of s = match s with "40" -> None | _ -> Some (vt_of s)
let vt_tok t = match t with T_i32 -> "7f" | T_i64 -> "7e"
let bt_tok b = match b with None -> "40" | Some t -> vt_tok t
let rec times k f = if k <= 0 then [] else (let x = f () in x :: times (k - 1) f)

let opcode_of_tok (tok : string) : opcode =
  match String.split_on_char ':' tok with
  | [] -> raise (Bad "empty op")
  | b :: imm ->
      let byte = int_of_string ("0x" ^ b) in
      let i k = int_of_string (List.nth imm k) in
      let nat k = nat_of_int (i k) in
      (match byte with
       | 0x02 -> OBlock (bt_of (List.nth imm 0))
       | 0x03 -> OLoop (bt_of (List.nth imm 0))
       | 0x04 -> OIf (bt_of (List.nth imm 0))
       | 0x05 -> OElse
       | 0x0b -> OEnd
       | 0x0c -> OBasic (BBr (nat 0))
       | 0x0d -> OBasic (BBrIf (nat 0))
       | 0x0e ->
           let k = i 0 in
           let ls = List.init k (fun j -> nat (1 + j)) in
           OBasic (BBrTable (ls, nat (1 + k)))
       | 0x10 -> OBasic (BCall (nat 0))
       | 0x11 -> OBasic (BCallIndirect (nat 0))
       | 0x20 -> OBasic (BLocalGet (nat 0))
       | 0x21 -> OBasic (BLocalSet (nat 0))
       | 0x22 -> OBasic (BLocalTee (nat 0))
       | 0x23 -> OBasic (BGlobalGet (nat 0))
       | 0x24 -> OBasic (BGlobalSet (nat 0))
       | 0x41 -> OBasic (mk_const T_i32 (z_of_string (List.nth imm 0)))
       | 0x42 -> OBasic (mk_const T_i64 (z_of_string (List.nth imm 0)))
       | 0xfe -> OBasic (BTick (n_of_string (List.nth imm 0)))
       | _ when byte >= 0x28 && byte <= 0x3e ->
           (match mem_of_byte (n_of_int64 (Int64.of_int byte)) (n_of_string (List.nth imm 0)) with
            | Some x -> OBasic x
            | None -> raise (Bad ("mem op " ^ tok)))
       | _ ->
           (match plain_of_byte (n_of_int64 (Int64.of_int byte)) with
            | Some x -> OBasic x
            | None -> raise (Bad ("op " ^ tok))))

(* inverse tables, built by enumerating the opcode bytes *)
let plain_tbl : (binstr * int) list =
  List.filter_map (fun b -> match plain_of_byte (n_of_int64 (Int64.of_int b)) with Some x -> Some (x, b) | None -> None)
    (List.init 256 (fun b -> b))
let mem_byte (x : binstr) : (int * n) option =
  let off = match x with BLoad (_, _, o) -> Some o | BStore (_, _, o) -> Some o | _ -> None in
  match off with
  | None -> None
  | Some o ->
      let rec go b = if b > 0x3e then None else
        (match mem_of_byte (n_of_int64 (Int64.of_int b)) o with
         | Some y when y = x -> Some (b, o)
         | _ -> go (b + 1)) in
      go 0x28

let signed_const (t : valtype) (zv : z) : string =
  let u = int64_of_z zv in
  match t with
  | T_i32 -> Int64.to_string (if Int64.compare u 0x80000000L >= 0 then Int64.sub u 0x100000000L else u)
  | T_i64 -> Int64.to_string u

let tok_of_opcode (o : opcode) : string =
  match o with
  | OEnd -> "0b" | OElse -> "05"
  | OBlock bt -> "02:" ^ bt_tok bt | OLoop bt -> "03:" ^ bt_tok bt | OIf bt -> "04:" ^ bt_tok bt
  | OBasic b ->
      (match b with
       | BBr l -> Printf.sprintf "0c:%d" (int_of_nat l)
       | BBrIf l -> Printf.sprintf "0d:%d" (int_of_nat l)
       | BBrTable (ls, d) ->
           Printf.sprintf "0e:%d%s:%d" (List.length ls)
             (String.concat "" (List.map (fun l -> ":" ^ string_of_int (int_of_nat l)) ls)) (int_of_nat d)
       | BCall f -> Printf.sprintf "10:%d" (int_of_nat f)
       | BCallIndirect t -> Printf.sprintf "11:%d" (int_of_nat t)
       | BLocalGet i -> Printf.sprintf "20:%d" (int_of_nat i)
       | BLocalSet i -> Printf.sprintf "21:%d" (int_of_nat i)
       | BLocalTee i -> Printf.sprintf "22:%d" (int_of_nat i)
       | BGlobalGet i -> Printf.sprintf "23:%d" (int_of_nat i)
       | BGlobalSet i -> Printf.sprintf "24:%d" (int_of_nat i)
       | BConst (t, zv) -> (match t with T_i32 -> "41:" | T_i64 -> "42:") ^ signed_const t zv
       | BTick nn -> "fe:" ^ string_of_n nn
       | BLoad _ | BStore _ ->
           (match mem_byte b with
            | Some (byte, off) -> Printf.sprintf "%02x:%s" byte (string_of_n off)
            | None -> "??mem")
       | _ ->
           (match List.assoc_opt b plain_tbl with
            | Some byte -> Printf.sprintf "%02x" byte
            | None -> "??"))

type case = { m : module0; flat : opcode list list; entries : int list; args : val0 list }

let parse_case (r : rd) : case =
  expect r "T";
  let nt = num r in
  let types = times nt (fun () ->
    let np = num r in
    let ps = times np (fun () -> vt_of (next r)) in
    let nr = num r in
    let res = if nr = 1 then Some (vt_of (next r)) else None in
    { ft_params = ps; ft_result = res }) in
  expect r "I";
  let ni = num r in
  let imports = times ni (fun () -> nat_of_int (num r)) in
  expect r "M";
  let has = num r in let mn = next r in let hasmax = num r in let mx = next r in
  let mem = if has = 1 then Some { l_min = n_of_string mn; l_max = (if hasmax = 1 then Some (n_of_string mx) else None) } else None in
  expect r "G";
  let ng = num r in
  let globals = times ng (fun () ->
    let mu = num r = 1 in
    let t = vt_of (next r) in
    let v = z_of_string (next r) in
    { g_mut = mu; g_init = mk_val t v }) in
  expect r "B";
  let hast = num r in let tsz = next r in
  let table = if hast = 1 then Some (n_of_string tsz) else None in
  expect r "E";
  let ne = num r in
  let elems = times ne (fun () ->
    let off = n_of_string (next r) in
    let k = num r in
    (off, times k (fun () -> nat_of_int (num r)))) in
  expect r "D";
  let nd = num r in
  let data = times nd (fun () ->
    let off = n_of_string (next r) in
    let k = num r in
    (off, times k (fun () -> z_of_string (next r)))) in
  expect r "F";
  let nf = num r in
  let fs = times nf (fun () ->
    let ty = num r in
    let nl = num r in
    let locals = times nl (fun () -> vt_of (next r)) in
    let nops = num r in
    let ops = times nops (fun () -> opcode_of_tok (next r)) in
    (ty, locals, ops)) in
  expect r "X";
  let k = num r in
  let entries = times k (fun () -> num r) in
  let na = num r in
  let args = times na (fun () -> let t = vt_of (next r) in mk_val t (z_of_string (next r))) in
  let funcs = List.map (fun (ty, locals, ops) ->
    match structure_body ops with
    | Some body -> { f_type = nat_of_int ty; f_locals = locals; f_body = body }
    | None -> raise (Bad "structure_body failed")) fs in
  { m = { m_types = types; m_imports = imports; m_funcs = funcs; m_table = table; m_elems = elems;
          m_mem = mem; m_data = data; m_globals = globals };
    flat = List.map (fun (_, _, ops) -> ops) fs; entries; args }

let page_cap = n_of_int64 512L

let show_outcome (o : outcome) : string =
  match o with
  | Trap -> "trap"
  | Stuck -> "stuck"
  | OutOfFuel -> "fuel"
  | Done (r, mm, _) ->
      "ok " ^ (match r with None -> "-" | Some v -> show_val v)
      ^ " P " ^ (match mm with None -> "0" | Some mm -> string_of_n mm.mem_pages)

let fuel_cache : (int, nat) Hashtbl.t = Hashtbl.create 4
let fuel_of (k : int) : nat =
  match Hashtbl.find_opt fuel_cache k with
  | Some f -> f
  | None ->
      let rec go acc i = if i = 0 then acc else go (S acc) (i - 1) in
      let f = go O k in Hashtbl.add fuel_cache k f; f

let show_code (fs : opcode list list) : string =
  String.concat " | " (List.map (fun ops -> String.concat " " (List.map tok_of_opcode ops)) fs)

(* events of the METERED module in the recording host's format *)
let show_event_metered (e : event) : string option =
  match e with
  | EvTick nn -> Some ("t" ^ string_of_n nn)
  | EvWork _ -> None
  | EvHost (i, args) ->
      (match i, args with
       | O, [v] -> Some ("a" ^ show_unsigned v)
       | O, _ -> Some "a?"
       | S j, _ -> Some ("h" ^ string_of_int (int_of_nat j) ^ String.concat "" (List.map (fun v -> ":" ^ show_unsigned v) args)))
  | EvCall _ -> Some "c"
  | EvRet -> Some "r"

let cmd_c02 (r : rd) : string =
  let fuel = fuel_of (num r) in
  let c = parse_case r in
  let entry = nat_of_int (List.hd c.entries) in
  let one (v1 : bool) : string =
    let flat = match model_flat v1 c.m c.flat with Some fs -> "FLAT " ^ show_code fs | None -> "FLAT FAIL" in
    let str, modinfo =
      match model_struct v1 c.m with
      | Some (m', fs) ->
          let last = List.nth m'.m_types (List.length m'.m_types - 1) in
          ("STRUCT " ^ show_code fs,
           Printf.sprintf "MOD %d %s>%s I %s E %s" (List.length m'.m_types)
             (String.concat "," (List.map vt_tok last.ft_params))
             (match last.ft_result with Some t -> vt_tok t | None -> "")
             (String.concat "," (List.map (fun i -> string_of_int (int_of_nat i)) m'.m_imports))
             (String.concat " " (List.map (fun (off, fs) ->
                string_of_n off ^ ":" ^ String.concat "," (List.map (fun f -> string_of_int (int_of_nat f)) fs)) m'.m_elems)))
      | None -> ("STRUCT FAIL", "MOD FAIL") in
    let ev, sum =
      match model_events v1 page_cap c.m fuel entry c.args with
      | Some (t, o) ->
          let init = match c.m.m_mem with Some l -> ["i" ^ string_of_n l.l_min] | None -> [] in
          let evs = init @ List.filter_map show_event_metered t in
          let b = match bal N0 t with Some x -> string_of_n x | None -> "NEG" in
          let src = match model_src_events v1 page_cap c.m fuel entry c.args with
            | Some (ts, os) -> string_of_n (work ts) ^ " " ^ (if show_outcome os = show_outcome o then "same" else "DIFF:" ^ show_outcome os)
            | None -> "FAIL FAIL" in
          (* InterpreterEnergy model: charges = initial memory, ticks, account_memory calls *)
          let hundred = n_of_int64 100L in
          let initc = match c.m.m_mem with Some l -> [N.mul l.l_min hundred] | None -> [] in
          let cs = initc @ charges t in
          let need = List.fold_left N.add N0 cs in
          let needi = int64_of_n need in
          let buds = [needi; 0L; Int64.add needi 12345L; Int64.div needi 2L; Int64.add needi 1L] @ (if needi > 0L then [Int64.sub needi 1L] else []) in
          let bud = String.concat " " (List.map (fun bb ->
            let (okk, rem) = pay (n_of_int64 bb) cs in
            Printf.sprintf "%Ld:%s:%s" bb (if okk then "ok" else "ooe") (string_of_n rem)) buds) in
          ("EV " ^ String.concat " " evs ^ " => " ^ show_outcome o,
           "SUM " ^ string_of_n (ticks t) ^ " " ^ string_of_n (work t) ^ " " ^ b ^ " " ^ src ^ " NEED " ^ string_of_n need ^ " BUD " ^ bud)
      | None -> ("EV FAIL", "SUM FAIL") in
    let costs =
      match model_costs v1 c.m c.flat with
      | Some fs -> "COSTS " ^ String.concat " | " (List.map (fun (ia, cs) ->
          string_of_n ia ^ String.concat "" (List.map (fun (cc, tk) -> " " ^ string_of_n cc ^ ":" ^ string_of_n tk) cs)) fs)
      | None -> "COSTS FAIL" in
    String.concat " ;; " [flat; str; modinfo; ev; sum; costs] in
  one false ^ " ## " ^ one true

let () =
  try
    while true do
      let line = input_line stdin in
      let toks = Array.of_list (List.filter (fun s -> s <> "") (String.split_on_char ' ' (String.trim line))) in
      let r = { toks; pos = 0 } in
      let out =
        try
          (match next r with
           | "C02" -> cmd_c02 r
           | c -> "ERR unknown command " ^ c)
        with
        | Bad s -> "ERR " ^ s
        | Stack_overflow -> "ERR stack overflow"
        | Failure s -> "ERR failure " ^ s
        | Not_found -> "ERR not found"
        | Invalid_argument s -> "ERR invalid " ^ s
      in
      print_string out; print_newline ()
    done
  with End_of_file -> ()
