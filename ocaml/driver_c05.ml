(* Line-oriented runner for the extracted codec model (coq/Run/ExtractC05.v).
   usage: runner <poolfile>
   poolfile: lines "<kind> <hex>" -- encodings of opaque leaves that the implementation accepts.
   stdin commands, one per line; one answer line per command:
     L <schema-id> <hex>        "L <kind>:<hex> ..." the opaque leaves a decode of the input consults (all accepted)
     D <schema-id> <hex>        decode.  "A <consumed> <reenc-hex> <alloc> <cap>" | "R" | "RO"
                                (RO = rejected and the opaque-leaf oracle was asked about bytes
                                 outside the pool: verdict undecided)
     G <schema-id> <seed> <n>   generate n well-typed values; answers n lines "<hex>"
     W <schema-id>              "W <schema_wf> <cap> <min_size>"
     T <schema-id>              "T <tag> ..." the tag table of a top-level sum
*)
open C05_model

let rec pos_of_int i = if i = 1 then XH else if i land 1 = 0 then XO (pos_of_int (i lsr 1)) else XI (pos_of_int (i lsr 1))
let n_of_int i = if i <= 0 then N0 else Npos (pos_of_int i)
(* saturating: numbers of 61 bits and more become max_int / 4 (only used for sizes and bounds) *)
let rec pos_bits = function XH -> 1 | XO p | XI p -> 1 + pos_bits p
let rec int_of_pos_raw = function XH -> 1 | XO p -> 2 * int_of_pos_raw p | XI p -> 2 * int_of_pos_raw p + 1
let int_of_pos p = if pos_bits p > 60 then max_int / 4 else int_of_pos_raw p
let int_of_n = function N0 -> 0 | Npos p -> int_of_pos p
let rec nat_of_int i = if i <= 0 then O else S (nat_of_int (i - 1))
let rec int_of_nat = function O -> 0 | S k -> 1 + int_of_nat k
(* decimal rendering of possibly large N *)
let n_to_string (x : n) : string =
  let ten = n_of_int 10 in
  let rec go x acc = match x with
    | N0 -> (if acc = "" then "0" else acc)
    | _ -> go (N.div x ten) (string_of_int (int_of_n (N.modulo x ten)) ^ acc) in
  go x ""

let bytes_of_hex (s : string) : n list =
  let l = String.length s / 2 in
  List.init l (fun i -> n_of_int (int_of_string ("0x" ^ String.sub s (2 * i) 2)))
let hex_of_bytes (bs : n list) : string =
  String.concat "" (List.map (fun b -> Printf.sprintf "%02x" (int_of_n b)) bs)

(* ---- opaque leaf oracle ---- *)
let pool : (int, (string, unit) Hashtbl.t) Hashtbl.t = Hashtbl.create 16
let pool_list : (int, string array) Hashtbl.t = Hashtbl.create 16
let opaque_unknown = ref false

let utf8_valid (bs : int list) : bool =
  let rec go = function
    | [] -> true
    | b :: r when b < 0x80 -> go r
    | b :: r when b >= 0xC2 && b <= 0xDF ->
        (match r with c :: r' when c land 0xC0 = 0x80 -> go r' | _ -> false)
    | b :: r when b >= 0xE0 && b <= 0xEF ->
        (match r with
         | c :: d :: r' when c land 0xC0 = 0x80 && d land 0xC0 = 0x80
                             && (b <> 0xE0 || c >= 0xA0) && (b <> 0xED || c < 0xA0) -> go r'
         | _ -> false)
    | b :: r when b >= 0xF0 && b <= 0xF4 ->
        (match r with
         | c :: d :: e :: r' when c land 0xC0 = 0x80 && d land 0xC0 = 0x80 && e land 0xC0 = 0x80
                                  && (b <> 0xF0 || c >= 0x90) && (b <> 0xF4 || c < 0x90) -> go r'
         | _ -> false)
    | _ -> false in
  go bs

(* permissive mode (command L): every opaque leaf is accepted and recorded, so that the check can ask the
   implementation about exactly the leaves a decode of this input looks at *)
let permissive = ref false
let queries : (int * string) list ref = ref []

let valid (k : n) (bs : n list) : bool =
  let k = int_of_n k in
  if k = 6 then utf8_valid (List.map int_of_n bs)
  else if !permissive then begin queries := (k, hex_of_bytes bs) :: !queries; true end
  else begin
    let h = hex_of_bytes bs in
    match Hashtbl.find_opt pool k with
    | Some t when Hashtbl.mem t h -> true
    | _ -> opaque_unknown := true; false
  end

let load_pool file =
  let ic = open_in file in
  let acc : (int, string list) Hashtbl.t = Hashtbl.create 16 in
  (try while true do
      let l = input_line ic in
      match String.split_on_char ' ' (String.trim l) with
      | [k; h] ->
          let k = int_of_string k in
          let t = match Hashtbl.find_opt pool k with Some t -> t | None -> let t = Hashtbl.create 16 in Hashtbl.add pool k t; t in
          Hashtbl.replace t h ();
          Hashtbl.replace acc k (h :: (try Hashtbl.find acc k with Not_found -> []))
      | _ -> ()
    done with End_of_file -> ());
  close_in ic;
  Hashtbl.iter (fun k l -> Hashtbl.replace pool_list k (Array.of_list (List.rev l))) acc

(* ---- PRNG (SplitMix64) ---- *)
let st = ref 0L
let seed_rng s = st := Int64.logxor (Int64.mul (Int64.of_int s) 0x9E3779B97F4A7C15L) 0xD1B54A32D192ED03L
let next64 () =
  st := Int64.add !st 0x9E3779B97F4A7C15L;
  let z = !st in
  let z = Int64.mul (Int64.logxor z (Int64.shift_right_logical z 30)) 0xBF58476D1CE4E5B9L in
  let z = Int64.mul (Int64.logxor z (Int64.shift_right_logical z 27)) 0x94D049BB133111EBL in
  Int64.logxor z (Int64.shift_right_logical z 31)
let below n = if n <= 0 then 0 else Int64.to_int (Int64.unsigned_rem (next64 ()) (Int64.of_int n))
(* byte_mode 1: bytes restricted to [a-z0-9] (fallback for refinements on byte strings the generator cannot satisfy blindly) *)
let byte_mode = ref 0
let rand_byte () = if !byte_mode = 1 then (let k = below 36 in if k < 26 then 97 + k else 48 + k - 26) else below 256

(* a number of w bytes, boundary heavy *)
let rand_num (w : int) : n =
  let bytes = match below 8 with
    | 0 -> List.init w (fun _ -> 0)
    | 1 -> List.init w (fun i -> if i = 0 then 1 else 0)
    | 2 -> List.init w (fun _ -> 255)
    | 3 -> List.init w (fun i -> if i = 0 then below 256 else 0)
    | 4 -> let k = below (8 * w) in List.init w (fun i -> if i = k / 8 then 1 lsl (k mod 8) else 0)
    | 5 -> List.init w (fun i -> if i < w / 2 then below 256 else 0)
    | _ -> List.init w (fun _ -> below 256) in
  dec_le (List.map n_of_int bytes)

let sort_dedup (key : gval -> gval) (vs : gval list) : gval list =
  let cmp a b = match gcmp (key a) (key b) with Lt -> -1 | Eq -> 0 | Gt -> 1 in
  let sorted = List.sort cmp vs in
  let rec dd = function a :: (b :: _ as r) -> if cmp a b = 0 then dd r else a :: dd r | l -> l in
  dd sorted

let rec set_nth l i x = match l with [] -> [] | a :: r -> if i = 0 then x :: r else a :: set_nth r (i - 1) x

let rec fixup (p : pred) (v : gval) : gval =
  match p, v with
  | PLe m, VNum x -> VNum (N.modulo x (N.add m (n_of_int 1)))
  | PGe m, VNum x -> if N.ltb x m then VNum m else v
  | PSorted, VList vs -> VList (sort_dedup (fun x -> x) vs)
  | PSortedKeys, VList vs -> VList (sort_dedup key_of vs)
  | PCoprime, VList [VNum a; VNum b] ->
      let b = if b = N0 then n_of_int 1 else b in
      let g = N.gcd a b in
      VList [VNum (N.div a g); VNum (N.div b g)]
  | PField (i, q), VList vs ->
      let i = int_of_nat i in
      (match List.nth_opt vs i with Some x -> VList (set_nth vs i (fixup q x)) | None -> v)
  | PAll q, VList vs -> VList (List.map (fixup q) vs)
  | PAnd (a, b), _ -> fixup b (fixup a v)
  | _, _ -> v

let rec get_path path v = match path, v with
  | [], _ -> v
  | i :: r, VList vs -> get_path r (List.nth vs (int_of_nat i))
  | _ -> v
let rec set_path path v x = match path, v with
  | [], _ -> x
  | i :: r, VList vs -> let i = int_of_nat i in VList (set_nth vs i (set_path r (List.nth vs i) x))
  | _ -> v

let ascii_or_utf8 () : int list =
  match below 10 with
  | 0 -> [0xC3; 0xA9]            (* e-acute *)
  | 1 -> [0xE2; 0x82; 0xAC]      (* euro sign *)
  | 2 -> [0xF0; 0x9F; 0x98; 0x80]
  | _ -> [32 + below 95]

exception Gen_failed of string

let rec gen (s : schema) : gval =
  match s with
  | SUInt (_, w) -> VNum (rand_num (int_of_nat w))
  | STuple ss -> VList (List.map gen ss)
  | SSum alts ->
      let (t, s') = List.nth alts (below (List.length alts)) in VTag (t, gen s')
  | SBitmap (_, _, _, fs) ->
      let all_or_none = below 6 in
      VList (List.map (fun (oi, s') -> match oi with
          | None -> gen s'
          | Some _ -> if all_or_none = 0 then VNone else if all_or_none = 1 || below 2 = 0 then VSome (gen s') else VNone) fs)
  | SVec (_, w, s') ->
      let w = int_of_nat w in
      let maxc = if w = 1 then 255 else 100000 in
      let c = match below 10 with 0 -> 0 | 1 -> 1 | 2 -> min maxc (5 + below 20) | _ -> below 5 in
      VList (List.init c (fun _ -> gen s'))
  | SBytes (_, _, mx) ->
      let mx = min (int_of_n mx) 70000 in
      let l = match below 12 with 0 -> 0 | 1 -> mx | 2 -> max 0 (mx - 1) | 3 -> min mx 64 | _ -> min mx (below 40) in
      let l = if l > 5000 && below 20 <> 0 then below 40 else l in
      VBytes (List.init l (fun _ -> n_of_int (rand_byte ())))
  | SRaw k -> VBytes (List.init (int_of_n k) (fun _ -> n_of_int (rand_byte ())))
  | SRefine (p, s') -> gen_refined p s'
  | SFramed (h, path, b) ->
      let bv = gen b in
      let hv = gen h in
      VList [set_path path hv (VNum (n_of_int (List.length (enc b bv)))); bv]
  | SFramedRaw (h, path, _) ->
      let l = match below 6 with 0 -> 0 | 1 -> 300 + below 100 | _ -> below 40 in
      let hv = gen h in
      VList [set_path path hv (VNum (n_of_int l)); VBytes (List.init l (fun _ -> n_of_int (rand_byte ())))]

and gen_refined (p : pred) (s' : schema) : gval =
  let rec opaque_kind = function
    | POpaque k -> Some (int_of_n k)
    | PAnd (a, b) -> (match opaque_kind a with Some k -> Some k | None -> opaque_kind b)
    | _ -> None in
  match opaque_kind p, s' with
  | Some 6, SBytes (_, _, mx) ->
      let mx = int_of_n mx in
      let target = match below 8 with 0 -> 0 | 1 -> min mx 5000 | _ -> below 30 in
      let rec build acc len =
        if len >= target then acc else
          let c = ascii_or_utf8 () in
          if len + List.length c > mx then acc else build (acc @ c) (len + List.length c) in
      VBytes (List.map n_of_int (build [] 0))
  | Some k, _ when k <> 6 ->
      (match Hashtbl.find_opt pool_list k with
       | Some a when Array.length a > 0 -> VBytes (bytes_of_hex a.(below (Array.length a)))
       | _ -> raise (Gen_failed (Printf.sprintf "empty pool for opaque kind %d" k)))
  | _ ->
      let rec attempt i =
        if i > 600 then (byte_mode := 0; raise (Gen_failed "refinement not satisfiable by the generator")) else begin
          if i = 150 then byte_mode := 1;
          let v = fixup p (gen s') in
          let v = if i < 154 then v else (match v with
              | VBytes bs when i mod 2 = 0 ->          (* "init_" prefix (contract names) *)
                  let pre = List.map n_of_int [105; 110; 105; 116; 95] in
                  let keep = max 0 (List.length bs - 5) in
                  VBytes (pre @ List.filteri (fun j _ -> j < keep) bs)
              | VBytes (b :: bs) -> VBytes (b :: n_of_int 46 :: (match bs with [] -> [] | _ :: r -> r))   (* a '.' (receive names) *)
              | VBytes [] -> VBytes [n_of_int 46]
              | _ -> v) in
          if eval_pred valid p v && wt valid s' v then (if i >= 150 then byte_mode := 0; v) else attempt (i + 1)
        end in
      attempt 0

let find_schema id =
  match List.find_opt (fun (i, _) -> int_of_n i = id) (chain_schema_table @ gen_schema_table @ full_schema_table @ all_schema_table @ manual_schema_table) with
  | Some (_, s) -> s
  | None -> failwith (Printf.sprintf "unknown schema id %d" id)

let () =
  if Array.length Sys.argv > 1 then load_pool Sys.argv.(1);
  (try while true do
      let line = String.trim (input_line stdin) in
      (match String.split_on_char ' ' line with
       | "D" :: id :: rest ->
           let s = find_schema (int_of_string id) in
           let bs = bytes_of_hex (match rest with h :: _ -> h | [] -> "") in
           opaque_unknown := false;
           (match dec valid s bs with
            | Some (v, r) ->
                let consumed = List.length bs - List.length r in
                let re = enc s v in
                Printf.printf "A %d %s %s %s\n" consumed (hex_of_bytes re)
                  (n_to_string (alloc valid s bs)) (n_to_string (cap s))
            | None -> print_string (if !opaque_unknown then "RO\n" else "R\n"))
       | "L" :: id :: rest ->
           let s = find_schema (int_of_string id) in
           let bs = bytes_of_hex (match rest with h :: _ -> h | [] -> "") in
           permissive := true; queries := [];
           ignore (dec valid s bs);
           permissive := false;
           print_string "L";
           List.iter (fun (k, h) -> Printf.printf " %d:%s" k h) (List.sort_uniq compare !queries);
           print_newline ()
       | ["G"; id; seed; n] ->
           let id = int_of_string id in
           let s = find_schema id in
           seed_rng (int_of_string seed * 1000003 + id);
           for _ = 1 to int_of_string n do
             let v = (try gen s with Gen_failed m -> Printf.printf "GENFAIL %s\n" m; exit 3) in
             (* self-check of generator and model: well typed, round trips *)
             if not (wt valid s v) then (Printf.printf "GENFAIL generated value is not well typed (schema %d)\n" id; exit 3);
             let bs = enc s v in
             (match dec valid s bs with
              | Some (v', []) when v' = v -> ()
              | _ -> Printf.printf "GENFAIL model does not round-trip its own value (schema %d) %s\n" id (hex_of_bytes bs); exit 3);
             print_endline (hex_of_bytes bs)
           done
       | ["T"; id] ->
           (match find_schema (int_of_string id) with
            | SSum alts -> print_string "T"; List.iter (fun (t, _) -> Printf.printf " %d" (int_of_n t)) alts; print_newline ()
            | _ -> print_endline "T")
       | ["W"; id] ->
           let s = find_schema (int_of_string id) in
           Printf.printf "W %b %s %s\n" (schema_wf s) (n_to_string (cap s)) (n_to_string (min_size s))
       | _ -> print_endline "ERR");
      flush stdout
    done with End_of_file -> ())
