(* Line-oriented driver for the extracted C20 models.  Numbers are hexadecimal on input and
   output (wNAF digits and path indices are printed in decimal); one case per line. *)
open C20_model

let pos_of_hex (s : string) : positive option =
  let acc = ref None in
  String.iter (fun ch ->
    let v = match ch with
      | '0'..'9' -> Char.code ch - 48 | 'a'..'f' -> Char.code ch - 87 | 'A'..'F' -> Char.code ch - 55
      | _ -> failwith ("bad hex " ^ s) in
    for k = 3 downto 0 do
      let b = (v lsr k) land 1 = 1 in
      acc := (match !acc with
              | None -> if b then Some XH else None
              | Some p -> Some (if b then XI p else XO p))
    done) s;
  !acc
let z_of_hex s =
  if String.length s > 0 && s.[0] = '-' then
    (match pos_of_hex (String.sub s 1 (String.length s - 1)) with None -> Z0 | Some p -> Zneg p)
  else (match pos_of_hex s with None -> Z0 | Some p -> Zpos p)
let n_of_hex s = match pos_of_hex s with None -> N0 | Some p -> Npos p
let rec bits_of_pos p = match p with XH -> [true] | XO q -> false :: bits_of_pos q | XI q -> true :: bits_of_pos q
let hex_of_pos p =
  let bits = Array.of_list (bits_of_pos p) in
  let n = Array.length bits in
  let nd = (n + 3) / 4 in
  let b = Buffer.create nd in
  for d = nd - 1 downto 0 do
    let v = ref 0 in
    for k = 3 downto 0 do
      let i = 4 * d + k in
      v := !v * 2 + (if i < n && bits.(i) then 1 else 0)
    done;
    Buffer.add_char b "0123456789abcdef".[!v]
  done;
  Buffer.contents b
let hex_of_z z = match z with Z0 -> "0" | Zpos p -> hex_of_pos p | Zneg p -> "-" ^ hex_of_pos p
let hex_of_n n = match n with N0 -> "0" | Npos p -> hex_of_pos p
let int_of_pos p = List.fold_right (fun b acc -> 2 * acc + (if b then 1 else 0)) (bits_of_pos p) 0
let int_of_z z = match z with Z0 -> 0 | Zpos p -> int_of_pos p | Zneg p -> - (int_of_pos p)
let int_of_n n = match n with N0 -> 0 | Npos p -> int_of_pos p
let rec nat_of_int i = if i <= 0 then O else S (nat_of_int (i - 1))
let z_of_int i = z_of_hex (Printf.sprintf "%s%x" (if i < 0 then "-" else "") (abs i))
let bytes_of_hex s =
  let n = String.length s / 2 in
  List.init n (fun i -> n_of_hex (String.sub s (2 * i) 2))
let hex_of_bytes bs = String.concat "" (List.map (fun b -> Printf.sprintf "%02x" (int_of_n b)) bs)

let () =
  try
    while true do
      let line = input_line stdin in
      let toks = ref (List.filter (fun s -> s <> "") (String.split_on_char ' ' line)) in
      let next () = match !toks with [] -> failwith "short line" | t :: r -> toks := r; t in
      let nint () = int_of_string (next ()) in
      let nz () = z_of_hex (next ()) in
      let nlist f = let k = nint () in List.init k (fun _ -> f ()) in
      let out =
        match next () with
        | "wnaf" ->
            let w = z_of_int (nint ()) in
            let ls = nlist nz in
            String.concat " " (List.map (fun d -> string_of_int (int_of_z d)) (wnaf w ls))
        | "mexp" ->
            let r = nz () in let w = z_of_int (nint ()) in let nb = nat_of_int (nint ()) in
            let gs = nlist nz in
            let ss = nlist (fun () -> nlist nz) in
            hex_of_z (zr_multiexp r w nb gs ss)
        | "share" ->
            let r = nz () in let secret = nz () in let cs = nlist nz in let ps = nlist nz in
            String.concat " " (List.map hex_of_z (zr_share r secret cs ps))
        | "reveal" ->
            let r = nz () in
            let sh = nlist (fun () -> let x = nz () in let y = nz () in (x, y)) in
            hex_of_z (zr_reveal r sh)
        | "revealg" ->
            let r = nz () in
            let sh = nlist (fun () -> let x = nz () in let y = nz () in (x, y)) in
            hex_of_z (zr_reveal_in_group r sh)
        | "lagrange" ->
            let r = nz () in let kxs = nlist nz in let i = nz () in
            hex_of_z (zr_lagrange r kxs i)
        | "senc" -> hex_of_bytes (scalar_encode (n_of_hex (next ())))
        | "sencle" -> hex_of_bytes (scalar_encode_le (n_of_hex (next ())))
        | "sdec" ->
            let which = next () in
            let bs = (match !toks with [] -> [] | _ -> bytes_of_hex (next ())) in
            let res = if which = "bls" then scalar_decode bls_r bs else scalar_decode_le ed_l bs in
            (match res with None -> "None" | Some v -> hex_of_n v)
        | "sfb" ->
            let f = (match next () with "bls" -> bls_scalar_from_bytes | _ -> ed_scalar_from_bytes) in
            let bs = (match !toks with [] -> [] | _ -> bytes_of_hex (next ())) in
            (match f bs with None -> "None" | Some v -> hex_of_n v)
        | "g1dec" ->
            let bs = (match !toks with [] -> [] | _ -> bytes_of_hex (next ())) in
            (match g1_decode bs with
             | None -> "None"
             | Some G1Inf -> "inf"
             | Some (G1Aff (x, y)) -> hex_of_n x ^ " " ^ hex_of_n y)
        | "g1enc" ->
            (match next () with
             | "inf" -> hex_of_bytes (g1_encode G1Inf)
             | xs -> let x = n_of_hex xs in let y = n_of_hex (next ()) in hex_of_bytes (g1_encode (G1Aff (x, y))))
        | "keygen" ->
            (match keygen_round (bytes_of_hex (next ())) with None -> "None" | Some v -> hex_of_n v)
        | "path" ->
            let net = if nint () = 0 then Mainnet else Testnet in
            let kind = next () in
            let a () = n_of_hex (next ()) in
            let k = (match kind with
              | "sign" -> let x = a () in let y = a () in let z = a () in AccountSigningKey (x, y, z)
              | "idcredsec" -> let x = a () in let y = a () in IdCredSec (x, y)
              | "prf" -> let x = a () in let y = a () in PrfKey (x, y)
              | "blind" -> let x = a () in let y = a () in BlindingRandomness (x, y)
              | "attr" -> let x = a () in let y = a () in let z = a () in let t = a () in
                          AttributeCommitmentRandomness (x, y, z, t)
              | "vcsign" -> let x = a () in let y = a () in let z = a () in VerifiableCredentialSigningKey (x, y, z)
              | "vcbackup" -> VerifiableCredentialBackupEncryptionKey
              | _ -> failwith "kind") in
            (match path_of net k with
             | None -> "None"
             | Some p -> String.concat " " (List.map (fun i -> string_of_int (int_of_n i)) p))
        | op -> failwith ("unknown op " ^ op) in
      print_string out; print_newline ()
    done
  with End_of_file -> ()
