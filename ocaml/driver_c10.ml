(* Line-oriented runner for the extracted C10 models (coq/Run/ExtractC10.v).
   One command per stdin line, one answer line per command.  Everything is an s-expression;
   byte strings are "x<hex>" atoms, numbers are decimal atoms.

   types   Unit Bool U8 .. Duration | (Pair T T) (List sl T) (Set sl T) (Map sl K V) (Array n T)
           (Struct F) (Enum (xname F) ..) (TaggedEnum (tag xname F) ..) (String sl) (ContractName sl)
           (ReceiveName sl) (ULeb128 n) (ILeb128 n) (ByteList sl) (ByteArray n)
   fields  (N (xname T) ..) | (U T ..) | Z
   json    null t f F (n dec) (s xhex) (a v ..) (o (xkey v) ..)
   opt     none | (some X);   f1 (P T) (R T) (B T T);   f2 (F2 opt opt opt)
   module  (MV0 (xname (C0 opt opt (xname T) ..)) ..)  (MV1 (xname (C1 optf1 (xname f1) ..)) ..)
           (MV2 (xname (C2 optf2 (xname f2) ..)) ..)   (MV3 (xname (C3 optf2 opt (xname f2) ..)) ..)

   commands
     (rt T J)      ->  (FROM TO NORM)   FROM = - | xhex;  TO = - | (json restlen);  NORM = json
     (by T xhex)   ->  - | (json restlen)
     (encty T)     ->  (xhex REDEC)     REDEC = - | (xhex restlen)   re-encoding of dec_ty_top (enc_ty T)
     (decty xhex)  ->  - | (T restlen)
     (encf1 f1) (encf2 f2)  ->  xhex
     (module M)    ->  (xversioned xbody xnew_versioned xnew_unversioned)   (x = failed)
*)
open C10_model

type sx = A of string | L of sx list

let parse (s : string) : sx =
  let n = String.length s in
  let pos = ref 0 in
  let rec skip () = if !pos < n && (s.[!pos] = ' ' || s.[!pos] = '\t') then (incr pos; skip ()) in
  let rec item () =
    skip ();
    if !pos >= n then failwith "eof"
    else if s.[!pos] = '(' then begin
      incr pos;
      let items = ref [] in
      let rec loop () =
        skip ();
        if !pos >= n then failwith "unclosed"
        else if s.[!pos] = ')' then incr pos
        else (items := item () :: !items; loop ()) in
      loop ();
      L (List.rev !items)
    end else begin
      let st = !pos in
      while !pos < n && s.[!pos] <> ' ' && s.[!pos] <> '(' && s.[!pos] <> ')' do incr pos done;
      A (String.sub s st (!pos - st))
    end in
  item ()

let rec print (b : Buffer.t) (x : sx) : unit =
  match x with
  | A a -> Buffer.add_string b a
  | L l -> Buffer.add_char b '(';
           List.iteri (fun i y -> if i > 0 then Buffer.add_char b ' '; print b y) l;
           Buffer.add_char b ')'

(* ---- numbers ---- *)
let rec pos_of_int i = if i = 1 then XH else if i land 1 = 0 then XO (pos_of_int (i lsr 1)) else XI (pos_of_int (i lsr 1))
let n_of_int i = if i <= 0 then N0 else Npos (pos_of_int i)
let rec int_of_pos = function XH -> 1 | XO p -> 2 * int_of_pos p | XI p -> 2 * int_of_pos p + 1
let int_of_n = function N0 -> 0 | Npos p -> int_of_pos p
let ten = n_of_int 10
let n_of_dec (s : string) : n =
  let acc = ref N0 in
  String.iter (fun ch -> acc := N.add (N.mul !acc ten) (n_of_int (Char.code ch - 48))) s;
  !acc
let z_of_dec (s : string) : z =
  if String.length s > 0 && s.[0] = '-' then Z.opp (Z.of_N (n_of_dec (String.sub s 1 (String.length s - 1))))
  else Z.of_N (n_of_dec s)
let string_of_codes (l : n list) : string = String.concat "" (List.map (fun c -> String.make 1 (Char.chr (int_of_n c))) l)
let dec_of_n (x : n) : string = string_of_codes (show_N x)
let dec_of_z (x : z) : string = string_of_codes (show_Z x)

(* ---- bytes ---- *)
let hexval c = match c with '0'..'9' -> Char.code c - 48 | 'a'..'f' -> Char.code c - 87 | 'A'..'F' -> Char.code c - 55 | _ -> failwith "hex"
let small = Array.init 256 n_of_int
let bytes_of_x (s : string) : n list =
  (* "x<hex>" *)
  let l = (String.length s - 1) / 2 in
  List.init l (fun i -> small.(16 * hexval s.[1 + 2 * i] + hexval s.[2 + 2 * i]))
let x_of_bytes (bs : n list) : string =
  let b = Buffer.create 64 in
  Buffer.add_char b 'x';
  List.iter (fun v -> Buffer.add_string b (Printf.sprintf "%02x" (int_of_n v))) bs;
  Buffer.contents b

(* ---- types ---- *)
let sl_of = function A "8" -> SL8 | A "16" -> SL16 | A "32" -> SL32 | A "64" -> SL64 | _ -> failwith "sl"
let sx_of_sl = function SL8 -> A "8" | SL16 -> A "16" | SL32 -> A "32" | SL64 -> A "64"
let num = function A s -> n_of_dec s | _ -> failwith "num"

let rec ty_of (x : sx) : ty =
  match x with
  | A "Unit" -> TUnit | A "Bool" -> TBool
  | A "U8" -> TU8 | A "U16" -> TU16 | A "U32" -> TU32 | A "U64" -> TU64 | A "U128" -> TU128
  | A "I8" -> TI8 | A "I16" -> TI16 | A "I32" -> TI32 | A "I64" -> TI64 | A "I128" -> TI128
  | A "Amount" -> TAmount | A "AccountAddress" -> TAccountAddress | A "ContractAddress" -> TContractAddress
  | A "Timestamp" -> TTimestamp | A "Duration" -> TDuration
  | L [A "Pair"; a; b] -> TPair (ty_of a, ty_of b)
  | L [A "List"; s; e] -> TList (sl_of s, ty_of e)
  | L [A "Set"; s; e] -> TSet (sl_of s, ty_of e)
  | L [A "Map"; s; k; v] -> TMap (sl_of s, ty_of k, ty_of v)
  | L [A "Array"; n; e] -> TArray (num n, ty_of e)
  | L [A "Struct"; f] -> TStruct (fields_of f)
  | L (A "Enum" :: vs) ->
      TEnum (List.fold_right (fun v acc -> match v with L [A n; f] -> Vcons (bytes_of_x n, fields_of f, acc) | _ -> failwith "variant") vs Vnil)
  | L (A "TaggedEnum" :: vs) ->
      TTaggedEnum (List.fold_right (fun v acc -> match v with L [t; A n; f] -> TVcons (num t, bytes_of_x n, fields_of f, acc) | _ -> failwith "tvariant") vs TVnil)
  | L [A "String"; s] -> TString (sl_of s)
  | L [A "ContractName"; s] -> TContractName (sl_of s)
  | L [A "ReceiveName"; s] -> TReceiveName (sl_of s)
  | L [A "ULeb128"; n] -> TULeb128 (num n)
  | L [A "ILeb128"; n] -> TILeb128 (num n)
  | L [A "ByteList"; s] -> TByteList (sl_of s)
  | L [A "ByteArray"; n] -> TByteArray (num n)
  | _ -> failwith "type"
and fields_of (x : sx) : fields =
  match x with
  | A "Z" -> FNone
  | L (A "N" :: l) -> FNamed (List.fold_right (fun v acc -> match v with L [A n; t] -> NFcons (bytes_of_x n, ty_of t, acc) | _ -> failwith "nfield") l NFnil)
  | L (A "U" :: l) -> FUnnamed (List.fold_right (fun t acc -> TScons (ty_of t, acc)) l TSnil)
  | _ -> failwith "fields"

let rec sx_of_ty (t : ty) : sx =
  match t with
  | TUnit -> A "Unit" | TBool -> A "Bool"
  | TU8 -> A "U8" | TU16 -> A "U16" | TU32 -> A "U32" | TU64 -> A "U64" | TU128 -> A "U128"
  | TI8 -> A "I8" | TI16 -> A "I16" | TI32 -> A "I32" | TI64 -> A "I64" | TI128 -> A "I128"
  | TAmount -> A "Amount" | TAccountAddress -> A "AccountAddress" | TContractAddress -> A "ContractAddress"
  | TTimestamp -> A "Timestamp" | TDuration -> A "Duration"
  | TPair (a, b) -> L [A "Pair"; sx_of_ty a; sx_of_ty b]
  | TList (s, e) -> L [A "List"; sx_of_sl s; sx_of_ty e]
  | TSet (s, e) -> L [A "Set"; sx_of_sl s; sx_of_ty e]
  | TMap (s, k, v) -> L [A "Map"; sx_of_sl s; sx_of_ty k; sx_of_ty v]
  | TArray (n, e) -> L [A "Array"; A (dec_of_n n); sx_of_ty e]
  | TStruct f -> L [A "Struct"; sx_of_fields f]
  | TEnum vs ->
      let rec go = function Vnil -> [] | Vcons (n, f, r) -> L [A (x_of_bytes n); sx_of_fields f] :: go r in
      L (A "Enum" :: go vs)
  | TTaggedEnum vs ->
      let rec go = function TVnil -> [] | TVcons (t, n, f, r) -> L [A (dec_of_n t); A (x_of_bytes n); sx_of_fields f] :: go r in
      L (A "TaggedEnum" :: go vs)
  | TString s -> L [A "String"; sx_of_sl s]
  | TContractName s -> L [A "ContractName"; sx_of_sl s]
  | TReceiveName s -> L [A "ReceiveName"; sx_of_sl s]
  | TULeb128 n -> L [A "ULeb128"; A (dec_of_n n)]
  | TILeb128 n -> L [A "ILeb128"; A (dec_of_n n)]
  | TByteList s -> L [A "ByteList"; sx_of_sl s]
  | TByteArray n -> L [A "ByteArray"; A (dec_of_n n)]
and sx_of_fields (f : fields) : sx =
  match f with
  | FNone -> A "Z"
  | FNamed l -> let rec go = function NFnil -> [] | NFcons (n, t, r) -> L [A (x_of_bytes n); sx_of_ty t] :: go r in L (A "N" :: go l)
  | FUnnamed l -> let rec go = function TSnil -> [] | TScons (t, r) -> sx_of_ty t :: go r in L (A "U" :: go l)

(* ---- json ---- *)
let rec json_of (x : sx) : json =
  match x with
  | A "null" -> JNull | A "t" -> JBool true | A "f" -> JBool false | A "F" -> JFloat
  | L [A "n"; A d] -> JNum (z_of_dec d)
  | L [A "s"; A s] -> JStr (bytes_of_x s)
  | L (A "a" :: l) -> JArr (List.map json_of l)
  | L (A "o" :: l) -> JObj (List.map (function L [A k; v] -> (bytes_of_x k, json_of v) | _ -> failwith "member") l)
  | _ -> failwith "json"
let rec sx_of_json (j : json) : sx =
  match j with
  | JNull -> A "null" | JBool true -> A "t" | JBool false -> A "f" | JFloat -> A "F"
  | JNum z -> L [A "n"; A (dec_of_z z)]
  | JStr s -> L [A "s"; A (x_of_bytes s)]
  | JArr l -> L (A "a" :: List.map sx_of_json l)
  | JObj l -> L (A "o" :: List.map (fun (k, v) -> L [A (x_of_bytes k); sx_of_json v]) l)

(* ---- module schemas ---- *)
let opt_of f = function A "none" -> None | L [A "some"; x] -> Some (f x) | _ -> failwith "opt"
let f1_of = function
  | L [A "P"; t] -> F1Param (ty_of t) | L [A "R"; t] -> F1Ret (ty_of t) | L [A "B"; p; r] -> F1Both (ty_of p, ty_of r)
  | _ -> failwith "f1"
let f2_of = function
  | L [A "F2"; p; r; e] -> { f2_param = opt_of ty_of p; f2_ret = opt_of ty_of r; f2_err = opt_of ty_of e }
  | _ -> failwith "f2"
let map_of f l = List.map (function L [A k; v] -> (bytes_of_x k, f v) | _ -> failwith "entry") l
let module_of = function
  | L (A "MV0" :: cs) -> MV0 (map_of (function L (A "C0" :: st :: i :: rc) -> { c0_state = opt_of ty_of st; c0_init = opt_of ty_of i; c0_receive = map_of ty_of rc } | _ -> failwith "c0") cs)
  | L (A "MV1" :: cs) -> MV1 (map_of (function L (A "C1" :: i :: rc) -> { c1_init = opt_of f1_of i; c1_receive = map_of f1_of rc } | _ -> failwith "c1") cs)
  | L (A "MV2" :: cs) -> MV2 (map_of (function L (A "C2" :: i :: rc) -> { c2_init = opt_of f2_of i; c2_receive = map_of f2_of rc } | _ -> failwith "c2") cs)
  | L (A "MV3" :: cs) -> MV3 (map_of (function L (A "C3" :: i :: ev :: rc) -> { c3_init = opt_of f2_of i; c3_receive = map_of f2_of rc; c3_event = opt_of ty_of ev } | _ -> failwith "c3") cs)
  | _ -> failwith "module"

let len l = A (string_of_int (List.length l))
let to_result = function None -> A "-" | Some (j, rest) -> L [sx_of_json j; len rest]

let answer (cmd : sx) : sx =
  match cmd with
  | L [A "rt"; t; j] ->
      let t = ty_of t and j = json_of j in
      let from = run_from t j in
      let fr = match from with None -> A "-" | Some b -> A (x_of_bytes b) in
      let tj = match from with None -> A "-" | Some b -> to_result (run_to t b) in
      L [fr; tj; sx_of_json (run_norm t j)]
  | L [A "by"; t; A b] -> to_result (run_to (ty_of t) (bytes_of_x b))
  | L [A "encty"; t] ->
      let e = enc_ty (ty_of t) in
      let re = match dec_ty_top e with None -> A "-" | Some (t', rest) -> L [A (x_of_bytes (enc_ty t')); len rest] in
      L [A (x_of_bytes e); re]
  | L [A "decty"; A b] ->
      (match dec_ty_top (bytes_of_x b) with None -> A "-" | Some (t, rest) -> L [sx_of_ty t; len rest])
  | L [A "encf1"; f] -> A (x_of_bytes (enc_f1 (f1_of f)))
  | L [A "encf2"; f] -> A (x_of_bytes (enc_f2 (f2_of f)))
  | L [A "module"; m] ->
      let m = module_of m in
      let v = enc_versioned m and b = enc_module_body m in
      let re x = match x with Some m' -> A (x_of_bytes (enc_versioned m')) | None -> A "x" in
      L [A (x_of_bytes v); A (x_of_bytes b); re (schema_new v None); re (schema_new b (Some (module_version m)))]
  | _ -> failwith "command"

let () =
  let buf = Buffer.create 65536 in
  (try
     while true do
       let line = input_line stdin in
       Buffer.clear buf;
       (try print buf (answer (parse line)) with
        | Failure m -> Buffer.clear buf; Buffer.add_string buf ("!error " ^ m)
        | Stack_overflow -> Buffer.clear buf; Buffer.add_string buf "!error stack overflow");
       print_string (Buffer.contents buf);
       print_newline ()
     done
   with End_of_file -> ())
