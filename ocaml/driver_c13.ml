(* Line-oriented driver for the extracted Wasm models (C13): artifact bytes and interrupted runs.
   One request per input line, one answer line per request:
     C13 <fuel> <program (harness/c13/src/ast.rs line format, with imports)>
         C <k> { <cfg> <metered> <nf> { <nops> op* }*nf  S <ne> { <nm> mask*nm }*ne }*k
   answer:  part ## part ...   part = <cfg> <artifact hex> @ <entry> | <entry> ...
            entry = <run> ~ <run> ...   (first run: host answers directly; then one per mask:
                                         the host interrupts at the dynamic calls whose mask digit is 1)
            run = head;pages;energy;ncalls;ninterrupts;hcalls;ticks;nonzero memory
   The host is the deterministic host of harness/c13/src/main.rs (host_mix). *)
open C13_model

exception Bad of string

(* ---------- conversions between OCaml integers and the extracted numbers ---------- *)
let rec nat_of_int (i : int) : nat = if i <= 0 then O else S (nat_of_int (i - 1))
let rec int_of_nat (n : nat) : int = match n with O -> 0 | S m -> 1 + int_of_nat m

(* positive from an unsigned 64-bit pattern (must be non-zero) *)
let rec pos_of_u64 (x : int64) : positive =
  if x = 1L then XH
  else if Int64.logand x 1L = 0L then XO (pos_of_u64 (Int64.shift_right_logical x 1))
  else XI (pos_of_u64 (Int64.shift_right_logical x 1))

let z_of_int64 (x : int64) : z =
  if x = 0L then Z0 else if Int64.compare x 0L > 0 then Zpos (pos_of_u64 x) else Zneg (pos_of_u64 (Int64.neg x))
let n_of_int64 (x : int64) : n = if x = 0L then N0 else Npos (pos_of_u64 x)
let z_of_string (s : string) : z = z_of_int64 (Int64.of_string s)
let n_of_string (s : string) : n = n_of_int64 (Int64.of_string s)

(* u64 bit pattern of a positive (wraps above 64 bits) *)
let rec u64_of_pos (p : positive) : int64 =
  match p with
  | XH -> 1L
  | XO q -> Int64.shift_left (u64_of_pos q) 1
  | XI q -> Int64.logor (Int64.shift_left (u64_of_pos q) 1) 1L
let int64_of_z (x : z) : int64 = match x with Z0 -> 0L | Zpos p -> u64_of_pos p | Zneg p -> Int64.neg (u64_of_pos p)
let int64_of_n (x : n) : int64 = match x with N0 -> 0L | Npos p -> u64_of_pos p

(* canonical unsigned value -> signed decimal string, as Rust prints i32 / i64 *)
let show_val (v : val0) : string =
  match v with
  | VI32 x ->
      let u = int64_of_z x in
      let s = if Int64.compare u 0x80000000L >= 0 then Int64.sub u 0x100000000L else u in
      "7f:" ^ Int64.to_string s
  | VI64 x -> "7e:" ^ Int64.to_string (int64_of_z x)

(* ---------- token reader ---------- *)
type rd = { toks : string array; mutable pos : int }
let next r = if r.pos >= Array.length r.toks then raise (Bad "eof") else (let t = r.toks.(r.pos) in r.pos <- r.pos + 1; t)
let num r = int_of_string (next r)
let expect r s = let t = next r in if t <> s then raise (Bad ("expected " ^ s ^ " got " ^ t))
let vt_of s = match s with "7f" -> T_i32 | "7e" -> T_i64 | _ -> raise (Bad ("valtype " ^ s))
let bt_of s = match s with "40" -> None | _ -> Some (vt_of s)
let rec times k f = if k <= 0 then [] else (let x = f () in x :: times (k - 1) f)

let opcode_of_tok (tok : string) : opcode =
  match String.split_on_char ':' tok with
  | [] -> raise (Bad "empty op")
  | b :: imm ->
      let byte = int_of_string ("0x" ^ b) in
      let i k = int_of_string (List.nth imm k) in
      let nat k = nat_of_int (i k) in
      (match byte with
       | 0x02 -> OBlock (bt_of (List.nth imm 0))
       | 0x03 -> OLoop (bt_of (List.nth imm 0))
       | 0x04 -> OIf (bt_of (List.nth imm 0))
       | 0x05 -> OElse
       | 0x0b -> OEnd
       | 0x0c -> OBasic (BBr (nat 0))
       | 0x0d -> OBasic (BBrIf (nat 0))
       | 0x0e ->
           let k = i 0 in
           let ls = List.init k (fun j -> nat (1 + j)) in
           OBasic (BBrTable (ls, nat (1 + k)))
       | 0x10 -> OBasic (BCall (nat 0))
       | 0x11 -> OBasic (BCallIndirect (nat 0))
       | 0x20 -> OBasic (BLocalGet (nat 0))
       | 0x21 -> OBasic (BLocalSet (nat 0))
       | 0x22 -> OBasic (BLocalTee (nat 0))
       | 0x23 -> OBasic (BGlobalGet (nat 0))
       | 0x24 -> OBasic (BGlobalSet (nat 0))
       | 0x41 -> OBasic (mk_const T_i32 (z_of_string (List.nth imm 0)))
       | 0x42 -> OBasic (mk_const T_i64 (z_of_string (List.nth imm 0)))
       | 0xfe -> OBasic (BTick (n_of_string (List.nth imm 0)))
       | _ when byte >= 0x28 && byte <= 0x3e ->
           (match mem_of_byte (n_of_int64 (Int64.of_int byte)) (n_of_string (List.nth imm 0)) with
            | Some x -> OBasic x
            | None -> raise (Bad ("mem op " ^ tok)))
       | _ ->
           (match plain_of_byte (n_of_int64 (Int64.of_int byte)) with
            | Some x -> OBasic x
            | None -> raise (Bad ("op " ^ tok))))


type case = { m : module0; locs : valtype list list; names : (string * string) list; entries : int list; args : val0 list }

let bytes_of_string (s : string) : n list = List.init (String.length s) (fun i -> n_of_int64 (Int64.of_int (Char.code s.[i])))

let parse_case (r : rd) : case =
  expect r "T";
  let nt = num r in
  let types = times nt (fun () ->
    let np = num r in
    let ps = times np (fun () -> vt_of (next r)) in
    let nr = num r in
    let res = if nr = 1 then Some (vt_of (next r)) else None in
    { ft_params = ps; ft_result = res }) in
  expect r "I";
  let ni = num r in
  let imps = times ni (fun () -> let ty = num r in let mn = next r in let it = next r in (ty, (mn, it))) in
  expect r "M";
  let has = num r in let mn = next r in let hasmax = num r in let mx = next r in
  let mem = if has = 1 then Some { l_min = n_of_string mn; l_max = (if hasmax = 1 then Some (n_of_string mx) else None) } else None in
  expect r "G";
  let ng = num r in
  let globals = times ng (fun () ->
    let mu = num r = 1 in
    let t = vt_of (next r) in
    let v = z_of_string (next r) in
    { g_mut = mu; g_init = mk_val t v }) in
  expect r "B";
  let hast = num r in let tsz = next r in
  let table = if hast = 1 then Some (n_of_string tsz) else None in
  expect r "E";
  let ne = num r in
  let elems = times ne (fun () ->
    let off = n_of_string (next r) in
    let k = num r in
    (off, times k (fun () -> nat_of_int (num r)))) in
  expect r "D";
  let nd = num r in
  let data = times nd (fun () ->
    let off = n_of_string (next r) in
    let k = num r in
    (off, times k (fun () -> z_of_string (next r)))) in
  expect r "F";
  let nf = num r in
  let fs = times nf (fun () ->
    let ty = num r in
    let nl = num r in
    let locals = times nl (fun () -> vt_of (next r)) in
    let nops = num r in
    let ops = times nops (fun () -> opcode_of_tok (next r)) in
    (ty, locals, ops)) in
  expect r "X";
  let k = num r in
  let entries = times k (fun () -> num r) in
  let na = num r in
  let args = times na (fun () -> let t = vt_of (next r) in mk_val t (z_of_string (next r))) in
  let funcs = List.map (fun (ty, locals, ops) ->
    match structure_body ops with
    | Some body -> { f_type = nat_of_int ty; f_locals = locals; f_body = body }
    | None -> raise (Bad "structure_body failed")) fs in
  { m = { m_types = types; m_imports = List.map (fun (ty, _) -> nat_of_int ty) imps; m_funcs = funcs; m_table = table;
          m_elems = elems; m_mem = mem; m_data = data; m_globals = globals };
    locs = List.map (fun (_, l, _) -> l) fs; names = List.map snd imps; entries; args }

let fuel_cache : (int, nat) Hashtbl.t = Hashtbl.create 4
let fuel_of (k : int) : nat =
  match Hashtbl.find_opt fuel_cache k with
  | Some f -> f
  | None ->
      let rec go acc i = if i = 0 then acc else go (S acc) (i - 1) in
      let f = go O k in Hashtbl.add fuel_cache k f; f

let hex_of_bytes (bs : n list) : string =
  String.concat "" (List.map (fun b -> Printf.sprintf "%02x" (Int64.to_int (int64_of_n b))) bs)

let z_of_u64 (x : int64) : z = if x = 0L then Z0 else Zpos (pos_of_u64 x)

(* ---------- the deterministic host (mirror of harness/c13/src/main.rs) ---------- *)
let host_mix (n : int64) (k : int64) (args : int64 list) : int64 =
  let x = ref (Int64.logxor (Int64.mul (Int64.add n 1L) 0x9E3779B97F4A7C15L) (Int64.mul (Int64.add k 1L) 0xBF58476D1CE4E5B9L)) in
  List.iter (fun a ->
    x := Int64.mul (Int64.logxor !x a) 0x94D049BB133111EBL;
    x := Int64.logxor !x (Int64.shift_right_logical !x 29)) args;
  !x

let urem = Int64.unsigned_rem
let ustr (x : int64) : string = Printf.sprintf "%Lu" x

(* keys: index -> import key (1000 = account_memory, j for host.h<j>) *)
let make_host (keys : int64 array) =
  fun (h : string list) (n : nat) (q : hquery) ->
    let (((fidx, ft), args), mem) = q in
    let k = keys.(int_of_nat fidx) in
    let argv = List.map2 (fun t a -> match t with T_i32 -> int64_of_z (as_u32 a) | T_i64 -> int64_of_z (as_u64 a)) ft.ft_params args in
    let nn = Int64.of_int (int_of_nat n) in
    let x = host_mix nn k argv in
    let shr = Int64.shift_right_logical in
    let astr = String.concat "," (List.map ustr argv) in
    let is_meter = k = 1000L in
    let fail = (not is_meter) && urem x 97L = 0L in
    if fail then ((Printf.sprintf "%Lu:%s>fail" k astr) :: h, None)
    else begin
      let raw = if is_meter then (match argv with a :: _ -> a | [] -> 0L)
                else if urem (shr x 3) 4L = 0L then urem x 16L else shr x 7 in
      let eff =
        match mem with
        | Some mm when (not is_meter) && urem (shr x 8) 4L = 0L ->
            let len = int64_of_n (mem_len mm) in
            if len = 0L then None
            else
              let addr = urem (shr x 16) len in
              let byte = Int64.logand (shr x 40) 0xffL in
              Some (mem_write mm (n_of_int64 addr) [z_of_u64 byte])
        | _ -> None in
      let resp = match ft.ft_result with
        | None -> None
        | Some T_i32 -> Some (Int64.logand raw 0xffffffffL)
        | Some T_i64 -> Some raw in
      let s = Printf.sprintf "%Lu:%s>%s" k astr (match resp with Some r -> ustr r | None -> "-") in
      (s :: h, Some (eff, (match resp with Some r -> Some (z_of_u64 r) | None -> None)))
    end

let show_trap (r : trap_reason) : string =
  match r with
  | TUnreachable -> "unreachable" | TMemory -> "memory" | TDivI32 -> "div32" | TDivI64 -> "div64"
  | TRemSOverflow -> "rem_s_overflow" | TCallUndefined -> "call_undefined" | TCallType -> "call_type"
  | THost -> "host" | TBadCode -> "badcode"

let show_nz (mm : memory option) : string * string =
  match mm with
  | None -> ("0", "")
  | Some mm ->
      let els = PositiveMap.elements mm.mem_data in
      let nz = List.filter_map (fun (k, b) ->
        let b = int64_of_z b in
        if b = 0L then None else Some (Int64.pred (u64_of_pos k), b)) els in
      let nz = List.sort compare nz in
      let rec take k l = if k = 0 then [] else match l with [] -> [] | x :: r -> x :: take (k - 1) r in
      (Int64.to_string (int64_of_n mm.mem_pages),
       String.concat " " (List.map (fun (a, b) -> Int64.to_string a ^ ":" ^ Int64.to_string b) (take 4000 nz)))

let rec take_n k l = if k = 0 then [] else match l with [] -> [] | x :: r -> x :: take_n (k - 1) r

let show_run (art : artifact) (entry : nat) (extra_energy : int64) ((res, nint) : ((ioutcome, string list, n) gresult) * nat) : string =
  let mo = finish art entry res.r_out in
  let hcalls = String.concat "+" (take_n 48 (List.rev res.r_host)) in
  let ticks = String.concat "," (List.map (fun t -> ustr (int64_of_n t)) (take_n 64 res.r_trace)) in
  let ncalls = string_of_int (int_of_nat res.r_calls) in
  let tick_sum = List.fold_left (fun a t -> Int64.add a (int64_of_n t)) 0L res.r_trace in
  match mo with
  | MTrap r -> Printf.sprintf "trap %s;0;%Lu;%s;%d;%s;%s;" (show_trap r) (Int64.add tick_sum extra_energy) ncalls (int_of_nat nint) hcalls ticks
  | MOutOfFuel -> Printf.sprintf "fuel;0;0;%s;%d;%s;%s;" ncalls (int_of_nat nint) hcalls ticks
  | MDone (r, mm, _, en) ->
      let (pages, nz) = show_nz mm in
      Printf.sprintf "ok %s;%s;%Lu;%s;%d;%s;%s;%s" (match r with None -> "-" | Some v -> show_val v) pages
        (Int64.add (int64_of_n en) extra_energy) ncalls (int_of_nat nint) hcalls ticks nz

let cmd_c13 (r : rd) : string =
  let fuel_i = num r in
  let fuel = fuel_of fuel_i in
  let c = parse_case r in
  expect r "C";
  let k = num r in
  let parts = times k (fun () ->
    let cfg = next r in
    let metered = num r = 1 in
    let nf = num r in
    let bodies = times nf (fun () -> let nops = num r in times nops (fun () -> opcode_of_tok (next r))) in
    expect r "S";
    let ne = num r in
    let masks = times ne (fun () -> let nm = num r in times nm (fun () -> next r)) in
    let types = if metered then c.m.m_types @ [ { ft_params = [T_i32]; ft_result = Some T_i32 } ] else c.m.m_types in
    let imports = (if metered then [ nat_of_int (List.length c.m.m_types) ] else []) @ c.m.m_imports in
    let names = (if metered then [ ("concordium_metering", "account_memory") ] else []) @ c.names in
    let nimp = List.length imports in
    let funcs = List.map2 (fun f ops -> ((f.f_type, f.f_locals), ops)) c.m.m_funcs bodies in
    let cm = { cm_types = types; cm_imports = imports; cm_funcs = funcs } in
    let compiled = compile_module cm in
    if List.exists (fun x -> x = None) compiled then cfg ^ " nocode @ "
    else begin
      let code = List.filter_map (fun x -> x) compiled in
      let exports = List.sort compare (List.mapi (fun i _ -> (Printf.sprintf "f%d" i, nimp + i)) c.m.m_funcs) in
      let exports = List.map (fun (s, i) -> (bytes_of_string s, n_of_int64 (Int64.of_int i))) exports in
      let bnames = List.map (fun (a, b) -> (bytes_of_string a, bytes_of_string b)) names in
      match s_artifact_of cm c.m (nat_of_int (if metered then 1 else 0)) bnames exports code with
      | None -> cfg ^ " noartifact @ "
      | Some sa ->
          if not (view_okb cm c.m bnames code) then raise (Bad "view_okb false: side condition of to_machine_of_compiled violated");
          if not (wf_artifactb sa) then raise (Bad "wf_artifactb false: the compiled artifact is outside the round-trip theorem");
          let bytes = output_artifact sa in
          (match parse_artifact_strict bytes with
           | Some (_, []) -> ()
           | _ -> raise (Bad "strict parser rejects a serialised artifact"));
          (* the machine runs the RELOADED artifact: parse what was written *)
          let art = match parse_artifact bytes with
            | Some (sa', []) -> to_machine sa'
            | _ -> raise (Bad "model parse_artifact rejects its own output") in
          let keys = Array.of_list (List.map (fun (mn, it) ->
            if mn = "concordium_metering" then 1000L
            else Int64.of_string (String.sub it 1 (String.length it - 1))) names) in
          let hc = make_host keys in
          let extra = match c.m.m_mem with Some l -> Int64.mul (int64_of_n l.l_min) 100L | None -> 0L in
          let ents = List.map2 (fun e ms ->
            let en = nat_of_int e in
            match init_state art en c.args with
            | None -> "noentry"
            | Some st0 ->
                let direct = (m_run_direct art hc fuel [] st0, O) in
                let runs = List.map (fun mask ->
                  let choose (n : nat) (_ : hquery) : bool =
                    if mask = "-" then true
                    else let i = int_of_nat n in i < String.length mask && mask.[i] = '1' in
                  m_drive_count art hc choose fuel fuel [] st0) ms in
                String.concat " ~ " (List.map (show_run art en extra) (direct :: runs))) c.entries masks in
          cfg ^ " " ^ hex_of_bytes bytes ^ " @ " ^ String.concat " | " ents
    end) in
  String.concat " ## " parts

(* ---------- ENG: the v1 engine resume scenario (Contract/V1Resume.v) ----------
   ENG <balance> <n> { <resp> <upd 0|1> <reentrant hex8|-> <refresh 0|1> <write hex8|-> <depth> <recurse> }*n
     resp = s:<balance> | d:<balance>:<hex> | f:<1..11> | r:<code>:<hex>
   answer: ok w,balance,rec,rc1,b1,id2,rc2,b2;...;| <final value hex> | <log sections>   or  trap <step>  or  toomany *)
let bytes_of_hex (h : string) : n list =
  List.init (String.length h / 2) (fun i -> n_of_int64 (Int64.of_string ("0x" ^ String.sub h (2 * i) 2)))
let failure_of_number (k : int) : invoke_failure =
  match k with
  | 1 -> FInsufficientAmount | 2 -> FNonExistentAccount | 3 -> FNonExistentContract | 4 -> FNonExistentEntrypoint
  | 5 -> FSendingV0Failed | 6 -> FRuntimeError | 7 -> FUpgradeInvalidModuleRef | 8 -> FUpgradeInvalidContractName
  | 9 -> FUpgradeInvalidVersion | 10 -> FSignatureDataMalformed | 11 -> FSignatureCheckFailed
  | _ -> raise (Bad "failure number")
let cmd_eng (r : rd) : string =
  let balance = n_of_string (next r) in
  let k = num r in
  let steps = times k (fun () ->
    let resp = next r in
    let upd = num r = 1 in
    let reent = next r in
    let refresh = num r = 1 in
    let wr = next r in
    let depth = n_of_string (next r) in
    let recurse = n_of_string (next r) in
    let resp = match String.split_on_char ':' resp with
      | ["s"; b] -> RSuccess (n_of_string b, None)
      | ["d"; b; h] -> RSuccess (n_of_string b, Some (bytes_of_hex h))
      | ["f"; kk] -> RFailure (failure_of_number (int_of_string kk))
      | ["r"; code; h] -> RFailure (FContractReject (z_of_string code, bytes_of_hex h))
      | _ -> raise (Bad "response") in
    { es_resp = resp; es_upd = upd; es_reentrant = (if reent = "-" then None else Some (bytes_of_hex reent));
      es_refresh = refresh; es_write = (if wr = "-" then None else Some (bytes_of_hex wr));
      es_depth = depth; es_recurse = recurse }) in
  match engine_scenario balance steps with
  | ETooMany -> "toomany"
  | ETrap i -> "trap " ^ string_of_int (int_of_nat i)
  | EDone (obs, fin, logs) ->
      "ok " ^ String.concat ";" (List.map (fun o ->
        Printf.sprintf "%s,%s,%s,%s,%s,%s,%s,%s" (ustr (int64_of_n o.eo_word)) (ustr (int64_of_n o.eo_balance)) (ustr (int64_of_n o.eo_rec))
          (ustr (int64_of_n o.eo_rc1)) (hex_of_bytes o.eo_bytes1)
          (ustr (int64_of_n o.eo_id2)) (ustr (int64_of_n o.eo_rc2)) (hex_of_bytes o.eo_bytes2)) obs)
      ^ ";| " ^ hex_of_bytes fin
      ^ " | " ^ String.concat "/" (List.map (fun sec -> String.concat "," (List.map hex_of_bytes sec)) logs)

(* ---------- CLS / CLI: outcome classification (Contract/V1Classify.v) ----------
   CLS <budget> <n> { <cost> <logs hex,hex|-> <out hex|-> <changed 0|1> <end> }*n      end = i:<kind 0..9>:<cut> | r:<code u32> | t | l
   CLI <budget> <cost> <logs> <out> <changed> <end>
   answer: the results joined by " ; ":  I rem chg logs kind | S rem chg logs rv | R reason rem rv | T rem | O   (CLI: S rem logs rv; E value) *)
let kind_of_index (k : int) : interrupt_kind =
  match k with
  | 0 -> ITransfer | 1 -> ICall | 2 -> IUpgrade | 3 -> IQueryAccountBalance | 4 -> IQueryContractBalance
  | 5 -> IQueryExchangeRates | 6 -> ICheckAccountSignature | 7 -> IQueryAccountKeys
  | 8 -> IQueryContractModuleReference | 9 -> IQueryContractName | _ -> raise (Bad "interrupt kind")
let index_of_kind (k : interrupt_kind) : int =
  match k with
  | ITransfer -> 0 | ICall -> 1 | IUpgrade -> 2 | IQueryAccountBalance -> 3 | IQueryContractBalance -> 4
  | IQueryExchangeRates -> 5 | ICheckAccountSignature -> 6 | IQueryAccountKeys -> 7
  | IQueryContractModuleReference -> 8 | IQueryContractName -> 9
let parse_section (r : rd) : csection =
  let cost = n_of_string (next r) in
  let logs = next r in
  let out = next r in
  let chg = num r = 1 in
  let e = next r in
  let cend = match String.split_on_char ':' e with
    | ["i"; k; cut] -> CEInterrupt (kind_of_index (int_of_string k), n_of_string cut)
    | ["r"; code] -> CEReturn (z_of_string code)
    | ["t"] -> CETrap
    | ["l"] -> CELoop
    | _ -> raise (Bad "section end") in
  { cs_cost = cost;
    cs_logs = (if logs = "-" then [] else List.map bytes_of_hex (String.split_on_char ',' logs));
    cs_out = (if out = "-" then [] else bytes_of_hex out); cs_changed = chg; cs_end = cend }
let show_logs (l : n list list) : string = if l = [] then "-" else String.concat "," (List.map hex_of_bytes l)
let show_bytes (b : n list) : string = if b = [] then "-" else hex_of_bytes b
let show_n (x : n) : string = ustr (int64_of_n x)
let show_rr (x : receive_result) : string =
  match x with
  | RRSuccess (logs, chg, rv, rem) -> Printf.sprintf "S %s %d %s %s" (show_n rem) (if chg then 1 else 0) (show_logs logs) (show_bytes rv)
  | RRInterrupt (rem, chg, logs, k, _) -> Printf.sprintf "I %s %d %s %d" (show_n rem) (if chg then 1 else 0) (show_logs logs) (index_of_kind k)
  | RRReject (reason, rv, rem) -> Printf.sprintf "R %Ld %s %s" (int64_of_z reason) (show_n rem) (show_bytes rv)
  | RRTrap rem -> "T " ^ show_n rem
  | RROutOfEnergy -> "O"
let cmd_cls (r : rd) : string =
  let budget = n_of_string (next r) in
  let k = num r in
  let secs = times k (fun () -> parse_section r) in
  String.concat " ; " (List.map show_rr (classify_scenario budget secs))
let cmd_cli (r : rd) : string =
  let budget = n_of_string (next r) in
  let s = parse_section r in
  match classify_init budget s with
  | Inl None -> "E none"
  | Inl (Some v) -> Printf.sprintf "E %Ld" (int64_of_z v)
  | Inr (IRSuccess (logs, rv, rem)) -> Printf.sprintf "S %s %s %s" (show_n rem) (show_logs logs) (show_bytes rv)
  | Inr (IRReject (reason, rv, rem)) -> Printf.sprintf "R %Ld %s %s" (int64_of_z reason) (show_n rem) (show_bytes rv)
  | Inr (IRTrap rem) -> "T " ^ show_n rem
  | Inr IROutOfEnergy -> "O"

let () =
  try
    while true do
      let line = input_line stdin in
      let toks = Array.of_list (List.filter (fun s -> s <> "") (String.split_on_char ' ' (String.trim line))) in
      let r = { toks; pos = 0 } in
      let out =
        try
          (match next r with
           | "C13" -> cmd_c13 r
           | "ENG" -> cmd_eng r
           | "CLS" -> cmd_cls r
           | "CLI" -> cmd_cli r
           | c -> "ERR unknown command " ^ c)
        with
        | Bad s -> "ERR " ^ s
        | Stack_overflow -> "ERR stack overflow"
        | Failure s -> "ERR failure " ^ s
        | Not_found -> "ERR not found"
        | Invalid_argument s -> "ERR invalid " ^ s
      in
      print_string out; print_newline ()
    done
  with End_of_file -> ()
