(* Line-oriented driver for the extracted trie models (coq/Run/ExtractTrie.v).
   usage: runner (model|spec)   reads stdin:
     H <id> <op>;<op>;...    a history for the state machine  -> "M <id> <out>;<out>;..."
     P <id> <op>;<op>;...    a history for the prefix map      -> "M <id> <out>;..."          *)
open Trie_model

let rec pos_of_int n = if n = 1 then XH else if n land 1 = 0 then XO (pos_of_int (n lsr 1)) else XI (pos_of_int (n lsr 1))
let n_of_int n = if n = 0 then N0 else Npos (pos_of_int n)
let rec int_of_pos = function XH -> 1 | XO p -> 2 * int_of_pos p | XI p -> 2 * int_of_pos p + 1
let int_of_n = function N0 -> 0 | Npos p -> int_of_pos p
let rec nat_of_int n = if n = 0 then O else S (nat_of_int (n - 1))
let rec int_of_nat = function O -> 0 | S n -> 1 + int_of_nat n

let unhex s =
  (* "x" ^ hex *)
  let n = (String.length s - 1) / 2 in
  List.init n (fun i -> n_of_int (int_of_string ("0x" ^ String.sub s (1 + 2 * i) 2)))
let hex l = String.concat "" (List.map (fun b -> Printf.sprintf "%02x" (int_of_n b)) l)
let optval = function None -> "~" | Some v -> hex v

let parse_op s =
  let t = String.split_on_char ' ' s in
  match t with
  | ["I"; k; v] -> OInsert (unhex k, unhex v)
  | ["G"; k] -> OGet (unhex k)
  | ["R"; h] -> ORead (nat_of_int (int_of_string h))
  | ["S"; h; v] -> OSet (nat_of_int (int_of_string h), unhex v)
  | ["M"; h; v] -> OMut (nat_of_int (int_of_string h), unhex v)
  | ["D"; k] -> ODelete (unhex k)
  | ["P"; k] -> ODeletePrefix (unhex k)
  | ["T"; k] -> OIter (unhex k)
  | ["N"; i] -> ONext (nat_of_int (int_of_string i))
  | ["X"; i] -> ODelIter (nat_of_int (int_of_string i))
  | ["+"] -> ONewGen
  | ["-"; r] | ["~"; r] -> ONormalize (nat_of_int (int_of_string r))
  | ["F"] -> OFreeze
  | ["W"] | ["W"; _] | ["K"] -> OThaw
  | _ -> failwith ("bad op: " ^ s)

let show_out = function
  | RSkip -> "x"
  | RLocked -> "L"
  | RTooMany -> "E"
  | RNone -> "-"
  | RBool b -> if b then "1" else "0"
  | RHandle (h, e) -> Printf.sprintf "h%d:%d" (int_of_nat h) (if e then 1 else 0)
  | RFound (h, v) -> Printf.sprintf "f%d=%s" (int_of_nat h) (optval v)
  | RVal v -> "=" ^ optval v
  | RIter i -> Printf.sprintf "i%d" (int_of_nat i)
  | RNext (k, h, v) -> Printf.sprintf "n%s,%d=%s" (hex k) (int_of_nat h) (optval v)
  | RGens n -> Printf.sprintf "g%d" (int_of_nat n)
  | RDump l -> "{" ^ String.concat "," (List.map (fun (k, v) -> hex k ^ "=" ^ optval v) l) ^ "}"

let split_ops s = if s = "" then [] else String.split_on_char ';' s

let run_history use_spec ops =
  if use_spec then begin
    let st = ref s_init in
    List.map (fun o -> let (s', x) = s_step o !st in st := s'; show_out x) ops
  end else begin
    let st = ref m_init in
    List.map (fun o -> let (s', x) = m_step o !st in st := s';
                       let r = show_out x in
                       (* older generations cannot change: check the invariants of the current one *)
                       let ok = match s' with g :: _ -> m_wf [g] | [] -> true in
                       if ok then r else r ^ "!WF") ops
  end

let run_prefix ops =
  let m = ref None in
  List.map (fun s ->
    let c = s.[0] in
    let arg = String.sub s 1 (String.length s - 1) in
    match c with
    | 'i' -> (match pm_insert (unhex arg) !m with Some m' -> m := m'; "1" | None -> "E")
    | 'd' -> let (m', b) = pm_delete (unhex arg) !m in m := m'; if b then "1" else "0"
    | 'c' -> if pm_no_prefix (unhex arg) !m then "1" else "0"
    | 'o' -> if pm_iohp (unhex arg) !m then "1" else "0"
    | 's' -> (match String.split_on_char ':' arg with
              | [k; n] -> let k = unhex k in
                          if int_of_n (pm_count k !m) = 0 then "0"
                          else (m := pm_set k (n_of_int (int_of_string n)) !m; "1")
              | _ -> failwith "bad set")
    | 'u' -> let r = "{" ^ String.concat "," (List.map (fun (k, c) -> hex k ^ ":" ^ string_of_int (int_of_n c)) (pm_dump !m)) ^ "}" in
             if pm_wf !m then r else r ^ "!WF"
    | _ -> failwith ("bad prefix op: " ^ s)) ops

(* ---- nibble-path primitives (coq/Trie/Nibbles.v) ---- *)
let parse_stem t =
  match String.split_on_char '/' t with
  | [h; p] -> { st_data = unhex h; st_partial = (p = "1") }
  | _ -> failwith ("bad stem " ^ t)
let show_stem s = "x" ^ hex s.st_data ^ "/" ^ (if s.st_partial then "1" else "0")
let nibc = function Some v -> Printf.sprintf "%x" (int_of_n v) | None -> "-"
let rec advance it k = if k = 0 then it else advance (snd (it_next it)) (k - 1)

let run_stem_case c =
  let kind = c.[0] in
  let a = Array.of_list (String.split_on_char ',' (String.sub c 1 (String.length c - 1))) in
  let with_len s = show_stem s ^ "#" ^ string_of_int (int_of_nat (st_len s)) in
  match kind with
  | 'p' -> with_len (ms_push (parse_stem a.(0)) (n_of_int (int_of_string a.(1))))
  | 't' -> with_len (ms_truncate (parse_stem a.(0)) (nat_of_int (int_of_string a.(1))))
  | 'e' -> with_len (ms_extend (parse_stem a.(0)) (parse_stem a.(1)))
  | 'r' -> with_len (prepend_parts (parse_stem a.(0)) (parse_stem a.(1)) (n_of_int (int_of_string a.(2))))
  | 'i' ->
      let it = ref { it_data = unhex a.(0); it_pos = O; it_len = nat_of_int (int_of_string a.(1)) } in
      let steps = int_of_string a.(2) in
      let buf = Buffer.create 16 in
      for _ = 1 to steps do
        let (c, it') = it_next !it in Buffer.add_string buf (nibc c); it := it'
      done;
      Printf.sprintf "%s@%d|%s|%s|%s" (Buffer.contents buf) (int_of_nat !it.it_pos)
        (show_stem (to_stem !it)) (show_stem (consumed_to_stem !it))
        (show_stem (last_to_stem !it (nat_of_int (int_of_string a.(3)))))
  | 'f' ->
      let k0 = advance (iter_new (unhex a.(0))) (int_of_string a.(1)) in
      let checkpoint = k0.it_pos in
      let ((r, k), s) = follow_iter k0 (stem_iter (parse_stem a.(2))) in
      let (tag, ks, ss) = match r with
        | IEqual -> (0, None, None)
        | IKeyIsPrefix x -> (1, None, Some x)
        | IStemIsPrefix x -> (2, Some x, None)
        | IDiff (x, y) -> (3, Some x, Some y) in
      Printf.sprintf "%d%s%s@%d,%d|%s|%s|%s|%s" tag (nibc ks) (nibc ss) (int_of_nat k.it_pos) (int_of_nat s.it_pos)
        (show_stem (to_stem k)) (show_stem (to_stem s)) (show_stem (consumed_to_stem s))
        (show_stem (last_to_stem k checkpoint))
  | _ -> failwith ("bad stem case " ^ c)

(* ---- contract-visible layer (coq/Trie/InstanceState.v) ---- *)
let rec bits_of_pos = function XH -> [1] | XO p -> 0 :: bits_of_pos p | XI p -> 1 :: bits_of_pos p
let hex_of_n = function
  | N0 -> "0"
  | Npos p ->
      let rec go bits acc = match bits with
        | [] -> acc
        | _ ->
            let rec take k l = if k = 0 then ([], l) else (match l with [] -> ([], []) | x :: r -> let (a, b) = take (k - 1) r in (x :: a, b)) in
            let (nib, rest) = take 4 bits in
            let v = List.fold_right (fun b acc -> 2 * acc + b) nib 0 in
            go rest (Printf.sprintf "%x" v ^ acc) in
      go (bits_of_pos p) ""
let id_none = "ffffffffffffffff"
let id_err = "bfffffffffffffff"

type level = { mutable eids : (int * n) list; mutable iids : (int * n) list; mutable exhausted : int list;
               mutable ne : int; mutable ni : int }
let new_level () = { eids = []; iids = []; exhausted = []; ne = 0; ni = 0 }
let push_e lv raw id = lv.eids <- (lv.ne, id) :: lv.eids; ignore raw; lv.ne <- lv.ne + 1
let push_i lv raw id = lv.iids <- (lv.ni, id) :: lv.iids; ignore raw; lv.ni <- lv.ni + 1
let pick l i = List.assoc_opt i l
let int_of_id = function None -> 0 | Some id -> int_of_n id
let forged real salt =
  let base = int_of_id real in
  match salt mod 3 with
  | 0 -> base lxor (1 lsl 32)
  | 1 -> (base land (lnot 0xffffffff)) lor 0x00fffff0
  | _ -> base + (7 lsl 32)

let run_inst ops =
  let st = ref (Some c_init) in
  let levels = ref [new_level ()] in
  let outs = ref [] in
  let emit s = outs := s :: !outs in
  let step o = match !st with
    | None -> None
    | Some s -> let (s', x) = c_step o s in st := s'; Some x in
  let show = function
    | XId id -> hex_of_n id | XNum n -> string_of_int (int_of_n n) | XBytes v -> hex v
    | XInvalid -> "invalid" | XMark -> "" in
  let is_valid_id h = h <> id_none && h <> id_err in
  (try List.iter (fun s ->
    if !st = None then raise Exit;
    let lv = List.hd !levels in
    let c = s.[0] in
    let a = String.sub s 1 (String.length s - 1) in
    let args = Array.of_list (String.split_on_char ',' a) in
    let do_next id idkey =
      match step (CNext id) with
      | Some (XId e) ->
          let h = hex_of_n e in
          if is_valid_id h then push_e lv 0 e;
          if h = id_none then lv.exhausted <- idkey :: lv.exhausted;
          emit h
      | _ -> emit "?!" in
    let do_read id size_only =
      match step (if size_only then CSize id else CRead id) with
      | Some x -> emit (show x) | None -> emit "?!" in
    match c with
    | 'l' | 'c' ->
        (match step (if c = 'l' then CLookup (unhex a) else CCreate (unhex a)) with
         | Some (XId id) -> let h = hex_of_n id in if h <> id_none then push_e lv 0 id; emit h
         | _ -> emit "?!")
    | 'd' -> (match step (CDelete (unhex a)) with Some x -> emit (show x) | None -> emit "?!")
    | 'p' -> (match step (CDeletePrefix (unhex a)) with Some x -> emit (show x) | None -> emit "?!")
    | 't' ->
        (match step (CIter (unhex a)) with
         | Some (XId id) -> let h = hex_of_n id in if is_valid_id h then push_i lv 0 id; emit h
         | _ -> emit "?!")
    | 'n' ->
        let i = int_of_string a in
        (match pick lv.iids i with None -> emit "skip" | Some id -> do_next id (int_of_n id))
    | 'G' ->
        let i = int_of_string a in
        let f = forged (pick lv.iids i) i in do_next (n_of_int f) f
    | 'x' ->
        (match pick lv.iids (int_of_string a) with
         | None -> emit "skip"
         | Some id -> (match step (CIterDelete id) with Some x -> emit (show x) | None -> emit "?!"))
    | 'k' ->
        (match pick lv.iids (int_of_string a) with
         | None -> emit "skip"
         | Some id ->
             (match step (CIterKey id) with
              | Some XInvalid -> emit "invalid"
              | Some x -> if List.mem (int_of_n id) lv.exhausted then emit "?" else emit (show x)
              | None -> emit "?!"))
    | 'r' -> (match pick lv.eids (int_of_string a) with None -> emit "skip" | Some id -> do_read id false)
    | 'z' -> (match pick lv.eids (int_of_string a) with None -> emit "skip" | Some id -> do_read id true)
    | 'g' -> let h = int_of_string a in do_read (n_of_int (forged (pick lv.eids h) h)) false
    | 'w' ->
        (match pick lv.eids (int_of_string args.(0)) with
         | None -> emit "skip"
         | Some id ->
             (match step (CWrite (id, n_of_int (int_of_string args.(1)), unhex args.(2))) with
              | Some x -> emit (show x) | None -> emit "?!"))
    | 's' ->
        (match pick lv.eids (int_of_string args.(0)) with
         | None -> emit "skip"
         | Some id ->
             (match step (CResize (id, n_of_int (int_of_string args.(1)))) with
              | Some x -> emit (show x) | None -> emit "?!"))
    | '[' -> ignore (step CInterrupt); levels := new_level () :: !levels; emit "["
    | ']' ->
        ignore (step (CEnd (a = "1"))); emit "]";
        (match !levels with _ :: (_ :: _ as rest) -> levels := rest | _ -> ())
    | _ -> failwith ("bad J op " ^ s)) ops
   with Exit -> ());
  List.rev !outs

(* ---- arena model (coq/Trie/Arena.v) ---- *)
let rec take n l = if n = 0 then [] else match l with [] -> [] | x :: r -> x :: take (n - 1) r
let run_arena ops =
  let st = ref as_init in
  List.map (fun o ->
    let a0 = !st.as_arena in
    let ((cpn, cpv), cpe) = cur_checkpoint a0 in
    let (s', x) = as_step o !st in st := s';
    let a1 = s'.as_arena in
    (* copy-on-write: an operation other than a rollback leaves everything below the checkpoint of the
       generation it ran in untouched *)
    let cow_ok = match o with
      | ONormalize _ -> true
      | _ ->
          let (n, v, e) = (int_of_nat cpn, int_of_nat cpv, int_of_nat cpe) in
          take n a1.a_nodes = take n a0.a_nodes && take v a1.a_values = take v a0.a_values
          && take e a1.a_entries = take e a0.a_entries in
    (* the side condition of the arena rollback theorems: at a checkpoint the root carries the number of
       the current generation *)
    let tag_ok = match o with ONewGen -> root_tag_ok a0 | _ -> true in
    show_out x ^ "#" ^ String.concat "," (List.map (fun n -> string_of_int (int_of_nat n)) (sizes a1))
    ^ (if cow_ok then "" else "!COW") ^ (if tag_ok then "" else "!TAG")) ops

let () =
  let use_spec = Array.length Sys.argv > 1 && Sys.argv.(1) = "spec" in
  (try
    while true do
      let line = input_line stdin in
      let n = String.length line in
      if n >= 2 && (line.[0] = 'H' || line.[0] = 'P' || line.[0] = 'N' || line.[0] = 'J' || line.[0] = 'A') && line.[1] = ' ' then begin
        let rest = String.sub line 2 (n - 2) in
        let i = try String.index rest ' ' with Not_found -> String.length rest in
        let id = String.sub rest 0 i in
        let body = if i < String.length rest then String.sub rest (i + 1) (String.length rest - i - 1) else "" in
        let outs =
          if line.[0] = 'H' then run_history use_spec (List.map parse_op (split_ops body))
          else if line.[0] = 'N' then List.map run_stem_case (split_ops body)
          else if line.[0] = 'J' then run_inst (split_ops body)
          else if line.[0] = 'A' then run_arena (List.map parse_op (split_ops body))
          else run_prefix (split_ops body) in
        print_string ("M " ^ id ^ " " ^ String.concat ";" outs ^ "\n")
      end
    done
  with End_of_file -> ());
  flush stdout
