#!/usr/bin/env python3
"""T4b (C05): simple HAND-WRITTEN `impl Serial for X` / `impl Deserial for X` bodies of concordium_base
-> coq/Gen/ManualImpls.v

usage: gen_manual_impls.py [REPO_DIR] [OUT_FILE]

Recognised ("straight-line") bodies, everything else is listed as not simple and left to the hand-written terms:

  fn serial(&self, OUT)   : a sequence of   OUT.put(&self.PATH);   |   self.PATH.serial(OUT);
  fn deserial(SRC)        : a sequence of   let NAME[: TYPE] = SRC.get()?;   |   let NAME[: TYPE] = TYPE::deserial(SRC)?;
                            optionally intermediate `let g = Struct { a, b, .. };` groupings, and finally
                            Ok(Struct { field, field: name, .. })   /   Ok(Self { .. })

From the two bodies the translator derives, per type,
  * the field order of the encoder (last segment of every PATH) and of the decoder (the struct field every `let` ends up
    in): they must be the SAME sequence - a reordered or dropped line in one of the two bodies is an error
    (reported by checks/C05.py as a broken tie, with the two sequences);
  * the type of every field (the `let` annotation, else the declared type of the struct field), translated with the
    machinery of gen_chain_schemas.py (same MANUAL table / on-chain instantiation of generics);
  * the schema term `m_<Type>` = the fields in that order (`STuple`; one field: its term).

Chain/ManualTie.v proves `m_<Type> = <hand-written term>` by reflexivity for the types in TIE below (so a change of
order or of a field type in the source breaks a proof obligation) and `schema_wf` of every regenerated term."""
import json
import os
import re
import sys

sys.path.insert(0, os.path.dirname(os.path.abspath(__file__)))
import gen_chain_schemas as gcs  # noqa: E402

TranslateError = gcs.TranslateError

# regenerated term -> hand-written term it must equal (Chain/ManualTie.v); a tied type that can no longer be
# translated is a hard failure
TIE = {
    "InitContractPayload": "s_init_contract_payload",
    "UpdateContractPayload": "s_update_contract_payload",
    "PreIdentityProof": "t_PreIdentityProof",
    "BakerKeysPayload": "s_baker_keys_payload_g2", "AddBakerPayload": "s_add_baker_payload_g2",      # the GENERIC_MANUAL template of gen_chain_schemas.py at (IpPairing, ArCurve)
}
EXTRA_MANUAL = {
    "OwnedContractName": "s_contract_name", "OwnedReceiveName": "s_receive_name", "OwnedParameter": "s_parameter",
    "concordium_contracts_common::ModuleReference": "(SRaw 32)",
    "Ed25519DlogProof": "(SOpaque 64 K_DLOG_ED)", "eddsa_ed25519::Ed25519DlogProof": "(SOpaque 64 K_DLOG_ED)",
    "aggregate_sig::Proof<IpPairing>": "(SOpaque 64 K_BLS_PROOF)", "crate::aggregate_sig::Proof<IpPairing>": "(SOpaque 64 K_BLS_PROOF)",
}


def impl_blocks(src):
    """(trait, type name, header text, body text) of every `impl .. Serial|Deserial for Name ..` block."""
    out = []
    for m in re.finditer(r"\bimpl\b", src):
        j = src.find("{", m.end())
        if j < 0:
            continue
        header = src[m.end():j]
        if ";" in header or "fn " in header:
            continue
        hm = re.search(r"(?:^|[\s>:])(Serial|Deserial)\s+for\s+(?:[\w]+::)*([A-Z]\w*)\s*(<.*>)?\s*(where.*)?$", " ".join(header.split()))
        if not hm:
            continue
        try:
            e = gcs.match_close(src, j, "{", "}")
        except TranslateError:
            continue
        out.append((hm.group(1), hm.group(2), " ".join(header.split()), src[j + 1:e - 1]))
    return out


def fn_body(body, fname):
    m = re.search(r"\bfn\s+%s\b" % fname, body)
    if not m:
        return None, None
    p = body.find("(", m.end())
    pe = gcs.match_close(body, p, "(", ")")
    params = body[p + 1:pe - 1]
    j = body.find("{", pe)
    e = gcs.match_close(body, j, "{", "}")
    return params, body[j + 1:e - 1]


def statements(text):
    parts, d, cur = [], 0, []
    for ch in text:
        if ch in "([{":
            d += 1
        elif ch in ")]}":
            d -= 1
        if ch == ";" and d == 0:
            parts.append("".join(cur).strip())
            cur = []
        else:
            cur.append(ch)
    last = "".join(cur).strip()
    return [p for p in parts if p], last


def parse_serial(body):
    params, text = fn_body(body, "serial")
    if text is None:
        return None
    pm = re.search(r"&self\s*,\s*(\w+)\s*:", params)
    if not pm:
        return None
    out = pm.group(1)
    stmts, last = statements(text)
    if last:
        stmts.append(last)
    paths = []
    for s in stmts:
        s = " ".join(s.split())
        m = re.match(r"^%s\.put\(&self\.([\w.]+)\)$" % out, s) or re.match(r"^self\.([\w.]+)\.serial\(%s\)$" % out, s)
        if not m:
            return None
        paths.append(m.group(1).split("."))
    return paths or None


def ctor_fields(text):
    """`Name { a, b: c, .. }` -> (Name, [(field, variable)])"""
    m = re.match(r"^([\w:]+)\s*\{(.*)\}$", text.strip(), flags=re.S)
    if not m:
        return None
    fs = []
    for part in gcs.split_top(m.group(2)):
        part = part.strip()
        if not part:
            continue
        fm = re.match(r"^(\w+)(?:\s*:\s*(\w+))?$", part)
        if not fm:
            return None
        fs.append((fm.group(1), fm.group(2) or fm.group(1)))
    return m.group(1).split("::")[-1], fs


def parse_deserial(body):
    """-> list of (variable, type annotation or None) in reading order, and {variable: field path it ends up in}."""
    params, text = fn_body(body, "deserial")
    if text is None:
        return None
    pm = re.match(r"^\s*(\w+)\s*:", params)
    if not pm:
        return None
    src = pm.group(1)
    stmts, last = statements(text)
    reads, groups = [], {}
    for s in stmts:
        s = " ".join(s.split())
        if re.match(r"^use\s", s):
            continue
        m = re.match(r"^let (\w+)(?:\s*:\s*(.+?))?\s*=\s*%s\.get\(\)\?$" % src, s)
        if m:
            reads.append((m.group(1), m.group(2)))
            continue
        m = re.match(r"^let (\w+)(?:\s*:\s*(.+?))?\s*=\s*(?:<(.+)>|([\w:<>, ]+?))::deserial\(%s\)\?$" % src, s)
        if m:
            reads.append((m.group(1), m.group(2) or m.group(3) or m.group(4)))
            continue
        m = re.match(r"^let (\w+)\s*=\s*(.+)$", s)
        if m:
            c = ctor_fields(m.group(2))
            if c is None:
                return None
            groups[m.group(1)] = c[1]
            continue
        return None
    m = re.match(r"^Ok\((.*)\)$", " ".join(last.split()), flags=re.S)
    if not m:
        return None
    c = ctor_fields(m.group(1))
    if c is None:
        return None
    where = {}

    def place(fields, prefix):
        for f, v in fields:
            if v in groups:
                place(groups[v], prefix + [f])
            else:
                where[v] = prefix + [f]
    place(c[1], [])
    if not reads or any(v not in where for v, _ in reads):
        return None
    return reads, where


def struct_fields(src, name):
    m = re.search(r"\bstruct\s+%s\b[^;{(]*\{" % re.escape(name), src)
    if not m:
        return None
    j = m.end() - 1
    e = gcs.match_close(src, j, "{", "}")
    return {f["name"]: f["type"] for f in (gcs.field_of(x) for x in gcs.split_top(src[j + 1:e - 1]) if x.strip()) if f["name"]}


def generate(repo="/repo", out=None):
    here = os.path.dirname(os.path.dirname(os.path.abspath(__file__)))
    out = out or os.path.join(here, "coq", "Gen", "ManualImpls.v")
    saved = dict(gcs.MANUAL)
    gcs.MANUAL.update(EXTRA_MANUAL)
    try:
        decls, finfo = gcs.scan(repo)
        tr = gcs.Translator(decls, finfo)
        impls = {}       # type name -> {"file":, "Serial": body, "Deserial": body, "header":}
        import glob
        files = sorted(glob.glob(os.path.join(repo, gcs.SRC, "**", "*.rs"), recursive=True))
        srcs = {}
        for f in files:
            src = gcs.strip_comments(open(f).read())
            cut = re.search(r"#\[cfg\(test\)\]\s*(pub\s+)?mod\s+\w+\s*\{", src)
            if cut:
                src = src[:cut.start()]
            rel = os.path.relpath(f, os.path.join(repo, gcs.SRC))
            srcs[rel] = src
            for trait, name, header, body in impl_blocks(src):
                key = (rel, name)
                impls.setdefault(key, {"file": rel, "name": name})[trait] = body
                impls[key][trait + "_header"] = header
        done, not_simple, errors = {}, [], {}
        pairs = 0
        todo = sorted(impls.items()) + sorted(impls.items())      # second pass: impls that refer to another translated impl
        for (rel, name), d in todo:
            if "Serial" not in d or "Deserial" not in d:
                continue
            if name in done or "%s (%s)" % (name, rel) in not_simple:
                continue
            if "%s (%s)" % (name, rel) not in errors:
                pairs += 1
            errors.pop("%s (%s)" % (name, rel), None)
            ser = parse_serial(d["Serial"])
            des = parse_deserial(d["Deserial"])
            if ser is None or des is None:
                not_simple.append("%s (%s)" % (name, rel))
                continue
            reads, where = des
            ser_fields = [".".join(p) for p in ser]
            des_fields = [".".join(where[v]) for v, _ in reads]
            try:
                if ser_fields != des_fields:
                    raise TranslateError("encoder writes the fields in the order %s but the decoder reads %s" % (ser_fields, des_fields))
                # generic parameters of the impl at the on-chain instantiation
                gm = re.match(r"^\s*<(.*?)>\s*(?:[\w:]+::)?(?:Serial|Deserial)\b", d["Deserial_header"])
                env = {}
                if gm:
                    for g in gcs.split_top(gm.group(1)):
                        g = g.split(":")[0].strip()
                        if g.startswith("'"):
                            continue
                        env[g] = gcs.DEFAULT_ENV.get(g)
                sf = struct_fields(srcs[rel], name) or {}
                for g in list(env):
                    if env[g] is None:
                        # a marker parameter that only occurs inside PhantomData<_> occupies no bytes
                        if sf and all(not re.search(r"\b%s\b" % re.escape(g), t) or re.match(r"^(std::marker::|marker::)?PhantomData<", t) for t in sf.values()):
                            env[g] = "()"
                        else:
                            raise TranslateError("generic parameter %s has no on-chain instantiation" % g)
                terms = []
                for (v, ann), path in zip(reads, [where[v] for v, _ in reads]):
                    t = ann
                    if t is None:
                        if len(path) != 1 or path[0] not in sf:
                            raise TranslateError("no type for field %s (no annotation, nested path)" % ".".join(path))
                        t = sf[path[0]]
                    terms.append(tr.ty(t, env, "m_" + name, rel))
                key = name if name not in done else "%s__%s" % (name, re.sub(r"\W", "_", rel[:-3]))
                done[key] = {"term": terms[0] if len(terms) == 1 else "(STuple [%s])" % "; ".join(terms), "file": rel,
                             "fields": ser_fields}
                # later impls may refer to this one (by name, through a marker instantiation or a type alias of it)
                gcs.MANUAL.setdefault(name, "m_" + key)
                for an, (ap, at) in finfo.get(rel, {}).get("aliases", {}).items():
                    if re.match(r"^%s\s*<" % re.escape(name), at) and not ap:
                        gcs.MANUAL.setdefault(an, "m_" + key)
                        gcs.MANUAL.setdefault(at, "m_" + key)
            except TranslateError as ex:
                errors["%s (%s)" % (name, rel)] = str(ex)
        broken = [n for n in TIE if n not in done]
        if broken:
            raise TranslateError("hand-written impls with a tied schema term can no longer be translated: %s" % "; ".join(
                "%s (%s)" % (n, next((v for k, v in errors.items() if k.startswith(n + " ")), "impl not found or no longer straight-line")) for n in broken))
        # generated definitions the terms refer to must exist in Gen/ChainSchemas.v (same translator state as T4: names are stable)
        lines = ["(** GENERATED by translators/gen_manual_impls.py from %s - do not edit.  One [schema] term per hand-written" % gcs.SRC,
                 "    straight-line `impl Serial` / `impl Deserial` pair, read off the two function bodies (field order checked to agree). *)",
                 "From Coq Require Import NArith List Bool.", "From CB Require Import Common.Codec Chain.ChainSchemas Gen.ChainSchemas.",
                 "Import ListNotations.", "Local Open Scope N_scope.", ""]
        # the template instance PreIdentityProof is tied to
        t_pre = tr.ty("PreIdentityProof<P, C>", {"P": "IpPairing", "C": "ArCurve"}, "t_PreIdentityProof", "id/types.rs")
        lines.append("(* GENERIC_MANUAL template of gen_chain_schemas.py for PreIdentityProof at (IpPairing, ArCurve) *)")
        lines.append("Definition t_PreIdentityProof : schema := %s." % t_pre)
        emitted = []

        def emit(n):
            if n in emitted:
                return
            emitted.append(n)
            for dep in re.findall(r"\bm_(\w+)", done[n]["term"]):
                if dep in done:
                    emit(dep)
            lines.append("(* %s  fields: %s *)" % (done[n]["file"], ", ".join(done[n]["fields"])))
            lines.append("Definition m_%s : schema := %s." % (n, done[n]["term"]))
        for n in sorted(done):
            emit(n)
        lines.append("")
        lines.append("Definition manual_impl_all : list schema := [%s]." % "; ".join("m_" + n for n in sorted(done)))
        lines.append("Definition manual_tie_pairs : list (schema * schema) := [%s]." % "; ".join("(m_%s, %s)" % (n, TIE[n]) for n in sorted(TIE)))
        txt = "\n".join(lines) + "\n"
        # every g_ name used must be defined by T4's output
        gen_v = os.path.join(here, "coq", "Gen", "ChainSchemas.v")
        have = set(re.findall(r"^Definition g_(\w+)", open(gen_v).read(), flags=re.M)) if os.path.exists(gen_v) else set()
        missing = sorted(set(re.findall(r"\bg_(\w+)", txt)) - have)
        if missing:
            raise TranslateError("regenerated impl terms refer to types T4 did not translate: %s" % ", ".join(missing))
        if not os.path.exists(out) or open(out).read() != txt:
            os.makedirs(os.path.dirname(out), exist_ok=True)
            open(out, "w").write(txt)
        return {"impl_pairs": pairs, "straight_line_translated": sorted(done), "tied_equal": sorted(TIE),
                "not_simple": len(not_simple), "not_simple_list": not_simple, "errors": errors}
    finally:
        gcs.MANUAL.clear()
        gcs.MANUAL.update(saved)


if __name__ == "__main__":
    r = generate(sys.argv[1] if len(sys.argv) > 1 else os.environ.get("VERIF_REPO", "/repo"), sys.argv[2] if len(sys.argv) > 2 else None)
    print(json.dumps(r, indent=1))
