#!/usr/bin/env python3
"""Run every translator against REPO (default /repo) and write coq/Gen/*.v (used by setup.sh; every check also
runs its own translator first).  A translator failure is reported and leaves the previous generated file in place."""
import os, sys, importlib, traceback
V = os.path.dirname(os.path.dirname(os.path.abspath(__file__)))
sys.path.insert(0, V); sys.path.insert(0, os.path.join(V, "translators"))
repo = sys.argv[1] if len(sys.argv) > 1 else os.environ.get("VERIF_REPO", "/repo")
gen = os.path.join(V, "coq", "Gen")
os.makedirs(gen, exist_ok=True)
rc = 0
def attempt(name, f):
    global rc
    try:
        f(); print("translator", name, "ok")
    except Exception:
        rc = 1; print("translator", name, "FAILED"); traceback.print_exc()
import gen_limits, gen_hostcosts, gen_costs, gen_cbor_schemas, gen_chain_schemas
attempt("gen_limits", lambda: gen_limits.generate(repo, os.path.join(gen, "Limits.v")))
attempt("gen_hostcosts", lambda: gen_hostcosts.generate(repo, os.path.join(gen, "HostCosts.v")))
attempt("gen_costs", lambda: gen_costs.generate(repo, gen))
attempt("gen_cbor_schemas", lambda: gen_cbor_schemas.generate(repo, os.path.join(gen, "CborSchemas.v")))
attempt("gen_chain_schemas", lambda: gen_chain_schemas.generate(repo, os.path.join(gen, "ChainSchemas.v")))
def manual_impls():
    import gen_manual_impls
    gen_manual_impls.generate(repo, os.path.join(gen, "ManualImpls.v"))
attempt("gen_manual_impls", manual_impls)
def txcost():
    from checks import c06_txcost
    src = open(os.path.join(repo, "rust-src/concordium_base/src/transactions.rs")).read()
    for fn in ("generate", "translate", "gen"):
        if hasattr(c06_txcost, fn):
            r = getattr(c06_txcost, fn)(src)
            if isinstance(r, tuple): r = r[0]
            if isinstance(r, str):
                p = os.path.join(gen, "TxCost.v")
                if not os.path.exists(p) or open(p).read() != r: open(p, "w").write(r)
            return
    raise RuntimeError("no entry point in c06_txcost")
attempt("c06_txcost", txcost)
sys.exit(rc)
