#!/usr/bin/env python3
"""T4 (C05 part): #[derive(Serialize)] / #[derive(Serial, Deserial)] types of concordium_base -> coq/Gen/ChainSchemas.v

usage: gen_chain_schemas.py [REPO_DIR] [OUT_FILE]

Scans rust-src/concordium_base/src/**/*.rs (test modules cut off) for structs and enums whose derive list
contains the crate's own `Serialize` (= Serial + Deserial) or `Serial` / `Deserial` (serde's, concordium_std's and
the CBOR derives are other macros and are ignored), reads the field order and the attributes
`#[size_length = n]`, `#[map_size_length = n]`, `#[set_size_length = n]`, `#[string_size_length = n]`, and
translates each declaration into a `schema` term of coq/Common/Codec.v exactly as
concordium_base_derive/src/lib.rs generates the code:

  struct, named or tuple fields -> the fields in declaration order: `STuple [f1; ...; fn]`;
                                   a struct with ONE field is that field's term (transparent newtype: same bytes)
  enum                          -> `SSum [(0, v0); (1, v1); ...]`: u8 tag = declaration index, then the variant's fields
                                   (no fields: SUnit; one field: its term; several: STuple)
  field with size_length = n        -> Vec<T>: `SVec BE n T` (also for T = u8: the derived code pushes element by element)
  field with map_size_length = n    -> BTreeMap<K, V>: `SMap BE n K V`   (strictly increasing keys, checked on decode)
  field with set_size_length = n    -> BTreeSet<K>: `SSet BE n K`
  field with string_size_length = n -> String: `SRefine (POpaque K_UTF8) (SBytes BE n (256^n - 1))`
  field without attribute           -> the term of its type:
       u8..u64, i8..i64 (raw two's complement), bool, (), PhantomData<_>, Box<T>, [u8; N], [T; N], (A, B), (A, B, C),
       Vec<T> / BTreeMap / BTreeSet (u64 length prefix), String (u64 prefix, UTF-8),
       Option<T> is NOT serialisable in this crate (no impl) -> error,
       another derived type by name (`g_<Name>`), and the types with hand-written impls listed in MANUAL
       (name -> hand-written term of Chain/ChainSchemas.v, or an opaque leaf `SOpaque n kind` for curve points, scalars, keys).

Generic types are translated for the instantiations listed in INSTANCES only.  Anything the translator cannot
map raises TranslateError for that type; the type is then reported under `unsupported` (with the reason) and
stays in the evidence list of unmodelled types - it is never defaulted.  A type that has a hand-written term
(EQUAL / LAYOUT tables below) and cannot be translated any more is a hard failure (broken tie).

Output: `g_<Type>` per translated type, `gen_schema_table : list (N * schema)` (ids from 200, stable by
sorted name within a run) and `gen_names : list (N * string-as-comment)`; Chain/GenTie.v proves
`g_X = s_X` for the fully derived types that also have a hand-written term, `layout_of g_X = layout_of s_X` for
derived-Serial types whose Deserial is hand-written (the hand-written term adds refinements / bounds), and
`schema_wf` of every generated term by computation."""
import glob
import json
import os
import re
import sys


class TranslateError(Exception):
    pass


SRC = "rust-src/concordium_base/src"
SER_TOKENS = {"Serialize", "common::Serialize", "crate::common::Serialize", "Serial", "common::Serial", "crate::common::Serial"}
DES_TOKENS = {"Serialize", "common::Serialize", "crate::common::Serialize", "Deserial", "common::Deserial", "crate::common::Deserial"}

PRIM = {"u8": "SU8", "u16": "SU16", "u32": "SU32", "u64": "SU64", "i8": "SU8", "i16": "SU16", "i32": "SU32", "i64": "SU64",
        "bool": "SBool", "()": "SUnit"}

# Types with hand-written Serial/Deserial impls (or from other crates): Rust name -> Coq term.
# Terms named s_* are the hand-written ones of Chain/ChainSchemas.v (tied by correspondence);
# SOpaque leaves have abstract validity (sizes confirmed by the implementation-produced pool).
MANUAL = {
    "Amount": "s_amount", "AccountAddress": "s_account_address", "ContractAddress": "s_contract_address",
    "Address": "s_address", "Timestamp": "s_timestamp", "TransactionTime": "s_transaction_time",
    "PayloadSize": "s_payload_size", "Signature": "s_signature", "Memo": "s_memo", "RegisteredData": "s_registered_data",
    "Ratio": "s_ratio", "ExchangeRate": "s_exchange_rate", "LeverageFactor": "s_leverage_factor",
    "PartsPerHundredThousands": "s_amount_fraction", "UrlText": "s_url_text", "OpenStatus": "s_open_status",
    "DelegationTarget": "s_delegation_target", "VerifyKey": "s_verify_key", "CredentialPublicKeys": "s_credential_public_keys",
    "AccessStructure": "s_access_structure", "TransactionSignature": "s_transaction_signature",
    "UpdateInstructionSignature": "s_update_instruction_signature", "UpdateKeysThreshold": "s_update_keys_threshold",
    "InclusiveRange<AmountFraction>": "s_inclusive_range_fraction", "Duration": "SU64",
    "concordium_contracts_common::Duration": "SU64", "SignatureThreshold": "s_threshold_u8", "AccountThreshold": "s_threshold_u8",
    "MintDistributionV0": "s_mint_distribution_v0", "MintDistributionV1": "s_mint_distribution_v1",
    "TransactionFeeDistribution": "s_transaction_fee_distribution", "TimeoutParameters": "s_timeout_parameters",
    "hashes::Hash": "(SRaw 32)", "Hash": "(SRaw 32)", "ModuleReference": "(SRaw 32)", "TokenModuleRef": "(SRaw 32)",
    "std::num::NonZeroU16": "(SRefine (PGe 1) SU16)", "NonZeroU16": "(SRefine (PGe 1) SU16)",
    "ed25519_dalek::VerifyingKey": "(SOpaque 32 K_ED25519_PK)", "ed25519::VerifyingKey": "(SOpaque 32 K_ED25519_PK)",
    "ecvrf::PublicKey": "(SOpaque 32 K_VRF_PK)", "aggregate_sig::PublicKey<AggregateSigPairing>": "(SOpaque 96 K_BLS_PK)",
    "CredentialRegistrationID": "(SOpaque 48 K_CRED_ID)",
    "Threshold": "(SRefine (PGe 1) SU8)", "ArIdentity": "(SRefine (PGe 1) SU32)",   # id/secret_sharing.rs, id/types.rs: non-zero
    "ArCurve": "(SOpaque 48 K_G1)", "ed25519::Signature": "(SRaw 64)", "ed25519_dalek::Signature": "(SRaw 64)",
}
# first path segments that denote modules of concordium_base itself (a path through them is resolved by its last segment)
INTERNAL_MODULES = {"id", "hashes", "transactions", "updates", "base", "common", "smart_contracts", "encrypted_transfers",
                    "protocol_level_tokens", "elgamal", "web3id", "constants", "types", "did", "v1", "anchor", "aggregate_sig",
                    "ps_sig", "pedersen_commitment", "random_oracle", "curve_arithmetic", "bulletproofs", "sigma_protocols",
                    "id_proof_types", "secret_sharing", "dodis_yampolskiy_prf", "ecvrf", "eddsa_ed25519"}
# hash newtypes: HashBytes<Marker> aliases are 32 raw bytes
HASH_RE = re.compile(r"^(hashes::)?\w*Hash$|^HashBytes<.*>$")

# generic instantiations to translate: (type name, {param: concrete}) -> output name
INSTANCES = [("Cipher", {"C": "ArCurve"}), ("EncryptedAmount", {"C": "ArCurve"}), ("Commitment", {"C": "ArCurve"}),
             ("PublicKey__elgamal_public", {"C": "ArCurve"})]

# translated types that cannot be named from outside the crate (private module / item) or whose values need
# crate-internal invariants: they keep their generated term and theorem but are not exercised by the harness
SKIP_GLUE = {}
# items re-exported from a private module: public path of the declaration
PATH_OVERRIDE = {"Cipher": "concordium_base::elgamal::Cipher", "Commitment": "concordium_base::pedersen_commitment::Commitment",
                 "PublicKey__elgamal_public": "concordium_base::elgamal::PublicKey"}

# hand-written terms the generated ones are tied to (Chain/GenTie.v)
EQUAL = {   # fully derived (Serialize): generated term = hand-written term
    "TransactionHeader": "s_transaction_header", "UpdateHeader": "s_update_header", "GASRewards": "s_gas_rewards",
    "GASRewardsV1": "s_gas_rewards_v1", "CooldownParameters": "s_cooldown_parameters", "TimeParameters": "s_time_parameters",
    "PoolParameters": "s_pool_parameters", "CommissionRanges": "s_commission_ranges", "MintRate": "s_mint_rate",
    "FinalizationCommitteeParameters": "s_finalization_committee_parameters", "AuthorizationsV0": "s_authorizations_v0",
    "AmountFraction": "s_amount_fraction", "UpdateKeysThreshold": "s_update_keys_threshold", "TransactionTime": "s_transaction_time",
    "UpdatePublicKey": "s_verify_key", "ContractAddressG": None,
}
LAYOUT = {  # derived Serial, hand-written Deserial: same layout once refinements and bounds are erased
    "Memo": "s_memo", "RegisteredData": "s_registered_data", "PayloadSize": "s_payload_size", "Ratio": "s_ratio",
    "LeverageFactor": "s_leverage_factor", "MintDistributionV0": "s_mint_distribution_v0",
    "MintDistributionV1": "s_mint_distribution_v1", "TransactionFeeDistribution": "s_transaction_fee_distribution",
    "AccessStructure": "s_access_structure", "UpdateInstructionSignature": "s_update_instruction_signature",
    "TimeoutParameters": "s_timeout_parameters", "UrlText": "s_url_text",
    "HigherLevelAccessStructure": "s_higher_level_access_structure",
}
del EQUAL["ContractAddressG"]


def strip_comments(src):
    out, i, n = [], 0, len(src)
    while i < n:
        ch = src[i]
        if ch == '"':
            j = i + 1
            while j < n and src[j] != '"':
                j += 2 if src[j] == "\\" else 1
            out.append('""')
            i = j + 1
        elif src.startswith("//", i):
            while i < n and src[i] != "\n":
                i += 1
        elif src.startswith("/*", i):
            j = src.find("*/", i + 2)
            i = n if j < 0 else j + 2
        elif ch == "'" and i + 2 < n and (src[i + 2] == "'" or (src[i + 1] == "\\" and src.find("'", i + 2) - i <= 4)):
            j = src.find("'", i + 2)
            out.append("' '")
            i = j + 1
        else:
            out.append(ch)
            i += 1
    return "".join(out)


def match_close(s, i, op, cl):
    """s[i] == op; index just past the matching cl."""
    d = 0
    n = len(s)
    while i < n:
        if s[i] == op:
            d += 1
        elif s[i] == cl:
            d -= 1
            if d == 0:
                return i + 1
        i += 1
    raise TranslateError("unbalanced %s%s" % (op, cl))


def split_top(s, sep=","):
    parts, d, cur = [], 0, []
    i = 0
    while i < len(s):
        ch = s[i]
        if ch in "<([{":
            d += 1
        elif ch in ")]}":
            d -= 1
        elif ch == ">" and (i == 0 or s[i - 1] != "-"):
            d -= 1
        if ch == sep and d == 0:
            parts.append("".join(cur))
            cur = []
        else:
            cur.append(ch)
        i += 1
    if "".join(cur).strip():
        parts.append("".join(cur))
    return [p.strip() for p in parts]


def parse_attrs(s, i):
    """Consecutive #[...] attributes starting at s[i:] (whitespace skipped).  Returns (list of attr bodies, index)."""
    attrs = []
    n = len(s)
    while True:
        while i < n and s[i].isspace():
            i += 1
        if s.startswith("#[", i):
            j = match_close(s, i + 1, "[", "]")
            attrs.append(s[i + 2:j - 1])
            i = j
        else:
            return attrs, i


def field_of(text):
    """One field: attributes, optional visibility, optional `name:`, type."""
    attrs, i = parse_attrs(text, 0)
    rest = text[i:].strip()
    rest = re.sub(r"^pub(\([^)]*\))?\s+", "", rest)
    m = re.match(r"^(r#)?([A-Za-z_]\w*)\s*:(?!:)\s*(.*)$", rest, flags=re.S)
    name, ty = (m.group(2), m.group(3)) if m else (None, rest)
    sl = {}
    for a in attrs:
        m2 = re.match(r"^\s*(?:concordium\()?\s*(size_length|map_size_length|set_size_length|string_size_length)\s*=\s*(\d+)\s*\)?\s*$", a)
        if m2 and not a.strip().startswith("concordium"):
            sl[m2.group(1)] = int(m2.group(2))
    return {"name": name, "type": " ".join(ty.split()), "len_attr": sl}


def scan(repo):
    """All items with the crate's Serial/Deserial derives.  name -> decl dict."""
    decls = {}
    files = sorted(glob.glob(os.path.join(repo, SRC, "**", "*.rs"), recursive=True))
    if not files:
        raise TranslateError("no sources under %s" % os.path.join(repo, SRC))
    for f in files:
        src = strip_comments(open(f).read())
        cut = re.search(r"#\[cfg\(test\)\]\s*(pub\s+)?mod\s+\w+\s*\{", src)
        if cut:
            src = src[:cut.start()]
        rel = os.path.relpath(f, os.path.join(repo, SRC))
        for m in re.finditer(r"\b(struct|enum)\s+([A-Z]\w*)", src):
            # attributes immediately before (walk back over `pub`, attributes)
            k = m.start()
            pre = src[:k].rstrip()
            pre = re.sub(r"pub(\([^)]*\))?$", "", pre).rstrip()
            attrs = []
            while pre.endswith("]"):
                # find the matching "#["
                d, j = 0, len(pre) - 1
                while j >= 0:
                    if pre[j] == "]":
                        d += 1
                    elif pre[j] == "[":
                        d -= 1
                        if d == 0:
                            break
                    j -= 1
                if j < 1 or pre[j - 1] != "#":
                    break
                attrs.append(pre[j + 1:-1])
                pre = pre[:j - 1].rstrip()
            derives = set()
            for a in attrs:
                for dm in re.finditer(r"\bderive\s*\(", a):
                    if re.search(r"cfg_attr\s*\($", a[:dm.start()].rstrip()[:-0] if False else ""):
                        pass
                    e = match_close(a, dm.end() - 1, "(", ")")
                    if a.strip().startswith("cfg_attr"):
                        continue          # conditional derives (serde_deprecated ...) never carry the binary derives
                    derives |= {x.strip() for x in a[dm.end():e - 1].split(",")}
            ser, des = bool(derives & SER_TOKENS), bool(derives & DES_TOKENS)
            if not (ser or des):
                continue
            kind, name = m.group(1), m.group(2)
            i = m.end()
            generics = ""
            while src[i].isspace():
                i += 1
            if src[i] == "<":
                j = match_close(src, i, "<", ">")
                generics = src[i + 1:j - 1]
                i = j
            # skip where clauses up to the body
            body_start = i
            while src[body_start] not in "{(;":
                body_start += 1
            d = {"name": name, "kind": kind, "file": rel, "generics": [g.split(":")[0].strip() for g in split_top(generics)] if generics else [],
                 "serial": ser, "deserial": des, "pub": bool(re.search(r"\bpub\s*$", src[:k].rstrip()[-4:] + " ") or re.search(r"pub\s+$", src[max(0, k - 8):k]))}
            if kind == "struct":
                if src[body_start] == "{":
                    e = match_close(src, body_start, "{", "}")
                    d["fields"] = [field_of(x) for x in split_top(src[body_start + 1:e - 1]) if x.strip()]
                    d["shape"] = "named"
                elif src[body_start] == "(":
                    e = match_close(src, body_start, "(", ")")
                    d["fields"] = [field_of(x) for x in split_top(src[body_start + 1:e - 1]) if x.strip()]
                    d["shape"] = "tuple"
                else:
                    d["fields"] = []
                    d["shape"] = "unit"
            else:
                e = match_close(src, body_start, "{", "}")
                variants = []
                for v in split_top(src[body_start + 1:e - 1]):
                    if not v.strip():
                        continue
                    _, vi = parse_attrs(v, 0)
                    v = v[vi:].strip()
                    vm = re.match(r"^([A-Z]\w*)\s*(.*)$", v, flags=re.S)
                    if not vm:
                        raise TranslateError("%s: cannot parse variant %r" % (name, v[:60]))
                    vname, vrest = vm.group(1), vm.group(2).strip()
                    if vrest.startswith("{"):
                        vf = [field_of(x) for x in split_top(vrest[1:match_close(vrest, 0, "{", "}") - 1]) if x.strip()]
                    elif vrest.startswith("("):
                        vf = [field_of(x) for x in split_top(vrest[1:match_close(vrest, 0, "(", ")") - 1]) if x.strip()]
                    elif vrest == "" or vrest.startswith("="):
                        vf = []
                    else:
                        raise TranslateError("%s::%s: unexpected variant body" % (name, vname))
                    variants.append({"name": vname, "fields": vf})
                d["variants"] = variants
            if name in decls:
                # same type name in another module: the later one is registered as Name__<module> and
                # references are resolved file-first (see Translator.resolve)
                alt = "%s__%s" % (name, re.sub(r"\W", "_", rel[:-3]))
                d["name"] = alt
                decls[alt] = d
                decls[name].setdefault("homonyms", []).append(alt)
            else:
                decls[name] = d
    return decls


class Translator:
    def __init__(self, decls):
        self.decls = decls
        self.done = {}        # name -> coq term text
        self.deps = {}        # name -> set of generated names it references
        self.errors = {}      # name -> reason
        self.inst = {}        # output name -> (declaration name, generic environment)
        self.stack = []

    def pow256m1(self, n):
        return str(256 ** n - 1)

    def ty(self, t, env, owner):
        t = t.strip()
        t = re.sub(r"^(crate::|super::|common::types::|common::|types::|base::|self::)+", "", t)
        if t in env:
            return self.ty(env[t], {}, owner)
        if t in PRIM:
            return PRIM[t]
        if t in MANUAL:
            return MANUAL[t]
        if HASH_RE.match(t):
            return "(SRaw 32)"
        m = re.match(r"^(?:std::marker::|marker::)?PhantomData<.*>$", t)
        if m:
            return "SUnit"
        m = re.match(r"^Box<(.*)>$", t)
        if m:
            return self.ty(m.group(1), env, owner)
        m = re.match(r"^\[(.*);\s*(\w+)\]$", t)
        if m:
            n = m.group(2)
            if not n.isdigit():
                consts = {"ACCOUNT_ADDRESS_SIZE": "32", "SHA256": "32"}
                if n not in consts:
                    raise TranslateError("array length %s is not a literal" % n)
                n = consts[n]
            if m.group(1).strip() == "u8":
                return "(SRaw %s)" % n
            return "(SArray %s %s)" % (n, self.ty(m.group(1), env, owner))
        if t.startswith("(") and t.endswith(")"):
            parts = split_top(t[1:-1])
            if len(parts) in (2, 3):
                return "(STuple [%s])" % "; ".join(self.ty(p, env, owner) for p in parts)
            raise TranslateError("tuple of %d components has no Serial impl" % len(parts))
        m = re.match(r"^Vec<(.*)>$", t)
        if m:
            return "(SVec BE 8 %s)" % self.ty(m.group(1), env, owner)
        m = re.match(r"^(?:std::collections::)?BTreeMap<(.*)>$", t)
        if m:
            k, v = split_top(m.group(1))
            return "(SMap BE 8 %s %s)" % (self.ty(k, env, owner), self.ty(v, env, owner))
        m = re.match(r"^(?:std::collections::)?BTreeSet<(.*)>$", t)
        if m:
            return "(SSet BE 8 %s)" % self.ty(m.group(1), env, owner)
        if t == "String":
            return "(SRefine (POpaque K_UTF8) (SBytes BE 8 %s))" % self.pow256m1(8)
        m = re.match(r"^Option<", t)
        if m:
            raise TranslateError("Option<_> has no Serial/Deserial impl in this crate (field type %s)" % t)
        m = re.match(r"^([A-Za-z_][\w:]*)\s*(<(.*)>)?$", t)
        if m:
            segs = m.group(1).split("::")
            if len(segs) > 1 and segs[0] not in INTERNAL_MODULES:
                raise TranslateError("no schema for foreign type `%s`" % t)
            base = segs[-1]
            args = split_top(m.group(3)) if m.group(3) else []
            if base in MANUAL and not args:
                return MANUAL[base]
            if base in self.decls:
                base = self.resolve(base, owner)
                d = self.decls[base]
                if not d["deserial"] or not d["serial"]:
                    # the other half is hand-written (usually a decoder with extra checks): the derived layout alone is
                    # not the type's format - it needs a hand-written term listed in MANUAL
                    raise TranslateError("field type %s has a hand-written %s and no term in MANUAL" % (base, "Deserial" if d["serial"] else "Serial"))
                if d["generics"]:
                    real = [g for g in d["generics"] if not g.startswith("'")]
                    key = (base, tuple(args))
                    if len(real) != len(args):
                        raise TranslateError("generic arity mismatch for %s" % t)
                    # a generic type whose parameters only occur in PhantomData translates uniformly
                    name = self.translate(base, dict(zip(real, [self.subst(a, env) for a in args])))
                else:
                    name = self.translate(base, {})
                self.deps.setdefault(owner, set()).add(name)
                return "g_" + name
        raise TranslateError("no schema for field type `%s`" % t)

    PREFERRED = ("base.rs", "common/types.rs", "transactions.rs", "updates.rs", "id/types.rs")

    def resolve(self, base, owner):
        """Homonyms: the declaration in the referring type's own file wins, then the chain-type modules."""
        cands = [base] + self.decls[base].get("homonyms", [])
        if len(cands) == 1:
            return base
        of = self.decls[self.owner_decl(owner)]["file"] if self.owner_decl(owner) else None
        same = [c for c in cands if self.decls[c]["file"] == of]
        if len(same) == 1:
            return same[0]
        for pf in self.PREFERRED:
            hit = [c for c in cands if self.decls[c]["file"] == pf]
            if len(hit) == 1:
                return hit[0]
        raise TranslateError("type name %s is declared in several modules (%s)" % (base, ", ".join(self.decls[c]["file"] for c in cands)))

    def owner_decl(self, owner):
        if owner in self.decls:
            return owner
        for k in self.decls:
            if owner.startswith(k + "_"):
                return k
        return None

    def subst(self, a, env):
        return env.get(a.strip(), a.strip())

    def field(self, f, env, owner):
        la = f["len_attr"]
        t = f["type"]
        t = re.sub(r"^(crate::|super::|common::)+", "", t)
        if la:
            if len(la) != 1:
                raise TranslateError("several length attributes on one field")
            (k, n), = la.items()
            if n not in (1, 2, 4, 8):
                raise TranslateError("length attribute %d" % n)
            if k == "size_length":
                m = re.match(r"^Vec<(.*)>$", t)
                if not m:
                    raise TranslateError("size_length on non-Vec field type %s" % t)
                return "(SVec BE %d %s)" % (n, self.ty(m.group(1), env, owner))
            if k == "map_size_length":
                m = re.match(r"^(?:std::collections::)?BTreeMap<(.*)>$", t)
                if not m:
                    raise TranslateError("map_size_length on non-BTreeMap field type %s" % t)
                kk, vv = split_top(m.group(1))
                return "(SMap BE %d %s %s)" % (n, self.ty(kk, env, owner), self.ty(vv, env, owner))
            if k == "set_size_length":
                m = re.match(r"^(?:std::collections::)?BTreeSet<(.*)>$", t)
                if not m:
                    raise TranslateError("set_size_length on non-BTreeSet field type %s" % t)
                return "(SSet BE %d %s)" % (n, self.ty(m.group(1), env, owner))
            if k == "string_size_length":
                if t != "String":
                    raise TranslateError("string_size_length on non-String field type %s" % t)
                return "(SRefine (POpaque K_UTF8) (SBytes BE %d %s))" % (n, self.pow256m1(n))
        return self.ty(t, env, owner)

    def fields_term(self, fields, env, owner):
        # PhantomData fields occupy no bytes and carry no value: dropped
        fields = [f for f in fields if not re.match(r"^(std::marker::|marker::)?PhantomData<", f["type"])]
        terms = [self.field(f, env, owner) for f in fields]
        if len(terms) == 1:
            return terms[0]
        if not terms:
            return "SUnit"
        return "(STuple [%s])" % "; ".join(terms)

    def translate(self, name, env):
        d = self.decls[name]
        out = name if not env or all(self.is_phantom_only(d, g) for g in env) else name + "_" + "_".join(re.sub(r"\W", "", v) for v in env.values())
        self.inst[out] = (name, dict(env))
        if out in self.done:
            return out
        if out in self.errors:
            raise TranslateError("depends on %s (%s)" % (out, self.errors[out]))
        if out in self.stack:
            raise TranslateError("recursive type %s" % out)
        self.stack.append(out)
        try:
            if d["kind"] == "struct":
                term = self.fields_term(d["fields"], env, out)
                if d["shape"] == "unit":
                    raise TranslateError("derive on a unit struct panics in the macro")
            else:
                if len(d["variants"]) > 256:
                    raise TranslateError("more than 256 variants")
                alts = []
                for i, v in enumerate(d["variants"]):
                    for f in v["fields"]:
                        if f["len_attr"]:
                            raise TranslateError("length attribute inside an enum variant (rejected by the macro)")
                    alts.append("(%d, %s)" % (i, self.fields_term(v["fields"], env, out)))
                term = "(SSum [%s])" % "; ".join(alts)
            self.done[out] = term
            return out
        except TranslateError as ex:
            self.errors[out] = str(ex)
            raise
        finally:
            self.stack.pop()

    def is_phantom_only(self, d, g):
        fs = d.get("fields") or [f for v in d.get("variants", []) for f in v["fields"]]
        for f in fs:
            t = f["type"]
            if re.search(r"\b%s\b" % re.escape(g), t) and not re.match(r"^(std::marker::|marker::)?PhantomData<", t):
                return False
        return True


def generate(repo="/repo", out=None):
    here = os.path.dirname(os.path.dirname(os.path.abspath(__file__)))
    out = out or os.path.join(here, "coq", "Gen", "ChainSchemas.v")
    decls = scan(repo)
    tr = Translator(decls)
    order = []
    for name in sorted(decls):
        d = decls[name]
        real = [g for g in d["generics"] if not g.startswith("'")]
        try:
            if real and not all(tr.is_phantom_only(d, g) for g in real):
                insts = [v for (n2, v) in INSTANCES if n2 == name]
                if not insts:
                    raise TranslateError("generic over %s (no instantiation configured)" % ", ".join(real))
                for env in insts:
                    tr.translate(name, dict(env))
            else:
                tr.translate(name, {g: "()" for g in real})
        except TranslateError as ex:
            tr.errors.setdefault(name, str(ex))
    # hard failures: a tied type that can no longer be translated
    broken = [n for n in list(EQUAL) + list(LAYOUT) if n not in tr.done]
    if broken:
        raise TranslateError("types with a hand-written schema term can no longer be translated: %s" %
                             "; ".join("%s (%s)" % (n, tr.errors.get(n, "declaration not found")) for n in broken))
    # emit in dependency order
    emitted, lines = set(), []

    def emit(n):
        if n in emitted:
            return
        emitted.add(n)
        for dep in sorted(tr.deps.get(n, ())):
            emit(dep)
        order.append(n)
    for n in sorted(tr.done):
        emit(n)
    def decl_of(n):
        return decls[tr.inst[n][0]]
    both = [n for n in order if decl_of(n)["serial"] and decl_of(n)["deserial"]]
    hdr = ["(** GENERATED by translators/gen_chain_schemas.py from %s - do not edit.  One [schema] term per" % SRC,
           "    #[derive(Serialize)] / #[derive(Serial)] type, as concordium_base_derive generates the code. *)",
           "From Coq Require Import NArith List Bool.", "From CB Require Import Common.Codec Chain.ChainSchemas.",
           "Import ListNotations.", "Local Open Scope N_scope.", ""]
    for n in order:
        d = decl_of(n)
        lines.append("(* %s  %s %s%s%s *)" % (d["file"], d["kind"], n, "" if d["serial"] else "  [Deserial only]", "" if d["deserial"] else "  [Serial derived, Deserial hand-written]"))
        lines.append("Definition g_%s : schema := %s." % (n, tr.done[n]))
    # table of the fully derived types that are not tied to a hand-written term
    table = [n for n in both if n not in EQUAL and n not in SKIP_GLUE and decl_of(n).get("pub", True)]
    lines.append("")
    lines.append("(** Fully derived types (Serial and Deserial both generated) without a hand-written term: registered for the")
    lines.append("    correspondence run under the ids below. *)")
    lines.append("Definition gen_schema_table : list (N * schema) :=")
    lines.append("  [%s]." % ";\n   ".join("(%d, g_%s)" % (200 + i, n) for i, n in enumerate(table)))
    lines.append("Definition gen_all : list schema := [%s]." % "; ".join("g_" + n for n in order))
    lines.append("Definition gen_equal_pairs : list (schema * schema) := [%s]." % "; ".join("(g_%s, %s)" % (n, EQUAL[n]) for n in sorted(EQUAL)))
    lines.append("Definition gen_layout_pairs : list (schema * schema) := [%s]." % "; ".join("(g_%s, %s)" % (n, LAYOUT[n]) for n in sorted(LAYOUT)))
    def rust_path(n):
        d = decl_of(n)
        mod = d["file"][:-3]
        if mod.endswith("/mod"):
            mod = mod[:-4]
        base, env = tr.inst[n]
        tyname = base.split("__")[0]
        args = ""
        real = [g for g in d["generics"] if not g.startswith("'")]
        if real:
            known = {"ArCurve": "concordium_base::id::constants::ArCurve", "AttributeTag": "concordium_base::id::types::AttributeTag", "()": "()"}
            args = "<" + ", ".join(known.get(env.get(g, "()"), env.get(g, "()")) for g in real) + ">"
        if base in PATH_OVERRIDE:
            return PATH_OVERRIDE[base] + args
        return "concordium_base::" + mod.replace("/", "::") + "::" + tyname + args
    glue = ["// GENERATED by translators/gen_chain_schemas.py - do not edit.  Schema id => Rust type for the derived types",
            "// that have a generated schema term (coq/Gen/ChainSchemas.v gen_schema_table).",
            "macro_rules! gen_types { ($m:ident) => { $m! {"]
    glue.append(",\n".join("    %d => %s" % (200 + i, rust_path(n)) for i, n in enumerate(table)))
    glue.append("} }; }")
    gpath = os.path.join(here, "harness", "c05", "src", "gen_types.rs")
    gtxt = "\n".join(glue) + "\n"
    if not os.path.exists(gpath) or open(gpath).read() != gtxt:
        open(gpath, "w").write(gtxt)
    txt = "\n".join(hdr + lines) + "\n"
    if not os.path.exists(out) or open(out).read() != txt:
        os.makedirs(os.path.dirname(out), exist_ok=True)
        open(out, "w").write(txt)
    return {"translated": len(order), "fully_derived": len(both), "registered": {str(200 + i): n for i, n in enumerate(table)},
            "tied_equal": sorted(EQUAL), "tied_layout": sorted(LAYOUT),
            "serial_only": sorted(n for n in order if n not in both),
            "unsupported": {n: tr.errors[n] for n in sorted(tr.errors)}}


if __name__ == "__main__":
    r = generate(sys.argv[1] if len(sys.argv) > 1 else os.environ.get("VERIF_REPO", "/repo"), sys.argv[2] if len(sys.argv) > 2 else None)
    print(json.dumps(r, indent=1))
