#!/usr/bin/env python3
"""T4 (C05 part): #[derive(Serialize)] / #[derive(Serial, Deserial)] types of concordium_base -> coq/Gen/ChainSchemas.v

usage: gen_chain_schemas.py [REPO_DIR] [OUT_FILE]

Scans rust-src/concordium_base/src/**/*.rs (test modules cut off) for structs and enums whose derive list
contains the crate's own `Serialize` (= Serial + Deserial) or `Serial` / `Deserial` (serde's, concordium_std's and
the CBOR derives are other macros and are ignored), reads the field order and the attributes
`#[size_length = n]`, `#[map_size_length = n]`, `#[set_size_length = n]`, `#[string_size_length = n]`, and
translates each declaration into a `schema` term of coq/Common/Codec.v exactly as
concordium_base_derive/src/lib.rs generates the code:

  struct, named or tuple fields -> the fields in declaration order: `STuple [f1; ...; fn]`;
                                   a struct with ONE field is that field's term (transparent newtype: same bytes)
  enum                          -> `SSum [(0, v0); (1, v1); ...]`: u8 tag = declaration index, then the variant's fields
                                   (no fields: SUnit; one field: its term; several: STuple)
  field with size_length = n        -> Vec<T>: `SVec BE n T` (also for T = u8: the derived code pushes element by element)
  field with map_size_length = n    -> BTreeMap<K, V>: `SMap BE n K V`   (strictly increasing keys, checked on decode)
  field with set_size_length = n    -> BTreeSet<K>: `SSet BE n K`
  field with string_size_length = n -> String: `SRefine (POpaque K_UTF8) (SBytes BE n (256^n - 1))`
  field without attribute           -> the term of its type:
       u8..u64, i8..i64 (raw two's complement), bool, (), PhantomData<_>, Box<T>, [u8; N], [T; N], (A, B), (A, B, C),
       Vec<T> / BTreeMap / BTreeSet (u64 length prefix), String (u64 prefix, UTF-8),
       Option<T> is NOT serialisable in this crate (no impl) -> error,
       another derived type by name (`g_<Name>`), and the types with hand-written impls listed in MANUAL
       (name -> hand-written term of Chain/ChainSchemas.v, or an opaque leaf `SOpaque n kind` for curve points, scalars, keys).

Generic types are translated for the instantiations listed in INSTANCES only.  Anything the translator cannot
map raises TranslateError for that type; the type is then reported under `unsupported` (with the reason) and
stays in the evidence list of unmodelled types - it is never defaulted.  A type that has a hand-written term
(EQUAL / LAYOUT tables below) and cannot be translated any more is a hard failure (broken tie).

Output: `g_<Type>` per translated type, `gen_schema_table : list (N * schema)` (ids from 200, stable by
sorted name within a run) and `gen_names : list (N * string-as-comment)`; Chain/GenTie.v proves
`g_X = s_X` for the fully derived types that also have a hand-written term, `layout_of g_X = layout_of s_X` for
derived-Serial types whose Deserial is hand-written (the hand-written term adds refinements / bounds), and
`schema_wf` of every generated term by computation."""
import glob
import json
import os
import re
import sys


class TranslateError(Exception):
    pass


SRC = "rust-src/concordium_base/src"
SER_TOKENS = {"Serialize", "common::Serialize", "crate::common::Serialize", "Serial", "common::Serial", "crate::common::Serial"}
DES_TOKENS = {"Serialize", "common::Serialize", "crate::common::Serialize", "Deserial", "common::Deserial", "crate::common::Deserial"}

PRIM = {"u8": "SU8", "u16": "SU16", "u32": "SU32", "u64": "SU64", "i8": "SU8", "i16": "SU16", "i32": "SU32", "i64": "SU64",
        "bool": "SBool", "()": "SUnit"}

# Types with hand-written Serial/Deserial impls (or from other crates): Rust name -> Coq term.
# Terms named s_* are the hand-written ones of Chain/ChainSchemas.v (tied by correspondence);
# SOpaque leaves have abstract validity (sizes confirmed by the implementation-produced pool).
MANUAL = {
    "Amount": "s_amount", "AccountAddress": "s_account_address", "ContractAddress": "s_contract_address",
    "Address": "s_address", "Timestamp": "s_timestamp", "TransactionTime": "s_transaction_time",
    "PayloadSize": "s_payload_size", "Signature": "s_signature", "Memo": "s_memo", "RegisteredData": "s_registered_data",
    "Ratio": "s_ratio", "ExchangeRate": "s_exchange_rate", "LeverageFactor": "s_leverage_factor",
    "PartsPerHundredThousands": "s_amount_fraction", "UrlText": "s_url_text", "OpenStatus": "s_open_status",
    "DelegationTarget": "s_delegation_target", "VerifyKey": "s_verify_key", "CredentialPublicKeys": "s_credential_public_keys",
    "AccessStructure": "s_access_structure", "TransactionSignature": "s_transaction_signature",
    "UpdateInstructionSignature": "s_update_instruction_signature", "UpdateKeysThreshold": "s_update_keys_threshold",
    "InclusiveRange<AmountFraction>": "s_inclusive_range_fraction", "Duration": "SU64",
    "concordium_contracts_common::Duration": "SU64", "SignatureThreshold": "s_threshold_u8", "AccountThreshold": "s_threshold_u8",
    "MintDistributionV0": "s_mint_distribution_v0", "MintDistributionV1": "s_mint_distribution_v1",
    "TransactionFeeDistribution": "s_transaction_fee_distribution", "TimeoutParameters": "s_timeout_parameters",
    "hashes::Hash": "(SRaw 32)", "Hash": "(SRaw 32)", "ModuleReference": "(SRaw 32)", "TokenModuleRef": "(SRaw 32)",
    "std::num::NonZeroU16": "(SRefine (PGe 1) SU16)", "NonZeroU16": "(SRefine (PGe 1) SU16)",
    "ed25519_dalek::VerifyingKey": "(SOpaque 32 K_ED25519_PK)", "ed25519::VerifyingKey": "(SOpaque 32 K_ED25519_PK)",
    "ecvrf::PublicKey": "(SOpaque 32 K_VRF_PK)", "aggregate_sig::PublicKey<AggregateSigPairing>": "(SOpaque 96 K_BLS_PK)",
    "CredentialRegistrationID": "(SOpaque 48 K_CRED_ID)",
    "Threshold": "(SRefine (PGe 1) SU8)", "ArIdentity": "(SRefine (PGe 1) SU32)",   # id/secret_sharing.rs, id/types.rs: non-zero
    "ArCurve": "(SOpaque 48 K_G1)", "ed25519::Signature": "(SRaw 64)", "ed25519_dalek::Signature": "(SRaw 64)",
    # curve leaves of the on-chain instantiation (BLS12-381): G1 point, G2 point, scalar
    "BlsG2": "(SOpaque 96 K_G2)", "Fr": "(SOpaque 32 K_FR)",
    # small hand-written impls (terms in Chain/ChainSchemas.v or inline)
    "AttributeKind": "s_attribute_kind", "YearMonth": "s_year_month", "Network": "(SEnum 2)", "did::Network": "(SEnum 2)",
    "WasmVersion": "(SRefine (PLe 1) SU32)", "ModuleSource": "(SBytes BE 4 MAX_WASM_MODULE_SIZE)", "TokenId": "s_token_id",
    "chrono::DateTime<chrono::Utc>": "s_datetime_utc", "RawCbor": "(SBytes BE 4 4294967295)",
    # opaque fixed-size leaves without a validity condition (secret keys are raw byte arrays): abstract fixed-length byte leaves
    "ed25519_dalek::SecretKey": "(SRaw 32)", "ecvrf::SecretKey": "(SRaw 32)",
    # foreign arkworks group behind the `Group` alias of encrypted_transfers/ffi.rs = ArCurve
    "ArkGroup<G1Projective>": "(SOpaque 48 K_G1)",
    # hand-written three-variant sum of web3id/mod.rs (tags written by the impl: 0 String, 1 Numeric, 2 Timestamp)
    "Web3IdAttribute": "(SSum [(0, s_attribute_kind); (1, SU64); (2, s_timestamp)])",
    "AccountOwnershipProof": "(SRefine (PAnd (PLenGe 1) PSortedKeys) (SVec BE 1 (STuple [{KeyIndex}; {AccountOwnershipSignature}])))",
}
# generic types with hand-written impls: name -> (parameters, term with {Type} placeholders)
GENERIC_MANUAL = {
    "Policy": (["C", "AttributeType"], "(STuple [{YearMonth}; {YearMonth}; (SMap BE 2 {AttributeTag} {AttributeType})])"),
    "CredDeploymentProofs": (["P", "C"],
        "(SFramed SU32 [] (STuple [{crate::ps_sig::BlindedSignature<P>}; {CredentialDeploymentCommitments<C>}; {Challenge}; "
        "(SMap BE 4 {ArIdentity} {com_enc_eq::Response<C>}); {com_eq_sig::Response<P, C>}; {com_mult::Response<C>}; "
        "{AccountOwnershipProof}; {RangeProof<C>}]))"),
    "AtomicStatement": (["C", "TagType", "AttributeType"],
        "(SSum [(0, {RevealAttributeStatement<TagType>}); (1, {AttributeInRangeStatement<C, TagType, AttributeType>}); "
        "(2, {AttributeInSetStatement<C, TagType, AttributeType>}); (3, {AttributeNotInSetStatement<C, TagType, AttributeType>})])"),
    "AtomicProof": (["C", "AttributeType"],
        "(SSum [(0, (STuple [{AttributeType}; {crate::sigma_protocols::common::SigmaProof<dlog::Response<C>>}])); (1, {RangeProof<C>}); "
        "(2, {SetMembershipProof<C>}); (3, {SetNonMembershipProof<C>})])"),
    # id/types.rs: hand-written straight-line impl (regenerated from the impl bodies by translators/gen_manual_impls.py
    # and proved equal there: Chain/ManualTie.v)
    "PreIdentityProof": (["P", "C"],
        "(STuple [{Challenge}; {dlog::Response<C>}; {com_eq::Response<C>}; {com_eq_different_groups::Response<P::G1, C>}; "
        "{com_eq::Response<C>}; {AccountOwnershipProof}; {Vec<RangeProof<C>>}])"),
    "AccountCredential": (["P", "C", "AttributeType"],
        "(SSum [(0, {InitialCredentialDeploymentInfo<C, AttributeType>}); (1, {CredentialDeploymentInfo<P, C, AttributeType>})])"),
}
# first path segments that denote modules of concordium_base itself (a path through them is resolved by its last segment)
INTERNAL_MODULES = {"id", "hashes", "transactions", "updates", "base", "common", "smart_contracts", "encrypted_transfers",
                    "protocol_level_tokens", "elgamal", "web3id", "constants", "types", "did", "v1", "anchor", "aggregate_sig",
                    "ps_sig", "pedersen_commitment", "random_oracle", "curve_arithmetic", "bulletproofs", "sigma_protocols",
                    "id_proof_types", "secret_sharing", "dodis_yampolskiy_prf", "ecvrf", "eddsa_ed25519"}
# hash newtypes: HashBytes<Marker> aliases are 32 raw bytes
HASH_RE = re.compile(r"^(hashes::)?\w*Hash$|^HashBytes<.*>$")

# generic instantiations to translate: (type name, {param: concrete}) -> output name
INSTANCES_UNUSED = [("Cipher", {"C": "ArCurve"}), ("EncryptedAmount", {"C": "ArCurve"}), ("Commitment", {"C": "ArCurve"}),
             ("PublicKey__elgamal_public", {"C": "ArCurve"})]

# bare generic wrappers that no derived type references: instantiations at which they are exercised against the code
EXTRA_INSTANCES = {
    "AndResponse": [{"R1": "dlog::Response<ArCurve>", "R2": "com_eq::Response<ArCurve>"}],
    "ReplicateResponse": [{"R": "com_enc_eq::Response<ArCurve>"}],
    "ReplicatePoints": [{"P": "ArCurve"}],
}

# translated types that cannot be named from outside the crate (private module / item) or whose values need
# crate-internal invariants: they keep their generated term and theorem but are not exercised by the harness
SKIP_GLUE = {"Response__sigma_protocols_dlogaggequal_ArCurve": "declared in a private module that is not re-exported"}
# items re-exported from a private module: public path of the declaration
PATH_OVERRIDE = {}

# hand-written terms the generated ones are tied to (Chain/GenTie.v)
EQUAL = {   # fully derived (Serialize): generated term = hand-written term
    "TransactionHeader": "s_transaction_header", "UpdateHeader": "s_update_header", "GASRewards": "s_gas_rewards",
    "GASRewardsV1": "s_gas_rewards_v1", "CooldownParameters": "s_cooldown_parameters", "TimeParameters": "s_time_parameters",
    "PoolParameters": "s_pool_parameters", "CommissionRanges": "s_commission_ranges", "MintRate": "s_mint_rate",
    "FinalizationCommitteeParameters": "s_finalization_committee_parameters", "AuthorizationsV0": "s_authorizations_v0",
    "AmountFraction": "s_amount_fraction", "UpdateKeysThreshold": "s_update_keys_threshold", "TransactionTime": "s_transaction_time",
    "UpdatePublicKey": "s_verify_key", "ArInfo_ArCurve": "s_ar_info", "Description": "s_description", "ContractAddressG": None,
}
LAYOUT = {  # derived Serial, hand-written Deserial: same layout once refinements and bounds are erased
    "Memo": "s_memo", "RegisteredData": "s_registered_data", "PayloadSize": "s_payload_size", "Ratio": "s_ratio",
    "LeverageFactor": "s_leverage_factor", "MintDistributionV0": "s_mint_distribution_v0",
    "MintDistributionV1": "s_mint_distribution_v1", "TransactionFeeDistribution": "s_transaction_fee_distribution",
    "AccessStructure": "s_access_structure", "UpdateInstructionSignature": "s_update_instruction_signature",
    "TimeoutParameters": "s_timeout_parameters", "UrlText": "s_url_text",
    "HigherLevelAccessStructure": "s_higher_level_access_structure",
}
del EQUAL["ContractAddressG"]


OTHER_MACRO = []


def strip_comments(src):
    out, i, n = [], 0, len(src)
    while i < n:
        ch = src[i]
        if ch == '"':
            j = i + 1
            while j < n and src[j] != '"':
                j += 2 if src[j] == "\\" else 1
            out.append('""')
            i = j + 1
        elif src.startswith("//", i):
            while i < n and src[i] != "\n":
                i += 1
        elif src.startswith("/*", i):
            j = src.find("*/", i + 2)
            i = n if j < 0 else j + 2
        elif ch == "'" and i + 2 < n and (src[i + 2] == "'" or (src[i + 1] == "\\" and src.find("'", i + 2) - i <= 4)):
            j = src.find("'", i + 2)
            out.append("' '")
            i = j + 1
        else:
            out.append(ch)
            i += 1
    return "".join(out)


def match_close(s, i, op, cl):
    """s[i] == op; index just past the matching cl."""
    d = 0
    n = len(s)
    while i < n:
        if s[i] == op:
            d += 1
        elif s[i] == cl:
            d -= 1
            if d == 0:
                return i + 1
        i += 1
    raise TranslateError("unbalanced %s%s" % (op, cl))


def split_top(s, sep=","):
    parts, d, cur = [], 0, []
    i = 0
    while i < len(s):
        ch = s[i]
        if ch in "<([{":
            d += 1
        elif ch in ")]}":
            d -= 1
        elif ch == ">" and (i == 0 or s[i - 1] != "-"):
            d -= 1
        if ch == sep and d == 0:
            parts.append("".join(cur))
            cur = []
        else:
            cur.append(ch)
        i += 1
    if "".join(cur).strip():
        parts.append("".join(cur))
    return [p.strip() for p in parts]


def parse_attrs(s, i):
    """Consecutive #[...] attributes starting at s[i:] (whitespace skipped).  Returns (list of attr bodies, index)."""
    attrs = []
    n = len(s)
    while True:
        while i < n and s[i].isspace():
            i += 1
        if s.startswith("#[", i):
            j = match_close(s, i + 1, "[", "]")
            attrs.append(s[i + 2:j - 1])
            i = j
        else:
            return attrs, i


def field_of(text):
    """One field: attributes, optional visibility, optional `name:`, type."""
    attrs, i = parse_attrs(text, 0)
    rest = text[i:].strip()
    rest = re.sub(r"^pub(\([^)]*\))?\s+", "", rest)
    m = re.match(r"^(r#)?([A-Za-z_]\w*)\s*:(?!:)\s*(.*)$", rest, flags=re.S)
    name, ty = (m.group(2), m.group(3)) if m else (None, rest)
    sl = {}
    for a in attrs:
        m2 = re.match(r"^\s*(?:concordium\()?\s*(size_length|map_size_length|set_size_length|string_size_length)\s*=\s*(\d+)\s*\)?\s*$", a)
        if m2 and not a.strip().startswith("concordium"):
            sl[m2.group(1)] = int(m2.group(2))
    return {"name": name, "type": " ".join(ty.split()), "len_attr": sl}


def scan(repo):
    """All items with the crate's Serial/Deserial derives (name -> decl dict) and per-file imports / type aliases."""
    decls = {}
    finfo = {}
    del OTHER_MACRO[:]
    files = sorted(glob.glob(os.path.join(repo, SRC, "**", "*.rs"), recursive=True))
    if not files:
        raise TranslateError("no sources under %s" % os.path.join(repo, SRC))
    for f in files:
        src = strip_comments(open(f).read())
        cut = re.search(r"#\[cfg\(test\)\]\s*(pub\s+)?mod\s+\w+\s*\{", src)
        if cut:
            src = src[:cut.start()]
        rel = os.path.relpath(f, os.path.join(repo, SRC))
        finfo[rel] = {"uses": parse_uses(src), "aliases": parse_type_aliases(src)}
        other_macro = "concordium_contracts_common" in finfo[rel]["uses"].get("Serialize", [])
        for m in re.finditer(r"\b(struct|enum)\s+([A-Z]\w*)", src):
            # attributes immediately before (walk back over `pub`, attributes)
            k = m.start()
            pre = src[:k].rstrip()
            pre = re.sub(r"pub(\([^)]*\))?$", "", pre).rstrip()
            attrs = []
            while pre.endswith("]"):
                # find the matching "#["
                d, j = 0, len(pre) - 1
                while j >= 0:
                    if pre[j] == "]":
                        d += 1
                    elif pre[j] == "[":
                        d -= 1
                        if d == 0:
                            break
                    j -= 1
                if j < 1 or pre[j - 1] != "#":
                    break
                attrs.append(pre[j + 1:-1])
                pre = pre[:j - 1].rstrip()
            derives = set()
            for a in attrs:
                for dm in re.finditer(r"\bderive\s*\(", a):
                    if re.search(r"cfg_attr\s*\($", a[:dm.start()].rstrip()[:-0] if False else ""):
                        pass
                    e = match_close(a, dm.end() - 1, "(", ")")
                    if a.strip().startswith("cfg_attr"):
                        continue          # conditional derives (serde_deprecated ...) never carry the binary derives
                    derives |= {x.strip() for x in a[dm.end():e - 1].split(",")}
            ser, des = bool(derives & SER_TOKENS), bool(derives & DES_TOKENS)
            if not (ser or des):
                continue
            if other_macro:
                # `Serialize` here is concordium_contracts_common's derive (little endian, Option supported): another macro
                OTHER_MACRO.append("%s (%s)" % (m.group(2), rel))
                continue
            kind, name = m.group(1), m.group(2)
            i = m.end()
            generics = ""
            while src[i].isspace():
                i += 1
            if src[i] == "<":
                j = match_close(src, i, "<", ">")
                generics = src[i + 1:j - 1]
                i = j
            # skip where clauses up to the body
            body_start = i
            while src[body_start] not in "{(;":
                body_start += 1
            d = {"name": name, "kind": kind, "file": rel, "generics": [g.split(":")[0].strip() for g in split_top(generics)] if generics else [],
                 "bounds": {g.split(":")[0].strip(): (g.split(":", 1)[1].strip() if ":" in g else "") for g in split_top(generics)} if generics else {},
                 "serial": ser, "deserial": des, "pub": bool(re.search(r"\bpub\s*$", src[:k].rstrip()[-4:] + " ") or re.search(r"pub\s+$", src[max(0, k - 8):k]))}
            if kind == "struct":
                if src[body_start] == "{":
                    e = match_close(src, body_start, "{", "}")
                    d["fields"] = [field_of(x) for x in split_top(src[body_start + 1:e - 1]) if x.strip()]
                    d["shape"] = "named"
                elif src[body_start] == "(":
                    e = match_close(src, body_start, "(", ")")
                    d["fields"] = [field_of(x) for x in split_top(src[body_start + 1:e - 1]) if x.strip()]
                    d["shape"] = "tuple"
                else:
                    d["fields"] = []
                    d["shape"] = "unit"
            else:
                e = match_close(src, body_start, "{", "}")
                variants = []
                for v in split_top(src[body_start + 1:e - 1]):
                    if not v.strip():
                        continue
                    _, vi = parse_attrs(v, 0)
                    v = v[vi:].strip()
                    vm = re.match(r"^([A-Z]\w*)\s*(.*)$", v, flags=re.S)
                    if not vm:
                        raise TranslateError("%s: cannot parse variant %r" % (name, v[:60]))
                    vname, vrest = vm.group(1), vm.group(2).strip()
                    if vrest.startswith("{"):
                        vf = [field_of(x) for x in split_top(vrest[1:match_close(vrest, 0, "{", "}") - 1]) if x.strip()]
                    elif vrest.startswith("("):
                        vf = [field_of(x) for x in split_top(vrest[1:match_close(vrest, 0, "(", ")") - 1]) if x.strip()]
                    elif vrest == "" or vrest.startswith("="):
                        vf = []
                    else:
                        raise TranslateError("%s::%s: unexpected variant body" % (name, vname))
                    variants.append({"name": vname, "fields": vf})
                d["variants"] = variants
            if name in decls:
                # same type name in another module: the later one is registered as Name__<module> and
                # references are resolved file-first (see Translator.resolve)
                alt = "%s__%s" % (name, re.sub(r"\W", "_", rel[:-3]))
                d["name"] = alt
                decls[alt] = d
                decls[name].setdefault("homonyms", []).append(alt)
            else:
                decls[name] = d
    return decls, finfo


def parse_uses(src):
    """`use` statements of a file: imported name or alias -> list of path segments (crate/self/super dropped)."""
    out = {}

    def walk(prefix, item):
        item = item.strip()
        if not item:
            return
        m = re.match(r"^((?:[A-Za-z_]\w*::)*)\{(.*)\}$", item, flags=re.S)
        if m:
            pre = prefix + [x for x in m.group(1).split("::") if x]
            for sub in split_top(m.group(2)):
                walk(pre, sub)
            return
        m = re.match(r"^([A-Za-z_][\w:]*?)(?:\s+as\s+(\w+))?$", item, flags=re.S)
        if not m or item.endswith("*"):
            return
        segs = prefix + [x for x in m.group(1).split("::") if x]
        segs = [x for x in segs if x not in ("crate", "self", "super")]
        if not segs:
            return
        name = m.group(2) or segs[-1]
        if name != "_":
            out.setdefault(name, segs)
    for m in re.finditer(r"\buse\s+([^;]+);", src):
        walk([], " ".join(m.group(1).split()))
    return out


def parse_type_aliases(src):
    """`type Name<Params> = Target;`  ->  name -> (params, target)."""
    out = {}
    for m in re.finditer(r"^(?:pub(?:\([^)]*\))?\s+)?type\s+([A-Z]\w*)\s*(<[^=;]*>)?\s*=\s*([^;]+);", src, flags=re.M):
        params = [g.split(":")[0].strip() for g in split_top(m.group(2)[1:-1])] if m.group(2) else []
        out[m.group(1)] = ([q for q in params if not q.startswith("'")], " ".join(m.group(3).split()))
    return out


# the instantiation used on chain
DEFAULT_ENV = {"P": "IpPairing", "C": "ArCurve", "AttributeType": "AttributeKind", "TagType": "AttributeTag", "F": "Fr",
               "C1": "ArCurve", "C2": "ArCurve", "D": "ArCurve"}
ASSOC = {("ArCurve", "Scalar"): "Fr", ("BlsG2", "Scalar"): "Fr", ("IpPairing", "ScalarField"): "Fr", ("IpPairing", "G1"): "ArCurve",
         ("IpPairing", "G2"): "BlsG2", ("Fr", "Scalar"): "Fr"}
CONCRETE_RUST = {"ArCurve": "concordium_base::id::constants::ArCurve", "IpPairing": "concordium_base::id::constants::IpPairing",
                 "AttributeKind": "concordium_base::id::constants::AttributeKind", "AttributeTag": "concordium_base::id::types::AttributeTag",
                 "BlsG2": "concordium_base::id::constants::BlsG2", "Fr": "concordium_base::id::constants::BaseField", "()": "()",
                 "Web3IdAttribute": "concordium_base::web3id::Web3IdAttribute"}


class Translator:
    PREFERRED = ("base.rs", "common/types.rs", "transactions.rs", "updates.rs", "id/types.rs")

    def __init__(self, decls, finfo):
        self.decls = decls
        self.finfo = finfo    # file -> {"uses": .., "aliases": ..}
        self.done = {}        # output name -> coq term text
        self.deps = {}        # output name -> set of generated names it references
        self.errors = {}      # output name -> reason
        self.inst = {}        # output name -> (declaration name, generic environment)
        self.stack = []
        self.param_tokens = set()   # tokens standing for the formal parameters of a schema functor (never instantiate with them)
        self.tokens = {}      # "@k" -> (coq term, label): generic arguments translated in the referring context
        self.modules = {x for f in finfo for x in f[:-3].split("/")}
        self.by_base = {}
        for k, d in decls.items():
            self.by_base.setdefault(k.split("__")[0], []).append(k)

    def pow256m1(self, n):
        return str(256 ** n - 1)

    # ---- generic arguments -------------------------------------------------------------------
    def concretize(self, a, env):
        """Substitute the generic parameters in a type expression and normalise associated types."""
        a = a.strip()
        a = re.sub(r"<\s*(\w+)\s+as\s+\w+\s*>::", r"\1::", a)
        a = re.sub(r"\b(crate::)?(base::)?AggregateSigPairing\b", "IpPairing", a)
        a = re.sub(r"\b(crate::)?(constants::)?EncryptedAmountsCurve\b", "ArCurve", a)
        a = re.sub(r"\b(crate::)?(id::)?(constants::)?(ArCurve|IpPairing|BlsG2|AttributeKind)\b", r"\4", a)
        if env:
            a = re.sub(r"\b(%s)\b" % "|".join(re.escape(k) for k in sorted(env, key=len, reverse=True)), lambda m: env[m.group(1)], a)
        changed = True
        while changed:
            changed = False
            for (x, y), v in ASSOC.items():
                n2 = re.sub(r"\b%s::%s\b" % (x, y), v, a)
                if n2 != a:
                    a, changed = n2, True
        return a

    # ---- name resolution ---------------------------------------------------------------------
    def module_path(self, declname):
        f = self.decls[declname]["file"][:-3]
        return [x for x in f.split("/") if x != "mod"]

    def resolve(self, qual, base, ctxfile):
        """Declaration key for `qual::base` referenced from ctxfile (None if not a derived declaration)."""
        cands = self.by_base.get(base, [])
        if not cands:
            return None
        if qual:
            hit = [c for c in cands if qual[-1] in self.module_path(c)]
            if len(hit) == 1:
                return hit[0]
            hit2 = [c for c in hit if all(q in self.module_path(c) for q in qual)]
            if len(hit2) == 1:
                return hit2[0]
            if hit:
                cands = hit      # else: a re-export (pedersen_commitment::Value = curve_arithmetic::Value): resolve unqualified
        if len(cands) == 1:
            return cands[0]
        same = [c for c in cands if self.decls[c]["file"] == ctxfile]
        if len(same) == 1:
            return same[0]
        # a module's mod.rs re-exporting its children: prefer the declaration in the same directory
        if ctxfile:
            d0 = os.path.dirname(ctxfile)
            near = [c for c in cands if os.path.dirname(self.decls[c]["file"]) == d0 and d0]
            if len(near) == 1:
                return near[0]
        for pf in self.PREFERRED:
            hit = [c for c in cands if self.decls[c]["file"] == pf]
            if len(hit) == 1:
                return hit[0]
        raise TranslateError("type name %s is declared in several modules (%s)" % (base, ", ".join(self.decls[c]["file"] for c in cands)))

    # ---- types -------------------------------------------------------------------------------
    def bind_args(self, args, owner, ctxfile):
        """Generic arguments: basic concrete names stay names, anything else is translated here (in the
        referring file's context) and passed on as a token."""
        out = []
        for a in args:
            a = a.strip()
            if a in CONCRETE_RUST or re.match(r"^@\d+$", a) or a == "Web3IdAttribute":
                out.append(a)
            else:
                term = self.ty(a, {}, owner, ctxfile)
                tok = "@%d" % len(self.tokens)
                self.tokens[tok] = (term, a)
                out.append(tok)
        return out

    def ty(self, t, env, owner, ctxfile):
        t = self.concretize(t, env)
        t = re.sub(r"^&\s*('\w+\s+)?(mut\s+)?", "", t).strip()
        if re.match(r"^@\d+$", t):
            return self.tokens[t][0]
        if t in PRIM:
            return PRIM[t]
        if t in MANUAL:
            return self.template(MANUAL[t], {}, owner, ctxfile)
        if HASH_RE.match(t):
            return "(SRaw 32)"
        m = re.match(r"^(?:std::marker::|marker::)?PhantomData<.*>$", t)
        if m:
            return "SUnit"
        m = re.match(r"^(?:Box|Rc|std::rc::Rc|Arc|std::sync::Arc)<(.*)>$", t)
        if m:
            return self.ty(m.group(1), {}, owner, ctxfile)
        m = re.match(r"^\[(.*);\s*(\w+)\]$", t)
        if m:
            n = m.group(2)
            if not n.isdigit():
                consts = {"ACCOUNT_ADDRESS_SIZE": "32", "SHA256": "32"}
                if n not in consts:
                    raise TranslateError("array length %s is not a literal" % n)
                n = consts[n]
            if m.group(1).strip() == "u8":
                return "(SRaw %s)" % n
            return "(SArray %s %s)" % (n, self.ty(m.group(1), {}, owner, ctxfile))
        if t.startswith("(") and t.endswith(")"):
            parts = split_top(t[1:-1])
            if len(parts) in (2, 3):
                return "(STuple [%s])" % "; ".join(self.ty(q, {}, owner, ctxfile) for q in parts)
            raise TranslateError("tuple of %d components has no Serial impl" % len(parts))
        m = re.match(r"^Vec<(.*)>$", t)
        if m:
            return "(SVec BE 8 %s)" % self.ty(m.group(1), {}, owner, ctxfile)
        m = re.match(r"^(?:std::collections::)?BTreeMap<(.*)>$", t)
        if m:
            k, v = split_top(m.group(1))
            return "(SMap BE 8 %s %s)" % (self.ty(k, {}, owner, ctxfile), self.ty(v, {}, owner, ctxfile))
        m = re.match(r"^(?:std::collections::)?BTreeSet<(.*)>$", t)
        if m:
            return "(SSet BE 8 %s)" % self.ty(m.group(1), {}, owner, ctxfile)
        if t == "String":
            return "(SRefine (POpaque K_UTF8) (SBytes BE 8 %s))" % self.pow256m1(8)
        if re.match(r"^Option<", t):
            raise TranslateError("Option<_> has no Serial/Deserial impl in this crate (field type %s)" % t)
        m = re.match(r"^([A-Za-z_][\w:]*)\s*(<(.*)>)?$", t, flags=re.S)
        if not m:
            raise TranslateError("no schema for field type `%s`" % t)
        segs = [x for x in m.group(1).split("::") if x not in ("crate", "self", "super")]
        args = split_top(m.group(3)) if m.group(3) else []
        uses = self.finfo.get(ctxfile, {}).get("uses", {})
        # imported names / renames / module aliases of the referring file
        def declared_here(nm):
            try:
                return self.resolve([], nm, ctxfile) in [k for k in self.by_base.get(nm, []) if self.decls[k]["file"] == ctxfile]
            except TranslateError:
                return False        # ambiguous without the import: the `use` decides
        if segs and segs[0] in uses and not (len(segs) == 1 and declared_here(segs[0])):
            segs = uses[segs[0]] + segs[1:]
        # a hand-written leaf of the referring file's own module tree (glob re-export `pub use self::secret::*`)
        if len(segs) == 1 and not args and ctxfile and "/" in ctxfile and "%s::%s" % (ctxfile.split("/")[0], segs[0]) in MANUAL:
            return self.template(MANUAL["%s::%s" % (ctxfile.split("/")[0], segs[0])], {}, owner, ctxfile)
        if len(segs) > 1 and "::".join(segs[-2:]) in MANUAL and not args:
            return self.template(MANUAL["::".join(segs[-2:])], {}, owner, ctxfile)
        if len(segs) > 1 and segs[0] not in INTERNAL_MODULES and segs[0] not in self.modules:
            full = "::".join(segs) + ("<%s>" % ", ".join(args) if args else "")
            if full in MANUAL:
                return self.template(MANUAL[full], {}, owner, ctxfile)
            raise TranslateError("no schema for foreign type `%s`" % full)
        qual, base = segs[:-1], segs[-1]
        # type aliases (file first, then a unique global one)
        al = self.finfo.get(ctxfile, {}).get("aliases", {}).get(base) if not qual else None
        alfile = ctxfile
        if qual:
            hits = [(f, fi["aliases"][base]) for f, fi in self.finfo.items() if base in fi["aliases"] and qual[-1] in f[:-3].split("/")]
            if len(hits) == 1:
                alfile, al = hits[0]
        if al is None and not self.by_base.get(base) and base not in MANUAL and base not in GENERIC_MANUAL:
            hits = [(f, fi["aliases"][base]) for f, fi in self.finfo.items() if base in fi["aliases"]
                    and (not qual or qual[-1] in f[:-3].split("/"))]
            if len(hits) == 1:
                alfile, al = hits[0]
        if al is not None:
            params, target = al
            if len(params) != len(args):
                raise TranslateError("alias %s used with %d arguments" % (base, len(args)))
            return self.ty(target, dict(zip(params, self.bind_args(args, owner, ctxfile))), owner, alfile)
        key = self.resolve(qual, base, ctxfile)
        if base in GENERIC_MANUAL and (key is None):
            params, tmpl = GENERIC_MANUAL[base]
            if len(params) != len(args):
                raise TranslateError("%s used with %d arguments" % (base, len(args)))
            return self.template(tmpl, dict(zip(params, self.bind_args(args, owner, ctxfile))), owner, ctxfile)
        if base in MANUAL and not args and (key is None or self.decls[key]["file"] in ("base.rs", "common/types.rs", "transactions.rs", "updates.rs", "id/types.rs", "id/secret_sharing.rs", "smart_contracts.rs", "protocol_level_tokens/token_id.rs", "web3id/did.rs", "id/constants.rs")):
            return self.template(MANUAL[base], {}, owner, ctxfile)
        if key is None:
            raise TranslateError("no schema for field type `%s`" % t)
        d = self.decls[key]
        if not d["deserial"] or not d["serial"]:
            raise TranslateError("field type %s has a hand-written %s and no term in MANUAL" % (base, "Deserial" if d["serial"] else "Serial"))
        real = [g for g in d["generics"] if not g.startswith("'")]
        if len(real) != len(args):
            raise TranslateError("generic arity mismatch for %s" % t)
        name = self.translate(key, dict(zip(real, self.bind_args(args, owner, ctxfile))))
        self.deps.setdefault(owner, set()).add(name)
        return "g_" + name

    def template(self, tmpl, env, owner, ctxfile):
        """Hand-written term with {Type} placeholders for referenced types."""
        def rep(m):
            return self.ty(m.group(1), env, owner, "id/types.rs")
        return re.sub(r"\{([^{}]+)\}", rep, tmpl)

    def field(self, f, env, owner, ctxfile):
        la = f["len_attr"]
        t = self.concretize(f["type"], env)
        t = re.sub(r"^&\s*('\w+\s+)?", "", t).strip()
        if la:
            if len(la) != 1:
                raise TranslateError("several length attributes on one field")
            (k, n), = la.items()
            if n not in (1, 2, 4, 8):
                raise TranslateError("length attribute %d" % n)
            if k == "size_length":
                m = re.match(r"^Vec<(.*)>$", t)
                if not m:
                    raise TranslateError("size_length on non-Vec field type %s" % t)
                return "(SVec BE %d %s)" % (n, self.ty(m.group(1), {}, owner, ctxfile))
            if k == "map_size_length":
                m = re.match(r"^(?:std::collections::)?BTreeMap<(.*)>$", t)
                if not m:
                    raise TranslateError("map_size_length on non-BTreeMap field type %s" % t)
                kk, vv = split_top(m.group(1))
                return "(SMap BE %d %s %s)" % (n, self.ty(kk, {}, owner, ctxfile), self.ty(vv, {}, owner, ctxfile))
            if k == "set_size_length":
                m = re.match(r"^(?:std::collections::)?BTreeSet<(.*)>$", t)
                if not m:
                    raise TranslateError("set_size_length on non-BTreeSet field type %s" % t)
                return "(SSet BE %d %s)" % (n, self.ty(m.group(1), {}, owner, ctxfile))
            if k == "string_size_length":
                if t != "String":
                    raise TranslateError("string_size_length on non-String field type %s" % t)
                return "(SRefine (POpaque K_UTF8) (SBytes BE %d %s))" % (n, self.pow256m1(n))
        return self.ty(t, {}, owner, ctxfile)

    def fields_term(self, fields, env, owner, ctxfile):
        # PhantomData fields occupy no bytes and carry no value: dropped
        fields = [f for f in fields if not re.match(r"^(std::marker::|marker::)?PhantomData<", f["type"])]
        terms = [self.field(f, env, owner, ctxfile) for f in fields]
        if len(terms) == 1:
            return terms[0]
        if not terms:
            return "SUnit"
        return "(STuple [%s])" % "; ".join(terms)

    def out_name(self, name, env):
        d = self.decls[name]
        used = [g for g in env if not self.is_phantom_only(d, g)]
        if not used:
            return name
        def lab(v):
            v = self.tokens[v][1] if v in self.tokens else v
            v = re.sub(r"@\d+", lambda m: self.tokens[m.group(0)][1], v)
            return re.sub(r"\W+", "", re.sub(r"<|,\s*|::", "_", v))
        return name + "_" + "_".join(lab(env[g]) for g in used)

    def translate(self, name, env):
        d = self.decls[name]
        env = {k: self.concretize(v, {}) for k, v in env.items()}
        if any(v in self.param_tokens for v in env.values()):
            raise TranslateError("formal parameter passed on to another generic type (not a bare wrapper)")
        out = self.out_name(name, env)
        self.inst[out] = (name, dict(env))
        if out in self.done:
            return out
        if out in self.errors:
            raise TranslateError("depends on %s (%s)" % (out, self.errors[out]))
        if out in self.stack:
            raise TranslateError("recursive type %s" % out)
        self.stack.append(out)
        try:
            if d["kind"] == "struct":
                if d["shape"] == "unit":
                    raise TranslateError("derive on a unit struct panics in the macro")
                term = self.fields_term(d["fields"], env, out, d["file"])
            else:
                if len(d["variants"]) > 256:
                    raise TranslateError("more than 256 variants")
                alts = []
                for i, v in enumerate(d["variants"]):
                    for f in v["fields"]:
                        if f["len_attr"]:
                            raise TranslateError("length attribute inside an enum variant (rejected by the macro)")
                    alts.append("(%d, %s)" % (i, self.fields_term(v["fields"], env, out, d["file"])))
                term = "(SSum [%s])" % "; ".join(alts)
            self.done[out] = term
            return out
        except TranslateError as ex:
            self.errors[out] = str(ex)
            raise
        finally:
            self.stack.pop()

    def schema_params(self, d):
        """Generic parameters that stand for an arbitrary serialisable type (bound mentions the crate's Serialize / Serial /
        Deserial and no associated type of the parameter is used): the declaration is a bare generic wrapper."""
        fs = d.get("fields") or [f for v in d.get("variants", []) for f in v["fields"]]
        text = " ; ".join(f["type"] for f in fs)
        real = [g for g in d["generics"] if not g.startswith("'")]
        out = []
        for g in real:
            b = d.get("bounds", {}).get(g, "")
            if re.search(r"\b(Serialize|Serial|Deserial)\b", b) and not re.search(r"\b%s::\w+" % re.escape(g), text):
                out.append(g)
        return out if real and len(out) == len(real) else None

    def translate_parametric(self, name):
        """Bare generic wrapper -> schema functor `gp_<Name> (X_P1 ... : schema) : schema` (Gen/ChainSchemasParam.v)."""
        d = self.decls[name]
        params = self.schema_params(d)
        env = {}
        for g in params:
            tok = "@%d" % len(self.tokens)
            self.tokens[tok] = ("X_" + g, g)
            self.param_tokens.add(tok)
            env[g] = tok
        owner = "gp_" + name
        if d["kind"] == "struct":
            if d["shape"] == "unit":
                raise TranslateError("derive on a unit struct panics in the macro")
            term = self.fields_term(d["fields"], env, owner, d["file"])
        else:
            alts = []
            for i, v in enumerate(d["variants"]):
                alts.append("(%d, %s)" % (i, self.fields_term(v["fields"], env, owner, d["file"])))
            term = "(SSum [%s])" % "; ".join(alts)
        in_vec = [g for g in params if re.search(r"\((SVec|SMap|SSet) BE \d+ [^()]*\bX_%s\b" % g, term) or
                  re.search(r"\((SVec|SMap|SSet) BE \d+ \([^()]*\bX_%s\b" % g, term)]
        return params, term, in_vec

    def is_phantom_only(self, d, g):
        fs = d.get("fields") or [f for v in d.get("variants", []) for f in v["fields"]]
        for f in fs:
            t = f["type"]
            if re.search(r"\b%s\b" % re.escape(g), t) and not re.match(r"^(std::marker::|marker::)?PhantomData<", t):
                return False
        return True

    def rust_type(self, v):
        return CONCRETE_RUST.get(v)

    def default_env(self, d):
        """The on-chain instantiation of a generic declaration, or None if a parameter has no default."""
        fs = d.get("fields") or [f for v in d.get("variants", []) for f in v["fields"]]
        text = " ; ".join(f["type"] for f in fs)
        env = {}
        for g in [x for x in d["generics"] if not x.startswith("'")]:
            if self.is_phantom_only(d, g):
                env[g] = "()"
            elif re.search(r"\b%s::(G1|G2|ScalarField|TargetField)\b" % g, text):
                env[g] = "IpPairing"
            elif re.search(r"\b%s::Scalar\b" % g, text):
                env[g] = "ArCurve"
            elif g in DEFAULT_ENV:
                env[g] = DEFAULT_ENV[g]
            else:
                return None
        return env


def generate(repo="/repo", out=None):
    here = os.path.dirname(os.path.dirname(os.path.abspath(__file__)))
    out = out or os.path.join(here, "coq", "Gen", "ChainSchemas.v")
    decls, finfo = scan(repo)
    tr = Translator(decls, finfo)
    order = []
    parametric = {}
    for name in sorted(decls):
        d = decls[name]
        real = [g for g in d["generics"] if not g.startswith("'")]
        try:
            if real and tr.schema_params(d) is not None:
                try:
                    parametric[name] = tr.translate_parametric(name)
                except TranslateError:
                    pass                     # not a bare wrapper: translated at the on-chain instantiation below
                else:
                    if name in EXTRA_INSTANCES or tr.default_env(d) is None:
                        for env0 in EXTRA_INSTANCES.get(name, []):
                            tr.translate(name, dict(zip(real, tr.bind_args([env0[g] for g in real], name, "id/types.rs"))))
                        continue
            env = tr.default_env(d)
            if env is None:
                raise TranslateError("generic over %s: translated only where it is referenced with concrete arguments" % ", ".join(real))
            tr.translate(name, env)
        except TranslateError as ex:
            tr.errors.setdefault(name, str(ex))
    # hard failures: a tied type that can no longer be translated
    broken = [n for n in list(EQUAL) + list(LAYOUT) if n not in tr.done]
    if broken:
        raise TranslateError("types with a hand-written schema term can no longer be translated: %s" %
                             "; ".join("%s (%s)" % (n, tr.errors.get(n, "declaration not found")) for n in broken))
    # emit in dependency order
    emitted, lines = set(), []

    def emit(n):
        if n in emitted:
            return
        emitted.add(n)
        for dep in sorted(set(re.findall(r"\bg_(\w+)", tr.done[n]))):
            if dep in tr.done:
                emit(dep)
        order.append(n)
    for n in sorted(tr.done):
        emit(n)
    def decl_of(n):
        return decls[tr.inst[n][0]]
    both = [n for n in order if decl_of(n)["serial"] and decl_of(n)["deserial"]]
    hdr = ["(** GENERATED by translators/gen_chain_schemas.py from %s - do not edit.  One [schema] term per" % SRC,
           "    #[derive(Serialize)] / #[derive(Serial)] type, as concordium_base_derive generates the code. *)",
           "From Coq Require Import NArith List Bool.", "From CB Require Import Common.Codec Chain.ChainSchemas.",
           "Import ListNotations.", "Local Open Scope N_scope.", ""]
    for n in order:
        d = decl_of(n)
        lines.append("(* %s  %s %s%s%s *)" % (d["file"], d["kind"], n, "" if d["serial"] else "  [Deserial only]", "" if d["deserial"] else "  [Serial derived, Deserial hand-written]"))
        lines.append("Definition g_%s : schema := %s." % (n, tr.done[n]))
    # table of the fully derived types that are not tied to a hand-written term
    private_mods = set()
    for f in finfo:
        stem = f[:-3].split("/")
        if stem[-1] in ("mod", "lib"):
            parent = tuple(stem[:-1])
            src = strip_comments(open(os.path.join(repo, SRC, f)).read())
            for mm in re.finditer(r"^\s*(pub(?:\([^)]*\))?\s+)?mod\s+(\w+)\s*;", src, flags=re.M):
                if not (mm.group(1) or "").startswith("pub") or "(" in (mm.group(1) or ""):
                    private_mods.add((parent, mm.group(2)))

    def rust_path(n, depth=0):
        d = decl_of(n)
        mod = d["file"][:-3]
        if mod.endswith("/mod"):
            mod = mod[:-4]
        base, env = tr.inst[n]
        tyname = base.split("__")[0]
        args = ""
        real = [g for g in d["generics"] if not g.startswith("'")]
        if real:
            def arg_of(g):
                v = env.get(g, "()")
                if v == "()" and g in DEFAULT_ENV:      # phantom parameter: any type satisfying the bounds
                    v = DEFAULT_ENV[g]
                return rust_of(v, depth)
            args = "<" + ", ".join(arg_of(g) for g in real) + ">"
        if base in PATH_OVERRIDE:
            return PATH_OVERRIDE[base] + args
        segs = mod.split("/")
        # private child module re-exported by its parent (`mod x; pub use x::*;`)
        while len(segs) > 1 and (tuple(segs[:-1]), segs[-1]) in private_mods:
            segs = segs[:-1]
        return "concordium_base::" + "::".join(segs) + "::" + tyname + args
    def rust_of(v, depth=0):
        """Rust path of a generic argument: a basic concrete name, or a translated derived type (token)."""
        if v in CONCRETE_RUST:
            return CONCRETE_RUST[v]
        if v in tr.tokens and depth < 4:
            m = re.match(r"^g_(\w+)$", tr.tokens[v][0])
            if m and m.group(1) in tr.inst and m.group(1) not in SKIP_GLUE and decl_of(m.group(1)).get("pub", True) \
                    and all(rust_of(x, depth + 1) for x in tr.inst[m.group(1)][1].values()):
                return rust_path(m.group(1), depth + 1)
        return None
    table = [n for n in both if n not in EQUAL and n not in SKIP_GLUE and decl_of(n).get("pub", True)
             and all(rust_of(v) for v in tr.inst[n][1].values())]
    # two instantiations reached through different spellings of the same argument have the same Rust type: register one
    seen_rust = {}
    for n in list(table):
        rp = rust_path(n)
        if rp in seen_rust:
            table.remove(n)
        else:
            seen_rust[rp] = n
    lines.append("")
    lines.append("(** Fully derived types (Serial and Deserial both generated) without a hand-written term: registered for the")
    lines.append("    correspondence run under the ids below. *)")
    lines.append("Definition gen_schema_table : list (N * schema) :=")
    lines.append("  [%s]." % ";\n   ".join("(%d, g_%s)" % (200 + i, n) for i, n in enumerate(table)))
    lines.append("Definition gen_all : list schema := [%s]." % "; ".join("g_" + n for n in order))
    lines.append("Definition gen_equal_pairs : list (schema * schema) := [%s]." % "; ".join("(g_%s, %s)" % (n, EQUAL[n]) for n in sorted(EQUAL)))
    lines.append("Definition gen_layout_pairs : list (schema * schema) := [%s]." % "; ".join("(g_%s, %s)" % (n, LAYOUT[n]) for n in sorted(LAYOUT)))
    glue = ["// GENERATED by translators/gen_chain_schemas.py - do not edit.  Schema id => Rust type for the derived types",
            "// that have a generated schema term (coq/Gen/ChainSchemas.v gen_schema_table).",
            "macro_rules! gen_types { ($m:ident) => { $m! {"]
    glue.append(",\n".join("    %d => %s" % (200 + i, rust_path(n)) for i, n in enumerate(table)))
    glue.append("} }; }")
    gpath = os.path.join(here, "harness", "c05", "src", "gen_types.rs")
    gtxt = "\n".join(glue) + "\n"
    if not os.path.exists(gpath) or open(gpath).read() != gtxt:
        open(gpath, "w").write(gtxt)
    txt = "\n".join(hdr + lines) + "\n"
    if not os.path.exists(out) or open(out).read() != txt:
        os.makedirs(os.path.dirname(out), exist_ok=True)
        open(out, "w").write(txt)
    # ---- bare generic wrappers: schema functors + well-formedness lemmas + ties to the translated instantiations
    plines = ["(** GENERATED by translators/gen_chain_schemas.py - do not edit.  Bare generic wrappers (every parameter is an arbitrary",
              "    serialisable type) as schema functors [gp_<Type>], their well-formedness for EVERY well-formed argument schema (hence all",
              "    codec laws, Chain/GenericTie.v), and the equations tying the instantiations translated in Gen/ChainSchemas.v to them. *)",
              "From Coq Require Import NArith List Bool.",
              "From CB Require Import Common.Codec Common.CodecProofs Chain.ChainSchemas Gen.ChainSchemas.",
              "Import ListNotations.", "Local Open Scope N_scope.", "",
              "Ltac gp_wf_tac := intros; cbn [schema_wf forallb andb]; repeat match goal with H : _ = true |- _ => rewrite H; clear H end; vm_compute; reflexivity.", ""]
    pinst = {}
    for name in sorted(parametric):
        params, term, in_vec = parametric[name]
        binders = " ".join("X_" + g for g in params)
        plines.append("(* %s  %s %s<%s> *)" % (decls[name]["file"], decls[name]["kind"], name, ", ".join(params)))
        plines.append("Definition gp_%s (%s : schema) : schema := %s." % (name, binders, term))
        hyps = ["schema_wf X_%s = true" % g for g in params] + ["(1 <=? min_size X_%s) = true" % g for g in in_vec]
        plines.append("Lemma gp_%s_wf : forall %s, %s -> schema_wf (gp_%s %s) = true." % (name, binders, " -> ".join(hyps), name, binders))
        plines.append("Proof. unfold gp_%s. gp_wf_tac. Qed." % name)
        insts = []
        for outn in sorted(tr.done):
            base, env = tr.inst.get(outn, (None, None))
            if base == name:
                args = []
                for g in params:
                    v = env.get(g)
                    args.append(tr.tokens[v][0] if v in tr.tokens else tr.ty(v, {}, "gp_" + name, decls[name]["file"]))
                insts.append((outn, "gp_%s %s" % (name, " ".join(args))))
        pinst[name] = [o for o, _ in insts]
        for outn, rhs in insts:
            plines.append("Lemma g_%s_is_instance : g_%s = %s." % (outn, outn, rhs))
            plines.append("Proof. reflexivity. Qed.")
        plines.append("")
    plines.append("Definition gen_param_count : nat := %d%%nat." % len(parametric))
    ptxt = "\n".join(plines) + "\n"
    ppath = os.path.join(os.path.dirname(out), "ChainSchemasParam.v")
    if not os.path.exists(ppath) or open(ppath).read() != ptxt:
        open(ppath, "w").write(ptxt)
    return {"parametric": {n: {"params": parametric[n][0], "needs_min_size": parametric[n][2], "instances": pinst[n]} for n in sorted(parametric)},
            "other_macro": list(OTHER_MACRO),
            "translated": len(order), "fully_derived": len(both), "registered": {str(200 + i): n for i, n in enumerate(table)},
            "tied_equal": sorted(EQUAL), "tied_layout": sorted(LAYOUT),
            "serial_only": sorted(n for n in order if n not in both),
            "unsupported": {n: tr.errors[n] for n in sorted(tr.errors)}}


if __name__ == "__main__":
    r = generate(sys.argv[1] if len(sys.argv) > 1 else os.environ.get("VERIF_REPO", "/repo"), sys.argv[2] if len(sys.argv) > 2 else None)
    print(json.dumps(r, indent=1))
