#!/usr/bin/env python3
"""T3 (C14 part): wasm-chain-integration/src/constants.rs  ->  coq/Gen/HostCosts.v

usage: gen_hostcosts.py [REPO_DIR] [OUT_FILE]

Translates every `pub const NAME: T = EXPR;` and every straight-line `pub fn name(x: u32|u64) -> u64`
of constants.rs into Gallina definitions over N.  The accepted Rust subset is deliberately tiny
(integer literals, + * / <<, `u64::from`, calls to other functions of the file, `let`, `if/else`,
`<=`-style comparisons, `a.checked_mul(b)` with `if let Some(q) = q {..} else {..}`, `u64::MAX`).
Anything else raises TranslateError: a broken tie, reported loudly by the check (never a default).

The translation computes in N (unbounded).  That it coincides with the u64 computation of the Rust
code (no intermediate overflow for u32 arguments) is PROVED in Contract/HostCostsProofs.v
(`*_no_overflow`), so a change that makes an intermediate overflow possible breaks a theorem.
"""
import os
import re
import sys


class TranslateError(Exception):
    pass


TOK = re.compile(r"\s*(?:(\d[\d_]*)(?:u64|u32|usize|u8|u16)?|([A-Za-z_][A-Za-z0-9_]*(?:::[A-Za-z_][A-Za-z0-9_]*)*)|(<<|<=|>=|==|!=|[-+*/(){}<>=;,.]))")


def tokenize(s):
    pos = 0
    out = []
    s = s.strip()
    while pos < len(s):
        m = TOK.match(s, pos)
        if not m or m.end() == pos:
            raise TranslateError("cannot tokenize at: %r" % s[pos:pos + 40])
        if m.group(1) is not None:
            out.append(("num", int(m.group(1).replace("_", ""))))
        elif m.group(2) is not None:
            out.append(("id", m.group(2)))
        else:
            out.append(("op", m.group(3)))
        pos = m.end()
        while pos < len(s) and s[pos].isspace():
            pos += 1
    return out


class P:
    """Recursive-descent parser producing Gallina text.  `opt` records identifiers of option type."""

    def __init__(self, toks, known):
        self.t = toks
        self.i = 0
        self.known = known  # names of consts / functions defined so far
        self.opt = set()

    def peek(self, k=0):
        return self.t[self.i + k] if self.i + k < len(self.t) else (None, None)

    def next(self):
        x = self.peek()
        self.i += 1
        return x

    def expect(self, kind, val=None):
        k, v = self.next()
        if k != kind or (val is not None and v != val):
            raise TranslateError("expected %s %r, got %s %r" % (kind, val, k, v))
        return v

    def at(self, kind, val):
        return self.peek() == (kind, val)

    # block := '{' (let ;)* expr '}'
    def block(self):
        self.expect("op", "{")
        r = self.stmts()
        self.expect("op", "}")
        return r

    def stmts(self):
        if self.at("id", "let"):
            self.next()
            name = self.expect("id")
            self.expect("op", "=")
            e, is_opt = self.expr_opt()
            self.expect("op", ";")
            if is_opt:
                self.opt.add(name)
            else:
                self.opt.discard(name)
            rest = self.stmts()
            return "(let %s := %s in %s)" % (name, e, rest)
        return self.expr()

    def expr_opt(self):
        """expression that may be a checked_mul (option-valued)."""
        save = self.i
        e = self.expr()
        if self.at("op", ".") and self.peek(1) == ("id", "checked_mul"):
            self.next()
            self.next()
            self.expect("op", "(")
            b = self.expr()
            self.expect("op", ")")
            return "(let p := %s * %s in if p <? 18446744073709551616 then Some p else None)" % (e, b), True
        return e, False

    def expr(self):
        if self.at("id", "if"):
            self.next()
            if self.at("id", "let"):
                # if let Some(q) = q { A } else { B }
                self.next()
                self.expect("id", "Some")
                self.expect("op", "(")
                v = self.expect("id")
                self.expect("op", ")")
                self.expect("op", "=")
                src = self.expect("id")
                if src not in self.opt:
                    raise TranslateError("`if let Some` on a non-option %r" % src)
                saved = set(self.opt)
                self.opt.discard(v)
                a = self.block()
                self.opt = saved
                self.expect("id", "else")
                b = self.block()
                return "(match %s with Some %s => %s | None => %s end)" % (src, v, a, b)
            c = self.cond()
            a = self.block()
            self.expect("id", "else")
            b = self.block()
            return "(if %s then %s else %s)" % (c, a, b)
        return self.sum()

    def cond(self):
        a = self.sum()
        k, op = self.next()
        if k != "op" or op not in ("<=", "<", ">", ">=", "=="):
            raise TranslateError("unsupported comparison %r" % (op,))
        b = self.sum()
        return {"<=": "(%s <=? %s)", "<": "(%s <? %s)", ">": "(%s <? %s)", ">=": "(%s <=? %s)", "==": "(%s =? %s)"}[op] % (
            (a, b) if op in ("<=", "<", "==") else (b, a))

    def sum(self):
        a = self.prod()
        while self.at("op", "+"):
            self.next()
            b = self.prod()
            a = "(%s + %s)" % (a, b)
        if self.at("op", "-"):
            raise TranslateError("subtraction is not in the accepted subset")
        return a

    def prod(self):
        a = self.shift()
        while self.peek() in (("op", "*"), ("op", "/")):
            _, op = self.next()
            b = self.shift()
            a = "(%s %s %s)" % (a, "*" if op == "*" else "/", b)
        return a

    def shift(self):
        a = self.atom()
        if self.at("op", "<<"):
            self.next()
            b = self.atom()
            a = "(N.shiftl %s %s)" % (a, b)
        return a

    def atom(self):
        k, v = self.next()
        if k == "num":
            return str(v)
        if k == "op" and v == "(":
            e = self.expr()
            self.expect("op", ")")
            return e
        if k == "id":
            if v == "u64::from":
                self.expect("op", "(")
                e = self.expr()
                self.expect("op", ")")
                return e
            if v == "u64::MAX":
                return "18446744073709551615"
            if v == "u32::MAX":
                return "4294967295"
            if self.at("op", "("):
                if v not in self.known:
                    raise TranslateError("call of unknown function %r" % v)
                self.next()
                args = []
                while not self.at("op", ")"):
                    args.append(self.expr())
                    if self.at("op", ","):
                        self.next()
                self.next()
                return "(%s %s)" % (v, " ".join(args))
            if "::" in v:
                raise TranslateError("unsupported path %r" % v)
            return v
        raise TranslateError("unexpected token %r %r" % (k, v))


def strip_comments(src):
    src = re.sub(r"/\*.*?\*/", " ", src, flags=re.S)
    return re.sub(r"//[^\n]*", "", src)


def translate(src):
    src = strip_comments(src)
    src = re.sub(r"#\[[^\]]*\]", "", src)
    items = []  # (pos, kind, ...)
    for m in re.finditer(r"pub\s+const\s+([A-Z0-9_]+)\s*:\s*(u32|u64|usize)\s*=\s*([^;]+);", src):
        items.append((m.start(), "const", m.group(1), m.group(2), m.group(3)))
    for m in re.finditer(r"pub\s+(?:const\s+)?fn\s+([a-z0-9_]+)\s*\(\s*([a-z_0-9]+)\s*:\s*(u32|u64)\s*\)\s*->\s*u64\s*\{", src):
        # find the matching brace
        depth = 0
        j = m.end() - 1
        while True:
            if src[j] == "{":
                depth += 1
            elif src[j] == "}":
                depth -= 1
                if depth == 0:
                    break
            j += 1
            if j >= len(src):
                raise TranslateError("unbalanced braces in fn %s" % m.group(1))
        items.append((m.start(), "fn", m.group(1), m.group(2), m.group(3), src[m.end() - 1:j + 1]))
    # every `pub` item of the file must have been recognised
    n_pub = len(re.findall(r"\bpub\s+(?:const|fn)\b", src))
    if n_pub != len(items):
        raise TranslateError("constants.rs has %d pub items, only %d recognised (unsupported signature?)" % (n_pub, len(items)))
    if re.search(r"\b(?:static|macro_rules|unsafe|impl|struct|enum|mod)\b", src):
        raise TranslateError("constants.rs contains an item kind outside the accepted subset")
    names = {it[2] for it in items}
    # order by dependency: an item may use items defined later in the file (BASE_STATE_COST)
    done = []
    done_names = set()
    pending = sorted(items)
    while pending:
        progress = False
        for it in list(pending):
            body = it[4] if it[1] == "const" else it[5]
            used = {w for w in re.findall(r"[A-Za-z_][A-Za-z0-9_]*", body) if w in names and w != it[2]}
            if used <= done_names:
                done.append(it)
                done_names.add(it[2])
                pending.remove(it)
                progress = True
        if not progress:
            raise TranslateError("cyclic definitions: %s" % [it[2] for it in pending])
    out = ["(* GENERATED by translators/gen_hostcosts.py from smart-contracts/wasm-chain-integration/src/constants.rs.",
           "   Do not edit.  Plain definitions over N; proofs about them live in Contract/HostCostsProofs.v. *)",
           "From Coq Require Import NArith.", "Local Open Scope N_scope.", ""]
    consts, fns = [], []
    for it in done:
        if it[1] == "const":
            p = P(tokenize(it[4]), done_names)
            e = p.sum()
            if p.i != len(p.t):
                raise TranslateError("trailing tokens in const %s" % it[2])
            out.append("Definition %s : N := %s." % (it[2], e))
            consts.append((it[2], it[3]))
        else:
            p = P(tokenize(it[5]), done_names)
            e = p.block()
            if p.i != len(p.t):
                raise TranslateError("trailing tokens in fn %s" % it[2])
            out.append("Definition %s (%s : N) : N := %s." % (it[2], it[3], e))
            fns.append((it[2], it[4]))
    out.append("")
    out.append("(* index of the translated items: name, Rust type (argument type for functions) *)")
    out.append("(* consts: %s *)" % ", ".join("%s:%s" % c for c in consts))
    out.append("(* fns: %s *)" % ", ".join("%s(%s)" % f for f in fns))
    return "\n".join(out) + "\n", consts, fns


# items the C14 model and theorems rely on; their absence is a broken tie
REQUIRED = ["MAX_CONTRACT_STATE", "MAX_ACTIVATION_FRAMES", "MAX_LOG_SIZE", "MAX_NUM_LOGS", "LOG_EVENT_BASE_COST",
            "BASE_ACTION_COST", "BASE_SEND_ACTION_COST", "BASE_SIMPLE_TRANSFER_ACTION_COST", "BASE_STATE_COST",
            "MEMORY_COST_FACTOR", "INVOKE_BASE_COST", "DELETE_ITERATOR_BASE_COST", "ITERATOR_KEY_SIZE_COST",
            "ITERATOR_NEXT_COST", "TREE_TRAVERSAL_STEP_COST", "RESIZE_ENTRY_BASE_COST", "MAX_ENTRY_SIZE", "MAX_KEY_SIZE",
            "ENTRY_SIZE_COST", "VERIFY_ECDSA_SECP256K1_COST",
            "copy_from_host_cost", "copy_to_host_cost", "copy_parameter_cost", "additional_state_size_cost",
            "log_event_cost", "action_send_cost", "traverse_key_cost", "create_entry_cost", "lookup_entry_cost",
            "delete_prefix_find_cost", "new_iterator_cost", "delete_iterator_cost", "delete_entry_cost",
            "additional_entry_size_cost", "read_entry_cost", "write_entry_cost", "write_output_cost",
            "additional_output_size_cost", "verify_ed25519_cost", "hash_sha2_256_cost", "hash_sha3_256_cost",
            "hash_keccak_256_cost"]


def generate(repo, out_file):
    path = os.path.join(repo, "smart-contracts/wasm-chain-integration/src/constants.rs")
    src = open(path).read()
    text, consts, fns = translate(src)
    have = {c[0] for c in consts} | {f[0] for f in fns}
    missing = [r for r in REQUIRED if r not in have]
    if missing:
        raise TranslateError("constants.rs no longer defines: %s" % ", ".join(missing))
    os.makedirs(os.path.dirname(out_file), exist_ok=True)
    if not os.path.exists(out_file) or open(out_file).read() != text:
        with open(out_file, "w") as f:
            f.write(text)
    return {"consts": len(consts), "fns": len(fns)}


if __name__ == "__main__":
    repo = sys.argv[1] if len(sys.argv) > 1 else os.environ.get("VERIF_REPO", "/repo")
    here = os.path.dirname(os.path.dirname(os.path.abspath(__file__)))
    out = sys.argv[2] if len(sys.argv) > 2 else os.path.join(here, "coq", "Gen", "HostCosts.v")
    try:
        info = generate(repo, out)
    except TranslateError as e:
        print("gen_hostcosts: BROKEN TIE: %s" % e, file=sys.stderr)
        sys.exit(2)
    print("gen_hostcosts: wrote %s (%d consts, %d fns)" % (out, info["consts"], info["fns"]))
