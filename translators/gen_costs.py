#!/usr/bin/env python3
"""T2 (C02): wasm-transform/src/metering_transformation.rs  ->  coq/Gen/CostV0.v, coq/Gen/CostV1.v

usage: gen_costs.py [REPO_DIR] [OUT_DIR]

Parses, on every run, `mod cost_v0` / `mod cost_v1` (every `pub const NAME: Energy = EXPR;`, every
`const fn name(args) -> Energy { EXPR }`, the `get_cost` match over `OpCode` including the arms that
read the label stack / the module context, `invoke_after`, `branch`) and the two
`impl CostConfiguration for CostConfigurationV{0,1}` blocks (which function of the module each trait
method calls) and writes Gallina definitions over the `opcode` type of Wasm/Syntax.v:

    (file Gen/CostV0.v = module CostV0)  Definition JUMP : N := 8. ...  Definition get_cost (o : opcode)
      (labels : list blocktype) (cx : cost_ctx) : option N := match o with ... end.
      Definition cfg : cost_cfg := {| c_cost := get_cost; c_invoke_after := ...; c_branch := ... |}.

The accepted Rust subset is deliberately tiny: integer literals, names of constants, calls of the
module's const fns, `+ * /`, parentheses, `x as Energy`, `lookup_label(labels, *i)?`,
`let (a, b) = module.get_[func_]type_len(*i)?;`, `let t = labels.first().ok_or_else(..)?;`,
`if *t == BlockType::EmptyType { a } else { b }`.  ANY other construct, an OpCode variant without a
known Gallina pattern, a variant of `enum OpCode` (types.rs) missing from a table, or a duplicated arm
raises TranslateError: a broken tie, reported loudly by the check - never a silent default.

The translation computes in N (unbounded); the u64/u32 range checks of the transformation
(`e.try_into()?` on the tick amount) are modelled in Wasm/Meter.v.
"""
import os
import re
import sys


class TranslateError(Exception):
    pass


# ------------------------------------------------------------------ OpCode variant -> Gallina pattern
def _num_tables():
    d = {}
    rel = ["Eq", "Ne", "LtS", "LtU", "GtS", "GtU", "LeS", "LeU", "GeS", "GeU"]
    binops = ["Add", "Sub", "Mul", "DivS", "DivU", "RemS", "RemU", "And", "Or", "Xor", "Shl", "ShrS", "ShrU", "Rotl", "Rotr"]
    cnt = ["Clz", "Ctz", "Popcnt"]
    for ty, t in (("I32", "T_i32"), ("I64", "T_i64")):
        d[ty + "Eqz"] = "OBasic (BEqz %s)" % t
        for r in rel:
            d[ty + r] = "OBasic (BRelop %s %s)" % (t, r)
        for b in binops:
            d[ty + b] = "OBasic (BBinop %s %s)" % (t, b)
        for u in cnt:
            d[ty + u] = "OBasic (BUnop %s %s)" % (t, u)
    d["I32WrapI64"] = "OBasic (BCvt WrapI64)"
    d["I64ExtendI32S"] = "OBasic (BCvt ExtendI32S)"
    d["I64ExtendI32U"] = "OBasic (BCvt ExtendI32U)"
    d["I32Extend8S"] = "OBasic (BUnop T_i32 Extend8S)"
    d["I32Extend16S"] = "OBasic (BUnop T_i32 Extend16S)"
    d["I64Extend8S"] = "OBasic (BUnop T_i64 Extend8S)"
    d["I64Extend16S"] = "OBasic (BUnop T_i64 Extend16S)"
    d["I64Extend32S"] = "OBasic (BUnop T_i64 Extend32S)"
    return d


PLAIN = {
    "Nop": "OBasic BNop", "Unreachable": "OBasic BUnreachable", "Return": "OBasic BReturn",
    "End": "OEnd", "Else": "OElse", "Drop": "OBasic BDrop", "Select": "OBasic BSelect",
    "MemorySize": "OBasic BMemorySize", "MemoryGrow": "OBasic BMemoryGrow",
}
PLAIN.update(_num_tables())
# variants with one tuple field: pattern with %s for the binder
TUPLE1 = {
    "Block": "OBlock %s", "Loop": "OLoop %s", "Br": "OBasic (BBr %s)", "BrIf": "OBasic (BBrIf %s)",
    "Call": "OBasic (BCall %s)", "CallIndirect": "OBasic (BCallIndirect %s)",
    "LocalGet": "OBasic (BLocalGet %s)", "LocalSet": "OBasic (BLocalSet %s)", "LocalTee": "OBasic (BLocalTee %s)",
    "GlobalGet": "OBasic (BGlobalGet %s)", "GlobalSet": "OBasic (BGlobalSet %s)",
    "TickEnergy": "OBasic (BTick %s)",
    "I32Const": "OBasic (BConst T_i32 %s)", "I64Const": "OBasic (BConst T_i64 %s)",
    "I32Load": "OBasic (BLoad T_i32 None %s)", "I64Load": "OBasic (BLoad T_i64 None %s)",
    "I32Load8S": "OBasic (BLoad T_i32 (Some (P8, SX_S)) %s)", "I32Load8U": "OBasic (BLoad T_i32 (Some (P8, SX_U)) %s)",
    "I32Load16S": "OBasic (BLoad T_i32 (Some (P16, SX_S)) %s)", "I32Load16U": "OBasic (BLoad T_i32 (Some (P16, SX_U)) %s)",
    "I64Load8S": "OBasic (BLoad T_i64 (Some (P8, SX_S)) %s)", "I64Load8U": "OBasic (BLoad T_i64 (Some (P8, SX_U)) %s)",
    "I64Load16S": "OBasic (BLoad T_i64 (Some (P16, SX_S)) %s)", "I64Load16U": "OBasic (BLoad T_i64 (Some (P16, SX_U)) %s)",
    "I64Load32S": "OBasic (BLoad T_i64 (Some (P32, SX_S)) %s)", "I64Load32U": "OBasic (BLoad T_i64 (Some (P32, SX_U)) %s)",
    "I32Store": "OBasic (BStore T_i32 None %s)", "I64Store": "OBasic (BStore T_i64 None %s)",
    "I32Store8": "OBasic (BStore T_i32 (Some P8) %s)", "I32Store16": "OBasic (BStore T_i32 (Some P16) %s)",
    "I64Store8": "OBasic (BStore T_i64 (Some P8) %s)", "I64Store16": "OBasic (BStore T_i64 (Some P16) %s)",
    "I64Store32": "OBasic (BStore T_i64 (Some P32) %s)",
}
# struct-like variants: field name -> position in the Gallina pattern
STRUCT = {
    "If": ("OIf %(ty)s", ["ty"]),
    "BrTable": ("OBasic (BBrTable %(labels)s %(default)s)", ["labels", "default"]),
}
RESERVED = {"default": "default_", "end": "end_", "type": "type_", "fun": "fun_", "in": "in_", "at": "at_"}


def cident(name):
    if name.startswith("_"):
        name = name.lstrip("_") or "x"
    return RESERVED.get(name, name)


def strip_comments(s):
    s = re.sub(r"//[^\n]*", "", s)
    s = re.sub(r"/\*.*?\*/", "", s, flags=re.S)
    return s


def balanced(s, start, open_ch="{", close_ch="}"):
    """s[start] == open_ch; returns index just after the matching close."""
    if s[start] != open_ch:
        raise TranslateError("expected %r at %r" % (open_ch, s[start:start + 30]))
    depth = 0
    i = start
    while i < len(s):
        ch = s[i]
        if ch == '"':
            j = i + 1
            while s[j] != '"':
                j += 2 if s[j] == "\\" else 1
            i = j
        elif ch == open_ch:
            depth += 1
        elif ch == close_ch:
            depth -= 1
            if depth == 0:
                return i + 1
        i += 1
    raise TranslateError("unbalanced %s" % open_ch)


# ------------------------------------------------------------------ expressions
TOK = re.compile(r"\s*(?:(\d[\d_]*)(?:u64|u32|usize)?|([A-Za-z_][A-Za-z0-9_]*(?:::[A-Za-z_][A-Za-z0-9_]*)*)|(==|=>|[-+*/(){}<>=;,.?&|!]))")


def tokenize(s):
    s = s.strip()
    pos = 0
    out = []
    while pos < len(s):
        m = TOK.match(s, pos)
        if not m or m.end() == pos:
            raise TranslateError("cannot tokenize at: %r" % s[pos:pos + 50])
        if m.group(1) is not None:
            out.append(("num", int(m.group(1).replace("_", ""))))
        elif m.group(2) is not None:
            out.append(("id", m.group(2)))
        else:
            out.append(("op", m.group(3)))
        pos = m.end()
        while pos < len(s) and s[pos].isspace():
            pos += 1
    return out


class Expr:
    """Recursive descent over the tiny subset.  Produces Gallina text of type N; fallible
    sub-terms (`..?`) are hoisted into `self.binds` = list of (coq_pattern, coq_option_term)."""

    def __init__(self, toks, env, modname):
        self.t = toks
        self.i = 0
        self.env = env            # name -> ("const",) | ("fn", arity) | ("var",) | ("btvar",)
        self.mod = modname
        self.binds = []
        self.fresh = 0

    def peek(self, k=0):
        return self.t[self.i + k] if self.i + k < len(self.t) else (None, None)

    def next(self):
        tok = self.peek()
        if tok[0] is None:
            raise TranslateError("unexpected end of expression")
        self.i += 1
        return tok

    def expect(self, kind, val=None):
        tok = self.next()
        if tok[0] != kind or (val is not None and tok[1] != val):
            raise TranslateError("expected %s %r, got %r (tokens: %r)" % (kind, val, tok, self.t[max(0, self.i - 6):self.i + 4]))
        return tok

    def done(self):
        return self.i >= len(self.t)

    def name(self, raw):
        for pre in (self.mod + "::", "self::", "super::" + self.mod + "::"):
            if raw.startswith(pre):
                raw = raw[len(pre):]
        if "::" in raw:
            raise TranslateError("unsupported path %r" % raw)
        return raw

    # expr := term (('+') term)*
    def expr(self):
        a = self.term()
        while self.peek() == ("op", "+"):
            self.next()
            b = self.term()
            a = "(%s + %s)" % (a, b)
        return a

    def term(self):
        a = self.cast()
        while self.peek() in (("op", "*"), ("op", "/")):
            op = self.next()[1]
            b = self.cast()
            a = "(%s %s %s)" % (a, op, b)
        return a

    def cast(self):
        a = self.atom()
        while self.peek() == ("id", "as"):
            self.next()
            ty = self.next()
            if ty[0] != "id" or ty[1] not in ("Energy", "u64", "usize", "u32"):
                raise TranslateError("unsupported cast target %r" % (ty,))
        return a

    def deref_var(self):
        """`*name` or `name` -> the Gallina variable"""
        if self.peek() == ("op", "*"):
            self.next()
        tok = self.expect("id")
        v = self.name(tok[1])
        if self.env.get(v, (None,))[0] not in ("var", "btvar", "natvar"):
            raise TranslateError("not a bound variable: %r" % v)
        return cident(v)

    def atom(self):
        tok = self.next()
        if tok[0] == "num":
            return str(tok[1])
        if tok == ("op", "("):
            e = self.expr()
            self.expect("op", ")")
            return e
        if tok == ("id", "if"):
            # if *t == BlockType::EmptyType { a } else { b }
            v = self.deref_var()
            if self.env.get(v, self.env.get(v.rstrip("_"), (None,)))[0] != "btvar":
                raise TranslateError("`if` on something that is not a block type variable: %r" % v)
            self.expect("op", "==")
            t2 = self.expect("id")
            if t2[1] != "BlockType::EmptyType":
                raise TranslateError("unsupported comparison with %r" % (t2,))
            self.expect("op", "{")
            a = self.expr()
            self.expect("op", "}")
            self.expect("id", "else")
            self.expect("op", "{")
            b = self.expr()
            self.expect("op", "}")
            return "(match %s with None => %s | Some _ => %s end)" % (v, a, b)
        if tok[0] == "id":
            n = self.name(tok[1])
            if n == "lookup_label" and self.peek() == ("op", "("):
                self.next()
                self.expect("id", "labels")
                self.expect("op", ",")
                v = self.deref_var()
                self.expect("op", ")")
                self.expect("op", "?")
                self.fresh += 1
                x = "la%d" % self.fresh
                self.binds.append((x, "lookup_label labels %s" % v))
                return x
            kind = self.env.get(n)
            if kind is None:
                raise TranslateError("unknown name %r in expression" % n)
            if kind[0] == "fn":
                self.expect("op", "(")
                args = []
                if self.peek() != ("op", ")"):
                    args.append(self.expr())
                    while self.peek() == ("op", ","):
                        self.next()
                        args.append(self.expr())
                self.expect("op", ")")
                if len(args) != kind[1]:
                    raise TranslateError("%s called with %d arguments, declared with %d" % (n, len(args), kind[1]))
                return "(%s %s)" % (cident(n), " ".join(args))
            if kind[0] in ("const", "var"):
                return cident(n)
            raise TranslateError("name %r of kind %r used as a number" % (n, kind))
        raise TranslateError("unexpected token %r in expression" % (tok,))


def wrap_binds(binds, body):
    out = "Some (%s)" % body
    for pat, term in reversed(binds):
        out = "match %s with Some %s => %s | None => None end" % (term, pat, out)
    return out


def translate_expr(src, env, modname):
    p = Expr(tokenize(src), env, modname)
    e = p.expr()
    if not p.done():
        raise TranslateError("trailing tokens in expression %r: %r" % (src, p.t[p.i:]))
    return e, p.binds


def translate_arm_body(src, env, modname):
    """Right-hand side of a get_cost arm: an expression or `{ let ..?; ... expr }`."""
    src = src.strip()
    env = dict(env)
    binds = []
    if src.startswith("{"):
        if balanced(src, 0) != len(src):
            raise TranslateError("arm body is not a single block: %r" % src)
        inner = src[1:-1].strip()
        while inner.startswith("let "):
            semi = find_top(inner, ";")
            stmt, inner = inner[:semi].strip(), inner[semi + 1:].strip()
            m = re.match(r"let\s*\(\s*(\w+)\s*,\s*(\w+)\s*\)\s*=\s*module\s*\.\s*(get_func_type_len|get_type_len)\s*\(\s*\*?\s*(\w+)\s*\)\s*\?$", stmt)
            if m:
                a, b, fn, v = m.groups()
                if env.get(v, (None,))[0] != "natvar":
                    raise TranslateError("%s applied to an unbound name %r" % (fn, v))
                field = "cc_func_type_len" if fn == "get_func_type_len" else "cc_type_len"
                binds.append(("(%s, %s)" % (cident(a), cident(b)), "%s cx %s" % (field, cident(v))))
                env[a] = ("var",)
                env[b] = ("var",)
                continue
            m = re.match(r"let\s+(\w+)\s*=\s*labels\s*\.\s*first\s*\(\s*\)\s*\.\s*ok_or_else\s*\(", stmt)
            if m:
                op = stmt.index("ok_or_else") + len("ok_or_else")
                op = stmt.index("(", op)
                end = balanced(stmt, op, "(", ")")
                if stmt[end:].strip() != "?":
                    raise TranslateError("unsupported let statement %r" % stmt)
                binds.append((cident(m.group(1)), "labels_first labels"))
                env[m.group(1)] = ("btvar",)
                continue
            raise TranslateError("unsupported let statement %r" % stmt)
        src = inner
    e, b2 = translate_expr(src, env, modname)
    return wrap_binds(binds + b2, e)


def find_top(s, ch):
    depth = 0
    i = 0
    while i < len(s):
        c = s[i]
        if c == '"':
            j = i + 1
            while s[j] != '"':
                j += 2 if s[j] == "\\" else 1
            i = j
        elif c in "({[":
            depth += 1
        elif c in ")}]":
            depth -= 1
        elif c == ch and depth == 0:
            return i
        i += 1
    raise TranslateError("no top-level %r in %r" % (ch, s[:80]))


# ------------------------------------------------------------------ patterns
def translate_pattern(pat):
    """Rust pattern of one arm -> (variant, gallina pattern, env additions)."""
    pat = pat.strip()
    env = {}
    m = re.match(r"^(\w+)$", pat)
    if m:
        v = m.group(1)
        if v not in PLAIN:
            raise TranslateError("OpCode variant %r has no Gallina pattern (plain)" % v)
        return v, PLAIN[v], env
    m = re.match(r"^(\w+)\s*\(\s*(\w+)\s*\)$", pat)
    if m:
        v, b = m.groups()
        if v not in TUPLE1:
            raise TranslateError("OpCode variant %r has no Gallina pattern (tuple)" % v)
        if b == "_" or b.startswith("_"):
            return v, TUPLE1[v] % "_", env
        env[b] = ("natvar",)
        return v, TUPLE1[v] % cident(b), env
    m = re.match(r"^(\w+)\s*\{(.*)\}$", pat, flags=re.S)
    if m:
        v, fields = m.group(1), m.group(2)
        if v not in STRUCT:
            raise TranslateError("OpCode variant %r has no Gallina pattern (struct)" % v)
        tmpl, names = STRUCT[v]
        vals = {n: "_" for n in names}
        for f in [x.strip() for x in fields.split(",") if x.strip()]:
            if f == "..":
                continue
            if f not in names:
                raise TranslateError("unknown field %r of %s" % (f, v))
            vals[f] = cident(f)
            env[f] = ("natvar",)
        return v, tmpl % vals, env
    raise TranslateError("unsupported pattern %r" % pat)


def split_arms(body):
    """body of `match instr { ... }` -> list of (pattern, rhs)"""
    arms = []
    i = 0
    n = len(body)
    while True:
        while i < n and body[i].isspace():
            i += 1
        if i >= n:
            break
        j = body.index("=>", i)
        pat = body[i:j]
        k = j + 2
        while body[k].isspace():
            k += 1
        if body[k] == "{":
            e = balanced(body, k)
            rhs = body[k:e]
            k = e
            while k < n and body[k].isspace():
                k += 1
            if k < n and body[k] == ",":
                k += 1
        else:
            e = k + find_top(body[k:], ",")
            rhs = body[k:e]
            k = e + 1
        arms.append((pat, rhs))
        i = k
    return arms


def opcode_variants(types_rs):
    src = strip_comments(types_rs)
    m = re.search(r"pub enum OpCode\s*\{", src)
    if not m:
        raise TranslateError("enum OpCode not found in types.rs")
    end = balanced(src, m.end() - 1)
    body = src[m.end():end - 1]
    vs = []
    depth = 0
    cur = ""
    for ch in body:
        if ch in "({":
            depth += 1
        elif ch in ")}":
            depth -= 1
        if ch == "," and depth == 0:
            vs.append(cur)
            cur = ""
        else:
            cur += ch
    if cur.strip():
        vs.append(cur)
    names = []
    for v in vs:
        v = re.sub(r"#\[[^\]]*\]", "", v).strip()
        if not v:
            continue
        names.append(re.match(r"(\w+)", v).group(1))
    return names


# ------------------------------------------------------------------ one module
def translate_module(src, modname, variants, trait_impl):
    m = re.search(r"pub\(crate\)\s+mod\s+%s\s*\{" % modname, src)
    if not m:
        raise TranslateError("module %s not found" % modname)
    end = balanced(src, m.end() - 1)
    body = strip_comments(src[m.end():end - 1])
    env = {}
    defs = []
    info = {"consts": 0, "fns": 0, "arms": 0}
    pos = 0
    item = re.compile(r"\s*(?:(use\s+super::\*\s*;)|(pub(?:\(crate\))?\s+const\s+(\w+)\s*:\s*Energy\s*=)|(pub(?:\(crate\))?\s+(?:const\s+)?fn\s+(\w+)\s*\())")
    get_cost_def = None
    while True:
        mm = item.match(body, pos)
        if not mm:
            if body[pos:].strip():
                raise TranslateError("%s: unsupported item at: %r" % (modname, body[pos:pos + 80].strip()))
            break
        if mm.group(1):
            pos = mm.end()
            continue
        if mm.group(2):
            name = mm.group(3)
            semi = mm.end() + find_top(body[mm.end():], ";")
            defs.append(("CONST", name, body[mm.end():semi]))
            env[name] = ("const",)
            info["consts"] += 1
            pos = semi + 1
            continue
        name = mm.group(5)
        close = balanced(body, mm.end() - 1, "(", ")")
        params_src = body[mm.end():close - 1]
        rest = body[close:]
        br = rest.index("{")
        ret = rest[:br].strip()
        bend = balanced(rest, br)
        fbody = rest[br + 1:bend - 1]
        pos = close + bend
        if name == "get_cost":
            if re.sub(r"\s+", "", params_src) != "instr:&OpCode,labels:&[BlockType],module:&implHasTransformationContext,":
                raise TranslateError("get_cost has an unexpected signature: %r" % params_src)
            mt = re.search(r"let\s+res\s*=\s*match\s+instr\s*\{", fbody)
            if not mt or fbody[:mt.start()].strip() != "use crate::types::OpCode::*;":
                raise TranslateError("%s::get_cost: unexpected prologue %r" % (modname, fbody[:120]))
            mend = balanced(fbody, mt.end() - 1)
            if re.sub(r"\s+", "", fbody[mend:]) != ";Ok(res)":
                raise TranslateError("%s::get_cost: unexpected epilogue %r" % (modname, fbody[mend:]))
            defs.append(("GETCOST", name, fbody[mt.end():mend - 1]))
            get_cost_def = True
            env[name] = ("costfn",)
            continue
        if ret != "-> Energy":
            raise TranslateError("%s::%s: unexpected return type %r" % (modname, name, ret))
        params = []
        fenv = dict(env)
        for p in [x.strip() for x in params_src.split(",") if x.strip()]:
            pm = re.match(r"^(\w+)\s*:\s*(u32|usize|u64)$", p)
            if not pm:
                raise TranslateError("%s::%s: unsupported parameter %r" % (modname, name, p))
            params.append(cident(pm.group(1)))
            fenv[pm.group(1)] = ("var",)
            fenv[cident(pm.group(1))] = ("var",)
        # const fns may be used before their definition in the file (branch in br_table): two passes below
        defs.append(("FN", name, params, fbody, fenv))
        env[name] = ("fn", len(params))
        info["fns"] += 1
    if get_cost_def is None:
        raise TranslateError("%s::get_cost not found" % modname)
    # resolve function bodies now that every name is known; order definitions by dependency
    known = dict(env)
    resolved = []
    for d in defs:
        if d[0] == "CONST":
            _, name, csrc = d
            e, binds = translate_expr(csrc, known, modname)
            if binds:
                raise TranslateError("fallible expression in const %s" % name)
            resolved.append((name, "Definition %s : N := %s." % (cident(name), e)))
        elif d[0] == "GETCOST":
            seen = {}
            lines = []
            for pat, rhs in split_arms(d[2]):
                v, gp, penv = translate_pattern(pat)
                if v in seen:
                    raise TranslateError("%s::get_cost: duplicate arm for %s" % (modname, v))
                aenv = dict(known)
                aenv.update(penv)
                seen[v] = True
                lines.append("  | %s => %s" % (gp, translate_arm_body(rhs, aenv, modname)))
                info["arms"] += 1
            missing = [v for v in variants if v not in seen]
            extra = [v for v in seen if v not in variants]
            if missing or extra:
                raise TranslateError("%s::get_cost does not cover enum OpCode exactly: missing %r, unknown %r" % (modname, missing, extra))
            resolved.append(("get_cost", "Definition get_cost (o : opcode) (labels : list blocktype) (cx : cost_ctx) : option N :=\n  match o with\n"
                            + "\n".join(lines) +
                            "\n  (* combinations of the model's parametrised constructors that are not WebAssembly\n"
                            "     instructions (e.g. i32.load32_s): no OpCode variant, hence no cost *)\n"
                            "  | _ => None\n  end."))
        elif d[0] == "FN":
            _, name, params, fbody, fenv = d
            fe = dict(known)
            fe.update({k: v for k, v in fenv.items() if v == ("var",)})
            e, binds = translate_expr(fbody, fe, modname)
            if binds:
                raise TranslateError("fallible expression in fn %s" % name)
            resolved.append((name, "Definition %s %s: N := %s." % (cident(name), "".join("(%s : N) " % p for p in params), e)))
    # dependency sort (a definition may only mention earlier ones)
    names = [n for n, _ in resolved]
    text = {n: t for n, t in resolved}
    deps = {n: {x for x in names if x != n and re.search(r"(?<![\w'])%s(?![\w'])" % re.escape(cident(x)), text[n].split(":=", 1)[1])} for n in names}
    out = []
    done = set()
    while len(out) < len(names):
        progress = False
        for n in names:
            if n not in done and deps[n] <= done:
                out.append(text[n])
                done.add(n)
                progress = True
        if not progress:
            raise TranslateError("%s: cyclic definitions among %r" % (modname, [n for n in names if n not in done]))
    # trait impl: which module function each trait method uses
    cfg = []
    for meth, (params, mbody) in trait_impl.items():
        if meth == "get_cost":
            if re.sub(r"\s+", "", mbody) != "%s::get_cost(instr,labels,module)" % modname:
                raise TranslateError("impl get_cost does not forward to %s::get_cost: %r" % (modname, mbody))
            continue
        fe = dict(known)
        ps = []
        for p in params:
            fe[p] = ("var",)
            fe[cident(p)] = ("var",)
            ps.append(cident(p))
        e, binds = translate_expr(mbody, fe, modname)
        if binds:
            raise TranslateError("fallible trait method %s" % meth)
        cfg.append("Definition cfg_%s %s: N := %s." % (meth, "".join("(%s : N) " % p for p in ps), e))
    for need in ("get_cost", "invoke_after", "branch"):
        if need not in trait_impl:
            raise TranslateError("impl CostConfiguration for %s lacks %s" % (modname, need))
    return out, cfg, info


def trait_impls(src):
    """impl CostConfiguration for CostConfigurationVx { fn m(&self, a: T, ..) -> R { body } ... }"""
    res = {}
    for m in re.finditer(r"impl\s+CostConfiguration\s+for\s+(\w+)\s*\{", src):
        end = balanced(src, m.end() - 1)
        body = strip_comments(src[m.end():end - 1])
        meths = {}
        pos = 0
        while True:
            mm = re.compile(r"\s*fn\s+(\w+)\s*\(").match(body, pos)
            if not mm:
                if body[pos:].strip():
                    raise TranslateError("impl %s: unsupported item %r" % (m.group(1), body[pos:pos + 60]))
                break
            close = balanced(body, mm.end() - 1, "(", ")")
            params = []
            for p in [x.strip() for x in body[mm.end():close - 1].split(",") if x.strip()]:
                if p == "&self":
                    continue
                pm = re.match(r"^(\w+)\s*:", p)
                params.append(pm.group(1))
            br = body.index("{", close)
            bend = balanced(body, br)
            meths[mm.group(1)] = (params, body[br + 1:bend - 1].strip())
            pos = bend
        res[m.group(1)] = meths
    return res


HEADER = """(** GENERATED by translators/gen_costs.py from
    smart-contracts/wasm-transform/src/metering_transformation.rs (mod %(mod)s and
    impl CostConfiguration for %(impl)s).  DO NOT EDIT; regenerated on every run of ./check C02.
    %(consts)d constants, %(fns)d const fns, %(arms)d get_cost arms. *)
From Coq Require Import NArith List.
From CB Require Import Wasm.Syntax Wasm.CostCtx.
Import ListNotations.
Local Open Scope N_scope.
"""


def generate(repo, outdir):
    path = os.path.join(repo, "smart-contracts/wasm-transform/src/metering_transformation.rs")
    src = open(path).read()
    variants = opcode_variants(open(os.path.join(repo, "smart-contracts/wasm-transform/src/types.rs")).read())
    impls = trait_impls(src)
    os.makedirs(outdir, exist_ok=True)
    summary = {}
    for modname, implname, coqmod in (("cost_v0", "CostConfigurationV0", "CostV0"), ("cost_v1", "CostConfigurationV1", "CostV1")):
        if implname not in impls:
            raise TranslateError("impl CostConfiguration for %s not found" % implname)
        defs, cfg, info = translate_module(src, modname, variants, impls[implname])
        info.update({"mod": modname, "impl": implname, "coqmod": coqmod})
        txt = HEADER % info + "\n".join(defs) + "\n\n(* impl CostConfiguration for %s *)\n" % implname + "\n".join(cfg)
        txt += ("\nDefinition cfg : cost_cfg :=\n  {| c_cost := get_cost; c_invoke_after := cfg_invoke_after; c_branch := cfg_branch |}.\n"
                "")
        out = os.path.join(outdir, coqmod + ".v")
        if not os.path.exists(out) or open(out).read() != txt:
            with open(out, "w") as f:
                f.write(txt)
        summary[coqmod] = {k: info[k] for k in ("consts", "fns", "arms")}
    summary["opcode_variants"] = len(variants)
    return summary


if __name__ == "__main__":
    repo = sys.argv[1] if len(sys.argv) > 1 else "/repo"
    out = sys.argv[2] if len(sys.argv) > 2 else os.path.join(os.path.dirname(os.path.dirname(os.path.abspath(__file__))), "coq", "Gen")
    try:
        print(generate(repo, out))
    except TranslateError as e:
        print("TRANSLATE ERROR:", e)
        sys.exit(2)
